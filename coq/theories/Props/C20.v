(* C20 — Trait models keep derived state consistent with their rules.
   Theorems only; models in Traits/*.v (the code as it is after the fix commits; the code as first
   written is kept as *_v0 with a refutation), proofs in Traits/*Proofs.v.

   Consistency predicates (all executable, also evaluated on every observation by Traits/C20Judge.v):
     parent      ssorted ts (strictly ascending = sorted and duplicate free) and membership = set algebra
     vending     dispense_spec: used + conv(q) in used's unit, max 0 (remaining - conv(q)) in remaining's unit,
                 error and unchanged stock when a needed conversion is impossible
     fan speed   fan_consistent ps f :  preset <> ""  ->  ps[index] = (preset, percentage)
                                        preset =  ""  ->  index = -1 and no preset has this percentage
     mode        rel_value_spec: new index = (old index + step) mod n
     enter/leave count_step: two counters, reset to zero, caller-supplied totals win
     meter       meter_wf: start and end recorded, start <= end; start = last reset, end = last operation
     publication version_ok: version = hash content; receipt state machine NO_SIGNAL -> ACCEPTED/REJECTED
     constructors every resource of a model holds exactly the records / the last value configured for it (route)
     record CRUD  the listed records stay key-sorted and duplicate free and are, as a map, the finite-map specification *)
From SC Require Import Base.Prelude Gen.Units Traits.Str Traits.StrProofs
  Traits.Parent Traits.ParentProofs Traits.Vending Traits.VendingProofs Traits.FanSpeed Traits.FanSpeedProofs
  Traits.ModeTrait Traits.ModeTraitProofs Traits.EnterLeave Traits.EnterLeaveProofs Traits.Meter Traits.MeterProofs
  Traits.Publication Traits.PublicationProofs Traits.Options Traits.OptionsProofs Traits.Store Traits.StoreProofs
  Traits.VendingStore Traits.VendingStoreProofs Traits.FanMask Traits.FanMaskProofs.
From SC Require Import Msg.Msg Msg.Schema Msg.Path Masks.Get Traits.MeterMask Traits.MeterMaskProofs Traits.StockMask Traits.StockMaskProofs Traits.PubStore Traits.PubStoreProofs Traits.TraitPull Traits.TraitPullProofs Traits.ModeMaskProofs.
From Coq Require Import QArith.
Local Open Scope string_scope.
Local Open Scope Z_scope.

(* ================= parent ================= *)

(* sort.Search on a strictly sorted slice returns the least index whose name is >= ts *)
Theorem C20_parent_binary_search : forall l ts, ssorted l = true ->
  (insert_index l ts <= List.length l)%nat /\
  (forall i, (i < insert_index l ts)%nat -> slt (name_at l i) ts = true) /\
  ((insert_index l ts < List.length l)%nat -> slt (name_at l (insert_index l ts)) ts = false).
Proof.
  intros l ts Hs. rewrite (insert_index_lin l ts Hs). destruct (lin_spec l ts) as (A & B & C).
  split; [exact A|]. split.
  - intros i Hi. specialize (B i Hi). unfold sge in B. now apply negb_false_iff in B.
  - intros Hi. specialize (C Hi). unfold sge in C. now apply negb_true_iff in C.
Qed.
Print Assumptions C20_parent_binary_search.

Theorem C20_parent_union_is_set_union : forall more has, ssorted has = true ->
  ssorted (trait_union has more) = true /\ forall x, In x (trait_union has more) <-> In x has \/ In x more.
Proof. exact trait_union_spec. Qed.
Print Assumptions C20_parent_union_is_set_union.

Theorem C20_parent_remove_is_set_difference : forall rm has, ssorted has = true ->
  ssorted (trait_remove has rm) = true /\ forall x, In x (trait_remove has rm) <-> In x has /\ ~ In x rm.
Proof. exact trait_remove_spec. Qed.
Print Assumptions C20_parent_remove_is_set_difference.

(* the judge's membership predicates hold of exactly one list: the model's result *)
Theorem C20_parent_oracle_exact : forall has names out, ssorted has = true ->
  (set_ok_union has names out = true <-> out = trait_union has names) /\
  (set_ok_diff has names out = true <-> out = trait_remove has names).
Proof. intros. split; [now apply set_ok_union_iff|now apply set_ok_diff_iff]. Qed.
Print Assumptions C20_parent_oracle_exact.

(* every sequence of AddChildTrait / RemoveChildTrait calls, any children, any names *)
Theorem C20_parent_sequences : forall ops cs, children_wf cs = true ->
  children_wf (prun cs ops) = true /\
  forall n x, smem x (child_traits n (prun cs ops)) = mem_after n x (smem x (child_traits n cs)) ops.
Proof. exact parent_sequences. Qed.
Print Assumptions C20_parent_sequences.

Theorem C20_parent_remove_v0_refuted : trait_remove_v0 ["b"; "d"] ["a"] = ["d"] /\ trait_remove ["b"; "d"] ["a"] = ["b"; "d"].
Proof. split; vm_compute; reflexivity. Qed.
Print Assumptions C20_parent_remove_v0_refuted.

Example C20_nonvacuous_parent :
  children_wf [("c", ["a"; "b"])] = true /\
  child_traits "c" (prun [("c", ["a"; "b"])] [PAdd "c" ["ab"; "a"]; PRemove "c" ["b"; "zz"]; PAdd "d" ["x"]]) = ["a"; "ab"].
Proof. split; vm_compute; reflexivity. Qed.

(* ================= vending / units ================= *)

(* obligations about Gen/Units.v (regenerated from unitpb.Convert on every run) *)
Theorem C20_units_table_obligations :
  forallb (fun p => (fst p =? snd p) || Bool.eqb (pair_mem p convertible_pairs) (phys_same (fst p) (snd p))) all_pairs = true /\
  forallb (fun p => (fst p =? snd p) || Bool.eqb (pair_mem p convertible_pairs) (is_some (convert 1%Q (fst p) (snd p)))) all_pairs = true /\
  forallb factor_ok unit_table = true.
Proof. exact (conj units_categories_physical (conj units_table_is_relation units_factors_physical)). Qed.
Print Assumptions C20_units_table_obligations.

Theorem C20_convert_roundtrip : forall v a b w, convert v a b = Some w ->
  exists v', convert w b a = Some v' /\ (v' == v)%Q.
Proof. exact convert_roundtrip. Qed.
Print Assumptions C20_convert_roundtrip.

Theorem C20_convert_error_symmetric : forall v w a b, convert v a b = None -> convert w b a = None.
Proof. exact convert_error_symmetric. Qed.
Print Assumptions C20_convert_error_symmetric.

(* DispenseInstantly is the rule: each quantity in its own unit, floor at zero, error reported, stock untouched on error *)
Theorem C20_dispense_is_spec : forall pre q, dispense pre q = dispense_spec pre q.
Proof. exact dispense_is_spec. Qed.
Print Assumptions C20_dispense_is_spec.

Theorem C20_dispense_error_reported : forall s q,
  ((exists u, s_used s = Some u /\ convert (q_amount q) (q_unit q) (q_unit u) = None) \/
   (exists r, s_rem s = Some r /\ convert (q_amount q) (q_unit q) (q_unit r) = None)) ->
  dispense (Some s) q = (VErr 3, Some s).
Proof. intros s q H. apply dispense_error_reported. now apply dispense_error_iff. Qed.
Print Assumptions C20_dispense_error_reported.

Theorem C20_dispense_never_panics : forall pre q, fst (dispense pre q) <> VPanic /\ fst (dispense pre q) <> VNilNil.
Proof. exact dispense_never_panics. Qed.
Print Assumptions C20_dispense_never_panics.

Theorem C20_vending_sequences : forall qs pre,
  same_shape pre (vrun pre qs) /\ (rem_nonneg pre -> rem_nonneg (vrun pre qs)).
Proof. exact vending_sequences. Qed.
Print Assumptions C20_vending_sequences.

Theorem C20_dispense_v0_refuted :
  (exists s', fst (dispense_v0 (Some (mkStock (Some (mkQty 3 1%Q)) (Some (mkQty 4 2%Q)) None false)) (mkQty 3 1%Q)) = VStock s'
              /\ unit_of (s_rem s') = Some 3) /\
  fst (dispense_v0 (Some (mkStock None (Some (mkQty 3 5%Q)) None false)) (mkQty 3 1%Q)) = VPanic /\
  fst (dispense_v0 (Some (mkStock (Some (mkQty 3 1%Q)) None None false)) (mkQty 6 1%Q)) = VNilNil.
Proof. exact (conj dispense_v0_wrong_unit (conj dispense_v0_panics dispense_v0_swallows_error)). Qed.
Print Assumptions C20_dispense_v0_refuted.

Example C20_nonvacuous_vending :
  exists s', dispense (Some (mkStock (Some (mkQty 3 1%Q)) (Some (mkQty 4 2%Q)) None true)) (mkQty 3 500%Q) = (VStock s', Some s')
             /\ s_used s' = Some (mkQty 3 (1 + 500)%Q) /\ unit_of (s_rem s') = Some 4 /\ s_dispensing s' = false.
Proof. eexists. repeat split. Qed.

(* ================= fan speed ================= *)

Theorem C20_fan_update_consistent : forall ps old req rel, presets_wf ps = true -> fan_consistent ps old = true ->
  fan_consistent ps (snd (fan_update ps old req rel)) = true.
Proof. exact fan_update_consistent. Qed.
Print Assumptions C20_fan_update_consistent.

Theorem C20_fan_sequences : forall ps ops init, presets_wf ps = true -> fan_consistent ps init = true ->
  fan_consistent ps (fan_run ps init ops) = true.
Proof. exact fan_sequences. Qed.
Print Assumptions C20_fan_sequences.

Theorem C20_fan_precedence : forall ps old new,
  (String.eqb (f_preset new) "" = false -> f_preset old <> f_preset new -> derive ps old new = by_name ps new) /\
  ((f_preset new = "" \/ f_preset old = f_preset new) -> f_idx old <> f_idx new -> derive ps old new = by_idx ps new) /\
  ((f_preset new = "" \/ f_preset old = f_preset new) -> f_idx old = f_idx new -> f_pct old <> f_pct new ->
     derive ps old new = by_pct ps new).
Proof. exact derive_precedence. Qed.
Print Assumptions C20_fan_precedence.

Theorem C20_fan_never_panics : forall ps old req rel, fst (fan_update ps old req rel) <> FPanic.
Proof. exact fan_update_never_panics. Qed.
Print Assumptions C20_fan_never_panics.

Theorem C20_fan_v0_refuted :
  (exists new, fan_update_v0 default_presets (mkFan 0 "off" 0 1) (mkFan 40 "" 0 1) false = (FOk new, new)
               /\ fan_consistent default_presets new = false) /\
  (exists new, fan_update_v0 default_presets (mkFan 15 "low" 1 1) (mkFan 0 "" 1 1) true = (FOk new, new)
               /\ fan_consistent default_presets new = false) /\
  fst (fan_update_v0 [] (mkFan 0 "" (-1) 1) (mkFan 0 "" 0 1) false) = FPanic.
Proof. exact (conj (proj2 derive_v0_inconsistent) (conj derive_v0_relative_inconsistent derive_v0_panics)). Qed.
Print Assumptions C20_fan_v0_refuted.

Example C20_nonvacuous_fan :
  presets_wf default_presets = true /\ fan_consistent default_presets (mkFan 0 "off" 0 1) = true /\
  fan_run default_presets (mkFan 0 "off" 0 1) [(mkFan 40 "" 0 1, false); (mkFan 0 "" 1 1, true); (mkFan 5 "" 0 2, true)]
  = mkFan 80 "" (-1) 2.
Proof. repeat split. Qed.

(* ================= mode ================= *)

Theorem C20_mode_relative_wraps : forall vs cur adj, zlen vs <= 1073741824 -> -1073741824 <= adj <= 1073741824 ->
  rel_value vs cur adj = rel_value_spec vs cur adj.
Proof. exact rel_value_wraps. Qed.
Print Assumptions C20_mode_relative_wraps.

Theorem C20_mode_steps_wrap : forall vs v0 adjs, nodup_strs vs = true -> 0 < zlen vs <= 1073741824 ->
  Forall (fun a => -1073741824 <= a <= 1073741824) adjs ->
  forall i, 0 <= i < zlen vs ->
  steps vs (Some (nth (Z.to_nat i) vs v0)) adjs = Some (nth (Z.to_nat ((i + sumZ adjs) mod zlen vs)) vs v0).
Proof. exact rel_steps_wrap. Qed.
Print Assumptions C20_mode_steps_wrap.

Theorem C20_mode_uses_given_modes : forall ms ms' v, new_model ms = Some (ms', v) -> ms' = ms /\ initial_values ms = Some v.
Proof. exact new_model_uses_modes. Qed.
Print Assumptions C20_mode_uses_given_modes.

Theorem C20_mode_v0_refuted : exists ms ms' v, new_model_v0 ms = Some (ms', v) /\ ms' <> ms.
Proof. exact new_model_v0_ignores_modes. Qed.
Print Assumptions C20_mode_v0_refuted.

Example C20_nonvacuous_mode :
  steps ["auto"; "slow"; "fast"] (Some "auto") [1; 1; 1; -2; -5] = Some "fast".
Proof. reflexivity. Qed.

(* ================= enter/leave ================= *)

Theorem C20_enterleave_sequences : forall ops cur,
  (forall k, let c := counts (tot (el_enter cur), tot (el_leave cur)) (firstn k ops) in
             -2147483648 <= fst c < 2147483647 /\ -2147483648 <= snd c < 2147483647) ->
  tot (el_enter (el_run cur ops)) = fst (counts (tot (el_enter cur), tot (el_leave cur)) ops) /\
  tot (el_leave (el_run cur ops)) = snd (counts (tot (el_enter cur), tot (el_leave cur)) ops).
Proof. exact el_sequences. Qed.
Print Assumptions C20_enterleave_sequences.

(* without caller-supplied totals: the numbers of ENTER / LEAVE events since the last reset *)
Theorem C20_enterleave_counts : forall ops c, Forall (fun o => plain o = true) ops ->
  counts c ops = let '(a, b, r) := enters_since_reset ops in if r then (a, b) else (fst c + a, snd c + b).
Proof.
  intros ops c Hp. pose proof (counts_plain ops c 0 0 false Hp) as H. cbn [fst snd] in H.
  rewrite !Z.add_0_r in H. rewrite <- surjective_pairing in H. exact H.
Qed.
Print Assumptions C20_enterleave_counts.

Example C20_nonvacuous_enterleave :
  el_run (mkEl 0 None (Some 0) (Some 0))
    [ElEvent (mkEl ENTER None None None); ElEvent (mkEl ENTER (Some "bob") None None); ElEvent (mkEl LEAVE None None None);
     ElReset; ElEvent (mkEl ENTER None None None)] = mkEl ENTER None (Some 1) (Some 0).
Proof. reflexivity. Qed.

(* ================= meter ================= *)

Theorem C20_meter_sequences : forall ops m e0, meter_wf m = true -> m_end m = Some e0 -> times_from e0 ops = true ->
  meter_wf (meter_run m ops) = true /\
  m_start (meter_run m ops) = last_reset (m_start m) ops /\
  m_end (meter_run m ops) = last_time (m_end m) ops.
Proof. exact meter_sequences. Qed.
Print Assumptions C20_meter_sequences.

Theorem C20_meter_uses_initial : forall u s e now, new_meter (Some (mkMeter u (Some s) (Some e))) now = mkMeter u (Some s) (Some e).
Proof. exact new_meter_uses_initial. Qed.
Print Assumptions C20_meter_uses_initial.

Theorem C20_meter_v0_refuted :
  new_meter_v0 (Some (mkMeter 5 (Some 10) (Some 20))) 30 = mkMeter 0 None (Some 30) /\
  m_start (meter_step_v0 (mkMeter 0 (Some 10) (Some 10)) (MRecord 3 20)) = None.
Proof. split; reflexivity. Qed.
Print Assumptions C20_meter_v0_refuted.

Example C20_nonvacuous_meter :
  meter_wf (new_meter None 10) = true /\ times_from 10 [MRecord 4 12; MReset 15; MRecord 7 15] = true /\
  meter_run (new_meter None 10) [MRecord 4 12; MReset 15; MRecord 7 15] = mkMeter 7 (Some 15) (Some 15).
Proof. repeat split. Qed.

(* ================= publication (for every version function) ================= *)

Theorem C20_publication_sequences : forall (hash : content -> string) ops pre,
  version_ok hash pre -> version_ok hash (pub_run hash pre ops).
Proof. exact pub_sequences. Qed.
Print Assumptions C20_publication_sequences.

Theorem C20_publication_computed : forall (hash : content -> string) now p,
  let n := computed hash now p in
  p_ptime n = Some now /\
  match p_aud n with Some a => a_receipt a = NO_SIGNAL /\ a_reason a = "" /\ a_rtime a = None | None => p_aud p = None end
  /\ acked n = false.
Proof. exact computed_resets. Qed.
Print Assumptions C20_publication_computed.

Theorem C20_publication_ack_protocol : forall (hash : content -> string) now old id receipt reason allow,
  id <> "" -> p_version old <> "" ->
  (acked old = false ->
     pub_step hash now (Some old) (PAck id (p_version old) receipt reason allow)
     = (POk (ack_apply now old receipt reason), Some (ack_apply now old receipt reason))) /\
  (acked old = true ->
     pub_step hash now (Some old) (PAck id (p_version old) receipt reason allow) = (if allow then POk old else PErr 9, Some old)) /\
  (forall version, version <> "" -> version <> p_version old ->
     pub_step hash now (Some old) (PAck id version receipt reason allow) = (PErr 10, Some old)) /\
  ((receipt = ACCEPTED \/ receipt = REJECTED) -> acked (ack_apply now old receipt reason) = true).
Proof.
  intros hash now old id receipt reason allow Hid Hv. repeat split.
  - now apply ack_first.
  - now apply ack_twice.
  - intros version H1 H2. now apply ack_stale.
  - intros H. now apply ack_marks.
Qed.
Print Assumptions C20_publication_ack_protocol.

Theorem C20_publication_version_tracks_content : forall (hash : content -> string) now old p mask v n,
  (forall a b, hash a = hash b -> a = b) -> version_ok hash (Some old) ->
  pub_step hash now (Some old) (PUpdate p mask v) = (POk n, Some n) ->
  (p_version n = p_version old <-> content_of n = content_of old).
Proof. exact update_changes_version. Qed.
Print Assumptions C20_publication_version_tracks_content.

Theorem C20_publication_v0_refuted : forall hash,
  fst (pub_step_v0 hash 7 (Some (mkPub "p" "v" "b" "" (Some (mkAud "a" ACCEPTED "" (Some 1))) (Some 0)))
         (PAck "p" "v" ACCEPTED "" true)) = PErr 9.
Proof. exact ack_v0_ignores_allow. Qed.
Print Assumptions C20_publication_v0_refuted.

Example C20_nonvacuous_publication :
  let hash := fun c : content => let '(a, b, _, _) := c in append a b in
  exists p, pub_run hash None [(PCreate (mkPub "p" "" "x" "" (Some (mkAud "d" 0 "" None)) None), 1);
                               (PAck "p" "px" ACCEPTED "" false, 2); (PUpdate (mkPub "p" "" "y" "" None None) (Some pm_only_body) "px", 3)] = Some p
            /\ p_version p = "py" /\ acked p = false /\ p_ptime p = Some 3.
Proof. eexists. repeat split. Qed.

(* masked updates (every subset of the paths, nil mask, nested audience paths), deletes: along every history,
   every successful create/update stores a publication whose version is the hash of its content, and an
   acknowledgement naming any other version than the hash of the stored content is refused with Aborted (10)
   and changes nothing *)
Theorem C20_publication_history : forall (hash : content -> string) ops s,
  version_ok hash s -> history_law hash s ops.
Proof. intros hash ops s. exact (pub_history hash ops s). Qed.
Print Assumptions C20_publication_history.

Theorem C20_publication_masked_fields : forall k old p, pm_empty k = false ->
  p_body (merge_pub (Some k) old p) = (if k_body k then p_body p else p_body old) /\
  p_media (merge_pub (Some k) old p) = (if k_media k then p_media p else p_media old) /\
  p_id (merge_pub (Some k) old p) = (if k_id k then p_id p else p_id old) /\
  (k_aud k = false -> k_aname k = true -> forall sa, p_aud p = Some sa ->
     exists a, p_aud (merge_pub (Some k) old p) = Some a /\ a_name a = a_name sa) /\
  (k_aud k = false -> k_aname k = false ->
     match p_aud old with Some da => exists a, p_aud (merge_pub (Some k) old p) = Some a /\ a_name a = a_name da
                        | None => True end).
Proof. exact merge_pub_fields. Qed.
Print Assumptions C20_publication_masked_fields.

(* the version a client saw before a content-changing update (any mask) is refused afterwards *)
Theorem C20_publication_stale_ack_refused : forall (hash : content -> string) now now' old p mask v n id receipt reason allow,
  (forall a b, hash a = hash b -> a = b) -> version_ok hash (Some old) ->
  pub_step hash now (Some old) (PUpdate p mask v) = (POk n, Some n) ->
  content_of n <> content_of old -> id <> "" -> p_version old <> "" ->
  pub_step hash now' (Some n) (PAck id (p_version old) receipt reason allow) = (PErr 10, Some n).
Proof. exact stale_ack_after_update. Qed.
Print Assumptions C20_publication_stale_ack_refused.

Example C20_nonvacuous_publication_masked :
  let hash := fun c : content => let '(a, b, m, n) := c in append a (append b (append m n)) in
  let old := computed hash 1 (mkPub "p" "" "x" "t" (Some (mkAud "alice" 0 "" None)) None) in
  exists n, pub_step hash 2 (Some old) (PUpdate (mkPub "p" "" "" "" (Some (mkAud "bob" 0 "" None)) None) (Some pm_aname) "")
            = (POk n, Some n) /\ p_version n = "pxtbob" /\ p_version old = "pxtalice" /\ p_body n = "x"
            /\ pub_step hash 3 (Some n) (PAck "p" "pxtalice" ACCEPTED "" false) = (PErr 10, Some n).
Proof. eexists. repeat split. Qed.

(* ================= constructors with options ================= *)

(* the per-resource option lists the constructors build by appending are, for every option list, the routed
   lists: plain options to every resource, targeted ones to their resource only, in argument order *)
Theorem C20_options_routing : forall nres opts,
  calc_args nres opts = map (fun r => route r opts) (seq 0 nres).
Proof. exact calc_args_is_route. Qed.
Print Assumptions C20_options_routing.

(* a well-formed configuration never panics and every resource holds exactly what was configured for it *)
Theorem C20_constructor_uses_configuration : forall nres dflt opts, config_wf nres (dflt ++ opts) = true ->
  new_model_code nres dflt opts = Some (map (fun r => resource_of (route r (dflt ++ opts))) (seq 0 nres)) /\
  forall r, In r (seq 0 nres) ->
    (forall id v, lookup id (rs_records (resource_of (route r (dflt ++ opts)))) = Some v <-> In (OInitRecord id v) (route r (dflt ++ opts))) /\
    rs_value (resource_of (route r (dflt ++ opts))) = last_value None (route r (dflt ++ opts)).
Proof.
  intros nres dflt opts Hwf. split; [now apply new_model_configured|].
  intros r Hr. split; [|reflexivity]. intros id v. apply resource_has_configured.
  unfold config_wf in Hwf. rewrite forallb_forall in Hwf. now apply Hwf.
Qed.
Print Assumptions C20_constructor_uses_configuration.

Theorem C20_constructor_plain_options_irrelevant : forall r k opts1 opts2,
  resource_of (route r (opts1 ++ MAll (OPlain k) :: opts2)) = resource_of (route r (opts1 ++ opts2)).
Proof. exact plain_options_do_not_matter. Qed.
Print Assumptions C20_constructor_plain_options_irrelevant.

Theorem C20_constructor_duplicate_panics : forall nres dflt opts, config_wf nres (dflt ++ opts) = false ->
  new_model_code nres dflt opts = None.
Proof. exact new_model_duplicate_panics. Qed.
Print Assumptions C20_constructor_duplicate_panics.

Example C20_nonvacuous_constructor :
  let opts := [MAll (OPlain 0); MTarget 1 [OInitRecord "water" "c"]; MAll (OPlain 1); MAll (OPlain 2);
               MTarget 0 [OInitRecord "water" "s"; OInitRecord "milk" "m"]] in
  config_wf 2 opts = true /\
  new_model_code 2 [] opts = Some [mkRS [("water", "s"); ("milk", "m")] None; mkRS [("water", "c")] None].
Proof. split; reflexivity. Qed.

(* ================= vending record CRUD ================= *)

(* every sequence of Create / masked Update / Delete on a record collection: the listed records stay strictly
   key-sorted (sorted, duplicate free) and, as a map, equal the finite-map specification *)
Theorem C20_store_sequences : forall (R M : Type) (merge : M -> R -> R -> R) (mbad : M -> bool) ops (s : store R),
  store_wf s = true ->
  store_wf (srun merge mbad s ops) = true /\
  forall k, sfind k (srun merge mbad s ops) = frun merge mbad (fun k => sfind k s) ops k.
Proof. intros R M merge mbad ops s. exact (store_sequences R M merge mbad ops s). Qed.
Print Assumptions C20_store_sequences.

Theorem C20_vending_store_sequences : forall ops s, vstate_wf s = true -> vstate_wf (vstore_run s ops) = true.
Proof. exact vstore_sequences. Qed.
Print Assumptions C20_vending_store_sequences.

(* no stock / consumable operation panics or answers (nil, nil), except the documented delete with allow_missing *)
Theorem C20_vending_store_never_panics : forall s o, vres_fine o (fst (vstep s o)).
Proof. exact vstep_fine. Qed.
Print Assumptions C20_vending_store_never_panics.

Theorem C20_vending_dispense_frame : forall s name q, vstate_wf s = true ->
  let s' := snd (vstep s (VDispense name q)) in
  snd s' = snd s /\
  (forall k, k <> name -> sfind k (fst s') = sfind k (fst s)) /\
  sfind name (fst s') = snd (dispense (sfind name (fst s)) q) /\
  (forall k, (sfind k (fst s') = None <-> sfind k (fst s) = None)).
Proof. exact vstep_dispense_frame. Qed.
Print Assumptions C20_vending_dispense_frame.

Theorem C20_vending_store_new : forall stocks cs, NoDup (map fst stocks) -> NoDup (map fst cs) ->
  vstate_wf (vstore_new stocks cs) = true /\
  (forall k v, In (k, v) stocks -> sfind k (fst (vstore_new stocks cs)) = Some v) /\
  (forall k v, In (k, v) cs -> sfind k (snd (vstore_new stocks cs)) = Some v) /\
  (forall k, sfind k (fst (vstore_new stocks cs)) <> None -> In k (map fst stocks)) /\
  (forall k, sfind k (snd (vstore_new stocks cs)) <> None -> In k (map fst cs)).
Proof. exact vstore_new_configured. Qed.
Print Assumptions C20_vending_store_new.

Theorem C20_vending_masked_update_frame : forall k old new, sm_empty k = false ->
  (sk_used k = false -> s_used (merge_stock (Some k) old new) = s_used old) /\
  (sk_rem k = false -> s_rem (merge_stock (Some k) old new) = s_rem old) /\
  (sk_last k = false -> s_last (merge_stock (Some k) old new) = s_last old) /\
  (sk_disp k = false -> s_dispensing (merge_stock (Some k) old new) = s_dispensing old).
Proof. exact merge_stock_frame. Qed.
Print Assumptions C20_vending_masked_update_frame.

Example C20_nonvacuous_vending_store :
  let s0 := vstore_new [("water", mkStock (Some (mkQty 3 1%Q)) None None false)] [("water", mkCons "W" "")] in
  vstate_wf s0 = true /\
  map fst (fst (vstore_run s0 [VInv (SCreate "coffee" "" (mkStock None None None false));
                               VInv (SUpdate "water" (mkStock None (Some (mkQty 3 9%Q)) None true) (Some (mkSM false true false false false false)));
                               VDispense "water" (mkQty 3 2%Q); VCons (SDelete "water" false);
                               VInv (SCreate "" "gen-1" (mkStock None None None false))]))
  = ["coffee"; "gen-1"; "water"].
Proof. split; vm_compute; reflexivity. Qed.

(* ================= fan speed: Model.UpdateFanSpeed with an update mask ================= *)

Theorem C20_fan_masked_sequences : forall ps ops init, presets_wf ps = true -> fan_consistent ps init = true ->
  fan_consistent ps (fan_run_masked ps init ops) = true.
Proof. exact fan_masked_sequences. Qed.
Print Assumptions C20_fan_masked_sequences.

Theorem C20_fan_masked_never_panics : forall ps old req m, fst (fan_update_masked ps old req m) <> FPanic.
Proof. exact fan_update_masked_never_panics. Qed.
Print Assumptions C20_fan_masked_never_panics.

Example C20_nonvacuous_fan_masked :
  fan_run_masked default_presets (mkFan 0 "off" 0 1)
    [(mkFan 40 "high" 9 2, Some (mkFM true false false false false)); (mkFan 1 "" 1 2, Some (mkFM false false true true false))]
  = mkFan 15 "low" 1 2.
Proof. reflexivity. Qed.

(* ================= meter: UpdateMeterReading with arbitrary update masks (field-mask paths) ================= *)
(* masks are lists of paths (Msg/Path.v), validated against the MeterReading schema (fm_valid) and interpreted
   by prefix tests; covers ups p = some mask path is a prefix of p; touches ups f = some mask path is a prefix
   of f or lies inside f *)

(* FRAME: a field no mask path is related to keeps its value, for every mask (valid or not) and every request *)
Theorem C20_meter_masked_update_frame : forall ups old req,
  (touches ups "start_time" = false -> mm_start (snd (mm_update (Some ups) old req)) = mm_start old) /\
  (touches ups "end_time" = false -> mm_end (snd (mm_update (Some ups) old req)) = mm_end old) /\
  (touches ups "usage" = false -> mm_usage (snd (mm_update (Some ups) old req)) = mm_usage old).
Proof. exact mm_update_frame. Qed.
Print Assumptions C20_meter_masked_update_frame.

(* INSIDE: what a valid non-empty mask writes *)
Theorem C20_meter_masked_update_inside : forall ups old req, ups <> [] -> fm_valid meter_schema MR ups = true ->
  fst (mm_update (Some ups) old req) = code_ok /\
  (covers ups ["usage"] = true -> mm_usage (snd (mm_update (Some ups) old req)) = mm_usage req) /\
  (covers ups ["start_time"] = true -> mm_start (snd (mm_update (Some ups) old req)) =
     match mm_start req with Some r => Some (merge_ts (mm_start old) r) | None => None end) /\
  (covers ups ["start_time"] = false -> covers ups ["start_time"; "seconds"] = true ->
     forall s n, mm_start req = Some (s, n) -> option_map fst (mm_start (snd (mm_update (Some ups) old req))) = Some s).
Proof. exact mm_update_inside. Qed.
Print Assumptions C20_meter_masked_update_inside.

Theorem C20_meter_masked_invalid_noop : forall ups old req, fm_valid meter_schema MR ups = false ->
  mm_update (Some ups) old req = (code_invalid_argument, old).
Proof. exact mm_update_invalid_noop. Qed.
Print Assumptions C20_meter_masked_invalid_noop.

(* all sequences of RecordReading / Reset / UpdateMeterReading(arbitrary mask, arbitrary request) in which no
   update mask is related to start_time / end_time, under a clock that does not run backwards *)
Theorem C20_meter_masked_sequences : forall ops m e0, mm_wf m = true -> mm_end m = Some (e0, 0) ->
  forallb time_safe ops = true -> mm_times_from e0 ops = true ->
  mm_wf (mm_run m ops) = true /\
  mm_start (mm_run m ops) = mm_last_reset (mm_start m) ops /\
  mm_end (mm_run m ops) = mm_last_time (mm_end m) ops.
Proof. exact mm_sequences. Qed.
Print Assumptions C20_meter_masked_sequences.

(* without the guard on the masks the statement is false of the faithful model: UpdateMeterReading is a raw
   write and can clear start_time or put end before start *)
Theorem C20_meter_masked_unguarded_refuted :
  let m := mkMM 5 (Some (10, 0)) (Some (20, 0)) in
  mm_wf m = true /\
  mm_wf (mm_step m (MMUpdate (Some [["start_time"]]) (mkMM 0 None None))) = false /\
  mm_wf (mm_step m (MMUpdate (Some [["end_time"; "seconds"]]) (mkMM 0 None (Some (3, 0))))) = false.
Proof. exact mm_update_breaks_wf. Qed.
Print Assumptions C20_meter_masked_unguarded_refuted.

(* RecordReading / Reset as first written (update paths naming the timestamp messages) *)
Theorem C20_meter_masked_v0_refuted :
  let m := mkMM 5 (Some (10, 900)) (Some (20, 100)) in
  mm_wf m = true /\
  mm_step_v0 m (MMReset 30) = mkMM 0 (Some (30, 900)) (Some (30, 100)) /\
  mm_wf (mm_step_v0 m (MMReset 30)) = false /\
  mm_end (mm_step_v0 m (MMRecord 7 30)) = Some (30, 100) /\
  mm_wf (mm_step m (MMReset 30)) = true /\ mm_end (mm_step m (MMRecord 7 30)) = Some (30, 0).
Proof. exact mm_step_v0_stale_nanos. Qed.
Print Assumptions C20_meter_masked_v0_refuted.

Example C20_nonvacuous_meter_masked :
  let ops := [MMRecord 7 105; MMUpdate (Some [["usage"]; ["bogus"]]) (mkMM 1 None None);
              MMUpdate (Some [["usage"]; ["usage"]]) (mkMM 9 (Some (1, 1)) None); MMReset 110; MMRecord 3 110] in
  forallb time_safe ops = true /\ mm_times_from 100 ops = true /\
  mm_run (mkMM 0 (Some (100, 0)) (Some (100, 0))) ops = mkMM 3 (Some (110, 0)) (Some (110, 0)) /\
  mm_run (mkMM 0 (Some (100, 0)) (Some (100, 0))) (firstn 3 ops) = mkMM 9 (Some (100, 0)) (Some (105, 0)).
Proof. vm_compute. repeat split. Qed.

(* ================= vending: UpdateStock with arbitrary update masks (field-mask paths, nested quantity paths) ================= *)
(* for every amount type A with a "not populated" test (float32 in the code, Q in Traits/Vending.v, Z in the judge) *)

Theorem C20_stock_path_update_frame : forall (A : Type) (azero : A) (aisz : A -> bool) ups old req,
  (touches ups "used" = false -> ps_used (stock_update azero aisz (Some ups) old req) = ps_used old) /\
  (touches ups "remaining" = false -> ps_rem (stock_update azero aisz (Some ups) old req) = ps_rem old) /\
  (touches ups "last_dispensed" = false -> ps_last (stock_update azero aisz (Some ups) old req) = ps_last old) /\
  (touches ups "dispensing" = false -> ps_disp (stock_update azero aisz (Some ups) old req) = ps_disp old).
Proof. exact stock_update_frame. Qed.
Print Assumptions C20_stock_path_update_frame.

(* nested paths: f.amount alone leaves f.unit as stored and writes the request's amount, and vice versa *)
Theorem C20_stock_path_update_nested : forall (A : Type) (azero : A) (aisz : A -> bool) ups f old req u a,
  covers ups [f] = false -> old = Some (u, a) ->
  (covers ups [f; "unit"] = false -> option_map fst (upd_pq azero aisz ups f old req) = Some u) /\
  (covers ups [f; "amount"] = false -> option_map snd (upd_pq azero aisz ups f old req) = Some a) /\
  (covers ups [f; "amount"] = true -> forall u' a', req = Some (u', a') -> option_map snd (upd_pq azero aisz ups f old req) = Some a') /\
  (covers ups [f; "unit"] = true -> forall u' a', req = Some (u', a') -> option_map fst (upd_pq azero aisz ups f old req) = Some u').
Proof. exact stock_update_nested. Qed.
Print Assumptions C20_stock_path_update_nested.

Theorem C20_stock_path_update_inside : forall (A : Type) (azero : A) (aisz : A -> bool) ups f old req, covers ups [f] = true ->
  upd_pq azero aisz ups f old req = match req with Some r => Some (merge_pq azero aisz old r) | None => None end.
Proof. exact stock_update_inside. Qed.
Print Assumptions C20_stock_path_update_inside.

(* the generic store theorem instantiated with the path merge: all Create / Update(arbitrary path mask) / Delete sequences *)
Theorem C20_stock_path_store_sequences : forall (A : Type) (azero : A) (aisz : A -> bool) ops (s : store (pstock A)),
  store_wf s = true ->
  store_wf (srun (stock_update azero aisz) (@stock_mask_bad) s ops) = true /\
  forall k, sfind k (srun (stock_update azero aisz) (@stock_mask_bad) s ops)
            = frun (stock_update azero aisz) (@stock_mask_bad) (fun k => sfind k s) ops k.
Proof. exact stock_path_store_sequences. Qed.
Print Assumptions C20_stock_path_store_sequences.

Theorem C20_stock_path_store_update_frame : forall (A : Type) (azero : A) (aisz : A -> bool) (s : store (pstock A)) name req um,
  store_wf s = true ->
  let s' := snd (sstep (stock_update azero aisz) (@stock_mask_bad) s (SUpdate name req um)) in
  (forall k, k <> name -> sfind k s' = sfind k s) /\ (forall k, sfind k s' = None <-> sfind k s = None).
Proof. exact stock_path_update_frame. Qed.
Print Assumptions C20_stock_path_store_update_frame.

Example C20_nonvacuous_stock_path :
  zupdate (Some [["used"; "amount"]; ["remaining"; "unit"]]) (mkPS (Some (3, 20)) (Some (3, 100)) None false)
          (mkPS (Some (9, 25)) (Some (4, 1)) (Some (1, 1)) true)
  = mkPS (Some (3, 25)) (Some (4, 100)) None false
  /\ zupdate_tree "water" (Some [["used"; "amount"]; ["remaining"; "unit"]]) (mkPS (Some (3, 20)) (Some (3, 100)) None false)
          (mkPS (Some (9, 25)) (Some (4, 1)) (Some (1, 1)) true)
  = Some (0, mkPS (Some (3, 25)) (Some (4, 100)) None false).
Proof. exact stock_nested_sample. Qed.

(* ================= publication: the collection over ALL ids (store level), generated ids ================= *)

(* every operation moves the slot of the id it addresses by the one-id step and touches no other id *)
Theorem C20_publication_store_slots : forall hash s o, store_wf s = true ->
  fst (pubs_step hash s o) = fst (pub_step hash (po_now o) (sfind (addressed o) s) (pub_norm_op (po_op o) (po_gen o))) /\
  forall k, sfind k (snd (pubs_step hash s o)) =
            if String.eqb (addressed o) k
            then snd (pub_step hash (po_now o) (sfind (addressed o) s) (pub_norm_op (po_op o) (po_gen o)))
            else sfind k s.
Proof. exact pubs_step_slots. Qed.
Print Assumptions C20_publication_store_slots.

(* all multi-id sequences (creates with and without id, every update mask, deletes, acknowledgements), for every
   hash function and every candidate list of the random source: the listing stays key-sorted and duplicate free
   and every listed publication carries the hash of its content *)
Theorem C20_publication_store_sequences : forall hash ops s, store_wf s = true -> pubs_versions_ok hash s ->
  store_wf (pubs_run_c hash s ops) = true /\ pubs_versions_ok hash (pubs_run_c hash s ops).
Proof. exact pubs_c_sequences. Qed.
Print Assumptions C20_publication_store_sequences.

(* the slot of id k after a multi-id history is the one-id history (C20_publication_history applies to it) of the
   operations addressed to k *)
Theorem C20_publication_store_per_id : forall hash ops s k, store_wf s = true ->
  sfind k (pubs_run hash s ops) = pub_run hash (sfind k s) (ops_of k ops).
Proof. exact pubs_per_id. Qed.
Print Assumptions C20_publication_store_per_id.

Theorem C20_publication_store_stale_ack : forall hash s id version receipt reason allow gen now old,
  store_wf s = true -> pubs_versions_ok hash s ->
  sfind id s = Some old -> id <> "" -> version <> "" -> version <> hash (content_of old) ->
  fst (pubs_step hash s (mkPO (PAck id version receipt reason allow) gen now)) = PErr 10 /\
  forall k, sfind k (snd (pubs_step hash s (mkPO (PAck id version receipt reason allow) gen now))) = sfind k s.
Proof. exact pubs_stale_ack. Qed.
Print Assumptions C20_publication_store_stale_ack.

(* generated ids (the freshness clause of the C01 collection model): the first of at most ten candidates that is
   non-empty and unused *)
Theorem C20_generated_id_fresh : forall cands n (s : pubs) g, first_fresh cands n s = Some g ->
  g <> "" /\ sfind g s = None /\
  exists i, (i < n)%nat /\ nth_error cands i = Some g /\
            forall j c, (j < i)%nat -> nth_error cands j = Some c -> c = "" \/ sfind c s <> None.
Proof. exact first_fresh_spec. Qed.
Print Assumptions C20_generated_id_fresh.

Theorem C20_publication_create_generated : forall hash s p cands now, store_wf s = true -> p_id p = "" ->
  match first_fresh cands 10 s with
  | None => pubs_step_c hash s (PCreate p) cands now = (PErr 10, s)
  | Some g =>
      let n := computed hash now (pub_with_id p g) in
      g <> "" /\ sfind g s = None /\ In g cands /\
      fst (pubs_step_c hash s (PCreate p) cands now) = POk n /\ p_id n = g /\ p_version n = hash (content_of n) /\
      forall k, sfind k (snd (pubs_step_c hash s (PCreate p) cands now)) = if String.eqb g k then Some n else sfind k s
  end.
Proof. exact pubs_create_generated. Qed.
Print Assumptions C20_publication_create_generated.

Theorem C20_publication_store_new : forall cfg, store_wf (pubs_new cfg) = true.
Proof. exact pubs_new_wf. Qed.
Print Assumptions C20_publication_store_new.

Example C20_nonvacuous_publication_store :
  let h := fun c : content => let '(a, b, c0, d) := c in "h" ++ a ++ b ++ c0 ++ d in
  map fst (pubs_run_c h [] [(PCreate (mkPub "b" "" "x" "" None None), [], 1); (PCreate (mkPub "" "" "y" "" None None), [""; "b"; "a-gen"], 2);
                            (PUpdate (mkPub "b" "" "z" "" None None) (Some pm_only_body) "", [], 3);
                            (PDelete "b" "" false, [], 4); (PCreate (mkPub "0" "" "" "" None None), [], 5)]) = ["0"; "a-gen"].
Proof. vm_compute. reflexivity. Qed.

(* ================= Pull / stream methods of the one-value models (enter/leave, meter, fan speed) ================= *)
(* the stream is Resource/Pull.v's pull_value over the events the model's operations publish; for every model step
   function, seed view, initial value and history *)

(* EXACT: the seed (unless updates_only) followed by the getter value after every accepted operation, nothing else *)
Theorem C20_pull_stream_exact : forall (S Op : Type) (step : S -> Op -> option S) (seed_view : S -> S) uo s0 t0 ops,
  tp_stream step seed_view None uo s0 t0 ops = ((if uo then [] else [(seed_view s0, t0)]) ++ tp_trace step s0 ops)%list.
Proof. exact stream_exact. Qed.
Print Assumptions C20_pull_stream_exact.

(* FOLD: the last value the subscriber holds is the model's getter after the history *)
Theorem C20_pull_fold_is_getter : forall (S Op : Type) (step : S -> Op -> option S) (seed_view : S -> S) s0 t0 ops,
  tp_last_value (tp_stream step seed_view None true s0 t0 ops) s0 = tp_run step s0 ops /\
  (tp_trace step s0 ops <> [] -> tp_last_value (tp_stream step seed_view None false s0 t0 ops) s0 = tp_run step s0 ops) /\
  (tp_trace step s0 ops = [] -> tp_stream step seed_view None false s0 t0 ops = [(seed_view s0, t0)]).
Proof.
  intros. split; [apply stream_fold_updates_only|]. split; [apply stream_fold_seeded|apply stream_seed_only].
Qed.
Print Assumptions C20_pull_fold_is_getter.

(* ... after each operation: the stream of a longer history extends the stream of the shorter one by the getter
   values of the additional accepted operations *)
Theorem C20_pull_stream_prefix : forall (S Op : Type) (step : S -> Op -> option S) (seed_view : S -> S) uo s0 t0 a b,
  tp_stream step seed_view None uo s0 t0 (a ++ b)%list = (tp_stream step seed_view None uo s0 t0 a ++ tp_trace step (tp_run step s0 a) b)%list.
Proof. exact stream_prefix. Qed.
Print Assumptions C20_pull_stream_prefix.

(* with a message equivalence that is equality on the model's values (fan speed): repeated values are not
   delivered and the last value held is still the getter *)
Theorem C20_pull_fold_with_equality_equivalence : forall (S Op : Type) (step : S -> Op -> option S) (eqb : S -> S -> bool),
  (forall a b, eqb a b = true <-> a = b) -> forall uo s0 t0 ops,
  tp_last_value (tp_stream step (fun s => s) (Some (eq_equiv S eqb)) uo s0 t0 ops) s0 = tp_run step s0 ops.
Proof. exact stream_fold_equality. Qed.
Print Assumptions C20_pull_fold_with_equality_equivalence.

(* enter/leave instance: the model getter of the stream theorem is el_run (C20_enterleave_sequences / _counts apply) *)
Theorem C20_pull_enterleave_getter : forall ops s, tp_run el_pull_step s ops = el_run s (map fst ops).
Proof. exact el_run_is_tp_run. Qed.
Print Assumptions C20_pull_enterleave_getter.

Example C20_nonvacuous_pull :
  tp_stream mm_pull_step (fun m => m) None false (mkMM 0 (Some (5, 0)) (Some (5, 0))) 5
    [(MMRecord 7 9, 9); (MMUpdate (Some [["bogus"]]) (mkMM 1 None None), 10); (MMReset 12, 12)]
  = [(mkMM 0 (Some (5, 0)) (Some (5, 0)), 5); (mkMM 7 (Some (5, 0)) (Some (9, 0)), 9); (mkMM 0 (Some (12, 0)) (Some (12, 0)), 12)].
Proof. vm_compute. reflexivity. Qed.

(* ================= mode: the update masks of UpdateModeValues (absent / ["values"] / without paths) ================= *)
Theorem C20_mode_update_masks : forall ms pre abs rel,
  let value := fold_left (rel_adjust ms pre) rel abs in
  (forall m, value <> [] -> afind m value = None -> afind m (mode_update ms pre abs rel 1) = afind m pre) /\
  (value = [] -> mode_update ms pre abs rel 1 = []) /\
  mode_update ms pre abs rel 2 = pre /\
  mode_update ms pre abs rel 0 = value.
Proof. exact mode_update_masks. Qed.
Print Assumptions C20_mode_update_masks.
