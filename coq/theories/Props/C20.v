(* C20 — Trait models keep derived state consistent with their rules.  Theorems only. *)
From SC Require Import Base.Prelude Traits.Str Traits.Parent Traits.ParentProofs.

Theorem C20_parent_sequences : forall ops cs, children_wf cs = true ->
  children_wf (prun cs ops) = true /\
  forall n x, smem x (child_traits n (prun cs ops)) = mem_after n x (smem x (child_traits n cs)) ops.
Proof. exact parent_sequences. Qed.
Print Assumptions C20_parent_sequences.
