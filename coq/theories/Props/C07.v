(* C07 - Messages are isolated: no aliasing between callers and stored state.
   Theorems only; the model is Alias/Owned.v (tagged heaps: every message object and every
   repeated-field array has an allocation tag, a write to a tag is seen through every reference
   reaching it), proofs are in Alias/OwnedProofs.v, Alias/LayerProofs.v, Alias/C07JudgeProofs.v.

   Vocabulary:  [run n st ops]  the resource layer (Set/Update/Add/Delete/Get/List/Pull-seed,
   change events to every open subscription, and the caller rewriting an argument it passed
   earlier) executed on a state;  [snaps st]  every message that has crossed the API boundary
   so far (arguments after the call returned, results, event old/new values, seeds);
   [op_ok]  the hypotheses on an operation: its argument is a well-formed message and its
   interceptors / seed hook are well-behaved in the semantic sense of [wb_before], [wb_after],
   [wb_hook]: they write only caller-owned objects or objects the library allocated during the
   very operation, and never link the caller's objects with the library's.  These are predicates
   on arbitrary functions, not on the enumeration used by the harness. *)
From SC Require Import Base.Prelude Alias.Owned Alias.OwnedProofs Alias.LayerProofs Alias.TraitProofs
  Alias.Nested Alias.NestedProofs Alias.Writable Alias.WritableProofs Alias.C07Judge Alias.C07JudgeProofs Alias.Monitor Alias.MonitorProofs
  Alias.Sites Gen.AliasSites Alias.SitesProofs.

(* Every message published at any point of any history - stored values, results, event old and
   new values, seeds, filtered or not - is still published and reads exactly the same after
   every continuation of the history: no object reachable from it is written ([frozen]), and
   therefore its deep reading [same] is unchanged at every depth. *)
Theorem C07_published_frozen : forall n ops st pre post,
  inv st -> Forall op_ok ops -> ops = pre ++ post ->
  forall p, In p (snaps (run n st pre)) -> fst p = Lib ->
    In p (snaps (run n st ops)) /\
    frozen (hp (hs (run n st pre))) (hp (hs (run n st ops))) p /\
    forall k, same k (hp (hs (run n st pre))) (hp (hs (run n st ops))) p p = true.
Proof. exact published_frozen. Qed.
Print Assumptions C07_published_frozen.

(* After any history, nothing reachable from a stored value or from a published library message
   is reachable from a message a caller passed in: later caller edits (which are operations of
   the history, [OMutArg]) cannot reach the store, and C07_published_frozen covers them. *)
Theorem C07_caller_message_not_retained : forall n ops st,
  inv st -> Forall op_ok ops ->
  let st' := run n st ops in
  forall r a u, (In r (map snd (store st')) \/ (In r (snaps st') /\ fst r = Lib)) -> fst a = Caller ->
    reach (hp (hs st')) r u -> reach (hp (hs st')) a u -> False.
Proof. exact caller_message_not_retained. Qed.
Print Assumptions C07_caller_message_not_retained.

(* Get, List and Pull (seed included, for hooks that only allocate) leave the store as it was and
   write no object that existed before them, whoever owns it - in every state, no invariant needed. *)
Theorem C07_reads_pure : forall n st o, is_read_op o ->
  store (step n st o) = store st /\ only_allocs (hs st) (hs (step n st o)).
Proof. exact reads_pure. Qed.
Print Assumptions C07_reads_pure.

(* The initial state satisfies the invariant; the invariant is preserved. *)
Theorem C07_inv_init : forall coll, inv (init_state coll).
Proof. exact init_inv. Qed.
Print Assumptions C07_inv_init.
Theorem C07_inv_preserved : forall n ops st, inv st -> Forall op_ok ops -> inv (run n st ops).
Proof. exact run_inv. Qed.
Print Assumptions C07_inv_preserved.

(* The library's own steps of a write follow the discipline, for every message shape, mask and
   fuel: proto.Clone, proto.Merge into a private destination, FieldUpdater.Merge (which filters
   the caller's message in place) and FilterClone. *)
Theorem C07_clone_good : forall lo o n s t, heap_ok lo s ->
  good lo s (fst (clone n o s t)) /\ own lo (nxt (fst (clone n o s t))) o (snd (clone n o s t)).
Proof. exact clone_good. Qed.
Print Assumptions C07_clone_good.
Theorem C07_merge_good : forall lo o n s dst src, heap_ok lo s -> own lo (nxt s) o dst ->
  good lo s (merge n o s dst src).
Proof. exact merge_good. Qed.
Print Assumptions C07_merge_good.
Theorem C07_upd_merge_good : forall lo n s dst src um,
  heap_ok lo s -> own lo (nxt s) (fst dst) dst -> own lo (nxt s) Caller src ->
  good lo s (upd_merge n s dst src um).
Proof. exact upd_merge_good. Qed.
Print Assumptions C07_upd_merge_good.

(* The documented-style interceptors of the harness family and the repaired seed hook are
   well-behaved; so is every history the judge classifies as inside the proved fragment. *)
Theorem C07_family_well_behaved : forall c, icode_proved c = true ->
  wb_before (icode_fun c) /\ wb_after (icode_fun c).
Proof. exact icode_proved_wb. Qed.
Print Assumptions C07_family_well_behaved.
(* The trait interceptors with in-place edits, as repaired (they work on proto.Clone(old)), are
   well-behaved for every message, name, capacity bit and fuel: parentpb AddChildTrait /
   RemoveChildTrait (traitUnion / traitRemove) and metadatapb MergeMetadata.  Histories through
   these models are therefore inside C07_published_frozen. *)
Theorem C07_parent_union_well_behaved : forall n f key name realloc, wb_before (i_union n f key name realloc).
Proof. exact wb_union. Qed.
Print Assumptions C07_parent_union_well_behaved.
Theorem C07_parent_remove_well_behaved : forall n f key name, wb_before (i_remove n f key name).
Proof. exact wb_remove. Qed.
Print Assumptions C07_parent_remove_well_behaved.
Theorem C07_metadata_merge_well_behaved : forall n f key realloc, wb_before (i_meta n f key realloc).
Proof. exact wb_meta. Qed.
Print Assumptions C07_metadata_merge_well_behaved.
Theorem C07_trait_interceptors_in_fragment : forall c, icode_proved_before c = true -> wb_before (icode_fun c).
Proof. exact icode_proved_before_wb. Qed.
Print Assumptions C07_trait_interceptors_in_fragment.

Theorem C07_seed_hooks_well_behaved : forall c, scode_proved c = true ->
  wb_hook (scode_fun c) /\ pure_hook (scode_fun c).
Proof. exact scode_proved_wb. Qed.
Print Assumptions C07_seed_hooks_well_behaved.
Theorem C07_proved_fragment : forall ops, forallb cop_proved ops = true -> Forall op_ok (map cop_op ops).
Proof. exact cops_proved_ok. Qed.
Print Assumptions C07_proved_fragment.

(* Link to the judge: what the model reports as changed after an operation can only be a
   caller-owned snapshot (an argument), never a published library message; a read reports
   nothing at all. *)
Theorem C07_model_lib_unchanged : forall n st o, inv st -> op_ok o ->
  forall i, In i (changed n st (step n st o)) ->
            exists p, In (i, p) (zip_index 0 (snaps st)) /\ fst p = Caller.
Proof. exact model_lib_unchanged. Qed.
Print Assumptions C07_model_lib_unchanged.
Theorem C07_model_reads_pure : forall st c, inv st -> is_read c = true -> cop_proved c = true ->
  let st' := step fuel st (cop_op c) in
  store st' = store st /\ store_changed st st' = false /\ changed fuel st st' = [].
Proof. exact model_reads_pure. Qed.
Print Assumptions C07_model_reads_pure.

(* ---- refutations: the faithful model of code that edits in place falsifies the property ---- *)

(* parentpb.RemoveChildTrait before the repair: copy() inside the stored child's Traits array; a
   child listed earlier reads [13;15;15] afterwards.  (guard true: library code, not a harness
   interceptor) *)
Theorem C07_parent_remove_v0_refuted :
  forallb cop_guard (w_parent_remove true) = true /\ model_ok true (w_parent_remove true) = false.
Proof. exact w_parent_remove_fails. Qed.
Print Assumptions C07_parent_remove_v0_refuted.

(* parentpb.AddChildTrait before the repair: append(has[:i+1], has[i:]...) shifts inside the
   stored array when it has spare capacity (oracle bit false) *)
Theorem C07_parent_union_v0_refuted :
  forallb cop_guard (w_parent_union true) = true /\ model_ok true (w_parent_union true) = false.
Proof. exact w_parent_union_fails. Qed.
Print Assumptions C07_parent_union_v0_refuted.
(* the repaired interceptors (they work on proto.Clone(old)) pass both histories *)
Example C07_parent_witnesses_now_ok :
  model_ok true (w_parent_remove false) = true /\ model_ok true (w_parent_union false) = true.
Proof. exact w_parent_ok. Qed.

(* metadatapb.MergeMetadata before the repair merged into the elements of old.Traits; the
   repaired interceptor (works on proto.Clone(old)) passes the same history *)
Theorem C07_metadata_merge_v0_refuted :
  forallb cop_guard (w_metadata true) = true /\ model_ok false (w_metadata true) = false.
Proof. exact w_metadata_v0_fails. Qed.
Print Assumptions C07_metadata_merge_v0_refuted.
Example C07_metadata_merge_witness_now_ok : model_ok false (w_metadata false) = true.
Proof. exact w_metadata_ok. Qed.

(* enterleavesensorpb.PullEnterLeaveEvents before the repair cleared occupant/direction of the
   stored message it was handed as seed: a read that writes the store *)
Theorem C07_enterleave_pull_v0_refuted :
  forallb cop_guard (w_enterleave true) = true /\ model_ok false (w_enterleave true) = false.
Proof. exact w_enterleave_v0_fails. Qed.
Print Assumptions C07_enterleave_pull_v0_refuted.
Example C07_enterleave_witness_now_ok : model_ok false (w_enterleave false) = true.
Proof. exact w_enterleave_ok. Qed.

(* an interceptor that writes to old (forbidden by the documentation) breaks the property:
   the hypothesis of C07_published_frozen is necessary, and the model can exhibit aliasing *)
Theorem C07_undocumented_interceptor_refuted :
  model_ok true w_bad = false /\ forallb cop_guard w_bad = false.
Proof. exact w_bad_fails. Qed.
Print Assumptions C07_undocumented_interceptor_refuted.

(* non-vacuity: a history inside the proved fragment with shared (nil-mask) and cloned reads, a
   subscriber, a masked write through a reading interceptor, a caller rewriting its argument and a
   delete publishes 12 messages, and the model observes the property on it *)
Example C07_nonvacuous_history :
  forallb cop_proved w_good = true /\ model_ok true w_good = true
  /\ zlen (snaps (run fuel (init_state true) (map cop_op w_good))) = 12.
Proof. exact w_good_ok. Qed.

(* ... and the trait-model witnesses with the repaired code are inside the proved fragment too *)
Example C07_nonvacuous_trait_histories :
  forallb cop_proved (w_parent_remove false) = true /\ forallb cop_proved (w_parent_union false) = true /\
  forallb cop_proved (w_metadata false) = true /\ forallb cop_proved (w_enterleave false) = true.
Proof. exact w_repaired_in_fragment. Qed.

(* ---- nested read masks, in-place filtering, assembled responses that share stored messages ---- *)

(* fmutils Filter with ANY nested mask (paths continuing into sub-messages and into the elements of
   repeated message fields), applied in place to an object the operation owns, writes only objects
   of that owner which the operation owns; objects of the other owner that existed are untouched. *)
Theorem C07_nested_filter_in_place_good : forall lo o n s t m, heap_ok lo s -> own lo (nxt s) o t ->
  good lo s (keep_nested n s t m) /\
  forall u, fst u <> o -> snd u < nxt s -> lookup (hp (keep_nested n s t m)) u = lookup (hp s) u.
Proof. exact keep_nested_goodx. Qed.
Print Assumptions C07_nested_filter_in_place_good.

(* ResponseFilter.FilterClone with any nested mask (nil: the message itself; no paths: clone + Reset;
   otherwise clone + in-place filter of the clone) follows the discipline and returns a library message. *)
Theorem C07_filter_clone_nested_good : forall lo n s t rm, heap_ok lo s -> snd t < nxt s ->
  goodx lo Lib s (fst (filter_clone_n n s t rm)) /\
  snd (snd (filter_clone_n n s t rm)) < nxt (fst (filter_clone_n n s t rm)) /\
  (fst t = Lib -> fst (snd (filter_clone_n n s t rm)) = Lib).
Proof. exact filter_clone_n_goodx. Qed.
Print Assumptions C07_filter_clone_nested_good.

(* The assembled read (openclosepb GetPositions and what PullPositions emits: a new response whose
   repeated field holds the STORED messages, then FilterClone with any nested mask) is a well-behaved
   model-level read: histories containing it are inside C07_published_frozen although its unmasked
   response shares the stored messages (Example C07_assembled_response_shares_stored_messages). *)
Theorem C07_assembled_read_well_behaved : forall n f rm, wb_read (r_assembled n f rm).
Proof. exact wb_read_assembled. Qed.
Print Assumptions C07_assembled_read_well_behaved.

(* ... and it is read-only: in every state satisfying the invariant the store is unchanged and no object
   that existed before the read - library or caller - is written. *)
Theorem C07_assembled_read_pure : forall n st f rm, inv st ->
  store (step n st (ORead (r_assembled n f rm))) = store st /\
  only_allocs (hs st) (hs (step n st (ORead (r_assembled n f rm)))).
Proof. intros. apply model_read_pure; auto. apply pure_read_inv_assembled. Qed.
Print Assumptions C07_assembled_read_pure.

(* Applying the mask to the assembled message IN PLACE (PullPositions before 2246d41; seeded change
   C07-r3-3 in GetPositions) is harmless exactly for masks that stay on the top level of the response:
   then only the freshly assembled root is written, in every heap ... *)
Theorem C07_assembled_in_place_top_level_pure : forall n f m s ts, top_only m = true ->
  only_allocs s (fst (r_assembled_v0 n f (Some m) s ts)).
Proof. exact r_assembled_v0_top_level_pure. Qed.
Print Assumptions C07_assembled_in_place_top_level_pure.

(* ... and refuted for a path that continues into the repeated field (states.open_percent): the stored
   positions and every earlier result lose their other fields; the read reports a store mutation. *)
Theorem C07_assembled_in_place_v0_refuted :
  forallb cop_guard (w_assembled true (Some w_mask_nested)) = true /\
  model_ok true (w_assembled true (Some w_mask_nested)) = false.
Proof. exact w_assembled_v0_fails. Qed.
Print Assumptions C07_assembled_in_place_v0_refuted.
Example C07_assembled_witness_now_ok :
  forallb cop_proved (w_assembled false (Some w_mask_nested)) = true /\
  model_ok true (w_assembled false (Some w_mask_nested)) = true /\
  model_ok true (w_assembled false None) = true /\
  model_ok true (w_assembled true (Some w_mask_top)) = true.
Proof. exact w_assembled_ok. Qed.
Example C07_assembled_response_shares_stored_messages :
  let st := run fuel (init_state true) (map cop_op (w_assembled false None)) in
  match nth_error (snaps st) 5, fget 1 (store st) with
  | Some r, Some t => match get_rep (hs st) r 1 with
                      | Some (a, len) => existsb (tag_eqb t) (elems (hs st) a len)
                      | None => false
                      end
  | _, _ => false
  end = true.
Proof. exact w_assembled_shares. Qed.

(* slices.Clone(old.Traits) instead of proto.Clone(old) in metadataMergeInterceptor (seeded change
   C07-r3-2): the array is new, the ELEMENTS are the stored ones, and Merge writes into them. *)
Theorem C07_metadata_slice_clone_refuted :
  forallb cop_guard w_metadata_slice_clone = true /\ model_ok false w_metadata_slice_clone = false.
Proof. exact w_metadata_slice_clone_fails. Qed.
Print Assumptions C07_metadata_slice_clone_refuted.

(* ---- resources constructed with writable fields, nested update masks, reset masks ---- *)

(* The merge step of a write is an arbitrary heap function [mf] in [OWriteF]; the hypothesis on it ([wb_merge],
   part of [op_ok]) is semantic, like [wb_before]: given the destination the write owns and the caller's message
   it follows the discipline.  C07_published_frozen, C07_caller_message_not_retained and C07_inv_preserved above
   hold for histories containing such writes.  The WHOLE FieldUpdater.Merge of pkg/masks/update.go - writable
   fields of any nesting filtered out of the caller's message in place and pruned from the destination, update
   masks of any nesting with pruneEmpty, reset masks - satisfies it, for all masks, messages and fuel. *)
Theorem C07_writable_merge_well_behaved : forall n w um rs, wb_merge (upd_merge_w n w um rs).
Proof. exact upd_merge_w_wb. Qed.
Print Assumptions C07_writable_merge_well_behaved.

(* fmutils Prune and pruneEmpty with ANY nested mask, in place on an object the operation owns: only objects
   of that owner owned by the operation are written, objects of the other owner that existed are untouched. *)
Theorem C07_nested_prune_in_place_good : forall lo o n s t m, heap_ok lo s -> own lo (nxt s) o t ->
  good lo s (prune_nested n s t m) /\
  forall u, fst u <> o -> snd u < nxt s -> lookup (hp (prune_nested n s t m)) u = lookup (hp s) u.
Proof. exact prune_nested_goodx. Qed.
Print Assumptions C07_nested_prune_in_place_good.
Theorem C07_prune_empty_good : forall lo o n s dst src m, heap_ok lo s -> own lo (nxt s) o dst ->
  good lo s (prune_empty n s dst src m) /\
  forall u, fst u <> o -> snd u < nxt s -> lookup (hp (prune_empty n s dst src m)) u = lookup (hp s) u.
Proof. exact prune_empty_goodx. Qed.
Print Assumptions C07_prune_empty_good.

(* After ANY history followed by a write with ANY writable fields, update mask and reset mask: no object
   reachable from the store (or from any published library message - the result of the write, its events)
   is reachable from a caller-owned message, in particular from the argument of the write.  Whatever the
   caller does to its message afterwards is an [OMutArg] continuation covered by C07_published_frozen. *)
Theorem C07_writable_write_isolated : forall n ops st id arg vis w um rs m ib ia,
  inv st -> Forall op_ok ops -> arg_wf arg = true -> wb_before ib -> wb_after ia ->
  let st' := run n st (ops ++ [OWriteF id arg vis (upd_merge_w n w um rs) m ib ia]) in
  forall r a u, (In r (map snd (store st')) \/ (In r (snaps st') /\ fst r = Lib)) -> fst a = Caller ->
    reach (hp (hs st')) r u -> reach (hp (hs st')) a u -> False.
Proof.
  intros n ops st id arg vis w um rs m ib ia Hi Hops Hwf Hib Hia. apply caller_message_not_retained; auto.
  apply Forall_app. split; auto. constructor; [|constructor].
  split; [exact Hwf|]. split; [apply upd_merge_w_wb|]. split; [exact Hib | exact Hia].
Qed.
Print Assumptions C07_writable_write_isolated.

(* Seeded change C07-r4-4 (without update mask, writable paths that are all whole top-level fields are
   replaced BY REFERENCE: dstPr.Set(fd, srcPr.Get(fd))): Set; Get; the caller rewrites its message - the
   result of Set and of Get (snapshots 1, 2) change with it; the stored value reaches a caller object. *)
Theorem C07_writable_share_refuted :
  forallb cop_guard (w_writable true) = true /\ model_ok false (w_writable true) = false /\
  model_trace (init_state false) (w_writable true) = [mkO 2 [] false false; mkO 3 [] false false; mkO 3 [0; 1; 2] false false].
Proof. exact w_writable_share_fails. Qed.
Print Assumptions C07_writable_share_refuted.
Example C07_writable_share_reaches_caller_object :
  let st := run fuel (init_state false) (map cop_op (firstn 1 (w_writable true))) in
  match fget 0 (store st) with
  | Some t => match sub_of (hs st) t 19 with Some u => owner_eqb (fst u) Caller | None => false end
  | None => false
  end = true.
Proof. exact w_writable_share_reaches. Qed.
(* non-vacuity: the same history with the code as it is, and a history with a writable path three levels
   deep, an update mask below it, a reset mask and an interceptor, are inside the proved fragment and pass;
   the second one stores exactly the expected value *)
Example C07_writable_nonvacuous :
  forallb cop_proved (w_writable false) = true /\ model_ok false (w_writable false) = true /\
  forallb cop_proved w_wr_nested = true /\ model_ok false w_wr_nested = true.
Proof. exact w_writable_ok. Qed.

(* A trait model that writes one of its OWN stored messages to another of its resources (electricpb
   changeActiveMode: the mode held by the modes collection is the argument of activeMode.Set): with the write
   given proto.Clone of the stored message (repo 6705ac9) the operation is a well-behaved model-level operation
   for every writable-field set, update mask and reset mask of the other resource - histories containing it are
   inside C07_published_frozen.  Before the repair the writable filter ran in place on the stored message. *)
Theorem C07_write_of_stored_message_well_behaved : forall n k w um rs, wb_read (r_write_stored n k w um rs).
Proof. exact wb_read_write_stored. Qed.
Print Assumptions C07_write_of_stored_message_well_behaved.
Theorem C07_write_of_stored_message_v0_refuted : changed_last (w_write_stored true) = [1; 2].
Proof. exact w_write_stored_v0_fails. Qed.
Print Assumptions C07_write_of_stored_message_v0_refuted.
Example C07_write_of_stored_message_now_ok :
  changed_last (w_write_stored false) = [] /\ zlen (snaps (run fuel (init_state true) (w_write_stored false))) = 4.
Proof. exact w_write_stored_ok. Qed.

(* ---- the snapshot monitor (harness/c07: deep copy at crossing time, re-comparison after every
   later operation) is sound and complete with respect to the tagged model ---- *)

(* A registered copy is a VALUE copy: comparing a message with "itself in the heap of crossing time"
   is comparing the tag-free contents [rd] that proto.Clone copies and proto.Equal compares. *)
Theorem C07_snapshot_is_value_copy : forall k h1 h2 t1 t2,
  same k h1 h2 t1 t2 = true <-> rd k h1 t1 = rd k h2 t2.
Proof. exact same_iff_rd. Qed.
Print Assumptions C07_snapshot_is_value_copy.

(* For EVERY history - well-behaved or not - the monitor (register what crossed, compare everything,
   re-take the copies that differ) reports at each step exactly the model's [changed]. *)
Theorem C07_monitor_computes_model_changed : forall n ops st m, mon_inv n st m ->
  mon_run n st ops m = changed_run n st ops.
Proof. exact mon_run_is_changed_run. Qed.
Print Assumptions C07_monitor_computes_model_changed.

(* Soundness of one snapshot: if no object reachable from a published message is written, the
   snapshot reads the same at every depth (no heap invariant needed). *)
Theorem C07_monitor_sound : forall h h' k p, frozen h h' p -> same k h h' p p = true.
Proof. exact frozen_same. Qed.
Print Assumptions C07_monitor_sound.

(* Soundness over whole histories: under the hypotheses of C07_published_frozen, whatever the monitor
   reports at any step of any history is a message the caller owns - a library message (stored value,
   result, event old/new value, seed, assembled response) is never reported. *)
Theorem C07_monitor_quiet_on_library_messages : forall n ops st m,
  inv st -> Forall op_ok ops -> mon_inv n st m ->
  forall rep i, In rep (mon_run n st ops m) -> In i rep ->
    exists st0 p, In (i, p) (zip_index 0 (snaps st0)) /\ fst p = Caller.
Proof. exact monitor_quiet_on_library_messages. Qed.
Print Assumptions C07_monitor_quiet_on_library_messages.

(* The converse, used for reporting: a snapshot that differs exhibits an object REACHABLE from the
   published message (in the heap it is compared against) whose cell has been written. *)
Theorem C07_monitor_complete : forall h h' k p, same k h h' p p = false ->
  exists u, reach h p u /\ lookup h' u <> lookup h u.
Proof. exact changed_reaches_write. Qed.
Print Assumptions C07_monitor_complete.

(* ... over histories: every index the monitor reports after operation o names a message that had
   crossed before o and from which an object written BY o is reachable. *)
Theorem C07_monitor_report_is_a_write : forall n ops st m, mon_inv n st m ->
  forall pre o post, ops = pre ++ o :: post ->
  forall i, In i (nth (List.length pre) (mon_run n st ops m) []) ->
    let st1 := run n st pre in
    exists p u, In (i, p) (zip_index 0 (snaps st1)) /\ reach (hp (hs st1)) p u /\
                lookup (hp (hs (step n st1 o))) u <> lookup (hp (hs st1)) u.
Proof. exact monitor_report_is_a_write. Qed.
Print Assumptions C07_monitor_report_is_a_write.

Example C07_monitor_nonvacuous :
  mon_inv fuel (init_state true) (mon_of (init_state true)) /\
  mon_run fuel (init_state true) (map cop_op (w_parent_remove true)) (mon_of (init_state true)) = [[]; []; [1; 2]] /\
  mon_run fuel (init_state true) (map cop_op (w_parent_remove false)) (mon_of (init_state true)) = [[]; []; []].
Proof. split; [apply mon_of_inv | vm_compute; auto]. Qed.

(* ---- the judge against the model ---- *)
(* Inside the proved fragment, an observation that agrees with the model has no wrong event value, no
   read that changes the store or any snapshot, and reports as changed only messages the caller owns.
   PARTIAL: C07_ok additionally requires that a caller-owned snapshot changes only when the caller
   rewrites that very message; this is not derived from agreement (the semantic hypotheses wb_before /
   wb_after allow an interceptor to write any caller-owned object), it is checked per case. *)
Theorem C07_judge_sound_partial : forall ops obs st, inv st -> forallb cop_proved ops = true ->
  agrees_from st ops obs = true -> lib_quiet st ops obs.
Proof. exact judge_sound_lib. Qed.
Print Assumptions C07_judge_sound_partial.

(* ---- the in-place write sites of the tree under check (Gen/AliasSites.v, regenerated from the source
   on every run) satisfy the ownership discipline: whatever hand-written code of pkg/masks, pkg/resource
   and pkg/trait filters, merges into, resets, sorts, shifts or assigns a field of is an object the
   function built or cloned, or one of its parameters - and never the first parameter (the live old
   message) of a function registered as an interceptor; the reviewed exceptions are listed with their
   reason in Alias/Sites.v and each of them is still in use. ---- *)
Theorem C07_source_sites_follow_discipline : sites_ok alias_sites = true.
Proof. exact alias_sites_discipline. Qed.
Print Assumptions C07_source_sites_follow_discipline.
Theorem C07_source_sites_reviewed_all_used :
  forallb (fun r => match r with (f, k, e, _) =>
             existsb (fun s => String.eqb f (as_func s) && String.eqb k (as_kind s) && String.eqb e (as_expr s)) alias_sites
           end) reviewed = true.
Proof. exact reviewed_all_used. Qed.
Print Assumptions C07_source_sites_reviewed_all_used.
(* the rows the translator reports for the code before the repairs / under the seeded changes violate it *)
Theorem C07_source_sites_v0_refuted :
  sites_ok sites_metadata_v0 = false /\ sites_ok sites_parent_v0 = false /\
  sites_ok sites_openclose_v0 = false /\ sites_ok sites_enterleave_v0 = false.
Proof. exact sites_v0_refuted. Qed.
Print Assumptions C07_source_sites_v0_refuted.
Example C07_source_sites_nonvacuous : (100 <=? zlen alias_sites)%Z = true /\
  has_site alias_sites "metadataMergeInterceptor" "Sort" = true /\ has_site alias_sites "traitUnion" "ShiftAppend" = true.
Proof. destruct alias_sites_cover_the_model as (A & _ & _ & _ & _ & _ & _ & _ & B & _ & _ & _ & C & _). auto. Qed.
