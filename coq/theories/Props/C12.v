(* C12 — Routers deliver each request to the client registered under its name.
   Theorems only; proofs live in Router/*Proofs.v.  Models: Router/Registry.v (router.go),
   Router/RouterGet.v (concurrent calls as an LTS over the lock-protected blocks),
   Router/Pump.v (generated forwarders), Router/NameDefault.v (default-name interceptor),
   Router/Table.v + Gen/Routers.v (descriptor methods vs checked-in routers, regenerated each run). *)
From SC Require Import Base.Prelude Router.Registry Router.RegistryProofs Router.RouterGet Router.RouterGetProofs
  Router.Pump Router.PumpProofs Router.NameDefault Router.NameDefaultProofs Router.Table Router.TableProofs Gen.Routers
  Router.Route Router.C12Judge Router.C12JudgeProofs.

(* The registry is a map: for every operation sequence (Add/Remove/Has/Get with fallback and
   factory) results equal those of a plain functional map, whose final contents, change log and
   identity counter coincide with the registry's. *)
Theorem C12_registry_is_map : forall g ops first,
  snd (rrun g (init first) ops) = snd (prun g (mkP pempty [] first) ops) /\
  (forall k, find k (sreg (fst (rrun g (init first) ops))) = pm (fst (prun g (mkP pempty [] first) ops)) k) /\
  slog (fst (rrun g (init first) ops)) = plog (fst (prun g (mkP pempty [] first) ops)).
Proof.
  intros g ops first. destruct (registry_is_map g ops _ _ (R_init first)) as [H1 [H2 [H3 _]]]. auto.
Qed.
Print Assumptions C12_registry_is_map.

(* Change callbacks report exactly the transitions: replaying the log from the empty map gives
   the registry, and every entry's Old is the value it replaced (clients non-nil, as the
   generated routers enforce). *)
Theorem C12_log_is_transitions : forall g first ops, 0 < first -> ops_nonnil ops = true ->
  let s := fst (rrun g (init first) ops) in
  (forall k, replay (slog s) k = find k (sreg s)) /\ log_consistent pempty (slog s).
Proof. exact log_is_transitions. Qed.
Print Assumptions C12_log_is_transitions.

(* ... which fails for nil clients stored through the untyped Router.Add: the same log, two different registries *)
Theorem C12_log_is_transitions_nil_refuted :
  exists g ops1 ops2,
    slog (fst (rrun g (init 1) ops1)) = slog (fst (rrun g (init 1) ops2)) /\
    has "a" (fst (rrun g (init 1) ops1)) <> has "a" (fst (rrun g (init 1) ops2)).
Proof. exact log_nil_client_ambiguous. Qed.
Print Assumptions C12_log_is_transitions_nil_refuted.

Theorem C12_has_get_agree : forall g n s, has n s = true -> exists c, get g n s = (s, Got c) /\ find n (sreg s) = Some c.
Proof. exact has_get_agree. Qed.
Print Assumptions C12_has_get_agree.

(* a name with no client yields NotFound carrying the name and changes nothing *)
Theorem C12_notfound_touches_nothing : forall g n s s' m, get g n s = (s', NotFound m) -> s' = s /\ m = n.
Proof. exact notfound_touches_nothing. Qed.
Print Assumptions C12_notfound_touches_nothing.

(* Concurrent first Gets of one name, for EVERY schedule of any length over any number of threads
   (prefixes included): at most one client is ever committed for the name, the log gains exactly one
   Auto change iff one is committed, no other name changes, every thread that returned got that client. *)
Theorem C12_single_factory_commit : forall g n ths s0 sched,
  (forall k, In k ths -> k = TGet n) -> find n (sreg s0) = None -> invoke_fb g n = None ->
  mem_str n (fac_ok g) = true ->
  let G := grun g ths sched (ginit s0 ths) in
  let commit := find n (sreg (gst G)) in
  slog (gst G) = slog s0 ++ auto_entry n commit /\
  (forall k, String.eqb k n = false -> find k (sreg (gst G)) = find k (sreg s0)) /\
  (forall i r, nth_error (gpcs G) i = Some (PDone r) -> exists c, commit = Some c /\ r = RGet (Got c)).
Proof. intros g n ths s0 sched H1 H2 H3 H4. exact (single_factory_commit g n ths s0 H1 H2 H3 H4 sched). Qed.
Print Assumptions C12_single_factory_commit.

(* ... and once every thread has been scheduled three times all have returned the same client,
   with exactly one Auto change logged *)
Theorem C12_all_return_same_client : forall g n ths s0 sched,
  (forall k, In k ths -> k = TGet n) -> find n (sreg s0) = None -> invoke_fb g n = None ->
  mem_str n (fac_ok g) = true -> ths <> [] ->
  (forall j, (j < List.length ths)%nat -> (count_occ Nat.eq_dec sched j >= 3)%nat) ->
  let G := grun g ths sched (ginit s0 ths) in
  exists c, find n (sreg (gst G)) = Some c /\
            slog (gst G) = slog s0 ++ [mkChange n nil_client c true] /\
            gpcs G = map (fun _ => PDone (RGet (Got c))) ths.
Proof. intros g n ths s0 sched H1 H2 H3 H4 H5 H6. exact (all_return_same_client g n ths s0 H1 H2 H3 H4 sched H5 H6). Qed.
Print Assumptions C12_all_return_same_client.

(* without fallback and factory for the name, concurrent Gets return NotFound and change nothing *)
Theorem C12_concurrent_notfound_touches_nothing : forall g n ths s0 sched,
  (forall k, In k ths -> k = TGet n) -> find n (sreg s0) = None -> invoke_fb g n = None ->
  mem_str n (fac_ok g) = false ->
  let G := grun g ths sched (ginit s0 ths) in
  gst G = s0 /\ forall i r, nth_error (gpcs G) i = Some (PDone r) -> r = RGet (NotFound n).
Proof. intros g n ths s0 sched H1 H2 H3 H4. exact (concurrent_notfound_touches_nothing g n ths s0 H1 H2 H3 H4 sched). Qed.
Print Assumptions C12_concurrent_notfound_touches_nothing.

(* the stream pump is transparent: for every child script (k messages, header, trailer, error at
   any position, failure to open) the caller's transcript is the child's *)
Theorem C12_pump_transparent : forall c, hdr_err c = None -> pump c cooperative = direct c.
Proof. exact pump_transparent. Qed.
Print Assumptions C12_pump_transparent.

Theorem C12_pump_header_error : forall c k e, open_err c = None -> hdr_err c = Some e ->
  pump c k = mkTr None [] None (Some e) false 0.
Proof. exact pump_header_error. Qed.
Print Assumptions C12_pump_header_error.

(* a caller that cannot take the j-th message gets its own error back, has received exactly the
   j messages before it, and the child is cancelled *)
Theorem C12_pump_caller_send_error : forall c k j e,
  open_err c = None -> hdr_err c = None -> sendheader_err k = None -> send_err_at k = Some (j, e) ->
  0 <= j < zlen (msgs c) ->
  pump c k = mkTr (Some (hdr c)) (firstn (Z.to_nat j) (msgs c)) None (Some e) true (j + 1).
Proof. exact pump_caller_send_error. Qed.
Print Assumptions C12_pump_caller_send_error.

Theorem C12_unary_transparent : forall u,
  unary u = match u with UResp m => mkTr None [m] None None false 0 | UErr e => mkTr None [] None (Some e) false 0 end.
Proof. exact unary_transparent. Qed.
Print Assumptions C12_unary_transparent.

(* the default-name interceptor fills in only empty names and nothing else *)
Theorem C12_default_name_only_empty : forall r name,
  (shape r = NameString "" -> replace_empty_name r name = mkReq (NameString name) (payload r)) /\
  (shape r <> NameString "" -> replace_empty_name r name = r).
Proof. exact default_name_only_empty. Qed.
Print Assumptions C12_default_name_only_empty.

(* ... for every sequence of requests of arbitrary message types through one interceptor: each
   request is treated on its own (nothing carried over from earlier requests of whatever type; a
   failed RecvMsg leaves the message alone), field numbers and order are kept, and the only entry
   that can change is the singular string field called "name" of THIS message's type, when empty *)
Theorem C12_default_name_sequence : forall d steps i path t v,
  nth_error steps i = Some (path, t, v) ->
  nth_error (run_seq d steps) i = Some (if path =? 2 then v else replace_in t v d).
Proof. exact default_name_sequence. Qed.
Print Assumptions C12_default_name_sequence.

Theorem C12_default_name_only_name_field : forall t v d i p,
  nth_error v i = Some p ->
  nth_error (replace_in t v d) i = Some (if is_empty_name t p then (fst p, d) else p) /\
  map fst (replace_in t v d) = map fst v /\
  (is_empty_name t p = true <->
   exists f, name_field t = Some f /\ fk f = FString /\ fst p = fnum f /\ snd p = ""%string).
Proof.
  intros t v d i p H. split; [exact (replace_in_only_empty_name t v d i p H)|].
  split; [apply replace_in_keeps_fields|apply is_empty_name_spec].
Qed.
Print Assumptions C12_default_name_only_name_field.

(* the stream interceptor works per message: for every sequence of messages received on one
   wrapped stream (client-streaming / bidi), each successfully received message -- the first and
   every later one -- is treated exactly as by the unary interceptor; a failed RecvMsg leaves the
   message alone *)
Theorem C12_stream_session_per_message : forall d rs i ok t v,
  nth_error rs i = Some (ok, t, v) ->
  nth_error (stream_session d rs) i = Some (if ok then unary_msg d t v else v).
Proof. exact stream_session_per_message. Qed.
Print Assumptions C12_stream_session_per_message.

(* every method of every trait service descriptor is forwarded by its checked-in router with the
   right shape (re-proved against the table regenerated from the working tree on every run) *)
Theorem C12_all_routed : forallb entry_ok table = true /\ orphan_routers = [].
Proof. exact all_routed. Qed.
Print Assumptions C12_all_routed.

Theorem C12_every_method_routed : forall e d, In e table -> In d (e_methods e) ->
  exists m, In m (e_rmethods e) /\ rm_name m = dm_name d /\ rm_stream m = dm_sstream d /\ rm_class m = 0 /\
            forall f, In f (if dm_sstream d then stream_feats else unary_feats) -> has_feat f m = true.
Proof. exact every_method_routed. Qed.
Print Assumptions C12_every_method_routed.

(* the defect of the pinned commit: the enter/leave sensor ApiRouter left two RPCs unrouted *)
Theorem C12_all_routed_v0_refuted :
  entry_ok enterleave_api_v0 = false /\
  exists d, In d (e_methods enterleave_api_v0) /\ method_routed enterleave_api_v0 d = false.
Proof. exact all_routed_v0_refuted. Qed.
Print Assumptions C12_all_routed_v0_refuted.

(* the predicate the judge evaluates on observations (C12_ok: replay of a plain functional map,
   exactly one call to the client it holds under the name with the caller's request, transcript
   conditions without the loop, NotFound touching nobody, log = the plain map's log) holds of the
   model on EVERY history of registry operations and RPCs on a generated router *)
Theorem C12_judge_sound : forall g first ops,
  C12_ok (KHist g first ops (snd (hrun g (init first) ops)) (slog (fst (hrun g (init first) ops)))) = true.
Proof. exact judge_sound_hist. Qed.
Print Assumptions C12_judge_sound.

Theorem C12_stream_ok_sound : forall c k, stream_ok c k (pump c k) = true.
Proof. exact stream_ok_sound. Qed.
Print Assumptions C12_stream_ok_sound.

(* non-vacuity *)
Example C12_nonvacuous_race :
  let g := mkCfg [] ["n"%string] in
  let G := grun g [TGet "n"; TGet "n"; TGet "n"]%string [0;1;2;0;1;2;2;1;0]%nat (ginit (init 1000) [TGet "n"; TGet "n"; TGet "n"]%string) in
  gpcs G = [PDone (RGet (Got 1002)); PDone (RGet (Got 1002)); PDone (RGet (Got 1002))] /\
  slog (gst G) = [mkChange "n" 0 1002 true] /\ snext (gst G) = 1003.
Proof. exact three_gets_race. Qed.
Example C12_nonvacuous_pump :
  let c := mkChild None None [("k"%string, ["v"%string])] [1; 2; 1] (Some (14, "gone"%string)) (Some [("t"%string, ["1"%string])]) in
  pump c cooperative = mkTr (Some [("k"%string, ["v"%string])]) [1; 2; 1] (Some [("t"%string, ["1"%string])]) (Some (14, "gone"%string)) false 4
  /\ t_msgs (pump c (mkCaller None (Some (1, (13, "full"%string))))) = [1] /\ t_cancelled (pump c (mkCaller None (Some (1, (13, "full"%string))))) = true.
Proof. vm_compute. repeat split. Qed.
Example C12_nonvacuous_default_seq :
  let a := mkT "vendor.a.ListThingsRequest" [mkF 1 "name" FString; mkF 2 "page_token" FString] in
  let b := mkT "vendor.b.ListThingsRequest" [mkF 1 "page_token" FString; mkF 2 "name" FString] in
  run_seq "dev" [(0, a, [(1, ""); (2, "")]); (1, b, [(1, ""); (2, "")]); (0, b, [(1, ""); (2, "x")]); (2, b, [(1, ""); (2, "")])]%string
  = [[(1, "dev"); (2, "")]; [(1, ""); (2, "dev")]; [(1, ""); (2, "x")]; [(1, ""); (2, "")]]%string.
Proof. vm_compute. reflexivity. Qed.
Example C12_nonvacuous_stream_session :
  let a := mkT "vendor.a.GetOnOffRequest" [mkF 1 "zone" FString; mkF 2 "name" FString] in
  stream_session "srv" [(true, a, [(1, ""); (2, "")]); (true, a, [(1, "z"); (2, "")]); (false, a, [(1, ""); (2, "")]); (true, a, [(1, ""); (2, "x")])]%string
  = [[(1, ""); (2, "srv")]; [(1, "z"); (2, "srv")]; [(1, ""); (2, "")]; [(1, ""); (2, "x")]]%string.
Proof. vm_compute. reflexivity. Qed.
Example C12_nonvacuous_table : (20 <? zlen table) = true /\
  existsb (fun e => existsb dm_sstream (e_methods e)) table = true /\
  existsb (fun e => existsb (fun d => negb (dm_sstream d)) (e_methods e)) table = true.
Proof. exact table_nonvacuous. Qed.
