(* C12 — Routers deliver each request to the client registered under its name.
   Theorems only; proofs live in Router/*Proofs.v.  Models: Router/Registry.v (router.go),
   Router/RouterGet.v (concurrent calls as an LTS over the lock-protected blocks),
   Router/Pump.v (generated forwarders), Router/NameDefault.v (default-name interceptor),
   Router/Table.v + Gen/Routers.v (descriptor methods vs checked-in routers, regenerated each run). *)
From Coq Require Import Permutation.
From SC Require Import Base.Prelude Router.Registry Router.RegistryProofs Router.RouterGet Router.RouterGetProofs
  Router.RouterCb Router.RouterCbProofs Router.RegistryW Router.RegistryWProofs
  Router.Pump Router.PumpProofs Router.NameDefault Router.NameDefaultProofs Router.NameTree Router.NameTreeProofs Router.Table Router.TableProofs Gen.Routers
  Router.Route Router.RouteW Router.RouteWProofs Router.C12Judge Router.C12JudgeProofs Router.C12SchedProofs
  Router.RouterCbW Router.RouterCbWProofs.

(* The registry is a map: for every operation sequence (Add/Remove/Has/Get with fallback and
   factory) results equal those of a plain functional map, whose final contents, change log and
   identity counter coincide with the registry's. *)
Theorem C12_registry_is_map : forall g ops first,
  snd (rrun g (init first) ops) = snd (prun g (mkP pempty [] first) ops) /\
  (forall k, find k (sreg (fst (rrun g (init first) ops))) = pm (fst (prun g (mkP pempty [] first) ops)) k) /\
  slog (fst (rrun g (init first) ops)) = plog (fst (prun g (mkP pempty [] first) ops)).
Proof.
  intros g ops first. destruct (registry_is_map g ops _ _ (R_init first)) as [H1 [H2 [H3 _]]]. auto.
Qed.
Print Assumptions C12_registry_is_map.

(* Change callbacks report exactly the transitions: replaying the log from the empty map gives
   the registry, and every entry's Old is the value it replaced (clients non-nil, as the
   generated routers enforce). *)
Theorem C12_log_is_transitions : forall g first ops, 0 < first -> ops_nonnil ops = true ->
  let s := fst (rrun g (init first) ops) in
  (forall k, replay (slog s) k = find k (sreg s)) /\ log_consistent pempty (slog s).
Proof. exact log_is_transitions. Qed.
Print Assumptions C12_log_is_transitions.

(* ... which fails for nil clients stored through the untyped Router.Add: the same log, two different registries *)
Theorem C12_log_is_transitions_nil_refuted :
  exists g ops1 ops2,
    slog (fst (rrun g (init 1) ops1)) = slog (fst (rrun g (init 1) ops2)) /\
    has "a" (fst (rrun g (init 1) ops1)) <> has "a" (fst (rrun g (init 1) ops2)).
Proof. exact log_nil_client_ambiguous. Qed.
Print Assumptions C12_log_is_transitions_nil_refuted.

Theorem C12_has_get_agree : forall g n s, has n s = true -> exists c, get g n s = (s, Got c) /\ find n (sreg s) = Some c.
Proof. exact has_get_agree. Qed.
Print Assumptions C12_has_get_agree.

(* a name with no client yields NotFound carrying the name and changes nothing *)
Theorem C12_notfound_touches_nothing : forall g n s s' m, get g n s = (s', NotFound m) -> s' = s /\ m = n.
Proof. exact notfound_touches_nothing. Qed.
Print Assumptions C12_notfound_touches_nothing.

(* Concurrent first Gets of one name, for EVERY schedule of any length over any number of threads
   (prefixes included): at most one client is ever committed for the name, the log gains exactly one
   Auto change iff one is committed, no other name changes, every thread that returned got that client. *)
Theorem C12_single_factory_commit : forall g n ths s0 sched,
  (forall k, In k ths -> k = TGet n) -> find n (sreg s0) = None -> invoke_fb g n = None ->
  mem_str n (fac_ok g) = true ->
  let G := grun g ths sched (ginit s0 ths) in
  let commit := find n (sreg (gst G)) in
  slog (gst G) = slog s0 ++ auto_entry n commit /\
  (forall k, String.eqb k n = false -> find k (sreg (gst G)) = find k (sreg s0)) /\
  (forall i r, nth_error (gpcs G) i = Some (PDone r) -> exists c, commit = Some c /\ r = RGet (Got c)).
Proof. intros g n ths s0 sched H1 H2 H3 H4. exact (single_factory_commit g n ths s0 H1 H2 H3 H4 sched). Qed.
Print Assumptions C12_single_factory_commit.

(* ... and once every thread has been scheduled three times all have returned the same client,
   with exactly one Auto change logged *)
Theorem C12_all_return_same_client : forall g n ths s0 sched,
  (forall k, In k ths -> k = TGet n) -> find n (sreg s0) = None -> invoke_fb g n = None ->
  mem_str n (fac_ok g) = true -> ths <> [] ->
  (forall j, (j < List.length ths)%nat -> (count_occ Nat.eq_dec sched j >= 3)%nat) ->
  let G := grun g ths sched (ginit s0 ths) in
  exists c, find n (sreg (gst G)) = Some c /\
            slog (gst G) = slog s0 ++ [mkChange n nil_client c true] /\
            gpcs G = map (fun _ => PDone (RGet (Got c))) ths.
Proof. intros g n ths s0 sched H1 H2 H3 H4 H5 H6. exact (all_return_same_client g n ths s0 H1 H2 H3 H4 sched H5 H6). Qed.
Print Assumptions C12_all_return_same_client.

(* without fallback and factory for the name, concurrent Gets return NotFound and change nothing *)
Theorem C12_concurrent_notfound_touches_nothing : forall g n ths s0 sched,
  (forall k, In k ths -> k = TGet n) -> find n (sreg s0) = None -> invoke_fb g n = None ->
  mem_str n (fac_ok g) = false ->
  let G := grun g ths sched (ginit s0 ths) in
  gst G = s0 /\ forall i r, nth_error (gpcs G) i = Some (PDone r) -> r = RGet (NotFound n).
Proof. intros g n ths s0 sched H1 H2 H3 H4. exact (concurrent_notfound_touches_nothing g n ths s0 H1 H2 H3 H4 sched). Qed.
Print Assumptions C12_concurrent_notfound_touches_nothing.

(* ---- callbacks run outside the lock (Router/RouterCb.v: the delivery of a callback is a step of
   its own, so other calls' blocks and callbacks can come between a commit and its report) ---- *)

(* "change callbacks report exactly the transitions", as a multiset, under EVERY schedule of any
   Get/Add/Remove threads on any names, at every moment: the transition log (commit order) is a
   permutation of the callbacks delivered so far plus the changes committed but not yet reported;
   once every call has returned, of the callbacks alone *)
Theorem C12_callbacks_are_transitions : forall g ths s0 sched,
  let G := cgrun g ths sched (cginit s0 ths) in
  Permutation (slog (cst G)) (ccbs G ++ pending (cpcs G)) /\
  (call_done G = true -> Permutation (slog (cst G)) (ccbs G)).
Proof. exact callbacks_are_transitions. Qed.
Print Assumptions C12_callbacks_are_transitions.

(* erasing the callback steps of any run gives a run of RouterGet.v's LTS (same registry, same
   results): the theorems above about concurrent Gets hold with callbacks outside the lock *)
Theorem C12_cb_run_erases : forall g ths s0 sched, exists sched',
  let G := cgrun g ths sched (cginit s0 ths) in
  let H := grun g ths sched' (ginit s0 ths) in
  gst H = cst G /\ gpcs H = map erase_pc (cpcs G).
Proof.
  intros g ths s0 sched. destruct (cb_run_erases g ths sched (cginit s0 ths)) as [sched' [H _]].
  exists sched'. rewrite erased_init in H. cbn zeta. rewrite <- H. split; reflexivity.
Qed.
Print Assumptions C12_cb_run_erases.

(* concurrent first Gets of one name with callbacks outside the lock, every schedule: single
   commit, everybody gets it, and (Gets alone) the callbacks are the transitions IN ORDER *)
Theorem C12_cb_single_factory_commit : forall g n ths s0 sched,
  (forall k, In k ths -> k = TGet n) -> find n (sreg s0) = None -> invoke_fb g n = None ->
  mem_str n (fac_ok g) = true ->
  let G := cgrun g ths sched (cginit s0 ths) in
  let commit := find n (sreg (cst G)) in
  slog (cst G) = slog s0 ++ auto_entry n commit /\
  (forall k, String.eqb k n = false -> find k (sreg (cst G)) = find k (sreg s0)) /\
  (forall i r, nth_error (cpcs G) i = Some (CDone r) -> exists c, commit = Some c /\ r = RGet (Got c)) /\
  (call_done G = true -> ccbs G = slog (cst G)).
Proof. intros g n ths s0 sched H1 H2 H3 H4. exact (cb_single_factory_commit g n ths s0 sched H1 H2 H3 H4). Qed.
Print Assumptions C12_cb_single_factory_commit.

(* The property fixes WHICH transitions are reported, not the order in which the callbacks of
   concurrent committers arrive.  Recorded as facts about the model (observations, not violations):
   two overlapping Adds of one name can report in the opposite order of their commits; every call
   has returned, and a consumer replaying the callbacks holds client 1 while the registry holds
   client 2 (same on the code, by parking the harness's onChange on entry) *)
Theorem C12_callback_order_not_guaranteed_add_add :
  exists g ths sched,
    let G := cgrun g ths sched (cginit (init 1000) ths) in
    call_done G = true /\ ccbs G <> slog (cst G) /\
    replay (ccbs G) "n"%string = Some 1 /\ find "n"%string (sreg (cst G)) = Some 2.
Proof. exact cb_order_not_guaranteed_add_add. Qed.
Print Assumptions C12_callback_order_not_guaranteed_add_add.

Theorem C12_callback_order_not_guaranteed_add_remove :
  exists g ths sched,
    let G := cgrun g ths sched (cginit (init 1000) ths) in
    call_done G = true /\ replay (ccbs G) "n"%string = Some 1 /\ find "n"%string (sreg (cst G)) = None.
Proof. exact cb_order_not_guaranteed_add_remove. Qed.
Print Assumptions C12_callback_order_not_guaranteed_add_remove.

Theorem C12_callback_order_not_guaranteed_get_remove :
  exists g ths sched,
    let G := cgrun g ths sched (cginit (init 1000) ths) in
    call_done G = true /\ replay (ccbs G) "n"%string = Some 1000 /\ find "n"%string (sreg (cst G)) = None.
Proof. exact cb_order_not_guaranteed_get_remove. Qed.
Print Assumptions C12_callback_order_not_guaranteed_get_remove.

(* the judge's computable multiset comparison is sound *)
Theorem C12_perm_eqb_sound : forall a b, perm_eqb a b = true -> Permutation a b.
Proof. exact perm_eqb_sound. Qed.
Print Assumptions C12_perm_eqb_sound.

(* ... and complete: perm_eqb decides multiset equality of change lists *)
Theorem C12_perm_eqb_complete : forall a b, perm_eqb a b = true <-> Permutation a b.
Proof. exact perm_eqb_iff. Qed.
Print Assumptions C12_perm_eqb_complete.

(* ---- per-call fallback/factory outcomes UNDER CONCURRENCY (Router/RouterCbW.v): every Get thread
   carries what ITS fallback call and ITS factory call return this time (nil,nil / nil,err /
   client+err / client,nil), the router is built from any subset of WithFallback / WithFactory;
   callbacks are steps of their own ---- *)

(* callbacks report exactly the transitions, for every schedule of any Get/Add/Remove threads with
   any per-call outcomes *)
Theorem C12_percall_callbacks_are_transitions : forall o ths s0 sched,
  let G := cgrunW o ths sched (cginitW s0 ths) in
  Permutation (slog (cst G)) (ccbs G ++ pending (cpcs G)) /\
  (call_done G = true -> Permutation (slog (cst G)) (ccbs G)).
Proof. exact callbacks_are_transitions_W. Qed.
Print Assumptions C12_percall_callbacks_are_transitions.

(* concurrent first Gets of one name whose fallback and factory calls may each end differently
   (a factory that returns client+error to one caller and a client to another, fails once and
   succeeds later, ...), EVERY schedule: at most one client is ever committed and exactly one Auto
   change logged iff one is; no other name changes; the committed client is what some thread's own
   factory call returned after its own fallback missed; every result is justified: the caller's own
   fallback client, or THE committed client, or NotFound when both of its own calls yielded nothing
   (even if another caller has committed meanwhile: Get does not look again); all calls returned =>
   the callbacks are the transitions in order *)
Theorem C12_percall_single_commit : forall o n ths s0,
  (forall k, In k ths -> exists fbo fao, k = WTGet n fbo fao) -> find n (sreg s0) = None ->
  forall sched,
  let G := cgrunW o ths sched (cginitW s0 ths) in
  let commit := find n (sreg (cst G)) in
  slog (cst G) = slog s0 ++ auto_entry n commit /\
  (forall k, String.eqb k n = false -> find k (sreg (cst G)) = find k (sreg s0)) /\
  (forall c, commit = Some c ->
     exists i fbo fao, nth_error ths i = Some (WTGet n fbo fao) /\
       fst (invoke_w (w_fb o) fbo) = None /\ fst (invoke_w (w_fac o) fao) = Some c) /\
  (forall i r fbo fao, nth_error (cpcs G) i = Some (CDone r) -> nth_error ths i = Some (WTGet n fbo fao) ->
     (exists c, r = RGet (Got c) /\ fst (invoke_w (w_fb o) fbo) = Some c) \/
     (exists c, r = RGet (Got c) /\ commit = Some c) \/
     (r = RGet (NotFound n) /\ fst (invoke_w (w_fb o) fbo) = None /\ fst (invoke_w (w_fac o) fao) = None)) /\
  (call_done G = true -> ccbs G = slog (cst G)).
Proof. exact single_commit_W. Qed.
Print Assumptions C12_percall_single_commit.

(* two callers whose own fallbacks missed and who both got a client got the SAME client, the one the registry holds *)
Theorem C12_percall_same_client : forall o n ths s0,
  (forall k, In k ths -> exists fbo fao, k = WTGet n fbo fao) -> find n (sreg s0) = None ->
  forall sched i j ci cj fboi faoi fboj faoj,
  let G := cgrunW o ths sched (cginitW s0 ths) in
  nth_error ths i = Some (WTGet n fboi faoi) -> nth_error ths j = Some (WTGet n fboj faoj) ->
  nth_error (cpcs G) i = Some (CDone (RGet (Got ci))) -> nth_error (cpcs G) j = Some (CDone (RGet (Got cj))) ->
  fst (invoke_w (w_fb o) fboi) = None -> fst (invoke_w (w_fb o) fboj) = None ->
  ci = cj /\ find n (sreg (cst G)) = Some ci.
Proof. exact no_fresh_client_after_commit_W. Qed.
Print Assumptions C12_percall_same_client.

(* ---- per-call fallback/factory outcomes and option subsets (Router/RegistryW.v) ---- *)

(* for every operation sequence on a router built from ANY subset of WithFallback / WithFactory /
   WithOnChange, where every Get has its own fallback and factory outcome (nil,nil / nil,err /
   client+err / client,nil -- a factory may fail now and succeed later, or hand out a client that
   is registered elsewhere): results, numbers of fallback/factory calls, final contents and change
   log are those of a plain functional map *)
Theorem C12_registryW_is_map : forall o ops,
  snd (wrun o (init 1) ops) = snd (prunW o (mkP pempty [] 1) ops) /\
  (forall k, find k (sreg (fst (wrun o (init 1) ops))) = pm (fst (prunW o (mkP pempty [] 1) ops)) k) /\
  slog (fst (wrun o (init 1) ops)) = plog (fst (prunW o (mkP pempty [] 1) ops)).
Proof.
  intros o ops. assert (H0 : RW (init 1) (mkP pempty [] 1)) by (split; auto).
  destruct (registryW_is_map o ops _ _ H0) as [H1 [H2 H3]]. auto.
Qed.
Print Assumptions C12_registryW_is_map.

(* registry first, then the fallback, then the factory; only a factory client is remembered, under
   the name asked for, with one Auto change; NotFound changes nothing *)
Theorem C12_getW_cases : forall o n fbo fao s,
  match find n (sreg s), (if w_fb o then yields fbo else None), (if w_fac o then yields fao else None) with
  | Some c, _, _ => getW o n fbo fao s = (s, WR (RGet (Got c)) 0 0)
  | None, Some c, _ => getW o n fbo fao s = (s, WR (RGet (Got c)) (if w_fb o then 1 else 0) 0)
  | None, None, Some c =>
      getW o n fbo fao s = (mkState (set n c (sreg s)) (slog s ++ [mkChange n nil_client c true]) (snext s),
                            WR (RGet (Got c)) (if w_fb o then 1 else 0) (if w_fac o then 1 else 0))
  | None, None, None => getW o n fbo fao s = (s, WR (RGet (NotFound n)) (if w_fb o then 1 else 0) (if w_fac o then 1 else 0))
  end.
Proof. exact getW_cases. Qed.
Print Assumptions C12_getW_cases.

Theorem C12_getW_call_counts : forall o n fbo fao s s' r k1 k2, getW o n fbo fao s = (s', WR r k1 k2) ->
  (k1 = 0 \/ k1 = 1) /\ (k2 = 0 \/ k2 = 1) /\
  (k1 = 1 -> w_fb o = true /\ find n (sreg s) = None) /\
  (k2 = 1 -> w_fac o = true /\ find n (sreg s) = None /\ (if w_fb o then yields fbo else None) = None).
Proof. exact getW_call_counts. Qed.
Print Assumptions C12_getW_call_counts.

(* Registry.v's Get (used by all theorems above) is the instance with the configuration's outcomes *)
Theorem C12_get_is_getW : forall g n s, 0 < snext s ->
  let '(s1, r1) := get g n s in
  let '(s2, WR r2 _ _) := getW (mkW true true true) n (fb_out g n) (fac_out g n s) s in
  sreg s1 = sreg s2 /\ slog s1 = slog s2 /\ RGet r1 = r2.
Proof. exact get_is_getW. Qed.
Print Assumptions C12_get_is_getW.

(* ---- the whole lookup chain router.Get -> GetXxxClient -> generated method (RouteW.v) ---- *)

(* router.Get has named results (child, err) assigned by three statements; invoke() hands the
   Factory's value back even when it judges the call a miss.  Whatever the fallback and the factory
   return -- nil,nil / nil,err / a client TOGETHER WITH an error / a client -- and whichever options
   the router was built with, Get's two results are exactly (client, nil) or (nil, NotFound name),
   as summarised by RegistryW.getW: nothing left over in the variables escapes. *)
Theorem C12_get_results_clean : forall o n fbo fao s,
  get_full o n fbo fao s =
  let '(s', WR r k1 k2) := getW o n fbo fao s in (s', results_of r, k1, k2).
Proof. exact get_full_is_getW. Qed.
Print Assumptions C12_get_results_clean.

(* Every history on a generated router -- typed Add (refuses nil) / Remove / Has, Router.Get,
   GetXxxClient, unary and server-streaming methods; any option subset; every lookup with its own
   fallback and factory outcome: the results (BOTH results of every Get, who was called with which
   request, the caller's transcript, the numbers of fallback and factory calls), the registry
   contents and the change log equal those of the plain functional map in which a Factory result
   counts as a client iff it is a non-nil value without an error. *)
Theorem C12_routeW_is_map : forall o fe ae ops,
  snd (xrun o fe ae (init 1) ops) = snd (prunX o (mkP pempty [] 1) ops) /\
  (forall k, find k (sreg (fst (xrun o fe ae (init 1) ops))) = pm (fst (prunX o (mkP pempty [] 1) ops)) k) /\
  slog (fst (xrun o fe ae (init 1) ops)) = plog (fst (prunX o (mkP pempty [] 1) ops)).
Proof.
  intros o fe ae ops. destruct (routeW_is_map o fe ae ops _ _ RW_init NN_init) as [H1 [[H2 H3] _]]. auto.
Qed.
Print Assumptions C12_routeW_is_map.

(* "a name with no client yields NotFound and touches no client", for every consumer of Get and
   every fallback/factory outcome: when neither the registry nor a configured fallback nor a
   configured factory yields a client (a client returned next to an error is not one), Router.Get
   and GetXxxClient return (nil, NotFound), every method answers NotFound having called nobody,
   and the router is unchanged. *)
Theorem C12_routeW_notfound_touches_nothing : forall o fe ae s n fbo fao,
  find n (sreg s) = None ->
  (if w_fb o then yields fbo else None) = None ->
  (if w_fac o then yields fao else None) = None ->
  let k1 := if w_fb o then 1 else 0 in
  let k2 := if w_fac o then 1 else 0 in
  xstep o fe ae s (XGetRaw n fbo fao) = (s, XGot nil_client (Some (not_found_code, n)) k1 k2)
  /\ xstep o fe ae s (XGetTyped n fbo fao) = (s, XGot nil_client (Some (not_found_code, n)) k1 k2)
  /\ (forall u, xstep o fe ae s (XUnary n fbo fao u) = (s, XCalled [] (not_found_tr n) k1 k2))
  /\ (forall c k, xstep o fe ae s (XStream n fbo fao c k) = (s, XCalled [] (not_found_tr n) k1 k2)).
Proof. exact routeW_notfound_touches_nothing. Qed.
Print Assumptions C12_routeW_notfound_touches_nothing.

(* the hypotheses are satisfiable by the interesting input: a factory that returns client 7 TOGETHER
   WITH an error (and a fallback that does the same with client 8) *)
Example C12_routeW_notfound_nonvacuous :
  find "bad"%string (sreg (init 1)) = None /\
  (if w_fb (mkW true true true) then yields (FBoth 8) else None) = None /\
  (if w_fac (mkW true true true) then yields (FBoth 7) else None) = None /\
  snd (xrun (mkW true true true) (14, "down"%string) (2, "refused"%string) (init 1)
         [XAdd "good" 3; XUnary "bad" (FBoth 8) (FBoth 7) (UResp 1); XGetTyped "bad" FNil (FBoth 7); XUnary "good" FNil FNil (UResp 1)]%string)
  = [XR (RClient 0); XCalled [] (not_found_tr "bad"%string) 1 1; XGot 0 (Some (5, "bad"%string)) 1 1;
     XCalled [(3, true, true)] (unary (UResp 1)) 0 0].
Proof. repeat split. Qed.

(* forwarded exactly once to the client the map yields, with the forwarder's transcript *)
Theorem C12_routeW_forwards_once : forall o fe ae s n fbo fao c s' k1 k2,
  c <> nil_client ->
  getW o n fbo fao s = (s', WR (RGet (Got c)) k1 k2) ->
  xstep o fe ae s (XGetTyped n fbo fao) = (s', XGot c None k1 k2)
  /\ (forall u, xstep o fe ae s (XUnary n fbo fao u) = (s', XCalled [(c, true, true)] (unary u) k1 k2))
  /\ (forall ch k, xstep o fe ae s (XStream n fbo fao ch k) = (s', XCalled [(c, true, true)] (pump ch k) k1 k2)).
Proof. exact routeW_forwards_once. Qed.
Print Assumptions C12_routeW_forwards_once.

(* no generated method ever calls a nil client *)
Theorem C12_routeW_no_nil_deref : forall o fe ae ops, ~ In XNilDeref (snd (xrun o fe ae (init 1) ops)).
Proof. exact routeW_no_nil_deref. Qed.
Print Assumptions C12_routeW_no_nil_deref.

(* the judge's predicate on these cases holds of the model on every history *)
Theorem C12_judge_sound_routew : forall o fe ae ops,
  C12_ok (KRouteW o fe ae ops (snd (xrun o fe ae (init 1) ops)) (wlog o (fst (xrun o fe ae (init 1) ops)))) = true.
Proof. exact judge_sound_routew. Qed.
Print Assumptions C12_judge_sound_routew.

(* THE JUDGE IS SOUND, every case kind: whenever the observation of the code agrees with the model
   and the case is inside the guard, the property predicate holds of the observation (boolean
   equalities reflect equality).  Guard: sequence/session cases -- every message type has at most
   one field called "name"; schedule cases -- identities are non-nil (factory identities start
   above 0, no Add(name, nil)); every other kind: no hypothesis.  For the two schedule kinds this
   rests on: completeness of perm_eqb / remove_all, the model-run theorems (single commit; nothing
   changes without a factory; erasure of callback steps; callbacks = transitions), positivity of
   factory identities along every run, and an invariant tying the callbacks delivered so far to
   what every finished call returned (Router/C12SchedProofs.v). *)
Theorem C12_judge_sound : forall c, C12_guard c = true -> agrees c = true -> C12_ok c = true.
Proof.
  intros c Hg Ha. destruct c.
  - apply judge_agrees_ok_hist; assumption.
  - apply judge_agrees_ok_sched; assumption.
  - apply judge_agrees_ok_schedcb; assumption.
  - apply judge_agrees_ok_regw; assumption.
  - apply judge_agrees_ok_schedw; assumption.
  - apply judge_agrees_ok_routew; assumption.
  - apply judge_agrees_ok_default; assumption.
  - apply judge_agrees_ok_default_stream; assumption.
  - apply judge_agrees_ok_seq; assumption.
  - apply judge_agrees_ok_session; assumption.
Qed.
Print Assumptions C12_judge_sound.

(* the schedule guard and the hypotheses are satisfiable by the interesting inputs: a callback
   schedule in which two Adds report in the opposite order of their commits, and three racing Gets *)
Example C12_judge_sched_nonvacuous :
  judge (KSchedCb (mkCfg [] []) 1000 [] [TAdd "n" 1; TAdd "n" 2]%string [0; 1; 1; 0]%nat
           [RClient 0; RClient 1] [mkChange "n" 1 2 false; mkChange "n" 0 1 false] [("n"%string, 2)]) = 0
  /\ judge (KSched (mkCfg [] ["n"%string]) 1000 [] [TGet "n"; TGet "n"; TGet "n"]%string [0;1;2;0;1;2;2;1;0]%nat
             [RGet (Got 1002); RGet (Got 1002); RGet (Got 1002)] [mkChange "n" 0 1002 true] [("n"%string, 1002)]) = 0
  /\ judge (KSched (mkCfg [] ["n"%string]) 0 [] [TGet "n"]%string [0;0;0]%nat
             [RGet (Got 0)] [mkChange "n" 0 0 true] [("n"%string, 0)]) = 1.
Proof. vm_compute. repeat split. Qed.

(* "no change is reported twice" cannot be demanded outright: three overlapping Add(n, 5) commit --
   and so report -- {n, 5 -> 5} twice.  cb_ok therefore demands distinct callbacks only when the
   transitions are distinct (its first version demanded them outright and was NOT implied by
   agreement with the model: found while proving C12_judge_sound) *)
Theorem C12_cb_report_twice_needs_commit_twice :
  let ths := [TAdd "n" 5; TAdd "n" 5; TAdd "n" 5]%string in
  let G := cgrun (mkCfg [] []) ths [0; 0; 1; 1; 2; 2]%nat (cginit (init 1000) ths) in
  call_done G = true /\ nodup_changes (ccbs G) = false /\ ccbs G = slog (cst G).
Proof. exact cb_report_twice_needs_commit_twice. Qed.
Print Assumptions C12_cb_report_twice_needs_commit_twice.

(* the guard is satisfiable by a non-trivial input (two types sharing a short name, name at
   different numbers), and an OK verdict means the guard held *)
Example C12_judge_guard_nonvacuous :
  C12_guard (KDefaultSeq "d" [(0, mkT "a.T" [mkF 1 "name" FString; mkF 2 "zone" FString], [(1, ""); (2, "")]);
                              (1, mkT "b.T" [mkF 1 "zone" FString; mkF 2 "name" FString], [(1, ""); (2, " ")])]%string
                         [[(1, "d"); (2, "")]; [(1, ""); (2, " ")]]%string) = true
  /\ judge (KDefaultSeq "d" [(0, mkT "a.T" [mkF 1 "name" FString; mkF 2 "zone" FString], [(1, ""); (2, "")]);
                              (1, mkT "b.T" [mkF 1 "zone" FString; mkF 2 "name" FString], [(1, ""); (2, " ")])]%string
                         [[(1, "d"); (2, "")]; [(1, ""); (2, " ")]]%string) = 0.
Proof. split; vm_compute; reflexivity. Qed.
Theorem C12_judge_ok_means_guard : forall c, judge c = 0 -> C12_guard c = true /\ agrees c = true /\ C12_ok c = true.
Proof.
  intros c. unfold judge. destruct (C12_guard c); [|discriminate].
  unfold verdict. destruct (agrees c), (C12_ok c); try discriminate; auto.
Qed.
Print Assumptions C12_judge_ok_means_guard.

(* blank is not empty: a name of white space only (" ", tab, U+00A0 as bytes) is left alone *)
Example C12_default_name_blank_not_empty :
  unary_interceptor "dflt" (mkReq (NameString " ") 7) = mkReq (NameString " ") 7 /\
  unary_interceptor "dflt" (mkReq (NameString (bytes_str [9])) 7) = mkReq (NameString (bytes_str [9])) 7 /\
  unary_interceptor "dflt" (mkReq (NameString (bytes_str [194; 160])) 7) = mkReq (NameString (bytes_str [194; 160])) 7 /\
  unary_interceptor "dflt" (mkReq (NameString "") 7) = mkReq (NameString "dflt") 7.
Proof. repeat split. Qed.

(* the stream pump is transparent: for every child script (k messages, header, trailer, error at
   any position, failure to open) the caller's transcript is the child's *)
Theorem C12_pump_transparent : forall c, hdr_err c = None -> pump c cooperative = direct c.
Proof. exact pump_transparent. Qed.
Print Assumptions C12_pump_transparent.

Theorem C12_pump_header_error : forall c k e, open_err c = None -> hdr_err c = Some e ->
  pump c k = mkTr None [] None (Some e) false 0.
Proof. exact pump_header_error. Qed.
Print Assumptions C12_pump_header_error.

(* a caller that cannot take the j-th message gets its own error back, has received exactly the
   j messages before it, and the child is cancelled *)
Theorem C12_pump_caller_send_error : forall c k j e,
  open_err c = None -> hdr_err c = None -> sendheader_err k = None -> send_err_at k = Some (j, e) ->
  0 <= j < zlen (msgs c) ->
  pump c k = mkTr (Some (hdr c)) (firstn (Z.to_nat j) (msgs c)) None (Some e) true (j + 1).
Proof. exact pump_caller_send_error. Qed.
Print Assumptions C12_pump_caller_send_error.

Theorem C12_unary_transparent : forall u,
  unary u = match u with UResp m => mkTr None [m] None None false 0 | UErr e => mkTr None [] None (Some e) false 0 end.
Proof. exact unary_transparent. Qed.
Print Assumptions C12_unary_transparent.

(* the default-name interceptor fills in only empty names and nothing else *)
Theorem C12_default_name_only_empty : forall r name,
  (shape r = NameString "" -> replace_empty_name r name = mkReq (NameString name) (payload r)) /\
  (shape r <> NameString "" -> replace_empty_name r name = r).
Proof. exact default_name_only_empty. Qed.
Print Assumptions C12_default_name_only_empty.

(* ... for every sequence of requests of arbitrary message types through one interceptor: each
   request is treated on its own (nothing carried over from earlier requests of whatever type; a
   failed RecvMsg leaves the message alone), field numbers and order are kept, and the only entry
   that can change is the singular string field called "name" of THIS message's type, when empty *)
Theorem C12_default_name_sequence : forall d steps i path t v,
  nth_error steps i = Some (path, t, v) ->
  nth_error (run_seq d steps) i = Some (if path =? 2 then v else replace_in t v d).
Proof. exact default_name_sequence. Qed.
Print Assumptions C12_default_name_sequence.

Theorem C12_default_name_only_name_field : forall t v d i p,
  nth_error v i = Some p ->
  nth_error (replace_in t v d) i = Some (if is_empty_name t p then (fst p, d) else p) /\
  map fst (replace_in t v d) = map fst v /\
  (is_empty_name t p = true <->
   exists f, name_field t = Some f /\ fk f = FString /\ fst p = fnum f /\ snd p = ""%string).
Proof.
  intros t v d i p H. split; [exact (replace_in_only_empty_name t v d i p H)|].
  split; [apply replace_in_keeps_fields|apply is_empty_name_spec].
Qed.
Print Assumptions C12_default_name_only_name_field.

(* ---- the default-name interceptor over message TREES (Router/NameTree.v): requests whose fields
   may be messages with their own types and their own "name" fields, lists, scalars ---- *)

(* fills in only an empty ROOT name: the i-th field of the root afterwards is the i-th field before,
   except that the singular string field called "name" of the root's type, when "", holds the default *)
Theorem C12_default_name_tree : forall d t fs i p, nth_error fs i = Some p ->
  nth_error (tfields_of (replace_tree d (MT t fs))) i = Some (if is_empty_name_t t p then (fst p, VStr d) else p) /\
  (forall n v, p = (n, v) ->
     (is_empty_name_t t p = true <-> exists f, name_field t = Some f /\ fk f = FString /\ n = fnum f /\ v = VStr "")).
Proof.
  intros d t fs i p H. split; [exact (replace_tree_fields d t fs i p H)|].
  intros n v ->. apply is_empty_name_t_spec.
Qed.
Print Assumptions C12_default_name_tree.

(* a nested message is never touched, whatever its own name field holds; neither is any repeated
   field, scalar (int32/bytes name) or non-empty string; type and field order are kept *)
Theorem C12_default_name_nested_untouched : forall d t fs i n v, nth_error fs i = Some (n, v) ->
  (forall s, v = VStr s -> s <> ""%string) ->
  nth_error (tfields_of (replace_tree d (MT t fs))) i = Some (n, v).
Proof. exact replace_tree_nested_untouched. Qed.
Print Assumptions C12_default_name_nested_untouched.

Theorem C12_default_name_tree_shape : forall d m,
  ttype_of (replace_tree d m) = ttype_of m /\ map fst (tfields_of (replace_tree d m)) = map fst (tfields_of m).
Proof. exact replace_tree_shape. Qed.
Print Assumptions C12_default_name_tree_shape.

(* no name field, or a name that is not a singular string: the request is returned as it came *)
Theorem C12_default_name_no_string_name : forall d t fs,
  (match name_field t with Some f => fk f <> FString | None => True end) -> replace_tree d (MT t fs) = MT t fs.
Proof. exact replace_tree_no_string_name. Qed.
Print Assumptions C12_default_name_no_string_name.

Theorem C12_default_name_idempotent : forall d m, replace_tree d (replace_tree d m) = replace_tree d m.
Proof. exact replace_tree_idempotent. Qed.
Print Assumptions C12_default_name_idempotent.

(* the field-level model the correspondence runs (NameDefault.replace_in on rendered fields) is the
   image of the tree model under any rendering that renders a string as itself *)
Theorem C12_default_name_tree_renders : forall (rend : fval -> string) d t fs,
  (forall s, rend (VStr s) = s) -> well_typed_name t fs ->
  map (fun p => (fst p, rend (snd p))) (tfields_of (replace_tree d (MT t fs))) =
  replace_in t (map (fun p => (fst p, rend (snd p))) fs) d.
Proof. exact replace_tree_renders_to_replace_in. Qed.
Print Assumptions C12_default_name_tree_renders.

Example C12_nonvacuous_default_tree :
  let inner := mkT "vendor.Inner" [mkF 1 "name" FString] in
  let outer := mkT "vendor.Outer" [mkF 1 "name" FString; mkF 2 "child" FOther; mkF 3 "title" FString] in
  replace_tree "dev" (MT outer [(1, VStr ""); (2, VMsg (Some (MT inner [(1, VStr "")]))); (3, VStr "")])
  = MT outer [(1, VStr "dev"); (2, VMsg (Some (MT inner [(1, VStr "")]))); (3, VStr "")].
Proof. vm_compute. reflexivity. Qed.

(* the stream interceptor works per message: for every sequence of messages received on one
   wrapped stream (client-streaming / bidi), each successfully received message -- the first and
   every later one -- is treated exactly as by the unary interceptor; a failed RecvMsg leaves the
   message alone *)
Theorem C12_stream_session_per_message : forall d rs i ok t v,
  nth_error rs i = Some (ok, t, v) ->
  nth_error (stream_session d rs) i = Some (if ok then unary_msg d t v else v).
Proof. exact stream_session_per_message. Qed.
Print Assumptions C12_stream_session_per_message.

(* every method of every trait service descriptor is forwarded by its checked-in router with the
   right shape (re-proved against the table regenerated from the working tree on every run) *)
Theorem C12_all_routed : forallb entry_ok table = true /\ orphan_routers = [].
Proof. exact all_routed. Qed.
Print Assumptions C12_all_routed.

Theorem C12_every_method_routed : forall e d, In e table -> In d (e_methods e) ->
  exists m, In m (e_rmethods e) /\ rm_name m = dm_name d /\ rm_stream m = dm_sstream d /\ rm_class m = 0 /\
            forall f, In f (if dm_sstream d then stream_feats else unary_feats) -> has_feat f m = true.
Proof. exact every_method_routed. Qed.
Print Assumptions C12_every_method_routed.

(* the defect of the pinned commit: the enter/leave sensor ApiRouter left two RPCs unrouted *)
Theorem C12_all_routed_v0_refuted :
  entry_ok enterleave_api_v0 = false /\
  exists d, In d (e_methods enterleave_api_v0) /\ method_routed enterleave_api_v0 d = false.
Proof. exact all_routed_v0_refuted. Qed.
Print Assumptions C12_all_routed_v0_refuted.

(* the predicate the judge evaluates on observations (C12_ok: replay of a plain functional map,
   exactly one call to the client it holds under the name with the caller's request, transcript
   conditions without the loop, NotFound touching nobody, log = the plain map's log) holds of the
   model on EVERY history of registry operations and RPCs on a generated router *)
Theorem C12_judge_sound_hist : forall g first ops,
  C12_ok (KHist g first ops (snd (hrun g (init first) ops)) (slog (fst (hrun g (init first) ops)))) = true.
Proof. exact judge_sound_hist. Qed.
Print Assumptions C12_judge_sound_hist.

Theorem C12_stream_ok_sound : forall c k, stream_ok c k (pump c k) = true.
Proof. exact stream_ok_sound. Qed.
Print Assumptions C12_stream_ok_sound.

(* non-vacuity *)
Example C12_nonvacuous_race :
  let g := mkCfg [] ["n"%string] in
  let G := grun g [TGet "n"; TGet "n"; TGet "n"]%string [0;1;2;0;1;2;2;1;0]%nat (ginit (init 1000) [TGet "n"; TGet "n"; TGet "n"]%string) in
  gpcs G = [PDone (RGet (Got 1002)); PDone (RGet (Got 1002)); PDone (RGet (Got 1002))] /\
  slog (gst G) = [mkChange "n" 0 1002 true] /\ snext (gst G) = 1003.
Proof. exact three_gets_race. Qed.
Example C12_nonvacuous_pump :
  let c := mkChild None None [("k"%string, ["v"%string])] [1; 2; 1] (Some (14, "gone"%string)) (Some [("t"%string, ["1"%string])]) in
  pump c cooperative = mkTr (Some [("k"%string, ["v"%string])]) [1; 2; 1] (Some [("t"%string, ["1"%string])]) (Some (14, "gone"%string)) false 4
  /\ t_msgs (pump c (mkCaller None (Some (1, (13, "full"%string))))) = [1] /\ t_cancelled (pump c (mkCaller None (Some (1, (13, "full"%string))))) = true.
Proof. vm_compute. repeat split. Qed.
Example C12_nonvacuous_default_seq :
  let a := mkT "vendor.a.ListThingsRequest" [mkF 1 "name" FString; mkF 2 "page_token" FString] in
  let b := mkT "vendor.b.ListThingsRequest" [mkF 1 "page_token" FString; mkF 2 "name" FString] in
  run_seq "dev" [(0, a, [(1, ""); (2, "")]); (1, b, [(1, ""); (2, "")]); (0, b, [(1, ""); (2, "x")]); (2, b, [(1, ""); (2, "")])]%string
  = [[(1, "dev"); (2, "")]; [(1, ""); (2, "dev")]; [(1, ""); (2, "x")]; [(1, ""); (2, "")]]%string.
Proof. vm_compute. reflexivity. Qed.
Example C12_nonvacuous_stream_session :
  let a := mkT "vendor.a.GetOnOffRequest" [mkF 1 "zone" FString; mkF 2 "name" FString] in
  stream_session "srv" [(true, a, [(1, ""); (2, "")]); (true, a, [(1, "z"); (2, "")]); (false, a, [(1, ""); (2, "")]); (true, a, [(1, ""); (2, "x")])]%string
  = [[(1, ""); (2, "srv")]; [(1, "z"); (2, "srv")]; [(1, ""); (2, "")]; [(1, ""); (2, "x")]]%string.
Proof. vm_compute. reflexivity. Qed.
Example C12_nonvacuous_table : (20 <? zlen table) = true /\
  existsb (fun e => existsb dm_sstream (e_methods e)) table = true /\
  existsb (fun e => existsb (fun d => negb (dm_sstream d)) (e_methods e)) table = true.
Proof. exact table_nonvacuous. Qed.
Example C12_nonvacuous_percall_race :
  let o := mkW true true true in
  let ths := [WTGet "n" FNil (FBoth 7); WTGet "n" FNil (FOk 8); WTGet "n" FErr (FOk 9)]%string in
  let G := cgrunW o ths [0;1;2;0;1;2;2;1;0;2;1]%nat (cginitW (init 1) ths) in
  cpcs G = [CDone (RGet (NotFound "n")); CDone (RGet (Got 9)); CDone (RGet (Got 9))]%string
  /\ slog (cst G) = [mkChange "n" 0 9 true] /\ ccbs G = [mkChange "n" 0 9 true].
Proof. vm_compute. repeat split. Qed.
(* the judge on concurrent Gets with per-call outcomes: the race above is accepted (verdict 0); an
   observation in which the caller whose factory returned client+error got that client is rejected
   by the predicate as well as by the comparison with the model (verdict 3) *)
Example C12_judge_schedw_nonvacuous :
  let o := mkW true true true in
  let ths := [WTGet "n" FNil (FBoth 7); WTGet "n" FNil (FOk 8); WTGet "n" FErr (FOk 9)]%string in
  judge (KSchedW o ths [0;1;2;0;1;2;2;1;0;2;1]%nat
           [RGet (NotFound "n"); RGet (Got 9); RGet (Got 9)]%string [mkChange "n" 0 9 true] [("n"%string, 9)]) = 0
  /\ judge (KSchedW o ths [0;1;2;0;1;2;2;1;0;2;1]%nat
           [RGet (Got 7); RGet (Got 9); RGet (Got 9)]%string [mkChange "n" 0 9 true] [("n"%string, 9)]) = 3.
Proof. vm_compute. split; reflexivity. Qed.
