(* C11 - Concurrent use of the public API is free of data races (Go memory model).
   Theorems only; proofs live in Race/LocksetProofs.v and Race/WitnessProofs.v.

   The abstract machine (Race/Lockset.v): threads issue lock operations, accesses at the sites of a
   lock table, channel closes and receives that observe a close; happens-before is program order
   plus unlock->lock, runlock->lock, unlock->rlock and close->receive.  A trace is well formed when
   it respects sync.RWMutex (an exclusive lock is taken only when nobody holds the lock, a read lock
   only when no writer does) and a receive observes a close only after the close.  An execution
   conforms to a table when every access holds the locks its site lists, has observed the closes its
   site lists, and precedes the closes its site lists (see [conform]).
   Gen/Locks.v is regenerated from the source on every run; Race/Known.v lists the recorded pairs. *)
From SC Require Import Base.Prelude Race.Lockset Race.LocksetProofs Race.WitnessProofs Race.Known
  Race.C11Judge Gen.Locks.

(* in every well-formed trace an exclusive holder of a lock is its only holder *)
Theorem C11_mutual_exclusion : forall p, wf p ->
  forall l t, (cnt p t l MX > 0)%nat -> forall u m, (u <> t \/ m = MR) -> cnt p u l m = 0%nat.
Proof. exact exclusion. Qed.
Print Assumptions C11_mutual_exclusion.

(* lock_orders: in every well-formed trace, two events of different threads made while holding a
   common lock, one of them exclusively, are ordered by happens-before (the earlier holder's release
   precedes the later holder's acquire) *)
Theorem C11_lock_orders : forall tr p t1 a1 q t2 a2 r l m1 m2,
  wf tr -> tr = p ++ (t1, a1) :: q ++ (t2, a2) :: r -> t1 <> t2 ->
  (cnt p t1 l m1 > 0)%nat -> (cnt (p ++ (t1, a1) :: q) t2 l m2 > 0)%nat -> (m1 = MX \/ m2 = MX) ->
  hb tr (List.length p) (List.length p + 1 + List.length q).
Proof. exact lock_orders. Qed.
Print Assumptions C11_lock_orders.

(* lockset_sound: if the table passes the check (up to the recorded pairs K), then in EVERY
   well-formed conforming execution any two conflicting accesses (same location, one a write) are
   ordered by happens-before - there is no data race - unless they are a recorded pair *)
Theorem C11_lockset_sound : forall K tb tr p t1 s1 q t2 s2 r,
  check_except K tb = true -> wf tr -> conform tb tr ->
  tr = p ++ (t1, Acc s1) :: q ++ (t2, Acc s2) :: r ->
  conflict s1 s2 = true ->
  hb tr (List.length p) (List.length p + 1 + List.length q) \/ is_known K s1 s2 = true.
Proof. exact lockset_sound. Qed.
Print Assumptions C11_lockset_sound.

(* with no recorded pairs: data-race freedom *)
Theorem C11_check_implies_drf : forall tb tr p t1 s1 q t2 s2 r,
  check tb = true -> wf tr -> conform tb tr ->
  tr = p ++ (t1, Acc s1) :: q ++ (t2, Acc s2) :: r ->
  conflict s1 s2 = true ->
  hb tr (List.length p) (List.length p + 1 + List.length q).
Proof.
  intros tb tr p t1 s1 q t2 s2 r C W F E X.
  destruct (lockset_sound [] tb tr p t1 s1 q t2 s2 r C W F E X) as [H|H]; [exact H|discriminate H].
Qed.
Print Assumptions C11_check_implies_drf.

(* the generated obligation: the table extracted from today's source keeps the discipline - the WHOLE
   table, no pair is excepted (Known.known_pairs = []) *)
Theorem C11_discipline_holds : check lock_table = true.
Proof. vm_compute. reflexivity. Qed.
Print Assumptions C11_discipline_holds.

(* hence: every execution of the machine over the generated table is free of data races *)
Theorem C11_source_table_drf : forall tr p t1 s1 q t2 s2 r,
  wf tr -> conform lock_table tr ->
  tr = p ++ (t1, Acc s1) :: q ++ (t2, Acc s2) :: r ->
  conflict s1 s2 = true ->
  hb tr (List.length p) (List.length p + 1 + List.length q).
Proof.
  intros tr p t1 s1 q t2 s2 r W F E X.
  destruct (lockset_sound [] lock_table tr p t1 s1 q t2 s2 r C11_discipline_holds W F E X) as [H|H];
    [exact H|discriminate H].
Qed.
Print Assumptions C11_source_table_drf.

(* refuted (v0, before the fix commits 07396f3 and 5a77f27): the sites as they were recorded
   (Known.sites_v0: the rng advanced under the read lock only, the unguarded trailer) fail the check,
   and every recorded pair is a conflicting, incompatible pair of those sites; the same sites as
   extracted after the repairs (sites_v1: rngMu / trailerM held exclusively) pass it. *)
Theorem C11_discipline_v0_refuted :
  check table_v0 = false /\ known_is_violation table_v0 known_pairs_v0 = true /\ check table_v1 = true.
Proof. split; [|split]; vm_compute; reflexivity. Qed.
Print Assumptions C11_discipline_v0_refuted.

(* refuted, at the level of executions: a write made under a read lock only (the shape of the rng
   site) has a well-formed conforming execution in which two writes are not ordered *)
Theorem C11_write_under_read_lock_refuted :
  check tbR = false /\ wf trR /\ conform tbR trR /\
  nth_error trR 5 = Some (1, Acc (wsite MR)) /\ nth_error trR 6 = Some (2, Acc (wsite MR)) /\
  conflict (wsite MR) (wsite MR) = true /\ ~ hb trR 5 6.
Proof.
  split; [exact check_tbR|]. split; [exact wf_trR|]. split; [exact conform_trR|].
  split; [reflexivity|]. split; [reflexivity|]. split; [reflexivity|exact trR_race].
Qed.
Print Assumptions C11_write_under_read_lock_refuted.

(* non-vacuity: a table that passes the check has a well-formed conforming execution with two
   threads writing the same location, and the theorem orders them *)
Example C11_nonvacuous_common_lock :
  check tbX = true /\ wf trX /\ conform tbX trX /\
  nth_error trX 4 = Some (1, Acc (wsite MX)) /\ nth_error trX 7 = Some (2, Acc (wsite MX)) /\ hb trX 4 7.
Proof.
  split; [exact check_tbX|]. split; [exact wf_trX|]. split; [exact conform_trX|].
  split; [reflexivity|]. split; [reflexivity|exact trX_ordered].
Qed.
Print Assumptions C11_nonvacuous_common_lock.

(* the judge used on the race-detector observations: verdict 0 on a pair means no race was seen
   on it, or it is a recorded pair that the table marks undisciplined *)
Theorem C11_judge_sound : forall loc fa fb raced,
  judge (KPair loc fa fb raced) = 0 ->
  raced = false \/ (pair_known known_pairs loc fa fb = true /\ pair_disciplined lock_table loc fa fb = false).
Proof.
  intros loc fa fb raced H. destruct raced; [|left; reflexivity]. right.
  unfold judge, agrees, C11_guard, C11_ok in H.
  destruct (pair_known known_pairs loc fa fb); destruct (pair_disciplined lock_table loc fa fb);
    cbn in H; try discriminate H; split; reflexivity.
Qed.
Print Assumptions C11_judge_sound.
