(* C11 - Concurrent use of the public API is free of data races (Go memory model).
   Theorems only; proofs live in Race/LocksetProofs.v and Race/WitnessProofs.v.

   The abstract machine (Race/Lockset.v): threads issue lock operations, accesses at the sites of a
   lock table, channel closes and receives that observe a close; happens-before is program order
   plus unlock->lock, runlock->lock, unlock->rlock and close->receive.  A trace is well formed when
   it respects sync.RWMutex (an exclusive lock is taken only when nobody holds the lock, a read lock
   only when no writer does) and a receive observes a close only after the close.  An execution
   conforms to a table when every access holds the locks its site lists, has observed the closes its
   site lists, and precedes the closes its site lists (see [conform]).
   Gen/Locks.v is regenerated from the source on every run; Race/Known.v lists the recorded pairs. *)
From SC Require Import Base.Prelude Race.Lockset Race.LocksetProofs Race.WitnessProofs Race.Known
  Race.C11Judge Race.JudgeProofs Race.Handoff Race.HandoffProofs Gen.Locks.

(* in every well-formed trace an exclusive holder of a lock is its only holder *)
Theorem C11_mutual_exclusion : forall p, wf p ->
  forall l t, (cnt p t l MX > 0)%nat -> forall u m, (u <> t \/ m = MR) -> cnt p u l m = 0%nat.
Proof. exact exclusion. Qed.
Print Assumptions C11_mutual_exclusion.

(* lock_orders: in every well-formed trace, two events of different threads made while holding a
   common lock, one of them exclusively, are ordered by happens-before (the earlier holder's release
   precedes the later holder's acquire) *)
Theorem C11_lock_orders : forall tr p t1 a1 q t2 a2 r l m1 m2,
  wf tr -> tr = p ++ (t1, a1) :: q ++ (t2, a2) :: r -> t1 <> t2 ->
  (cnt p t1 l m1 > 0)%nat -> (cnt (p ++ (t1, a1) :: q) t2 l m2 > 0)%nat -> (m1 = MX \/ m2 = MX) ->
  hb tr (List.length p) (List.length p + 1 + List.length q).
Proof. exact lock_orders. Qed.
Print Assumptions C11_lock_orders.

(* lockset_sound: if the table passes the check (up to the recorded pairs K), then in EVERY
   well-formed conforming execution any two conflicting accesses (same location, one a write) are
   ordered by happens-before - there is no data race - unless they are a recorded pair *)
Theorem C11_lockset_sound : forall K tb tr p t1 s1 q t2 s2 r,
  check_except K tb = true -> wf tr -> conform tb tr ->
  tr = p ++ (t1, Acc s1) :: q ++ (t2, Acc s2) :: r ->
  conflict s1 s2 = true ->
  hb tr (List.length p) (List.length p + 1 + List.length q) \/ is_known K s1 s2 = true.
Proof. exact lockset_sound. Qed.
Print Assumptions C11_lockset_sound.

(* with no recorded pairs: data-race freedom *)
Theorem C11_check_implies_drf : forall tb tr p t1 s1 q t2 s2 r,
  check tb = true -> wf tr -> conform tb tr ->
  tr = p ++ (t1, Acc s1) :: q ++ (t2, Acc s2) :: r ->
  conflict s1 s2 = true ->
  hb tr (List.length p) (List.length p + 1 + List.length q).
Proof.
  intros tb tr p t1 s1 q t2 s2 r C W F E X.
  destruct (lockset_sound [] tb tr p t1 s1 q t2 s2 r C W F E X) as [H|H]; [exact H|discriminate H].
Qed.
Print Assumptions C11_check_implies_drf.

(* the generated obligation: the table extracted from today's source keeps the discipline - the WHOLE
   table, no pair is excepted (Known.known_pairs = []) *)
Theorem C11_discipline_holds : check lock_table = true.
Proof. vm_compute. reflexivity. Qed.
Print Assumptions C11_discipline_holds.

(* hence: every execution of the machine over the generated table is free of data races *)
Theorem C11_source_table_drf : forall tr p t1 s1 q t2 s2 r,
  wf tr -> conform lock_table tr ->
  tr = p ++ (t1, Acc s1) :: q ++ (t2, Acc s2) :: r ->
  conflict s1 s2 = true ->
  hb tr (List.length p) (List.length p + 1 + List.length q).
Proof.
  intros tr p t1 s1 q t2 s2 r W F E X.
  exact (C11_check_implies_drf lock_table tr p t1 s1 q t2 s2 r C11_discipline_holds W F E X).
Qed.
Print Assumptions C11_source_table_drf.

(* refuted (v0, before the fix commits 07396f3 and 5a77f27): the sites as they were recorded
   (Known.sites_v0: the rng advanced under the read lock only, the unguarded trailer) fail the check,
   and every recorded pair is a conflicting, incompatible pair of those sites; the same sites as
   extracted after the repairs (sites_v1: rngMu / trailerM held exclusively) pass it. *)
Theorem C11_discipline_v0_refuted :
  check table_v0 = false /\ known_is_violation table_v0 known_pairs_v0 = true /\ check table_v1 = true.
Proof. split; [|split]; vm_compute; reflexivity. Qed.
Print Assumptions C11_discipline_v0_refuted.

(* refuted, at the level of executions: a write made under a read lock only (the shape of the rng
   site) has a well-formed conforming execution in which two writes are not ordered *)
Theorem C11_write_under_read_lock_refuted :
  check tbR = false /\ wf trR /\ conform tbR trR /\
  nth_error trR 5 = Some (1, Acc (wsite MR)) /\ nth_error trR 6 = Some (2, Acc (wsite MR)) /\
  conflict (wsite MR) (wsite MR) = true /\ ~ hb trR 5 6.
Proof.
  split; [exact check_tbR|]. split; [exact wf_trR|]. split; [exact conform_trR|].
  split; [reflexivity|]. split; [reflexivity|]. split; [reflexivity|exact trR_race].
Qed.
Print Assumptions C11_write_under_read_lock_refuted.

(* non-vacuity: a table that passes the check has a well-formed conforming execution with two
   threads writing the same location, and the theorem orders them *)
Example C11_nonvacuous_common_lock :
  check tbX = true /\ wf trX /\ conform tbX trX /\
  nth_error trX 4 = Some (1, Acc (wsite MX)) /\ nth_error trX 7 = Some (2, Acc (wsite MX)) /\ hb trX 4 7.
Proof.
  split; [exact check_tbX|]. split; [exact wf_trX|]. split; [exact conform_trX|].
  split; [reflexivity|]. split; [reflexivity|exact trX_ordered].
Qed.
Print Assumptions C11_nonvacuous_common_lock.

(* the abstract table theorem: a table that passes the check has, for EVERY pair of conflicting rows,
   a reason the model recognises: a common lock with one side exclusive, or an edge of the memory model
   one row precedes and the other has observed (channel close, go statement, WaitGroup Done -> Wait,
   publication of a constructed object), or both rows belong to one thread; [why] names the accepting
   branch and answers exactly when [compatible] accepts *)
Theorem C11_check_justifies : forall tb, check tb = true ->
  forall a b, In a (t_sites tb) -> In b (t_sites tb) -> conflict a b = true ->
  justified tb a b /\ exists r, why tb a b = Some r.
Proof. exact check_justifies. Qed.
Print Assumptions C11_check_justifies.

Theorem C11_why_iff_compatible : forall tb a b,
  compatible tb a b = true <-> exists r, why tb a b = Some r.
Proof. exact compatible_iff_why. Qed.
Print Assumptions C11_why_iff_compatible.

(* headline over the regenerated table: every pair of conflicting access sites extracted from today's
   source is justified by a lock or by a recognised happens-before edge, AND in every well-formed
   execution that conforms to the table the two accesses are ordered by happens-before *)
Theorem C11_table_pairs_ordered : forall a b,
  In a (t_sites lock_table) -> In b (t_sites lock_table) -> conflict a b = true ->
  (justified lock_table a b /\ exists r, why lock_table a b = Some r) /\
  forall tr p t1 q t2 r, wf tr -> conform lock_table tr ->
    tr = p ++ (t1, Acc a) :: q ++ (t2, Acc b) :: r ->
    hb tr (List.length p) (List.length p + 1 + List.length q).
Proof.
  intros a b Ia Ib Cn. split; [exact (check_justifies _ C11_discipline_holds a b Ia Ib Cn)|].
  intros tr p t1 q t2 r W F E. exact (C11_source_table_drf tr p t1 a q t2 b r W F E Cn).
Qed.
Print Assumptions C11_table_pairs_ordered.

(* the three r3 seed classes as the translator extracts them from the seeded trees (Known.seed_..._table): each
   breaks the table obligation, i.e. is caught without the detector *)
Theorem C11_seed_classes_refuted :
  check seed_commits_table = false /\ check seed_slice_table = false /\ check seed_header_table = false /\
  check seed_fixed_table = true.
Proof. repeat split; vm_compute; reflexivity. Qed.
Print Assumptions C11_seed_classes_refuted.

(* non-vacuity of the go-statement and WaitGroup edges: the rows of pkg/group's executeEach for the
   result channel (send in a member goroutine, close after all.Wait() in the closer goroutine) pass the
   check because of the WaitGroup edge, and a well-formed conforming execution orders them *)
Example C11_nonvacuous_waitgroup :
  check tbW = true /\ why tbW wg_send wg_close = Some (RWaitGroup (wg_chan "all" "G")) /\
  wf trW /\ conform tbW trW /\
  nth_error trW 5 = Some (2, Acc wg_send) /\ nth_error trW 10 = Some (3, Acc wg_close) /\ hb trW 5 10.
Proof.
  split; [exact check_tbW|]. split; [exact why_tbW|]. split; [exact wf_trW|]. split; [exact conform_trW|].
  split; [reflexivity|]. split; [reflexivity|exact trW_ordered].
Qed.
Print Assumptions C11_nonvacuous_waitgroup.

(* the judge used on the race-detector observations: verdict 0 on a pair means no race was seen
   on it, or it is a recorded pair that the table marks undisciplined *)
Theorem C11_judge_sound : forall loc fa fb raced,
  judge (KPair loc fa fb raced) = 0 ->
  raced = false \/ (pair_known known_pairs loc fa fb = true /\ pair_disciplined lock_table loc fa fb = false).
Proof. exact judge_pair_sound. Qed.
Print Assumptions C11_judge_sound.

(* and complete: since the table passes the check, every observation that agrees with the model
   satisfies the predicate (no race on a pair; no unjustified pair in the harness's histogram; no
   post-construction write without a reason) *)
Theorem C11_judge_complete : forall c, agrees c = true -> C11_guard c = true -> C11_ok c = true.
Proof. exact (judge_complete C11_discipline_holds). Qed.
Print Assumptions C11_judge_complete.

(* ---- message objects handed across a goroutine boundary (Race/Handoff.v) ----
   A value sent on a channel field is a location of its own ("<field>.msg").  The send -> receive edge is
   the publication edge of the machine: it orders what the sender did before the send, nothing orders what
   the sender's side does afterwards.  The rule "a pointer sent on a channel is either a fresh copy or never
   touched again by the sender", for ANY table that passes the check: a write row that meets a row using
   the received object with no lock and no close to follow is the making of a fresh copy (construction
   phase), or holds a lock, or precedes a close that the user has observed. *)
Theorem C11_handover_rule : forall tb, check tb = true ->
  forall k r, In k (t_sites tb) -> In r (t_sites tb) ->
  s_loc k = s_loc r -> is_write k = true -> plain_use r ->
  s_init k = true \/ s_locks k <> [] \/ observed_by r k.
Proof. exact handover_rule. Qed.
Print Assumptions C11_handover_rule.

(* the rows the translator writes: a kept reference next to a receive row breaks the check of ANY table
   that contains them; a copy row and a receive row are compatible in any table, by publication *)
Theorem C11_handover_kept_reference_breaks_check : forall tb ch fk pk fr pr,
  In (keep_site ch fk pk) (t_sites tb) -> In (recv_site ch fr pr) (t_sites tb) -> check tb = false.
Proof. exact keep_site_breaks_check. Qed.
Print Assumptions C11_handover_kept_reference_breaks_check.

Theorem C11_handover_copy_passes : forall tb ch fc pc fr pr,
  compatible tb (copy_site ch fc pc) (recv_site ch fr pr) = true /\
  why tb (copy_site ch fc pc) (recv_site ch fr pr) = Some RPublish /\
  compatible tb (copy_site ch fc pc) (copy_site ch fc pc) = true.
Proof. exact copy_site_passes. Qed.
Print Assumptions C11_handover_copy_passes.

(* on the regenerated table: every write row of an object that some row uses after receiving it is a copy
   (or locked / observed); the hypotheses are met by the rows of pkg/wrap's clientSend and serverSend *)
Theorem C11_handover_table : forall k r, In k (t_sites lock_table) -> In r (t_sites lock_table) ->
  s_loc k = s_loc r -> is_write k = true -> plain_use r ->
  s_init k = true \/ s_locks k <> [] \/ observed_by r k.
Proof. exact (handover_rule lock_table C11_discipline_holds). Qed.
Print Assumptions C11_handover_table.

Example C11_nonvacuous_handover_table : (2 <=? handover_pairs lock_table) = true.
Proof. vm_compute. reflexivity. Qed.
Print Assumptions C11_nonvacuous_handover_table.

(* at the level of executions: the sender hands over its caller's object, the receiver reads it, the caller
   - whose call was abandoned - writes it: a well-formed conforming execution with a data race *)
Theorem C11_handover_kept_reference_refuted :
  check tbKeep = false /\ wf trKeep /\ conform tbKeep trKeep /\
  nth_error trKeep 3 = Some (2, Acc h_recv) /\ nth_error trKeep 4 = Some (1, Acc h_keep) /\
  conflict h_recv h_keep = true /\ ~ hb trKeep 3 4.
Proof.
  split; [exact check_tbKeep|]. split; [exact wf_trKeep|]. split; [exact conform_trKeep|].
  split; [reflexivity|]. split; [reflexivity|]. split; [reflexivity|exact trKeep_race].
Qed.
Print Assumptions C11_handover_kept_reference_refuted.

(* and the copy: the check passes, the making of the copy and the receiver's read are ordered *)
Example C11_nonvacuous_handover_copy :
  check tbCopy = true /\ wf trCopy /\ conform tbCopy trCopy /\
  nth_error trCopy 0 = Some (1, Acc h_copy) /\ nth_error trCopy 3 = Some (2, Acc h_recv) /\
  conflict h_copy h_recv = true /\ hb trCopy 0 3.
Proof.
  split; [exact check_tbCopy|]. split; [exact wf_trCopy|]. split; [exact conform_trCopy|].
  split; [reflexivity|]. split; [reflexivity|]. split; [reflexivity|exact trCopy_ordered].
Qed.
Print Assumptions C11_nonvacuous_handover_copy.

(* the rows the translator extracts from the tree of seeded change C11-r4-3 (unary Invoke hands args over
   as it is) fail the check; the rows of the unchanged tree pass *)
Theorem C11_seed_r4_3_refuted : check seed_handoff_table = false /\ check fixed_handoff_table = true.
Proof. exact seed_handoff_refuted. Qed.
Print Assumptions C11_seed_r4_3_refuted.

(* a borrowed message parameter captured by a goroutine (location "<Func>.<param>.*"): the goroutine's use and
   the owner's next write after the function returned are unordered unless the function waits for the goroutine
   (rows of self-mutation M4: the handler goroutine of a unary Invoke reads args itself) *)
Theorem C11_borrowed_parameter_refuted : check lend_table = false /\ check lend_waited_table = true /\
  why lend_waited_table (nth 0 (t_sites lend_waited_table) h_recv) (nth 1 (t_sites lend_waited_table) h_recv)
    = Some (RWaitGroup "wg:wg@wrap.wrapper.Invoke@62"%string).
Proof. exact lend_refuted. Qed.
Print Assumptions C11_borrowed_parameter_refuted.
