(* The filtered chain (PipeHeld.v fstep) terminates after the close like the plain one: every step
   makes pmeasure smaller, whatever the filters deliver, rewrite or suppress.  Proofs. *)
From SC Require Import Base.Prelude Resource.Impl Resource.Pull Bus.Bus Bus.Pipe Bus.BusProofs Bus.PipeProofs Bus.PipeHeld.
Local Open Scope nat_scope.

Lemma fstep_decreases : forall cfg F a F',
  p_src_closed (fp F) = true -> p_cancel (fp F) = true -> fstep cfg F a = Some F' ->
  pmeasure (fp F') < pmeasure (fp F) /\ p_src_closed (fp F') = true /\ p_cancel (fp F') = true.
Proof.
  intros cfg F a F' Hc Hk H.
  assert (forall o, lift (fh F) o = Some F' -> (exists p', o = Some p' /\ fp F' = p')) as Hl.
  { intros o Ho. destruct o as [p'|]; simpl in Ho; inversion Ho; subst. eexists. split; reflexivity. }
  assert (forall a0, lift (fh F) (pstep (fp F) a0) = Some F' ->
            pmeasure (fp F') < pmeasure (fp F) /\ p_src_closed (fp F') = true /\ p_cancel (fp F') = true) as Hp.
  { intros a0 H0. destruct (Hl _ H0) as (p' & Hs & ->). eapply (pstep_decreases true); eauto. }
  unfold fstep in H. destruct a; try (apply (Hp _ H)).
  - (* PSrc *)
    destruct (stage_at (fp F) 0) as [st|] eqn:E0; [|apply (Hp _ H)].
    destruct st; try (apply (Hp _ H)). destruct seeds; [|apply (Hp _ H)]. destruct cur; [apply (Hp _ H)|].
    rewrite Hc in H. discriminate.
  - (* PXfer *)
    destruct (stage_at (fp F) i) as [st|] eqn:Hst; [|apply (Hp _ H)].
    destruct (stage_at (fp F) (S i)) as [nx|] eqn:Hnx; [|apply (Hp _ H)].
    destruct nx; try (apply (Hp _ H)). destruct seeds; [|apply (Hp _ H)]. destruct cur; [apply (Hp _ H)|].
    destruct (offer st) as [m|] eqn:Ho; [|discriminate].
    destruct (offer_sent _ _ Ho) as (Hnd & Hnd' & Hpd).
    unfold stage_at in Hst, Hnx. unfold pmeasure.
    pose proof (weight_upd _ _ _ (sent st) Hst) as W1.
    pose proof (nth_some_lt _ _ _ Hnx) as Hlt.
    remember (List.length (p_stages (fp F)) - S i - 1) as k.
    replace (List.length (p_stages (fp F)) - i - 1) with (S k) in W1 by lia.
    destruct (fwd_in cfg (fh F) m) as [o h']. destruct o as [m'|]; inversion H; subst F'; clear H; cbn [fp p_stages p_src_closed p_cancel set_stage].
    + split; auto.
      assert (Hnx' : nth_error (upd (p_stages (fp F)) i (sent st)) (S i) = Some (StFwd [] None)).
      { rewrite nth_upd_neq by lia. auto. }
      pose proof (weight_upd _ _ _ (StFwd [] (Some m')) Hnx') as W2. rewrite upd_length in W2.
      rewrite <- Heqk in W2. unfold sw in *. rewrite Hnd, Hnd' in W1. cbn [is_done pend List.length] in W2. nia.
    + split; auto. unfold sw in W1. rewrite Hnd, Hnd' in W1. nia.
Qed.

(* every schedule of the filtered chain after the close is at most pmeasure long *)
Theorem fpipe_terminates : forall cfg tr F F',
  p_src_closed (fp F) = true -> p_cancel (fp F) = true -> frun cfg F tr = Some F' ->
  List.length tr + pmeasure (fp F') <= pmeasure (fp F).
Proof.
  intros cfg tr. induction tr; simpl; intros F F' Hc Hk H.
  - inversion H. lia.
  - destruct (fstep cfg F a) eqn:E; try discriminate.
    destruct (fstep_decreases _ _ _ _ Hc Hk E) as (Hm & Hc' & Hk').
    specialize (IHtr _ _ Hc' Hk' H). lia.
Qed.

(* exits are not touched by the filters: a stage of the filtered chain returns exactly when the
   plain one does, so the per-stage exit theorems (PipeStages) and progress carry over *)
Theorem fstep_exit_is_pstep : forall cfg F i,
  fstep cfg F (PExit i) = lift (fh F) (pstep (fp F) (PExit i)) /\
  fstep cfg F PCancel = lift (fh F) (pstep (fp F) PCancel) /\
  fstep cfg F PSrcClose = lift (fh F) (pstep (fp F) PSrcClose).
Proof. intros. repeat split; reflexivity. Qed.

(* a hand-over the plain chain can make, the filtered chain can make (into a forwarder it goes
   through the filters, which always answer: taken or skipped) *)
Lemma fstep_xfer_enabled : forall cfg F i p', pstep (fp F) (PXfer i) = Some p' ->
  exists F', fstep cfg F (PXfer i) = Some F'.
Proof.
  intros cfg F i p' H. unfold fstep.
  destruct (stage_at (fp F) i) as [st|] eqn:Hst; [|rewrite H; simpl; eauto].
  destruct (stage_at (fp F) (S i)) as [nx|] eqn:Hnx; [|rewrite H; simpl; eauto].
  destruct nx; try (rewrite H; simpl; eauto; fail).
  destruct seeds; [|rewrite H; simpl; eauto]. destruct cur; [rewrite H; simpl; eauto|].
  destruct (offer st) as [m|] eqn:Ho.
  - destruct (fwd_in cfg (fh F) m) as [o h']. destruct o; eauto.
  - exfalso. unfold pstep in H. cbv beta iota delta [pstep_gen] in H. rewrite Hst, Ho in H. discriminate.
Qed.

(* progress: while a stage is left after the close, a stage can return or hand on *)
Theorem fpipe_progress : forall cfg F,
  p_src_closed (fp F) = true -> p_cancel (fp F) = true -> after_ok (p_stages (fp F)) = true ->
  all_stages_done (fp F) = false ->
  exists i F', fstep cfg F (PExit i) = Some F' \/ fstep cfg F (PXfer i) = Some F'.
Proof.
  intros cfg F Hc Hk Hok Hd. destruct (pipe_progress true (fp F) Hc Hk Hok Hd) as (i & p' & [H|H]).
  - exists i, (mkFP p' (fh F)). left. unfold fstep. fold (pstep (fp F) (PExit i)). unfold pstep. rewrite H. reflexivity.
  - destruct (fstep_xfer_enabled cfg F i p' H) as (F' & HF). exists i, F'. right. exact HF.
Qed.

(* so a schedule of the filtered chain that cannot be continued has ended every goroutine *)
Theorem fpipe_maximal_ends : forall cfg F,
  p_src_closed (fp F) = true -> p_cancel (fp F) = true -> after_ok (p_stages (fp F)) = true ->
  (forall i, fstep cfg F (PExit i) = None /\ fstep cfg F (PXfer i) = None) -> all_stages_done (fp F) = true.
Proof.
  intros cfg F Hc Hk Hok Hmax. destruct (all_stages_done (fp F)) eqn:E; auto.
  destruct (fpipe_progress cfg F Hc Hk Hok E) as (i & F' & H). destruct (Hmax i) as (M1 & M2).
  destruct H as [H|H]; congruence.
Qed.

(* the chain shape changesAfter relies on is kept by every step of the filtered chain *)
Theorem fstep_after_ok : forall cfg F a F',
  after_ok (p_stages (fp F)) = true -> fstep cfg F a = Some F' -> after_ok (p_stages (fp F')) = true.
Proof.
  intros cfg F a F' Hok H.
  assert (forall a0, lift (fh F) (pstep (fp F) a0) = Some F' -> after_ok (p_stages (fp F')) = true) as Hp.
  { intros a0 H0. destruct (pstep (fp F) a0) as [p'|] eqn:E; simpl in H0; inversion H0; subst. cbn [fp].
    eapply (after_ok_step true); eauto. }
  unfold fstep in H. destruct a; try (apply (Hp _ H)).
  - destruct (stage_at (fp F) 0) as [st|] eqn:E0; [|apply (Hp _ H)].
    destruct st; try (apply (Hp _ H)). destruct seeds; [|apply (Hp _ H)]. destruct cur; [apply (Hp _ H)|].
    destruct (p_src_closed (fp F)); [discriminate|].
    destruct (fwd_in cfg (fh F) m) as [o h']. destruct o as [m'|]; inversion H; subst; cbn [fp]; auto.
    cbn [set_stage p_stages]. apply (after_ok_upd_same _ _ (StFwd [] None) (StFwd [] (Some m'))); auto. exact I.
  - destruct (stage_at (fp F) i) as [st|] eqn:Hst; [|apply (Hp _ H)].
    destruct (stage_at (fp F) (S i)) as [nx|] eqn:Hnx; [|apply (Hp _ H)].
    destruct nx; try (apply (Hp _ H)). destruct seeds; [|apply (Hp _ H)]. destruct cur; [apply (Hp _ H)|].
    destruct (offer st) as [m|] eqn:Ho; [|discriminate].
    destruct (sent_shape st) as (S1 & S2). unfold stage_at in Hst, Hnx.
    assert (Hok1 : after_ok (upd (p_stages (fp F)) i (sent st)) = true) by (apply (after_ok_upd_same _ _ st (sent st)); auto).
    destruct (fwd_in cfg (fh F) m) as [o h']. destruct o as [m'|]; inversion H; subst; cbn [fp set_stage p_stages]; auto.
    apply (after_ok_upd_same _ _ (StFwd [] None) (StFwd [] (Some m'))); auto; [|exact I].
    rewrite nth_upd_neq by lia. auto.
Qed.

(* composition for the filtered chain: after the close a complete schedule exists, at most pmeasure
   long, ending with every goroutine gone *)
Lemma fpipe_drains_aux : forall cfg n F, pmeasure (fp F) <= n ->
  p_src_closed (fp F) = true -> p_cancel (fp F) = true -> after_ok (p_stages (fp F)) = true ->
  exists tr F', frun cfg F tr = Some F' /\ all_stages_done (fp F') = true /\ List.length tr <= pmeasure (fp F).
Proof.
  induction n; intros F Hm Hc Hk Hok.
  - destruct (all_stages_done (fp F)) eqn:E.
    + exists [], F. simpl. repeat split; auto. lia.
    + destruct (fpipe_progress cfg F Hc Hk Hok E) as (i & F1 & H).
      assert (exists a, fstep cfg F a = Some F1) as (a & Ha) by (destruct H; eauto).
      destruct (fstep_decreases _ _ _ _ Hc Hk Ha) as (Hlt & _). lia.
  - destruct (all_stages_done (fp F)) eqn:E.
    + exists [], F. simpl. repeat split; auto. lia.
    + destruct (fpipe_progress cfg F Hc Hk Hok E) as (i & F1 & H).
      assert (exists a, fstep cfg F a = Some F1) as (a & Ha) by (destruct H; eauto).
      destruct (fstep_decreases _ _ _ _ Hc Hk Ha) as (Hlt & Hc1 & Hk1).
      pose proof (fstep_after_ok _ _ _ _ Hok Ha) as Hok1.
      destruct (IHn F1) as (tr & F' & Hr & Hd & Hlen); auto; [lia|].
      exists (a :: tr), F'. simpl. rewrite Ha. repeat split; auto. lia.
Qed.

Theorem fpipe_all_end : forall cfg F,
  p_src_closed (fp F) = true -> p_cancel (fp F) = true -> after_ok (p_stages (fp F)) = true ->
  (exists tr F', frun cfg F tr = Some F' /\ all_stages_done (fp F') = true /\ List.length tr <= pmeasure (fp F)) /\
  (forall tr F', frun cfg F tr = Some F' -> List.length tr + pmeasure (fp F') <= pmeasure (fp F)) /\
  ((forall i, fstep cfg F (PExit i) = None /\ fstep cfg F (PXfer i) = None) -> all_stages_done (fp F) = true).
Proof.
  intros cfg F Hc Hk Hok. split; [apply (fpipe_drains_aux cfg (pmeasure (fp F))); auto|].
  split; [intros tr F' H; eapply fpipe_terminates; eauto|]. apply fpipe_maximal_ends; auto.
Qed.
