(* Proofs about the composed model Res.v (writers / readers / subscribers of a resource over the
   bus of Bus.v).  Everything is proved for both values of [ts] (with and without the
   publishing turnstile). *)
From SC Require Import Base.Prelude Bus.Bus Bus.BusProofs Bus.Res.
Local Open Scope nat_scope.
Local Arguments step : simpl never.
Local Arguments Nat.eqb : simpl never.
Local Arguments Nat.ltb : simpl never.

Inductive rreach (ts : bool) (n : nat) : res -> Prop :=
| rreach_init : rreach ts n (rinit n)
| rreach_step : forall C a C', rreach ts n C -> rstep ts C a = Some C' -> rreach ts n C'.

Lemma rrun_app : forall ts tr C a,
  rrun ts C (tr ++ [a]) = match rrun ts C tr with Some C' => rstep ts C' a | None => None end.
Proof. induction tr; simpl; intros; destruct (rstep ts C a); auto. Qed.

Lemma rrun_rreach : forall ts n tr C, rrun ts (rinit n) tr = Some C -> rreach ts n C.
Proof.
  intros ts n tr. induction tr using rev_ind; intros C H.
  - simpl in H. inversion H. constructor.
  - rewrite rrun_app in H. destruct (rrun ts (rinit n) tr) eqn:E; try discriminate.
    eapply rreach_step; eauto.
Qed.

Lemma rreach_rrun : forall ts n C C' tr, rreach ts n C -> rrun ts C tr = Some C' -> rreach ts n C'.
Proof.
  intros ts n C C' tr. revert C. induction tr; simpl; intros C Hr H.
  - inversion H. subst. auto.
  - destruct (rstep ts C a) eqn:E; try discriminate. apply (IHtr r); [eapply rreach_step; eauto | auto].
Qed.

Lemma reach_has_run : forall n c, reach n c -> exists tr, run (init n) tr = Some c.
Proof.
  induction 1.
  - exists []. reflexivity.
  - destruct IHreach as (tr & Htr). exists (tr ++ [a]). rewrite run_app, Htr. auto.
Qed.

(* ---------- how one step changes the parts ---------- *)
(* what a step does to the writers: at most one pc changes *)
Definition wchange (ts : bool) (C C' : res) : Prop :=
  rw C' = rw C \/ exists w p p', nth_error (rw C) w = Some p /\ rw C' = upd (rw C) w p'.

Ltac brs H := unfold set_w in H;
  repeat match type of H with
  | match ?x with _ => _ end = Some _ => destruct x eqn:?; try discriminate H
  | (if ?x then _ else _) = Some _ => destruct x eqn:?; try discriminate H
  end; inversion H; subst; clear H.

(* the bus part moves by a bus step, or not at all *)
Lemma rstep_bus : forall ts C a C', rstep ts C a = Some C' ->
  rb C' = rb C \/ exists b, step (rb C) b = Some (rb C').
Proof.
  intros ts C a C' H. destruct a; simpl in H; brs H; simpl; eauto.
  right. exists LListen. reflexivity.
Qed.

Lemma rreach_bus : forall ts n C, rreach ts n C -> reach n (rb C).
Proof.
  induction 1.
  - constructor.
  - destruct (rstep_bus _ _ _ _ H0) as [->|(b & Hb)]; auto. eapply reach_step; eauto.
Qed.

Lemma rw_length : forall ts n C, rreach ts n C -> List.length (rw C) = List.length (ss (rb C)) /\ List.length (rw C) = n.
Proof.
  induction 1.
  - simpl. rewrite !repeat_length. auto.
  - destruct IHrreach as (I1 & I2).
    assert (List.length (rw C') = List.length (rw C)) as E1.
    { destruct a; simpl in H0; brs H0; simpl; rewrite ?upd_length; auto. }
    assert (List.length (ss (rb C')) = List.length (ss (rb C))) as E2.
    { destruct (rstep_bus _ _ _ _ H0) as [->|(b & Hb)]; auto. eapply step_ss_length; eauto. }
    split; congruence.
Qed.

(* a sender that is idle stays idle unless it is called *)
Lemma idle_stays : forall c b c' w X, step c b = Some c' -> b <> LCall w ->
  nth_error (ss c) w = Some X -> s_pc X = SIdle ->
  exists X', nth_error (ss c') w = Some X' /\ s_pc X' = SIdle.
Proof.
  intros c b c' w X H Hb HX Hpc.
  destruct b; unfold step in H; break_step H; unfold set_s, set_l; cbn [ss]; eauto;
    match goal with |- context [upd (ss c) ?s _] =>
      destruct (Nat.eq_dec s w) as [->|Hne];
      [ try congruence; same_k; try congruence
      | rewrite nth_upd_neq by auto; eauto ] end.
  rewrite nth_upd_eq by (eapply nth_some_lt; eauto). eexists. split; [reflexivity|]. auto.
Qed.

Lemma listen_ss : forall c c', step c LListen = Some c' -> ss c' = ss c /\ ls c' = ls c ++ [new_listener] /\ blist c' = blist c.
Proof. intros c c' H. unfold step in H. inversion H. auto. Qed.

Lemma register_ss : forall c k c', step c (LRegister k) = Some c' ->
  ss c' = ss c /\ exists L, nth_error (ls c) k = Some L /\ l_reg L = false /\
    ls c' = upd (ls c) k (mkL (l_cancel L) (l_closed L) (l_w L) true (l_rcv L) (l_sawclose L) (l_log L)).
Proof.
  intros c k c' H. unfold step in H. destruct (nth_error (ls c) k) as [L|] eqn:E; try discriminate.
  destruct (l_reg L) eqn:R; inversion H. simpl. split; auto. exists L. auto.
Qed.

(* ---------- invariant 1: a writer outside bus.Send has an idle bus sender ---------- *)
Definition inv_idle (C : res) : Prop :=
  forall w p X, nth_error (rw C) w = Some p -> in_send p = false ->
    nth_error (ss (rb C)) w = Some X -> s_pc X = SIdle.

Lemma inv_idle_step : forall ts C a C', inv_idle C -> rstep ts C a = Some C' -> inv_idle C'.
Proof.
  unfold inv_idle. intros ts C a C' I H w p X Hp Hs HX.
  destruct a; simpl in H; brs H; cbn [rb rw] in *;
    try solve [eapply I; eauto];
    try solve [apply nth_upd in Hp; destruct Hp as [(-> & -> & _)|(_ & Hp)];
               [eapply I; eauto; reflexivity | eapply I; eauto]].
  - (* RBus *)
    destruct (nth_error (ss (rb C)) w) as [X0|] eqn:E0.
    + assert (a <> LCall w) as Hne by (intro; subst; discriminate).
      destruct (idle_stays _ _ _ _ _ Heqo Hne E0 (I _ _ _ Hp Hs E0)) as (X' & HX' & Hpc). congruence.
    + exfalso. apply nth_some_lt in HX. rewrite (step_ss_length _ _ _ Heqo) in HX.
      apply nth_error_None in E0. lia.
  - (* RPublish, update *)
    apply nth_upd in Hp. destruct Hp as [(-> & -> & _)|(Hne & Hp)]; [discriminate|].
    unfold step in Heqo0. break_step Heqo0. unfold set_s in HX. cbn [ss] in HX. rewrite nth_upd_neq in HX by auto. eapply I; eauto.
  - apply nth_upd in Hp. destruct Hp as [(-> & -> & _)|(Hne & Hp)]; [discriminate|].
    unfold step in Heqo0. break_step Heqo0. unfold set_s in HX. cbn [ss] in HX. rewrite nth_upd_neq in HX by auto. eapply I; eauto.
  - (* RReturn *)
    apply nth_upd in Hp. destruct Hp as [(-> & -> & _)|(Hne & Hp)]; [|eapply I; eauto].
    unfold sender_idle in Heqb. rewrite HX in Heqb. destruct (s_pc X); auto; discriminate.
  - apply nth_upd in Hp. destruct Hp as [(-> & -> & _)|(Hne & Hp)]; [|eapply I; eauto].
    unfold sender_idle in Heqb. rewrite HX in Heqb. destruct (s_pc X); auto; discriminate.
  - (* RSubEnd *) apply register_ss in Heqo. destruct Heqo as (E & _). rewrite E in HX. eapply I; eauto.
Qed.

Lemma inv_idle_reach : forall ts n C, rreach ts n C -> inv_idle C.
Proof.
  induction 1.
  - intros w p X Hp _ HX. apply init_ss in HX. subst. reflexivity.
  - eapply inv_idle_step; eauto.
Qed.

(* ---------- invariant 2: the registrations in progress ---------- *)
Definition inv_pend (C : res) : Prop :=
  NoDup (map fst (rpend C)) /\
  forall k h, In (k, h) (rpend C) -> exists L, nth_error (ls (rb C)) k = Some L /\ l_reg L = false.

Lemma pend_remove_in : forall k l k' h, In (k', h) (pend_remove k l) ->
  In (k', h) l /\ (NoDup (map fst l) -> k' <> k).
Proof.
  induction l as [|(k0, h0) r IH]; simpl; intros k' h H; [tauto|].
  destruct (Nat.eqb_spec k0 k) as [->|Hne].
  - split; auto. intros Hnd ->. inversion Hnd. subst. apply H2. apply (in_map fst) in H. auto.
  - destruct H as [H|H].
    + inversion H. subst. split; auto.
    + destruct (IH _ _ H) as (H1 & H2). split; auto. intros Hnd. inversion Hnd. auto.
Qed.

Lemma pend_remove_nodup : forall k l, NoDup (map fst l) -> NoDup (map fst (pend_remove k l)).
Proof.
  induction l as [|(k0, h0) r IH]; simpl; intros H; auto.
  inversion H. subst. destruct (Nat.eqb k0 k); auto. simpl. constructor; auto.
  intro Hin. apply H2. apply in_map_iff in Hin. destruct Hin as ((k1, h1) & E & Hin). simpl in E. subst.
  apply pend_remove_in in Hin. apply in_map_iff. exists (k0, h1). tauto.
Qed.

Lemma pend_find_in : forall k l, pend_find k l = true -> exists h, In (k, h) l.
Proof.
  induction l as [|(k0, h0) r IH]; simpl; intros H; try discriminate.
  destruct (Nat.eqb_spec k0 k) as [->|Hne]; eauto. simpl in H. destruct (IH H) as (h & Hh). eauto.
Qed.

Lemma in_pend_find : forall k h l, In (k, h) l -> pend_find k l = true.
Proof.
  induction l as [|(k0, h0) r IH]; simpl; intros H; [tauto|].
  destruct H as [H|H]; [inversion H; subst; rewrite Nat.eqb_refl; auto|]. rewrite IH by auto. apply orb_true_r.
Qed.

Lemma call_ls : forall c w c', step c (LCall w) = Some c' -> ls c' = ls c /\ blist c' = blist c.
Proof. intros c w c' H. unfold step in H. break_step H. auto. Qed.

Lemma inv_pend_step : forall ts C a C', inv_pend C -> rstep ts C a = Some C' -> inv_pend C'.
Proof.
  unfold inv_pend. intros ts C a C' (N & I) H.
  destruct a; simpl in H; brs H; cbn [rb rpend] in *; auto.
  - (* RBus *) split; auto. intros k h Hin. destruct (I _ _ Hin) as (L & HL & Hr).
    destruct (ls_forward _ _ _ _ _ Heqo HL) as (L' & HL' & (_ & [R|(-> & _)] & _)).
    + exists L'. split; auto. congruence.
    + discriminate.
  - apply call_ls in Heqo0. destruct Heqo0 as (-> & _). auto.
  - apply call_ls in Heqo0. destruct Heqo0 as (-> & _). auto.
  - (* RSubBegin *) cbn [ls]. split.
    + rewrite map_app. simpl. apply NoDup_snoc; auto. intro Hin. apply in_map_iff in Hin.
      destruct Hin as ((k, h) & Ek & Hin). simpl in Ek. subst. destruct (I _ _ Hin) as (L & HL & _).
      apply nth_some_lt in HL. lia.
    + intros k h Hin. apply in_app_or in Hin. destruct Hin as [Hin|[Hin|[]]].
      * destruct (I _ _ Hin) as (L & HL & Hr). exists L. split; auto. rewrite nth_error_app1; auto.
        eapply nth_some_lt; eauto.
      * inversion Hin. subst. exists new_listener. split; auto. rewrite nth_error_app2 by lia.
        rewrite Nat.sub_diag. reflexivity.
  - (* RSubEnd *) apply register_ss in Heqo. destruct Heqo as (_ & L & HL & Hr & E). rewrite E. split.
    + apply pend_remove_nodup; auto.
    + intros k' h Hin. apply pend_remove_in in Hin. destruct Hin as (Hin & Hne). specialize (Hne N).
      destruct (I _ _ Hin) as (L' & HL' & Hr'). exists L'. split; auto. rewrite nth_upd_neq; auto.
Qed.

Lemma inv_pend_reach : forall ts n C, rreach ts n C -> inv_pend C.
Proof.
  induction 1.
  - split; simpl; [constructor | tauto].
  - eapply inv_pend_step; eauto.
Qed.

(* ---------- invariant 3: commit numbers ---------- *)
Definition inv_commit (ts : bool) (C : res) : Prop :=
  (forall w p m, nth_error (rw C) w = Some p -> commit_of p = Some m ->
     m <= rcommits C /\ (ts = true -> rdone C < m)) /\
  (forall w w' p p' m, nth_error (rw C) w = Some p -> nth_error (rw C) w' = Some p' ->
     commit_of p = Some m -> commit_of p' = Some m -> w = w') /\
  (ts = true -> forall m, rdone C < m -> m <= rcommits C ->
     exists w p, nth_error (rw C) w = Some p /\ commit_of p = Some m) /\
  (ts = true -> forall w p m, nth_error (rw C) w = Some p -> in_send p = true -> commit_of p = Some m ->
     m = S (rdone C)) /\
  (ts = true -> rdone C <= rcommits C).

Lemma upd_back : forall (l : list rpc) w p p' v q, nth_error l w = Some p ->
  nth_error (upd l w p') v = Some q ->
  (v = w /\ q = p') \/ (v <> w /\ nth_error l v = Some q).
Proof.
  intros l w p p' v q Hw Hq. apply nth_upd in Hq. destruct Hq as [(-> & -> & _)|(Hne & Hq)]; auto.
Qed.

(* a step that replaces pc p of writer w by p' carrying the same commit, counters unchanged *)
Lemma inv_commit_same : forall ts C w p p',
  inv_commit ts C -> nth_error (rw C) w = Some p -> commit_of p' = commit_of p ->
  (in_send p' = true -> in_send p = true \/ (ts = true -> forall m, commit_of p = Some m -> m = S (rdone C))) ->
  inv_commit ts (mkR (rb C) (upd (rw C) w p') (rcommits C) (rdone C) (rpend C)).
Proof.
  intros ts C w p p' (A & B & Cc & D & E) Hw Hc Hs. unfold inv_commit. cbn [rw rcommits rdone].
  assert (forall v q, nth_error (upd (rw C) w p') v = Some q ->
            exists q0, nth_error (rw C) v = Some q0 /\ commit_of q = commit_of q0) as Hback.
  { intros v q Hq. destruct (upd_back _ _ _ _ _ _ Hw Hq) as [(-> & ->)|(Hne & Hq')]; eauto. }
  split; [|split; [|split; [|split]]]; auto.
  - intros v q m Hq Hm. destruct (Hback _ _ Hq) as (q0 & H1 & H2). rewrite H2 in Hm. eapply A; eauto.
  - intros v v' q q' m Hq Hq' Hm Hm'.
    destruct (Hback _ _ Hq) as (q0 & H1 & H2). destruct (Hback _ _ Hq') as (q0' & H1' & H2').
    rewrite H2 in Hm. rewrite H2' in Hm'. eapply B; eauto.
  - intros Hts m H1 H2. destruct (Cc Hts m H1 H2) as (v & q & Hq & Hm).
    destruct (Nat.eq_dec v w) as [->|Hne].
    + exists w, p'. split; [apply nth_upd_eq; eapply nth_some_lt; eauto|]. congruence.
    + exists v, q. split; auto. rewrite nth_upd_neq; auto.
  - intros Hts v q m Hq Hsq Hm.
    destruct (upd_back _ _ _ _ _ _ Hw Hq) as [(-> & ->)|(Hne & Hq')].
    + rewrite Hc in Hm. destruct (Hs Hsq) as [Hs'|Hs']; [eapply D; eauto | auto].
    + eapply D; eauto.
Qed.

(* a step that gives writer w (whose pc carried no commit) the next commit number *)
Lemma inv_commit_new : forall ts C w p p',
  inv_commit ts C -> nth_error (rw C) w = Some p -> commit_of p = None ->
  commit_of p' = Some (S (rcommits C)) -> in_send p' = false ->
  inv_commit ts (mkR (rb C) (upd (rw C) w p') (S (rcommits C)) (rdone C) (rpend C)).
Proof.
  intros ts C w p p' (A & B & Cc & D & E) Hw Hc Hc' Hs. unfold inv_commit. cbn [rw rcommits rdone].
  split; [|split; [|split; [|split]]].
  - intros v q m Hq Hm. destruct (upd_back _ _ _ _ _ _ Hw Hq) as [(-> & ->)|(Hne & Hq')].
    + rewrite Hc' in Hm. inversion Hm. subst. split; auto. intros Hts. specialize (E Hts). lia.
    + destruct (A _ _ _ Hq' Hm). split; auto.
  - intros v v' q q' m Hq Hq' Hm Hm'.
    destruct (upd_back _ _ _ _ _ _ Hw Hq) as [(-> & ->)|(Hne & Hq1)];
      destruct (upd_back _ _ _ _ _ _ Hw Hq') as [(-> & ->)|(Hne' & Hq1')]; auto.
    + rewrite Hc' in Hm. inversion Hm. subst. destruct (A _ _ _ Hq1' Hm'). lia.
    + rewrite Hc' in Hm'. inversion Hm'. subst. destruct (A _ _ _ Hq1 Hm). lia.
    + eapply B; eauto.
  - intros Hts m H1 H2. destruct (Nat.eq_dec m (S (rcommits C))) as [->|Hne].
    + exists w, p'. split; auto. apply nth_upd_eq. eapply nth_some_lt; eauto.
    + destruct (Cc Hts m H1) as (v & q & Hq & Hm); [lia|].
      assert (v <> w) by (intros ->; congruence). exists v, q. split; auto. rewrite nth_upd_neq; auto.
  - intros Hts v q m Hq Hsq Hm. destruct (upd_back _ _ _ _ _ _ Hw Hq) as [(-> & ->)|(Hne & Hq')].
    + congruence.
    + eapply D; eauto.
  - intros Hts. specialize (E Hts). lia.
Qed.

(* RReturn: the writer whose Send has returned lets the next commit in *)
Lemma inv_commit_return : forall ts C w p n,
  inv_commit ts C -> nth_error (rw C) w = Some p -> in_send p = true -> commit_of p = Some n ->
  inv_commit ts (mkR (rb C) (upd (rw C) w RIdle) (rcommits C) (if ts then n else rdone C) (rpend C)).
Proof.
  intros ts C w p n (A & B & Cc & D & E) Hw Hs Hc. unfold inv_commit. cbn [rw rcommits rdone].
  split; [|split; [|split; [|split]]].
  - intros v q m Hq Hm. destruct (upd_back _ _ _ _ _ _ Hw Hq) as [(-> & ->)|(Hne & Hq')]; [discriminate|].
    destruct (A _ _ _ Hq' Hm) as (A1 & A2). split; auto. intros Hts. rewrite Hts.
    assert (m <> n) by (intros ->; apply Hne; eapply B; eauto).
    specialize (A2 Hts). rewrite (D Hts _ _ _ Hw Hs Hc) in *. lia.
  - intros v v' q q' m Hq Hq' Hm Hm'.
    destruct (upd_back _ _ _ _ _ _ Hw Hq) as [(-> & ->)|(Hne & Hq1)]; [discriminate|].
    destruct (upd_back _ _ _ _ _ _ Hw Hq') as [(-> & ->)|(Hne' & Hq1')]; [discriminate|].
    eapply B; eauto.
  - intros Hts m H1 H2. rewrite Hts in H1. pose proof (D Hts _ _ _ Hw Hs Hc) as Hn.
    destruct (Cc Hts m) as (v & q & Hq & Hm); auto; [lia|].
    assert (v <> w). { intros ->. rewrite Hw in Hq. inversion Hq. subst. rewrite Hc in Hm. inversion Hm. lia. }
    exists v, q. split; auto. rewrite nth_upd_neq; auto.
  - intros Hts v q m Hq Hsq Hm. destruct (upd_back _ _ _ _ _ _ Hw Hq) as [(-> & ->)|(Hne & Hq')]; [discriminate|].
    exfalso. pose proof (D Hts _ _ _ Hq' Hsq Hm). pose proof (D Hts _ _ _ Hw Hs Hc). subst.
    apply Hne. eapply B; eauto.
  - intros Hts. rewrite Hts. destruct (A _ _ _ Hw Hc). auto.
Qed.

Lemma inv_commit_bus : forall ts C c' pd, inv_commit ts C -> inv_commit ts (mkR c' (rw C) (rcommits C) (rdone C) pd).
Proof. intros ts C c' pd H. exact H. Qed.

Lemma inv_commit_step : forall ts C a C', inv_commit ts C -> rstep ts C a = Some C' -> inv_commit ts C'.
Proof.
  intros ts C a C' I H.
  destruct a; simpl in H; brs H;
    try solve [exact I];
    try solve [apply (inv_commit_bus ts C); exact I];
    try solve [eapply (inv_commit_same ts C); eauto; simpl; intros; discriminate];
    try solve [eapply (inv_commit_new ts C); eauto; reflexivity].
  - (* RPublish upd *)
    apply (inv_commit_bus ts (mkR (rb C) (upd (rw C) w (RUpdSend n)) (rcommits C) (rdone C) (rpend C))).
    eapply inv_commit_same; eauto. intros _. right. intros Hts m Hm. simpl in Hm. inversion Hm. subst.
    simpl in Heqb. apply Nat.eqb_eq in Heqb. auto.
  - apply (inv_commit_bus ts (mkR (rb C) (upd (rw C) w (RDelSend n)) (rcommits C) (rdone C) (rpend C))).
    eapply inv_commit_same; eauto. intros _. right. intros Hts m Hm. simpl in Hm. inversion Hm. subst.
    simpl in Heqb. apply Nat.eqb_eq in Heqb. auto.
  - eapply inv_commit_return; eauto.
  - eapply inv_commit_return; eauto.
Qed.

Lemma inv_commit_reach : forall ts n C, rreach ts n C -> inv_commit ts C.
Proof.
  induction 1.
  - unfold inv_commit. simpl. split; [|split; [|split; [|split]]]; intros; try lia.
    + apply nth_error_In in H. apply repeat_spec in H. subst. discriminate.
    + apply nth_error_In in H. apply repeat_spec in H. subst. discriminate.
    + apply nth_error_In in H0. apply repeat_spec in H0. subst. discriminate.
  - eapply inv_commit_step; eauto.
Qed.

(* ---------- invariant 4: who holds c.mu ---------- *)
Definition inv_hold (C : res) : Prop :=
  (forall w w' p p', nth_error (rw C) w = Some p -> nth_error (rw C) w' = Some p' ->
     holds_w p = true -> holds_w p' = true -> w = w') /\
  (wfree C = false -> rfree C = true).

Lemma wfree_spec : forall C, wfree C = true <-> (forall w p, nth_error (rw C) w = Some p -> holds_w p = false).
Proof.
  intros C. unfold wfree. rewrite forallb_forall. split.
  - intros H w p Hp. apply nth_error_In in Hp. apply H in Hp. apply negb_true_iff in Hp. auto.
  - intros H p Hin. apply In_nth_error in Hin. destruct Hin as (w & Hw). rewrite (H _ _ Hw). auto.
Qed.

Lemma wfree_false : forall C, wfree C = false -> exists d p, nth_error (rw C) d = Some p /\ holds_w p = true.
Proof.
  intros C H. unfold wfree in H.
  assert (existsb (fun p => holds_w p) (rw C) = true) as E.
  { clear -H. induction (rw C); simpl in *; try discriminate.
    destruct (holds_w a); simpl in *; auto. }
  apply existsb_exists in E. destruct E as (p & Hin & Hp). apply In_nth_error in Hin.
  destruct Hin as (d & Hd). eauto.
Qed.

Lemma wfree_upd : forall C w p p', nth_error (rw C) w = Some p -> wfree C = true -> holds_w p' = false ->
  wfree (mkR (rb C) (upd (rw C) w p') (rcommits C) (rdone C) (rpend C)) = true.
Proof.
  intros C w p p' Hw Hf Hp'. apply wfree_spec. cbn [rw]. intros v q Hq.
  destruct (upd_back _ _ _ _ _ _ Hw Hq) as [(-> & ->)|(Hne & Hq')]; auto.
  rewrite wfree_spec in Hf. eapply Hf; eauto.
Qed.

Lemma rfree_remove : forall k l, forallb (fun e : nat * bool => negb (snd e)) l = true ->
  forallb (fun e : nat * bool => negb (snd e)) (pend_remove k l) = true.
Proof.
  induction l as [|(k0, h0) r IH]; simpl; intros H; auto.
  apply andb_true_iff in H. destruct H as (H1 & H2). destruct (Nat.eqb k0 k); auto.
  simpl. rewrite H1, IH; auto.
Qed.

(* a step that changes the pc of writer w without touching who holds the lock *)
Lemma inv_hold_same : forall C w p p' c' rc rd,
  inv_hold C -> nth_error (rw C) w = Some p -> holds_w p' = holds_w p ->
  inv_hold (mkR c' (upd (rw C) w p') rc rd (rpend C)).
Proof.
  intros C w p p' c' rc rd (U & X) Hw Hh. unfold inv_hold, wfree, rfree. cbn [rw rpend].
  assert (forall v q, nth_error (upd (rw C) w p') v = Some q ->
            exists q0, nth_error (rw C) v = Some q0 /\ holds_w q = holds_w q0) as Hback.
  { intros v q Hq. destruct (upd_back _ _ _ _ _ _ Hw Hq) as [(-> & ->)|(Hne & Hq')]; eauto. }
  split.
  - intros v v' q q' Hq Hq' Hh1 Hh2. destruct (Hback _ _ Hq) as (q0 & H1 & H2).
    destruct (Hback _ _ Hq') as (q0' & H1' & H2'). eapply U; eauto; congruence.
  - intros Hf. apply X. destruct (wfree C) eqn:E; auto. exfalso.
    assert (wfree (mkR c' (upd (rw C) w p') rc rd (rpend C)) = true) as E'.
    { apply wfree_spec. cbn [rw]. intros v q Hq. destruct (Hback _ _ Hq) as (q0 & H1 & H2).
      rewrite H2. rewrite wfree_spec in E. eapply E; eauto. }
    unfold wfree in E'. cbn [rw] in E'. congruence.
Qed.

Lemma inv_hold_step : forall ts C a C', inv_hold C -> rstep ts C a = Some C' -> inv_hold C'.
Proof.
  intros ts C a C' I H.
  destruct a; simpl in H; brs H;
    try solve [exact I];
    try solve [eapply (inv_hold_same C); eauto].
  - (* RDelTake: the lock was free *)
    apply andb_true_iff in Heqb. destruct Heqb as (Hwf & Hrf). split.
    + cbn [rw]. intros v v' q q' Hq Hq' H1 H2. rewrite wfree_spec in Hwf.
      destruct (upd_back _ _ _ _ _ _ Heqo Hq) as [(-> & ->)|(Hne & Hq1)];
        destruct (upd_back _ _ _ _ _ _ Heqo Hq') as [(-> & ->)|(Hne' & Hq1')]; auto.
      * rewrite (Hwf _ _ Hq1') in H2. discriminate.
      * rewrite (Hwf _ _ Hq1) in H1. discriminate.
      * rewrite (Hwf _ _ Hq1) in H1. discriminate.
    + intros _. exact Hrf.
  - (* RReturn of a Delete: the lock is released *)
    destruct I as (U & X). split.
    + cbn [rw]. intros v v' q q' Hq Hq' H1 H2.
      destruct (upd_back _ _ _ _ _ _ Heqo Hq) as [(-> & ->)|(Hne & Hq1)]; [discriminate|].
      destruct (upd_back _ _ _ _ _ _ Heqo Hq') as [(-> & ->)|(Hne' & Hq1')]; [discriminate|].
      eapply U; eauto.
    + intros Hf. exfalso.
      assert (wfree (mkR (rb C) (upd (rw C) w RIdle) (rcommits C) (if ts then n else rdone C) (rpend C)) = true) as E.
      { apply wfree_spec. cbn [rw]. intros v q Hq.
        destruct (upd_back _ _ _ _ _ _ Heqo Hq) as [(-> & ->)|(Hne & Hq1)]; auto.
        destruct (holds_w q) eqn:Hh; auto. exfalso. apply Hne. eapply U; eauto. }
      congruence.
  - (* RSubBegin *) destruct I as (U & X). split; auto. unfold wfree, rfree in *. cbn [rw rpend] in *.
    intros Hf. rewrite forallb_app. simpl. rewrite (X Hf). simpl. rewrite Hf in Heqb. rewrite orb_false_r in Heqb.
    subst. reflexivity.
  - (* RSubEnd *) destruct I as (U & X). split; auto. unfold wfree, rfree in *. cbn [rw rpend] in *.
    intros Hf. apply rfree_remove. auto.
Qed.

Lemma inv_hold_reach : forall ts n C, rreach ts n C -> inv_hold C.
Proof.
  induction 1.
  - split.
    + simpl. intros w w' p p' Hp. apply nth_error_In in Hp. apply repeat_spec in Hp. subst. discriminate.
    + reflexivity.
  - eapply inv_hold_step; eauto.
Qed.

(* ---------- what can hold the system ---------- *)
Definition stuck (ts : bool) (C : res) : Prop := forall a, autonomous a = true -> rstep ts C a = None.

(* a writer is inside bus.Send, in the select of a listener that is NOT cancelled, its own context
   is alive and that listener's consumer is not receiving *)
Definition backpressured (C : res) : Prop :=
  exists w p X l o r g sn L,
    nth_error (rw C) w = Some p /\ in_send p = true /\
    nth_error (ss (rb C)) w = Some X /\ s_pc X = SSel l o r g sn /\
    nth_error (ls (rb C)) l = Some L /\ l_cancel L = false /\ s_cancel X = false /\
    (l_rcv L = false \/ o = false).

Lemma call_enabled : forall c w X, nth_error (ss c) w = Some X -> s_pc X = SIdle ->
  exists c', step c (LCall w) = Some c'.
Proof. intros c w X HX Hpc. unfold step. rewrite HX, Hpc. eauto. Qed.

Lemma rbus_none : forall ts C b, bus_label_ok b = true -> rstep ts C (RBus b) = None -> step (rb C) b = None.
Proof. intros ts C b Hb H. simpl in H. rewrite Hb in H. destruct (step (rb C) b); auto; discriminate. Qed.

Lemma writer_has_sender : forall ts n C w p, rreach ts n C -> nth_error (rw C) w = Some p ->
  exists X, nth_error (ss (rb C)) w = Some X.
Proof.
  intros ts n C w p Hr Hp. destruct (rw_length _ _ _ Hr) as (E & _). apply nth_some_lt in Hp.
  destruct (nth_error (ss (rb C)) w) eqn:E0; eauto. apply nth_error_None in E0. lia.
Qed.

(* if no writer is inside bus.Send, a writer that carries a commit can publish: itself, or - with
   the turnstile - the writer of the oldest commit that has not published *)
Lemma someone_publishes : forall ts n C w p m, rreach ts n C ->
  (forall v q, nth_error (rw C) v = Some q -> in_send q = false) ->
  nth_error (rw C) w = Some p -> commit_of p = Some m ->
  exists u, rstep ts C (RPublish u) <> None.
Proof.
  intros ts n C w p m Hr Hns Hp Hm.
  pose proof (inv_idle_reach _ _ _ Hr) as Iidle. pose proof (inv_commit_reach _ _ _ Hr) as (A & B & Cc & D & E).
  assert (forall u q k, nth_error (rw C) u = Some q -> commit_of q = Some k ->
            (negb ts || Nat.eqb (S (rdone C)) k) = true -> rstep ts C (RPublish u) <> None) as Hpub.
  { intros u q k Hq Hk Hc. pose proof (Hns _ _ Hq) as Hs.
    destruct (writer_has_sender _ _ _ _ _ Hr Hq) as (X & HX).
    destruct (call_enabled _ _ _ HX (Iidle _ _ _ Hq Hs HX)) as (c' & Hc').
    simpl. rewrite Hq. destruct q; simpl in Hk, Hs; try discriminate; inversion Hk; subst; rewrite Hc, Hc'; discriminate. }
  destruct ts.
  - destruct (A _ _ _ Hp Hm) as (A1 & A2). specialize (A2 eq_refl).
    destruct (Cc eq_refl (S (rdone C))) as (u & q & Hq & Hk); try lia.
    exists u. eapply Hpub; eauto. simpl. apply Nat.eqb_refl.
  - exists w. eapply Hpub; eauto.
Qed.

Lemma classic_send : forall C,
  (exists w p, nth_error (rw C) w = Some p /\ in_send p = true) \/
  (forall v q, nth_error (rw C) v = Some q -> in_send q = false).
Proof.
  intros C. destruct (existsb in_send (rw C)) eqn:E.
  - left. apply existsb_exists in E. destruct E as (p & Hin & Hp). apply In_nth_error in Hin.
    destruct Hin as (w & Hw). eauto.
  - right. intros v q Hq. apply nth_error_In in Hq. destruct (in_send q) eqn:Hs; auto.
    assert (existsb in_send (rw C) = true) by (apply existsb_exists; eauto). congruence.
Qed.

Theorem stuck_only_backpressure : forall ts n C,
  rreach ts n C -> stuck ts C -> busy C = true -> backpressured C.
Proof.
  intros ts n C Hr Hst Hbusy.
  pose proof (rreach_bus _ _ _ Hr) as Hb. pose proof (inv_idle_reach _ _ _ Hr) as Iidle.
  pose proof (inv_pend_reach _ _ _ Hr) as (Npd & Ipd).
  (* 1. no registration is in progress *)
  assert (rpend C = []) as Hpd.
  { destruct (rpend C) as [|(k, h) r] eqn:E; auto. exfalso.
    destruct (Ipd k h) as (L & HL & Hreg); [try rewrite E; simpl; auto|].
    assert (rstep ts C (RSubEnd k) = None) as Hn by (apply Hst; reflexivity).
    simpl in Hn. rewrite E in Hn. simpl in Hn. rewrite Nat.eqb_refl in Hn. simpl in Hn.
    unfold step in Hn. rewrite HL, Hreg in Hn. discriminate. }
  (* 2. the bus senders cannot move *)
  assert (forall s, step (rb C) (LRLock s) = None /\ step (rb C) (LSelSendCtx s) = None /\
                    step (rb C) (LSelListenCtx s) = None /\ step (rb C) (LDeliver s) = None /\
                    step (rb C) (LFinish s) = None) as Hsb.
  { intros s. repeat split; apply (rbus_none ts); auto; apply Hst; reflexivity. }
  destruct (reach_has_run _ _ Hb) as (btr & Hbtr).
  (* a sender that is not idle is held by the backpressure of a live listener *)
  assert (forall s X, nth_error (ss (rb C)) s = Some X -> s_pc X <> SIdle ->
            exists l o r g sn L, s_pc X = SSel l o r g sn /\ nth_error (ls (rb C)) l = Some L /\
              l_cancel L = false /\ s_cancel X = false /\ (l_rcv L = false \/ o = false)) as Hlive.
  { assert (forall s X, nth_error (ss (rb C)) s = Some X -> s_pc X <> SIdle -> blocked_sender (rb C) s) as Hbl.
    { intros s X HX Hpc. destruct (Hsb s) as (B2 & B3 & B4 & B5 & B6). repeat split; auto.
      unfold step. rewrite HX. destruct (s_pc X); auto. congruence. }
    intros s X HX Hpc.
    destruct (others_unaffected _ _ _ _ _ Hbtr HX (Hbl _ _ HX Hpc)) as [(l & r & g & sn & L & Hp & HL & HW & HC)|Hcase]; auto.
    exfalso.
    assert (step (rb C) (LStop l) = None) as Hstop by (apply (rbus_none ts); auto; apply Hst; reflexivity).
    unfold step in Hstop. rewrite HL, HW in Hstop.
    destruct (no_readers l (rb C)) eqn:Enr; try discriminate.
    unfold no_readers in Enr.
    assert (existsb (fun s0 => sel_on l (s_pc s0)) (ss (rb C)) = true) as Ex.
    { clear -Enr. induction (ss (rb C)); simpl in *; try discriminate.
      destruct (sel_on l (s_pc a)); simpl in *; auto. }
    apply existsb_exists in Ex. destruct Ex as (X' & Hin & Hsel). apply In_nth_error in Hin.
    destruct Hin as (s' & HX'). destruct (sel_on_true _ _ Hsel) as (o' & r' & g' & sn' & Hpc').
    assert (s_pc X' <> SIdle) as Hni by congruence.
    destruct (others_unaffected _ _ _ _ _ Hbtr HX' (Hbl _ _ HX' Hni))
      as [(l2 & r2 & g2 & sn2 & L2 & Hp2 & _)|(l2 & o2 & r2 & g2 & sn2 & L2 & Hp2 & HL2 & HC2 & _)]; [congruence|].
    rewrite Hpc' in Hp2. inversion Hp2. subst. rewrite HL in HL2. inversion HL2. subst. congruence. }
  (* 3. a writer inside Send whose sender is not idle gives the conclusion *)
  destruct (classic_send C) as [(w & p & Hp & Hs)|Hns].
  - destruct (writer_has_sender _ _ _ _ _ Hr Hp) as (X & HX).
    destruct (s_pc X) eqn:Hpc.
    + exfalso. assert (rstep ts C (RReturn w) = None) as Hn by (apply Hst; reflexivity).
      simpl in Hn. rewrite Hp in Hn. unfold sender_idle in Hn. rewrite HX, Hpc in Hn.
      destruct p; simpl in Hs; discriminate.
    + destruct (Hlive _ _ HX) as (l & o & r & g & sn & L & Hp' & _); congruence.
    + destruct (Hlive _ _ HX) as (l0 & o & r & g & sn & L & Hp' & HL & HC & HSC & Hrc); [congruence|].
      exists w, p, X, l0, o, r, g, sn, L. repeat split; auto.
  - (* 4. nobody is inside Send: some writer step is enabled, contradiction *)
    exfalso. unfold busy in Hbusy. rewrite Hpd in Hbusy. rewrite orb_false_r in Hbusy.
    apply existsb_exists in Hbusy. destruct Hbusy as (p & Hin & Hnz). apply In_nth_error in Hin.
    destruct Hin as (w & Hp).
    assert (rfree C = true) as Hrf by (unfold rfree; rewrite Hpd; reflexivity).
    assert (forall v q k, nth_error (rw C) v = Some q -> commit_of q = Some k -> False) as Hnocommit.
    { intros v q k Hq Hk. destruct (someone_publishes _ _ _ _ _ _ Hr Hns Hq Hk) as (u & Hu).
      apply Hu. apply Hst. reflexivity. }
    destruct (wfree C) eqn:Hwf.
    + destruct p; try discriminate.
      * assert (rstep ts C (RUpdSave w) = None) as Hn by (apply Hst; reflexivity).
        simpl in Hn. rewrite Hp, Hwf, Hrf in Hn. discriminate.
      * eapply Hnocommit; eauto. reflexivity.
      * specialize (Hns _ _ Hp). discriminate.
      * assert (rstep ts C (RDelGiveUp w) = None) as Hn by (apply Hst; reflexivity).
        simpl in Hn. rewrite Hp, Hwf, Hrf in Hn. discriminate.
      * eapply Hnocommit; eauto. reflexivity.
      * specialize (Hns _ _ Hp). discriminate.
    + destruct (wfree_false _ Hwf) as (d & q & Hq & Hh).
      destruct q; try discriminate.
      * eapply Hnocommit; eauto. reflexivity.
      * specialize (Hns _ _ Hq). discriminate.
Qed.

(* ---------- who holds c.mu, and who waits for whom ---------- *)
(* c.mu is held across a blocking operation only by ONE Delete, between its commit and the return
   of its bus.Send; while it is held no registration holds the read lock *)
Theorem lock_holder : forall ts n C, rreach ts n C -> wfree C = false ->
  exists d m, (nth_error (rw C) d = Some (RDelHold m) \/ nth_error (rw C) d = Some (RDelSend m)) /\
    (forall d' p', nth_error (rw C) d' = Some p' -> holds_w p' = true -> d' = d) /\
    rfree C = true.
Proof.
  intros ts n C Hr Hf. destruct (inv_hold_reach _ _ _ Hr) as (U & X).
  destruct (wfree_false _ Hf) as (d & p & Hp & Hh).
  destruct p; try discriminate; exists d, n0; (split; [auto|split; [|auto]]);
    intros d' p' Hp' Hh'; eapply U; eauto.
Qed.

(* the steps of writer u that acquire c.mu *)
Definition acquires_mu (a : rlabel) (u : nat) : Prop :=
  a = RUpdStart u \/ a = RUpdSave u \/ a = RUpdAbort u \/ a = RDelStart u \/ a = RDelTake u \/
  a = RDelRetry u \/ a = RDelGiveUp u.

(* A writer that has committed and cannot publish is waiting at the turnstile for exactly the
   writer u of the oldest unpublished commit; u's commit is EARLIER, u is past every acquisition
   of c.mu (so it never waits for the lock the waiter may hold), and if the waiter holds c.mu
   then u does not.  Without the turnstile (ts = false) a committed writer can always publish. *)
Theorem turnstile_wait : forall ts n C w p m, rreach ts n C ->
  nth_error (rw C) w = Some p -> commit_of p = Some m -> in_send p = false ->
  rstep ts C (RPublish w) = None ->
  ts = true /\ S (rdone C) < m /\
  exists u q, u <> w /\ nth_error (rw C) u = Some q /\ commit_of q = Some (S (rdone C)) /\
    (forall a, acquires_mu a u -> rstep ts C a = None) /\
    (holds_w p = true -> holds_w q = false).
Proof.
  intros ts n C w p m Hr Hp Hm Hs Hn.
  pose proof (inv_idle_reach _ _ _ Hr) as Iidle. pose proof (inv_commit_reach _ _ _ Hr) as (A & B & Cc & D & E).
  destruct (inv_hold_reach _ _ _ Hr) as (U & _).
  destruct (writer_has_sender _ _ _ _ _ Hr Hp) as (X & HX).
  destruct (call_enabled _ _ _ HX (Iidle _ _ _ Hp Hs HX)) as (c' & Hc').
  assert ((negb ts || Nat.eqb (S (rdone C)) m) = false) as Hcond.
  { destruct (negb ts || Nat.eqb (S (rdone C)) m) eqn:Ec; auto. exfalso.
    simpl in Hn. rewrite Hp in Hn.
    destruct p; simpl in Hm, Hs; try discriminate; inversion Hm; subst; rewrite Ec, Hc' in Hn; discriminate. }
  apply orb_false_iff in Hcond. destruct Hcond as (Hts & Hne). apply negb_false_iff in Hts.
  apply Nat.eqb_neq in Hne. destruct (A _ _ _ Hp Hm) as (A1 & A2). specialize (A2 Hts).
  split; auto. split; [lia|].
  destruct (Cc Hts (S (rdone C))) as (u & q & Hq & Hk); try lia.
  assert (u <> w) as Huw. { intros ->. rewrite Hp in Hq. inversion Hq. subst. congruence. }
  exists u, q. repeat split; auto.
  - intros a Ha. unfold acquires_mu in Ha.
    destruct Ha as [->|[->|[->|[->|[->|[->| ->]]]]]]; simpl; rewrite Hq;
      destruct q; simpl in Hk; try discriminate; auto.
  - intros Hh. destruct (holds_w q) eqn:Hhq; auto. exfalso. apply Huw. eapply U; eauto.
Qed.

(* a writer waiting for c.mu: the lock is write-held by the one Delete of lock_holder, or it is
   read-held by a registration whose remaining step is enabled *)
Theorem lock_wait : forall ts n C w p, rreach ts n C -> nth_error (rw C) w = Some p ->
  (p = RUpdLock \/ exists att, p = RDelLock att) ->
  rstep ts C (RUpdSave w) = None -> rstep ts C (RDelGiveUp w) = None ->
  wfree C = false \/
  (exists k, In (k, true) (rpend C) /\ exists C', rstep ts C (RSubEnd k) = Some C').
Proof.
  intros ts n C w p Hr Hp Hpc H1 H2. destruct (wfree C) eqn:Hwf; auto. right.
  assert (rfree C = false) as Hrf.
  { destruct (rfree C) eqn:E; auto. exfalso.
    destruct Hpc as [->|(att & ->)]; [simpl in H1; rewrite Hp, Hwf, E in H1 | simpl in H2; rewrite Hp, Hwf, E in H2]; discriminate. }
  unfold rfree in Hrf.
  assert (exists k, In (k, true) (rpend C)) as (k & Hin).
  { clear -Hrf. induction (rpend C) as [|(k0, h0) r IH]; simpl in *; try discriminate.
    destruct h0; simpl in *; eauto. destruct (IH Hrf) as (k & Hk). eauto. }
  exists k. split; auto. destruct (inv_pend_reach _ _ _ Hr) as (_ & Ipd).
  destruct (Ipd _ _ Hin) as (L & HL & Hreg). simpl. rewrite (in_pend_find _ _ _ Hin).
  unfold step. rewrite HL, Hreg. eauto.
Qed.

(* ---------- the measure: the goroutines of the library cannot run for ever ---------- *)
Lemma sum_map_upd : forall {A} (f : A -> nat) l i x y, nth_error l i = Some x ->
  sum (map f (upd l i y)) + f x = sum (map f l) + f y.
Proof.
  induction l; destruct i; simpl; intros; try discriminate.
  - inversion H. subst. lia.
  - specialize (IHl _ _ y H). lia.
Qed.

Lemma blist_bound : forall n c, reach n c -> List.length (blist c) <= List.length (ls c).
Proof.
  intros n c H. destruct (oinv_reach _ _ H) as (_ & _ & _ & Hnd & _). destruct (vinv_reach _ _ H) as (Hv & _).
  rewrite <- (seq_length (List.length (ls c)) 0). apply NoDup_incl_length; auto.
  intros k Hk. apply in_seq. specialize (Hv _ Hk). lia.
Qed.

Definition SM (c : config) : nat := sum (map (fun X => smeasure (s_pc X)) (ss c)).
Definition LM (c : config) : nat := sum (map lmeasure (ls c)).

Definition bus_auto (b : label) : bool :=
  match b with
  | LRLock _ | LSelSendCtx _ | LSelListenCtx _ | LDeliver _ | LFinish _
  | LWake _ | LLockReq _ | LStop _ | LRecvClosed _ => true
  | _ => false
  end.

Lemma bus_auto_decreases : forall c b c', step c b = Some c' -> bus_auto b = true ->
  SM c' + LM c' < SM c + LM c /\ List.length (ls c') = List.length (ls c).
Proof.
  intros c b c' H Hb. unfold SM, LM.
  destruct b; try discriminate; unfold step in H; break_step H; unfold set_s, set_l, with_pc; cbn [ss ls];
    rewrite ?upd_length; (split; [|reflexivity]);
    repeat match goal with X : sender |- _ => let a := fresh "xa" in let b := fresh "xb" in let c := fresh "xc" in let d := fresh "xd" in destruct X as [a b c d]; cbn [s_pc s_cancel s_calls s_rets] in * end;
    repeat match goal with L : lstn |- _ => let a := fresh "ya" in let b := fresh "yb" in let c := fresh "yc" in let d := fresh "yd" in let e := fresh "ye" in let f := fresh "yf" in let g := fresh "yg" in destruct L as [a b c d e f g]; cbn [l_cancel l_closed l_w l_reg l_rcv l_sawclose l_log] in * end;
    subst;
    repeat match goal with
    | E : nth_error (ss c) ?s = Some ?X |- context [upd (ss c) ?s ?Y] =>
        let F := fresh in
        pose proof (sum_map_upd (fun z => smeasure (s_pc z)) _ _ _ Y E) as F; revert F; clear E
    | E : nth_error (ls c) ?k = Some ?L |- context [upd (ls c) ?k ?Y] =>
        let F := fresh in
        pose proof (sum_map_upd lmeasure _ _ _ Y E) as F; revert F; clear E
    end; intros;
    repeat match goal with E : _ && _ = true |- _ => apply andb_true_iff in E; destruct E; subst end;
    unfold lmeasure in *; cbn [smeasure s_pc l_w l_rcv List.length] in *;
    try lia.
Qed.

Lemma wm_upd : forall B l w p p', nth_error l w = Some p ->
  sum (map (wmeasure B) (upd l w p')) + wmeasure B p = sum (map (wmeasure B) l) + wmeasure B p'.
Proof. intros. apply sum_map_upd. auto. Qed.

Lemma pend_remove_length : forall k l, pend_find k l = true -> S (List.length (pend_remove k l)) = List.length l.
Proof.
  induction l as [|(k0, h0) r IH]; simpl; intros H; try discriminate.
  destruct (Nat.eqb k0 k); simpl in *; auto.
Qed.

Theorem auto_decreases : forall ts n C a C', rreach ts n C -> autonomous a = true ->
  rstep ts C a = Some C' -> rmeasure C' < rmeasure C.
Proof.
  intros ts n C a C' Hr Ha H. unfold rmeasure. fold (SM (rb C)) (LM (rb C)) (SM (rb C')) (LM (rb C')).
  pose proof (blist_bound _ _ (rreach_bus _ _ _ Hr)) as Hbl.
  pose proof (inv_idle_reach _ _ _ Hr) as Iidle.
  destruct a; try discriminate; simpl in H.
  - (* RBus *)
    destruct (bus_label_ok a) eqn:Hok; try discriminate. destruct (step (rb C) a) eqn:Hs; try discriminate.
    inversion H. subst. cbn [rb rw rpend].
    assert (bus_auto a = true) as Hba by (destruct a; simpl in *; auto; discriminate).
    destruct (bus_auto_decreases _ _ _ Hs Hba) as (D1 & D2). rewrite D2. lia.
  - brs H. cbn [rb rw rpend]. pose proof (wm_upd (2 * List.length (ls (rb C)) + 2) _ _ _ (RUpdPub (S (rcommits C))) Heqo). cbn [wmeasure] in *. lia.
  - brs H. cbn [rb rw rpend]. pose proof (wm_upd (2 * List.length (ls (rb C)) + 2) _ _ _ RIdle Heqo). cbn [wmeasure] in *. lia.
  - brs H. cbn [rb rw rpend]. pose proof (wm_upd (2 * List.length (ls (rb C)) + 2) _ _ _ (RDelHold (S (rcommits C))) Heqo). cbn [wmeasure] in *. lia.
  - brs H. cbn [rb rw rpend]. pose proof (wm_upd (2 * List.length (ls (rb C)) + 2) _ _ _ (RDelLock (S att)) Heqo).
    apply andb_true_iff in Heqb. destruct Heqb as (_ & Hlt). apply Nat.ltb_lt in Hlt. cbn [wmeasure] in *. lia.
  - brs H. cbn [rb rw rpend]. pose proof (wm_upd (2 * List.length (ls (rb C)) + 2) _ _ _ RIdle Heqo). cbn [wmeasure] in *. lia.
  - (* RPublish *)
    assert (forall p' c', nth_error (rw C) w = Some p' -> in_send p' = false -> wmeasure (2 * List.length (ls (rb C)) + 2) p' = 2 + (2 * List.length (ls (rb C)) + 2) ->
              step (rb C) (LCall w) = Some c' -> forall q, wmeasure (2 * List.length (ls (rb C)) + 2) q = 1 ->
              sum (map (wmeasure (2 * List.length (ls c') + 2)) (upd (rw C) w q)) + SM c' + LM c' + List.length (rpend C)
              < sum (map (wmeasure (2 * List.length (ls (rb C)) + 2)) (rw C)) + SM (rb C) + LM (rb C) + List.length (rpend C)) as Hpub.
    { intros p' c' Hp' Hns Hwm Hc q Hq. unfold step in Hc.
      destruct (nth_error (ss (rb C)) w) as [X|] eqn:HX; try discriminate.
      pose proof (Iidle _ _ _ Hp' Hns HX) as Hpc. rewrite Hpc in Hc. inversion Hc. subst c'. clear Hc.
      unfold SM, LM, set_s. cbn [ss ls rb].
      pose proof (wm_upd (2 * List.length (ls (rb C)) + 2) _ _ _ q Hp').
      pose proof (sum_map_upd (fun X => smeasure (s_pc X)) _ _ _
                    (mkS (SLoop (blist (rb C)) false (blist (rb C))) (s_cancel X) (S (s_calls X)) (s_rets X)) HX) as Hsm.
      cbn beta in Hsm. rewrite Hpc in Hsm. cbn [smeasure s_pc] in Hsm. lia. }
    destruct (nth_error (rw C) w) as [p|] eqn:Hp; try discriminate.
    destruct p; try discriminate; destruct (negb ts || Nat.eqb (S (rdone C)) n0); try discriminate;
      destruct (step (rb C) (LCall w)) as [c'|] eqn:Hc; try discriminate; inversion H; subst; cbn [rb rw rpend];
      eapply Hpub; eauto; reflexivity.
  - (* RReturn *)
    destruct (nth_error (rw C) w) as [p|] eqn:Hp; try discriminate.
    destruct p; try discriminate; destruct (sender_idle (rb C) w); try discriminate; inversion H; subst;
      cbn [rb rw rpend];
      pose proof (wm_upd (2 * List.length (ls (rb C)) + 2) _ _ _ RIdle Hp); cbn [wmeasure] in *; lia.
  - (* RSubEnd *)
    destruct (pend_find k (rpend C)) eqn:Hf; try discriminate.
    destruct (step (rb C) (LRegister k)) as [c'|] eqn:Hs; try discriminate. inversion H. subst. cbn [rb rw rpend].
    apply register_ss in Hs. destruct Hs as (Ess & L & HL & Hreg & Els).
    pose proof (pend_remove_length _ _ Hf).
    unfold SM, LM. rewrite Ess, Els, upd_length.
    pose proof (sum_map_upd lmeasure _ _ _ (mkL (l_cancel L) (l_closed L) (l_w L) true (l_rcv L) (l_sawclose L) (l_log L)) HL) as Hl.
    assert (lmeasure (mkL (l_cancel L) (l_closed L) (l_w L) true (l_rcv L) (l_sawclose L) (l_log L)) = lmeasure L) as El by reflexivity.
    rewrite El in Hl. lia.
Qed.

Theorem auto_schedule_bounded : forall ts n tr C C', rreach ts n C ->
  forallb autonomous tr = true -> rrun ts C tr = Some C' ->
  List.length tr + rmeasure C' <= rmeasure C.
Proof.
  intros ts n tr. induction tr as [|a r IH]; simpl; intros C C' Hr Ha H.
  - inversion H. lia.
  - apply andb_true_iff in Ha. destruct Ha as (Ha & Hr').
    destruct (rstep ts C a) as [C1|] eqn:E; try discriminate.
    pose proof (auto_decreases _ _ _ _ _ Hr Ha E).
    specialize (IH C1 C' (rreach_step _ _ _ _ _ Hr E) Hr' H). lia.
Qed.

(* ---------- after the cancel everything proceeds ---------- *)
Lemma all_cancelled_spec : forall C, all_cancelled C = true <->
  (forall k L, nth_error (ls (rb C)) k = Some L -> l_cancel L = true).
Proof.
  intros C. unfold all_cancelled. rewrite forallb_forall. split.
  - intros H k L HL. apply H. eapply nth_error_In; eauto.
  - intros H L Hin. apply In_nth_error in Hin. destruct Hin as (k & Hk). eauto.
Qed.

Lemma all_cancelled_step : forall ts C a C', autonomous a = true -> rstep ts C a = Some C' ->
  all_cancelled C = true -> all_cancelled C' = true.
Proof.
  intros ts C a C' Ha H Hc. rewrite all_cancelled_spec in *.
  assert (forall b c', step (rb C) b = Some c' -> b <> LListen ->
            forall k L, nth_error (ls c') k = Some L -> l_cancel L = true) as Hbus.
  { intros b c' Hs Hne k L' HL'. destruct (ls_back _ _ _ _ _ Hs HL') as [(-> & _)|(L & HL & ([R|(_ & R)] & _))]; try congruence.
    rewrite R. eauto. }
  destruct a; try discriminate; simpl in H; brs H; cbn [rb]; auto.
  - eapply Hbus; eauto. intros ->. discriminate.
  - eapply Hbus; eauto. discriminate.
  - eapply Hbus; eauto. discriminate.
  - eapply Hbus; eauto. discriminate.
Qed.

Lemma all_cancelled_run : forall ts tr C C', forallb autonomous tr = true -> rrun ts C tr = Some C' ->
  all_cancelled C = true -> all_cancelled C' = true.
Proof.
  intros ts tr. induction tr as [|a r IH]; simpl; intros C C' Ha H Hc.
  - inversion H. subst. auto.
  - apply andb_true_iff in Ha. destruct Ha as (Ha & Hr').
    destruct (rstep ts C a) as [C1|] eqn:E; try discriminate.
    eapply IH; eauto. eapply all_cancelled_step; eauto.
Qed.

(* Once every subscription of the resource is cancelled: every schedule of the library's
   goroutines is at most rmeasure long, and where it cannot be continued every writer has
   returned, c.mu is free, no registration is pending, every watcher has ended and every
   listener channel is closed. *)
Theorem after_cancel_all_proceeds : forall ts n C tr C', rreach ts n C -> all_cancelled C = true ->
  forallb autonomous tr = true -> rrun ts C tr = Some C' ->
  List.length tr + rmeasure C' <= rmeasure C /\
  (stuck ts C' ->
     busy C' = false /\ wfree C' = true /\ rpend C' = [] /\
     (forall w p, nth_error (rw C') w = Some p -> p = RIdle) /\
     (forall k L, nth_error (ls (rb C')) k = Some L -> l_w L = WDone /\ l_closed L = true)).
Proof.
  intros ts n C tr C' Hr Hc Ha Hrun. split; [eapply auto_schedule_bounded; eauto|].
  intros Hst. pose proof (rreach_rrun _ _ _ _ _ Hr Hrun) as Hr'.
  pose proof (all_cancelled_run _ _ _ _ Ha Hrun Hc) as Hc'. rewrite all_cancelled_spec in Hc'.
  assert (busy C' = false) as Hnb.
  { destruct (busy C') eqn:E; auto. exfalso.
    destruct (stuck_only_backpressure _ _ _ Hr' Hst E) as (w & p & X & l & o & r & g & sn & L & _ & _ & _ & _ & HL & HC & _).
    rewrite (Hc' _ _ HL) in HC. discriminate. }
  unfold busy in Hnb. apply orb_false_iff in Hnb. destruct Hnb as (Hw & Hp).
  assert (forall w p, nth_error (rw C') w = Some p -> p = RIdle) as Hidle.
  { intros w p Hpw. destruct p; auto; exfalso;
      (assert (existsb (fun p => match p with RIdle => false | _ => true end) (rw C') = true) as E
         by (apply existsb_exists; eexists; split; [eapply nth_error_In; eauto|reflexivity]); congruence). }
  split; [unfold busy; rewrite Hw, Hp; reflexivity|].
  split; [apply wfree_spec; intros w p Hpw; rewrite (Hidle _ _ Hpw); reflexivity|].
  split; [destruct (rpend C'); auto; discriminate|]. split; auto.
  intros k L HL. pose proof (winv_reach _ _ (rreach_bus _ _ _ Hr')) as Wi. destruct (Wi _ _ HL) as (W1 & W2).
  assert (l_w L = WDone) as Hd.
  { pose proof (Hc' _ _ HL) as Hcl.
    assert (step (rb C') (LWake k) = None) as H1 by (apply (rbus_none ts); auto; apply Hst; reflexivity).
    assert (step (rb C') (LLockReq k) = None) as H2 by (apply (rbus_none ts); auto; apply Hst; reflexivity).
    assert (step (rb C') (LStop k) = None) as H3 by (apply (rbus_none ts); auto; apply Hst; reflexivity).
    unfold step in H1, H2, H3. rewrite HL in H1, H2, H3.
    destruct (l_w L); auto; try discriminate.
    - rewrite Hcl in H1. discriminate.
    - exfalso. destruct (no_readers k (rb C')) eqn:Enr; try discriminate.
      unfold no_readers in Enr.
      assert (existsb (fun s0 => sel_on k (s_pc s0)) (ss (rb C')) = true) as Ex.
      { clear -Enr. induction (ss (rb C')); simpl in *; try discriminate.
        destruct (sel_on k (s_pc a)); simpl in *; auto. }
      apply existsb_exists in Ex. destruct Ex as (X' & Hin & Hsel). apply In_nth_error in Hin.
      destruct Hin as (s' & HX'). destruct (sel_on_true _ _ Hsel) as (o' & r' & g' & sn' & Hpc').
      destruct (rw_length _ _ _ Hr') as (El & _).
      destruct (nth_error (rw C') s') as [p|] eqn:Ep.
      + pose proof (Hidle _ _ Ep). subst p.
        pose proof (inv_idle_reach _ _ _ Hr' _ _ _ Ep eq_refl HX'). congruence.
      + apply nth_error_None in Ep. apply nth_some_lt in HX'. lia. }
  split; auto. apply W1. auto.
Qed.

(* the bus part of every reachable configuration is a reachable configuration of the bus model,
   so every theorem of BusProofs.v holds of it *)
Theorem projects_to_bus : forall ts n tr C, rrun ts (rinit n) tr = Some C ->
  exists btr, run (init n) btr = Some (rb C).
Proof. intros. apply reach_has_run. eapply rreach_bus. eapply rrun_rreach. eauto. Qed.

(* ---------- witnesses ---------- *)
(* One subscriber with backpressure that does not receive; writer 0 deletes and is held in the
   select of that listener while holding c.mu: a Get (RRead), a second writer's Update, and a new
   Pull that wants the seed are all disabled; after the subscriber's cancel the goroutines run to
   the end by themselves. *)
Definition delete_blocked_trace : list rlabel :=
  [RSubBegin false; RSubEnd 0; RUpdStart 1; RDelStart 0; RDelTake 0; RPublish 0; RBus (LRLock 0)].
Definition after_cancel_trace : list rlabel :=
  [RBus (LWake 0); RBus (LLockReq 0); RBus (LSelListenCtx 0); RBus (LStop 0); RBus (LFinish 0); RReturn 0;
   RUpdSave 1; RPublish 1; RBus (LFinish 1); RReturn 1].

Example delete_blocks_everyone : forall ts, exists C,
  rrun ts (rinit 2) delete_blocked_trace = Some C /\
  rstep ts C RRead = None /\ rstep ts C (RUpdSave 1) = None /\ rstep ts C (RSubBegin false) = None /\
  rstep ts C (RUpdStart 1) = None /\
  (forall a, In a [RBus (LSelSendCtx 0); RBus (LSelListenCtx 0); RBus (LDeliver 0); RBus (LFinish 0); RReturn 0] ->
     rstep ts C a = None) /\
  exists C1 C2, rstep ts C (RBus (LCancel 0)) = Some C1 /\ rrun ts C1 after_cancel_trace = Some C2 /\
    forallb autonomous after_cancel_trace = true /\ busy C2 = false /\ wfree C2 = true /\
    rstep ts C2 RRead = Some C2.
Proof.
  intros ts. destruct ts.
  - eexists. split; [vm_compute; reflexivity|].
    do 4 (split; [vm_compute; reflexivity|]).
    split; [intros a Ha; repeat (destruct Ha as [<-|Ha]; [vm_compute; reflexivity|]); destruct Ha|].
    eexists. eexists. split; [vm_compute; reflexivity|]. split; [vm_compute; reflexivity|].
    repeat split; vm_compute; reflexivity.
  - eexists. split; [vm_compute; reflexivity|].
    do 4 (split; [vm_compute; reflexivity|]).
    split; [intros a Ha; repeat (destruct Ha as [<-|Ha]; [vm_compute; reflexivity|]); destruct Ha|].
    eexists. eexists. split; [vm_compute; reflexivity|]. split; [vm_compute; reflexivity|].
    repeat split; vm_compute; reflexivity.
Qed.

(* With the turnstile: writer 1 has committed first (commit 1) and is held by the backpressure of
   the subscriber; writer 0's Delete (commit 2) holds c.mu and waits at the turnstile for writer 1,
   which is past c.mu and does not wait for anybody but the subscriber. *)
Example turnstile_wait_witness : exists C,
  rrun true (rinit 2) [RSubBegin false; RSubEnd 0; RUpdStart 1; RUpdSave 1; RDelStart 0; RDelTake 0;
                       RPublish 1; RBus (LRLock 1)] = Some C /\
  nth_error (rw C) 0 = Some (RDelHold 2) /\ nth_error (rw C) 1 = Some (RUpdSend 1) /\
  rstep true C (RPublish 0) = None /\ rdone C = 0 /\ rstep true C RRead = None.
Proof. eexists. split; [vm_compute; reflexivity|]. repeat split; vm_compute; reflexivity. Qed.
