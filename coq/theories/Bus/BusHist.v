(* History properties of the bus model (Bus.v): what a whole Send call guarantees whatever else
   happens while it runs, that a closed channel never receives anything, and that the collect
   keeps every live listener. *)
From SC Require Import Base.Prelude Bus.Bus Bus.BusProofs.
Local Open Scope nat_scope.

(* ---------- (a) nothing reaches a channel after it was closed ---------- *)
Lemma closed_step : forall c a c' k K, step c a = Some c' -> nth_error (ls c) k = Some K ->
  exists K', nth_error (ls c') k = Some K' /\ (l_closed K = true -> l_closed K' = true).
Proof.
  intros c a c' k K H HK. pose proof (nth_some_lt _ _ _ HK) as Hlt.
  destruct a; simpl in H; break_step H; simpl; eauto;
    try (rewrite nth_error_app1 by auto; eauto);
    match goal with |- context [nth_error (upd (ls c) ?l ?x) k] =>
      destruct (Nat.eq_dec l k) as [->|Hne];
      [rewrite nth_upd_eq by auto; eexists; split; [reflexivity|]; simpl; same_k; auto
      |rewrite nth_upd_neq by auto; eauto] end.
Qed.

Lemma frozen_step : forall c a c' k K, safe_sel c -> step c a = Some c' ->
  nth_error (ls c) k = Some K -> l_closed K = true ->
  exists K', nth_error (ls c') k = Some K' /\ l_log K' = l_log K /\ l_closed K' = true.
Proof.
  intros c a c' k K I H HK Hc.
  destruct (ls_forward _ _ _ _ _ H HK) as (K' & HK' & (_ & _ & R3)).
  destruct (closed_step _ _ _ _ _ H HK) as (K'' & HK'' & Hcl).
  rewrite HK' in HK''. inversion HK''; subst K''. clear HK''.
  exists K'. split; auto. split; auto.
  destruct R3 as [R3|(s1 & X1 & -> & HX1 & Hsel & _)]; auto. exfalso.
  simpl in H. rewrite HX1 in H. destruct (sel_on_true _ _ Hsel) as (o & r & g & sn & Hpc).
  rewrite Hpc in H. destruct o; try discriminate.
  rewrite (I _ _ _ _ _ _ _ HX1 Hpc HK) in Hc. discriminate.
Qed.

(* once the channel of listener k is closed, its log is final: for every continuation of every
   schedule, no event is delivered on it any more (and it stays closed) *)
Theorem log_frozen_after_close : forall n tr c tr' c' k K,
  run (init n) tr = Some c -> nth_error (ls c) k = Some K -> l_closed K = true -> run c tr' = Some c' ->
  exists K', nth_error (ls c') k = Some K' /\ l_log K' = l_log K /\ l_closed K' = true.
Proof.
  intros n tr c tr' c' k K Hr. apply run_reach in Hr. revert c K Hr.
  induction tr'; simpl; intros c K Hr HK Hc H.
  - inversion H; subst. eauto.
  - destruct (step c a) as [c1|] eqn:E; try discriminate.
    destruct (frozen_step _ _ _ _ _ (safe_sel_reach _ _ Hr) E HK Hc) as (K1 & HK1 & Hl1 & Hc1).
    destruct (IHtr' c1 K1 (reach_step _ _ _ _ Hr E) HK1 Hc1 H) as (K' & HK' & Hl & Hc').
    exists K'. split; auto. split; auto. congruence.
Qed.

(* ---------- (b) Bus.listeners: no duplicates, keeps every live listener, only registered ones ---------- *)
Theorem collect_keeps_live : forall n tr c, run (init n) tr = Some c ->
  NoDup (blist c) /\
  (forall k K, nth_error (ls c) k = Some K -> l_reg K = true -> l_cancel K = false -> In k (blist c)) /\
  (forall k, In k (blist c) -> exists K, nth_error (ls c) k = Some K /\ l_reg K = true).
Proof.
  intros n tr c Hr. apply run_reach in Hr.
  destruct (oinv_reach _ _ Hr) as (_ & _ & _ & O4 & O5).
  split; auto. split; auto. exact (rinv_reach _ _ Hr).
Qed.

(* ---------- (c) the history of one Send call ---------- *)
(* how sender s changes in one step: either the call counter is the same and the sender is idle
   afterwards or was inside a call and keeps its snapshot, or it was idle and starts a new call *)
Lemma sender_same : forall X,
  s_calls X = s_calls X /\ (s_pc X = SIdle \/ (s_pc X <> SIdle /\ snap_of (s_pc X) = snap_of (s_pc X))).
Proof. intros X. split; auto. destruct (s_pc X); auto; right; split; auto; discriminate. Qed.

Lemma sender_step : forall c a c' s X, step c a = Some c' -> nth_error (ss c) s = Some X ->
  exists X', nth_error (ss c') s = Some X' /\
    ((s_calls X' = s_calls X /\
      (s_pc X' = SIdle \/ (s_pc X <> SIdle /\ snap_of (s_pc X') = snap_of (s_pc X))))
     \/ (s_pc X = SIdle /\ s_calls X' = S (s_calls X))).
Proof.
  intros c a c' s X H HX. pose proof (nth_some_lt _ _ _ HX) as Hlt.
  pose proof (sender_same X) as Same.
  destruct a; simpl in H; break_step H; unfold set_s, set_l; cbn [ss];
    try solve [exists X; split; auto];
    match goal with |- context [nth_error (upd (ss c) ?s1 ?x) s] =>
      destruct (Nat.eq_dec s1 s) as [->|Hne];
      [rewrite nth_upd_eq by auto; same_k; eexists; split; [reflexivity|];
       cbn [with_pc s_calls s_pc snap_of]
      |rewrite nth_upd_neq by auto; exists X; split; auto] end;
    try match goal with E : s_pc _ = _ |- _ => rewrite E end; cbn [snap_of];
    try solve [left; split; [reflexivity|]; left; reflexivity];
    try solve [left; split; [reflexivity|]; right; split; [discriminate|reflexivity]];
    try solve [right; split; reflexivity].
  (* LCancelSend s: the pc is unchanged *)
  left. split; auto. destruct (s_pc _); auto; right; split; auto; discriminate.
Qed.

(* sender s is still inside call number n0 with snapshot sn0, or has finished that call, or has
   started a later one *)
Definition in_call (n0 : nat) (sn0 : list nat) (X : sender) : Prop :=
  (s_calls X = n0 /\ (s_pc X = SIdle \/ snap_of (s_pc X) = sn0)) \/ s_calls X > n0.

Lemma in_call_step : forall n0 sn0 c a c' s X, step c a = Some c' -> nth_error (ss c) s = Some X ->
  in_call n0 sn0 X -> exists X', nth_error (ss c') s = Some X' /\ in_call n0 sn0 X'.
Proof.
  unfold in_call. intros n0 sn0 c a c' s X H HX J.
  destruct (sender_step _ _ _ _ _ H HX) as (X' & HX' & [(Hc & Hp)|(Hp & Hc)]); exists X'; (split; [auto|]).
  - destruct J as [(Jc & Jp)|J]; [left|right; lia]. split; [lia|].
    destruct Hp as [Hp|(Hne & Hs)]; auto. destruct Jp as [Jp|Jp]; [contradiction|]. right. congruence.
  - right. destruct J as [(Jc & _)|J]; lia.
Qed.

Lemma in_call_run : forall n0 sn0 s tr c c' X, run c tr = Some c' -> nth_error (ss c) s = Some X ->
  in_call n0 sn0 X -> exists X', nth_error (ss c') s = Some X' /\ in_call n0 sn0 X'.
Proof.
  intros n0 sn0 s. induction tr; simpl; intros c c' X H HX J.
  - inversion H; subst. eauto.
  - destruct (step c a) as [c1|] eqn:E; try discriminate.
    destruct (in_call_step _ _ _ _ _ _ _ E HX J) as (X1 & HX1 & J1). eauto.
Qed.

(* the listen context flag only goes up *)
Lemma cancel_mono_step : forall c a c' k K, step c a = Some c' -> nth_error (ls c) k = Some K ->
  exists K', nth_error (ls c') k = Some K' /\ (l_cancel K = true -> l_cancel K' = true).
Proof.
  intros c a c' k K H HK. destruct (ls_forward _ _ _ _ _ H HK) as (K' & HK' & (R1 & _)).
  exists K'. split; auto. intros Hc. destruct R1 as [R1|(_ & R1)]; congruence.
Qed.

Lemma cancel_mono_run : forall tr c c' k K, run c tr = Some c' -> nth_error (ls c) k = Some K ->
  exists K', nth_error (ls c') k = Some K' /\ (l_cancel K = true -> l_cancel K' = true).
Proof.
  induction tr; simpl; intros c c' k K H HK.
  - inversion H; subst. eauto.
  - destruct (step c a) as [c1|] eqn:E; try discriminate.
    destruct (cancel_mono_step _ _ _ _ _ E HK) as (K1 & HK1 & M1).
    destruct (IHtr _ _ _ _ H HK1) as (K' & HK' & M). eauto.
Qed.

(* Whatever happens between the start of a Send (LCall s at c1) and its `return true` (LFinish s
   at c3) - other Sends overlapping, listeners registering, cancels, collects by other senders -
   every listener registered before the call and still not cancelled at the return has the event
   of this call, exactly once.  [s_calls X3 = s_calls X2] says that c3 is still inside the same
   call (tr2 does not contain the end of this call and the start of another one). *)
Theorem send_history : forall n tr1 c1 s c2 tr2 c3 c4 X2 X3,
  run (init n) tr1 = Some c1 -> step c1 (LCall s) = Some c2 -> run c2 tr2 = Some c3 ->
  step c3 (LFinish s) = Some c4 ->
  nth_error (ss c2) s = Some X2 -> nth_error (ss c3) s = Some X3 -> s_calls X3 = s_calls X2 ->
  forall k K1 K4, nth_error (ls c1) k = Some K1 -> l_reg K1 = true ->
    nth_error (ls c4) k = Some K4 -> l_cancel K4 = false ->
    In (s, s_calls X2) (l_log K4) /\ NoDup (l_log K4).
Proof.
  intros n tr1 c1 s c2 tr2 c3 c4 X2 X3 Hr1 Hcall Hr2 Hfin HX2 HX3 Hcalls k K1 K4 HK1 Hreg HK4 Hlive.
  assert (R1 : reach n c1) by (eapply run_reach; eauto).
  assert (R2 : reach n c2) by (eapply reach_step; eauto).
  assert (R3 : reach n c3) by (eapply reach_run; eauto).
  assert (R4 : reach n c4) by (eapply reach_step; eauto).
  (* the listener is not cancelled at c1 *)
  assert (Hlive1 : l_cancel K1 = false).
  { destruct (l_cancel K1) eqn:Ec; auto. exfalso.
    destruct (cancel_mono_step _ _ _ _ _ Hcall HK1) as (Ka & HKa & Ma).
    destruct (cancel_mono_run _ _ _ _ _ Hr2 HKa) as (Kb & HKb & Mb).
    destruct (cancel_mono_step _ _ _ _ _ Hfin HKb) as (Kc & HKc & Mc).
    rewrite HK4 in HKc. inversion HKc; subst Kc. rewrite Mc in Hlive; auto. discriminate. }
  (* so it is in the snapshot *)
  pose proof (rinv_reach _ _ R1 _ _ HK1 Hreg Hlive1) as Hin.
  assert (Hsnap2 : snap_of (s_pc X2) = blist c1).
  { simpl in Hcall. destruct (nth_error (ss c1) s) as [X1|] eqn:HX1; try discriminate.
    destruct (s_pc X1); try discriminate. inversion Hcall; subst c2. clear Hcall.
    simpl in HX2. rewrite nth_upd_eq in HX2 by (eapply nth_some_lt; eauto).
    inversion HX2; subst X2. reflexivity. }
  (* c3 is inside the same call, so with the same snapshot *)
  assert (J2 : in_call (s_calls X2) (blist c1) X2).
  { left. split; auto. }
  destruct (in_call_run _ _ _ _ _ _ _ Hr2 HX2 J2) as (X3' & HX3' & J3).
  rewrite HX3 in HX3'. inversion HX3'; subst X3'. clear HX3'.
  pose proof Hfin as Hfin0. simpl in Hfin0. rewrite HX3 in Hfin0.
  destruct (s_pc X3) as [|rest g sn|] eqn:Hpc3; try discriminate.
  destruct rest; try discriminate. clear Hfin0.
  assert (Hsn : sn = blist c1).
  { destruct J3 as [(_ & [J|J])|J]; [congruence|rewrite Hpc3 in J; exact J|lia]. }
  subst sn.
  (* at the return the event was delivered or the listener is cancelled *)
  pose proof (dinv_reach _ _ R3 _ _ k HX3) as D. rewrite Hpc3 in D. simpl in D.
  destruct (D Hin) as [[]|P].
  destruct (served_step _ _ _ _ _ _ Hfin P) as (L4 & HL4 & Q).
  rewrite HK4 in HL4. inversion HL4; subst L4. clear HL4.
  split.
  - destruct Q as [Q|Q]; [congruence|]. rewrite <- Hcalls. exact Q.
  - destruct (oinv_reach _ _ R4) as (O1 & _). apply sorted_log_nodup. eapply O1; eauto.
Qed.

(* ---------- (d) the hypotheses of send_history are satisfiable ---------- *)
(* Sender 0's Send (LCall 0 ... LFinish 0) overlaps: the registration of listener 2, the end of
   sender 1's Send with its collect (which drops the cancelled listener 1 from Bus.listeners),
   and sender 0 itself skips the cancelled listener 1.  Listener 0, registered before and live
   throughout, has the event (0,1). *)
Example send_history_nonvacuous : exists c1 c2 c3 c4 X2 X3 K1 K4,
  run (init 2) [LListen; LRegister 0; LListen; LRegister 1; LCall 1; LRLock 1; LRecvStart 0;
                LDeliver 1; LRLock 1; LCancel 1] = Some c1 /\
  step c1 (LCall 0) = Some c2 /\
  run c2 [LListen; LRegister 2; LSelListenCtx 1; LFinish 1; LRLock 0; LRecvStart 0; LDeliver 0;
          LRLock 0; LSelListenCtx 0] = Some c3 /\
  step c3 (LFinish 0) = Some c4 /\
  nth_error (ss c2) 0 = Some X2 /\ nth_error (ss c3) 0 = Some X3 /\ s_calls X3 = s_calls X2 /\
  nth_error (ls c1) 0 = Some K1 /\ l_reg K1 = true /\
  nth_error (ls c4) 0 = Some K4 /\ l_cancel K4 = false /\
  l_log K4 = [(0, 1); (1, 1)] /\ blist c1 = [0; 1] /\ blist c3 = [0; 2] /\ blist c4 = [0; 2].
Proof.
  do 8 eexists.
  split; [cbv; reflexivity|]. split; [cbv; reflexivity|]. split; [cbv; reflexivity|].
  split; [cbv; reflexivity|]. split; [cbv; reflexivity|]. split; [cbv; reflexivity|].
  split; [cbv; reflexivity|]. split; [cbv; reflexivity|]. split; [cbv; reflexivity|].
  split; [cbv; reflexivity|]. split; [cbv; reflexivity|]. split; [cbv; reflexivity|].
  split; [cbv; reflexivity|]. split; cbv; reflexivity.
Qed.

Print Assumptions log_frozen_after_close.
Print Assumptions collect_keeps_live.
Print Assumptions send_history.
