(* The publishing turnstile of a resource (pkg/resource/turnstile.go; Res.v [rdone]): enter and leave
   are paired on every path out of Set / Update / Delete.  Proofs. *)
From SC Require Import Base.Prelude Bus.Bus Bus.BusProofs Bus.Res Bus.ResProofs.

Local Open Scope nat_scope.

(* The commits between the turnstile counter and the commit counter are exactly the commits some
   writer still carries: nobody is lost in between (a writer that returned has left), nobody carries a
   commit that has already left; the writer inside bus.Send is the one the turnstile admitted; and when
   a writer returns - whatever its Send returned: delivered, listener cancelled, or given up on its
   own context - the counter moves to its commit and the writer of the next commit, if it is waiting,
   can publish at once. *)
Theorem turnstile_pairing : forall n C, rreach true n C ->
  rdone C <= rcommits C /\
  (forall m, rdone C < m -> m <= rcommits C ->
     exists w p, nth_error (rw C) w = Some p /\ commit_of p = Some m) /\
  (forall w p m, nth_error (rw C) w = Some p -> commit_of p = Some m -> rdone C < m /\ m <= rcommits C) /\
  (forall w p m, nth_error (rw C) w = Some p -> in_send p = true -> commit_of p = Some m -> m = S (rdone C)) /\
  (forall w p, nth_error (rw C) w = Some p -> in_send p = true -> sender_idle (rb C) w = true ->
     exists C' m, rstep true C (RReturn w) = Some C' /\ commit_of p = Some m /\ rdone C' = m /\
       forall u q, nth_error (rw C') u = Some q -> commit_of q = Some (S m) -> in_send q = false ->
         rstep true C' (RPublish u) <> None).
Proof.
  intros n C Hr. pose proof (inv_commit_reach _ _ _ Hr) as (A & B & Cc & D & E).
  split; [apply E; reflexivity|]. split; [intros m H1 H2; apply (Cc eq_refl m H1 H2)|].
  split; [intros w p m Hp Hm; destruct (A _ _ _ Hp Hm) as (A1 & A2); split; auto|].
  split; [intros w p m Hp Hs Hm; eapply D; eauto|].
  intros w p Hp Hs Hidle.
  assert (exists m, commit_of p = Some m /\ rstep true C (RReturn w) =
            Some (mkR (rb C) (upd (rw C) w RIdle) (rcommits C) m (rpend C))) as (m & Hm & Hst).
  { destruct p; simpl in Hs; try discriminate; eexists; (split; [reflexivity|]); simpl; rewrite Hp, Hidle; reflexivity. }
  eexists. exists m. split; [exact Hst|]. split; [exact Hm|]. split; [reflexivity|].
  intros u q Hq Hcq Hsq.
  assert (rreach true n (mkR (rb C) (upd (rw C) w RIdle) (rcommits C) m (rpend C))) as Hr'.
  { eapply rreach_rrun with (tr := [RReturn w]); [exact Hr|]. cbn [rrun]. rewrite Hst. reflexivity. }
  pose proof (inv_idle_reach _ _ _ Hr') as Iidle.
  destruct (writer_has_sender _ _ _ _ _ Hr' Hq) as (X & HX).
  destruct (call_enabled _ _ _ HX (Iidle _ _ _ Hq Hsq HX)) as (c' & Hc').
  cbn [rb] in Hc'. cbn [rw] in Hq.
  destruct q; simpl in Hcq, Hsq; try discriminate; inversion Hcq; subst;
    unfold rstep; cbn [rw rdone rb]; rewrite Hq; rewrite Nat.eqb_refl; cbn [negb orb]; rewrite Hc'; discriminate.
Qed.

(* ---- the leave skipped when the Send gave up: refuted ----
   One subscriber with backpressure that does not receive; writer 0 commits 1, publishes, sits in the
   select; its send context expires, the Send gives up, the call returns - without leaving.  The
   subscriber cancels, its channel is closed, its watcher is gone.  Writer 1 commits 2 and waits at the
   turnstile for commit 1 for ever: every subscriber is cancelled, a call is in progress, and no
   goroutine of the library can take a step. *)
Definition giveup_trace : list rlabel :=
  [RSubBegin true; RSubEnd 0; RUpdStart 0; RUpdSave 0; RPublish 0; RBus (LRLock 0);
   RBus (LCancelSend 0); RBus (LSelSendCtx 0); RReturn 0;
   RBus (LCancel 0); RBus (LWake 0); RBus (LLockReq 0); RBus (LStop 0);
   RUpdStart 1; RUpdSave 1].

Theorem leave_skipped_on_giveup_refuted : exists C,
  rrun_leaky (rinit 2) giveup_trace = Some C /\
  all_cancelled C = true /\ busy C = true /\
  (forall a, autonomous a = true -> rstep_leaky C a = None).
Proof.
  eexists. split; [vm_compute; reflexivity|]. split; [reflexivity|]. split; [reflexivity|].
  intros a Ha. destruct a as [b|w|w|w|w|w|w|w|w|w| |uo|k]; try discriminate Ha.
  - destruct b; try discriminate Ha;
      (destruct s as [|[|[|s]]] || destruct k as [|[|[|k]]]); try reflexivity.
  - destruct w as [|[|[|w]]]; reflexivity.
  - destruct w as [|[|[|w]]]; reflexivity.
  - destruct w as [|[|[|w]]]; reflexivity.
  - destruct w as [|[|[|w]]]; reflexivity.
  - destruct w as [|[|[|w]]]; reflexivity.
  - destruct w as [|[|[|w]]]; reflexivity.
  - destruct w as [|[|[|w]]]; reflexivity.
  - destruct k as [|[|k]]; reflexivity.
Qed.

(* the code as it is (leave deferred): the same history ends with writer 1 publishing *)
Example giveup_then_next_writer_publishes : exists C C',
  rrun true (rinit 2) giveup_trace = Some C /\ all_cancelled C = true /\
  rstep true C (RPublish 1) = Some C'.
Proof. eexists. eexists. split; [vm_compute; reflexivity|]. split; reflexivity. Qed.
