(* Proofs about the subscription pipeline model (Pipe.v). *)
From SC Require Import Base.Prelude Bus.Bus Bus.Pipe Bus.BusProofs.
Local Open Scope nat_scope.

Definition sw (st : stage) (k : nat) : nat := if is_done st then 0 else 1 + pend st * (1 + k).

Lemma weight_cons : forall st r, weight (st :: r) = sw st (List.length r) + weight r.
Proof. reflexivity. Qed.

Lemma weight_upd : forall l i st st', nth_error l i = Some st ->
  weight (upd l i st') + sw st (List.length l - i - 1) = weight l + sw st' (List.length l - i - 1).
Proof.
  induction l; intros i st st' H.
  - destruct i; discriminate.
  - destruct i.
    + simpl in H. inversion H. subst. simpl upd. rewrite !weight_cons. simpl List.length.
      replace (S (List.length l) - 0 - 1) with (List.length l) by lia. lia.
    + simpl in H. simpl upd. rewrite !weight_cons. rewrite upd_length.
      specialize (IHl i st st' H). simpl List.length.
      replace (S (List.length l) - S i - 1) with (List.length l - i - 1) by lia. lia.
Qed.

Lemma remove_id_length : forall id q, List.length (remove_id id q) <= List.length q.
Proof. induction q; simpl; auto. destruct (m_id a =? id)%Z; simpl; lia. Qed.

Lemma merge_in_length : forall q m, List.length (merge_in q m) <= List.length q + 1.
Proof.
  intros. unfold merge_in. destruct (find_id (m_id m) q).
  - pose proof (remove_id_length (m_id m) q). destruct (merge_kind (m_kind m0) (m_kind m)).
    + rewrite app_length. simpl. lia.
    + lia.
  - rewrite app_length. simpl. lia.
Qed.

Lemma pend_recv : forall st m, accepting st = true -> pend (recv st m) <= pend st + 1.
Proof.
  intros st m H. destruct st; simpl in *; try discriminate.
  - destruct cur; try discriminate. simpl. lia.
  - destruct has; simpl; lia.
  - apply merge_in_length.
  - destruct seeds; try discriminate. destruct cur; try discriminate. simpl. lia.
  - destruct cur; try discriminate. destruct (m_id m =? id)%Z; [destruct (m_kind m =? 3)%Z|]; simpl; lia.
Qed.

Lemma accepting_not_done : forall st, accepting st = true -> is_done st = false.
Proof. destruct st; simpl; auto; discriminate. Qed.

Lemma offer_sent : forall st m, offer st = Some m -> is_done st = false /\ is_done (sent st) = false /\ pend st = S (pend (sent st)).
Proof.
  intros st m H. destruct st; simpl in *; try discriminate.
  - subst. auto.
  - subst. auto.
  - destruct q; try discriminate. simpl. auto.
  - destruct seeds; simpl.
    + subst. auto.
    + split; auto.
  - subst. auto.
Qed.

(* ---------- after the listener channel is closed every step makes the measure smaller ---------- *)
Lemma pstep_decreases : forall fx p a p',
  p_src_closed p = true -> p_cancel p = true -> pstep_gen fx p a = Some p' ->
  pmeasure p' < pmeasure p /\ p_src_closed p' = true /\ p_cancel p' = true.
Proof.
  intros fx p a p' Hc Hk H. unfold pmeasure. destruct a; cbv beta iota delta [pstep_gen] in H.
  - rewrite Hk in H. discriminate.
  - rewrite Hk, Hc in H. discriminate.
  - rewrite Hc in H. discriminate.
  - (* PXfer *)
    unfold stage_at in H. destruct (nth_error (p_stages p) i) as [st|] eqn:Hst; try discriminate.
    destruct (offer st) as [m|] eqn:Ho; try discriminate.
    destruct (offer_sent _ _ Ho) as (Hnd & Hnd' & Hp).
    destruct (Nat.eqb (S i) (List.length (p_stages p))) eqn:El.
    + apply Nat.eqb_eq in El. inversion H; subst; clear H. simpl. split; auto.
      pose proof (weight_upd _ _ _ (sent st) Hst) as W.
      replace (List.length (p_stages p) - i - 1) with 0 in W by lia.
      unfold sw in W. rewrite Hnd, Hnd' in W. nia.
    + destruct (nth_error (p_stages p) (S i)) as [nx|] eqn:Hnx; try discriminate.
      destruct (accepting nx) eqn:Ha; try discriminate.
      inversion H; subst; clear H. simpl. rewrite Hk. simpl. split; auto.
      pose proof (weight_upd _ _ _ (sent st) Hst) as W1.
      assert (Hnx' : nth_error (upd (p_stages p) i (sent st)) (S i) = Some nx).
      { rewrite nth_upd_neq by lia. auto. }
      pose proof (weight_upd _ _ _ (recv nx m) Hnx') as W2. rewrite upd_length in W2.
      apply nth_some_lt in Hnx.
      remember (List.length (p_stages p) - S i - 1) as k.
      replace (List.length (p_stages p) - i - 1) with (S k) in W1 by lia.
      pose proof (pend_recv nx m Ha) as Hr. pose proof (accepting_not_done _ Ha) as Hnn.
      unfold sw in *. rewrite Hnd, Hnd' in W1. rewrite Hnn in W2.
      destruct (is_done (recv nx m)); nia.
  - (* PExit *)
    unfold stage_at in H. destruct (nth_error (p_stages p) i) as [st|] eqn:Hst; try discriminate.
    match type of H with (if ?b then _ else _) = _ => destruct b eqn:Hb; try discriminate end.
    inversion H; subst; clear H. simpl. split; auto.
    apply andb_true_iff in Hb. destruct Hb as (Hnd & _). apply negb_true_iff in Hnd.
    pose proof (weight_upd _ _ _ StDone Hst) as W. unfold sw in W. rewrite Hnd in W. simpl in W. lia.
Qed.

(* every schedule after the close is at most as long as the measure *)
Theorem pipe_terminates : forall fx tr p p',
  p_src_closed p = true -> p_cancel p = true -> prun_gen fx p tr = Some p' ->
  List.length tr + pmeasure p' <= pmeasure p.
Proof.
  intros fx tr. induction tr; simpl; intros p p' Hc Hk H.
  - inversion H. lia.
  - destruct (pstep_gen fx p a) eqn:E; try discriminate.
    destruct (pstep_decreases _ _ _ _ Hc Hk E) as (Hm & Hc' & Hk').
    specialize (IHtr _ _ Hc' Hk' H). lia.
Qed.

(* ---------- and as long as a stage is left, one of them can end ---------- *)
Lemma first_not_done : forall l, forallb is_done l = false ->
  exists i st, nth_error l i = Some st /\ is_done st = false /\
    (forall j, j < i -> exists sj, nth_error l j = Some sj /\ is_done sj = true).
Proof.
  induction l; simpl; intros H; try discriminate.
  destruct (is_done a) eqn:Ea.
  - simpl in H. destruct (IHl H) as (i & st & Hn & Hd & Hp).
    exists (S i), st. split; auto. split; auto. intros j Hj. destruct j.
    + exists a. auto.
    + apply Hp. lia.
  - exists 0, a. split; auto. split; auto. intros j Hj. lia.
Qed.

Lemma after_ok_next : forall l i c, after_ok l = true -> nth_error l i = Some (StAfter c) ->
  exists nx, nth_error l (S i) = Some nx /\ always_accepting nx = true.
Proof.
  induction l; intros i c H Hn.
  - destruct i; discriminate.
  - destruct i.
    + simpl in Hn. inversion Hn; subst. simpl in H. destruct l; [discriminate|].
      apply andb_true_iff in H. exists s. simpl. tauto.
    + simpl in Hn. apply (IHl i c); auto. simpl in H. destruct a; auto.
      apply andb_true_iff in H. tauto.
Qed.

Lemma always_accepting_accepting : forall st, always_accepting st = true -> accepting st = true.
Proof. destruct st; simpl; auto; discriminate. Qed.

(* while a stage is left, the first stage that has not ended can move: it returns (PExit), or -
   changesAfter holding a change, which has no other way out - hands the change to the stage
   after it, which always receives *)
Theorem pipe_progress : forall fx p,
  p_src_closed p = true -> p_cancel p = true -> after_ok (p_stages p) = true -> all_stages_done p = false ->
  exists i p', pstep_gen fx p (PExit i) = Some p' \/ pstep_gen fx p (PXfer i) = Some p'.
Proof.
  intros fx p Hc Hk Hok H. unfold all_stages_done in H.
  destruct (first_not_done _ H) as (i & st & Hn & Hd & Hp).
  exists i. cbv beta iota delta [pstep_gen]. unfold stage_at. rewrite Hn. rewrite Hd.
  assert (Hin : input_closed p i = true).
  { destruct i; simpl; auto. unfold stage_at. destruct (Hp i) as (sj & Hj & Hdj); [lia|]. rewrite Hj. auto. }
  rewrite Hin, Hk. destruct (accepting st) eqn:Ha; cbn [negb andb orb].
  - eexists; left; reflexivity.
  - destruct st; simpl in Ha, Hd; try discriminate; cbn [has_ctx andb orb]; try (eexists; left; reflexivity).
    (* StAfter (Some m) *)
    destruct cur as [m|]; [|discriminate]. cbn [offer].
    destruct (after_ok_next _ _ _ Hok Hn) as (nx & Hnx & Hacc).
    assert (Hl : S i < List.length (p_stages p)) by (eapply nth_some_lt; eauto).
    destruct (Nat.eqb (S i) (List.length (p_stages p))) eqn:E; [apply Nat.eqb_eq in E; lia|].
    rewrite Hnx, (always_accepting_accepting _ Hacc). eexists; right; reflexivity.
Qed.

(* the shape needed by changesAfter is kept by every step *)
Definition shape_ok (st st' : stage) : Prop :=
  match st, st' with StAfter _, _ => True | _, StAfter _ => False | _, _ => True end.

Lemma after_ok_upd_same : forall l i st st', nth_error l i = Some st ->
  always_accepting st' = always_accepting st -> shape_ok st st' ->
  after_ok l = true -> after_ok (upd l i st') = true.
Proof.
  unfold shape_ok. induction l; intros i st st' Hn Ha Hs H.
  - destruct i; discriminate.
  - destruct i.
    + simpl in Hn. inversion Hn; subst. simpl upd.
      destruct st, st'; simpl in *; auto; try tauto; try (apply andb_true_iff in H; tauto).
    + simpl in Hn. simpl upd. 
      assert (IH : after_ok (upd l i st') = true).
      { apply (IHl i st st'); auto. simpl in H. destruct a; auto. apply andb_true_iff in H. tauto. }
      destruct a; simpl in *; auto.
      apply andb_true_iff in H. destruct H as (H1 & H2). apply andb_true_iff. split; auto.
      destruct l; [discriminate|]. destruct i; simpl in *.
      * inversion Hn; subst. rewrite Ha. auto.
      * auto.
Qed.

(* the consumer's channel is closed exactly when the last stage has ended *)
Lemma src_closed_cancelled : forall tr stages p,
  prun (init_pipe stages) tr = Some p -> p_src_closed p = true -> p_cancel p = true.
Proof.
  intros tr stages p H. 
  assert (G : forall tr p0 p, (p_src_closed p0 = true -> p_cancel p0 = true) ->
              prun_gen true p0 tr = Some p -> p_src_closed p = true -> p_cancel p = true).
  { clear. induction tr; simpl; intros p0 p I H.
    - inversion H; subst; auto.
    - destruct (pstep_gen true p0 a) eqn:E; try discriminate. eapply IHtr; [|eauto].
      clear IHtr H. destruct a; cbv beta iota delta [pstep_gen] in E.
      + destruct (p_cancel p0); inversion E; subst; simpl; auto.
      + destruct (p_cancel p0 && negb (p_src_closed p0)); inversion E; subst; simpl; auto.
      + destruct (p_src_closed p0) eqn:Ec; try discriminate.
        destruct (stage_at p0 0); try discriminate. destruct (accepting s); inversion E; subst; simpl.
        intros; congruence.
      + destruct (stage_at p0 i); try discriminate. destruct (offer s); try discriminate.
        destruct (Nat.eqb (S i) (List.length (p_stages p0))).
        * inversion E; subst; simpl; auto.
        * destruct (stage_at p0 (S i)); try discriminate. destruct (accepting s0); inversion E; subst; simpl.
          intros Hc. rewrite (I Hc). auto.
      + destruct (stage_at p0 i); try discriminate.
        match type of E with (if ?b then _ else _) = _ => destruct b; try discriminate end.
        inversion E; subst; simpl; auto. }
  apply (G tr (init_pipe stages) p); auto; simpl; discriminate.
Qed.

(* ---------- PullID ends when its item is removed, and (since 728882a) ends the chain ---------- *)
Theorem pullid_ends_on_remove : forall p i st m id,
  stage_at p i = Some st -> offer st = Some m ->
  stage_at p (S i) = Some (StPullID id None) -> m_id m = id -> m_kind m = 3%Z ->
  exists p', pstep p (PXfer i) = Some p' /\ stage_at p' (S i) = Some StDone /\ p_cancel p' = true.
Proof.
  intros p i st m id Hst Ho Hnx Hid Hk. unfold pstep. cbv beta iota delta [pstep_gen]. rewrite Hst, Ho.
  assert (Hl : S i < List.length (p_stages p)) by (eapply nth_some_lt; eauto).
  destruct (Nat.eqb (S i) (List.length (p_stages p))) eqn:E.
  { apply Nat.eqb_eq in E. lia. }
  rewrite Hnx. cbn [accepting]. eexists. split; [reflexivity|]. unfold stage_at. cbn [p_stages p_cancel].
  rewrite nth_upd_eq by (rewrite upd_length; auto).
  cbn [recv ends_chain]. rewrite Hid, Hk, Z.eqb_refl. simpl. split; auto. apply orb_true_r.
Qed.

(* before the fix: after the REMOVE the consumer's channel is closed, nobody cancelled, and the
   inner forwarder is stuck holding the next change: no step but a cancel is possible, in
   particular the bus can never deliver again (PSrc), so with backpressure every later
   Bus.Send(context.TODO()) on this listener blocks for ever *)
Definition v0_witness_trace : list plabel :=
  [PSrc (mkM 3 1 5); PXfer 0; PXfer 1; PSrc (mkM 3 3 0); PXfer 0; PSrc (mkM 3 1 6)].

Theorem pullid_v0_stuck : exists p,
  prun_v0 (init_pipe [StFwd [] None; StPullID 3 None]) v0_witness_trace = Some p /\
  p_cancel p = false /\ input_closed p 2 = true /\ stage_at p 0 = Some (StFwd [] (Some (mkM 3 1 6))) /\
  (forall a, a <> PCancel -> pstep_v0 p a = None).
Proof.
  exists (mkP false false [StFwd [] (Some (mkM 3 1 6)); StDone] [mkM 3 1 5]).
  split; [vm_compute; reflexivity|]. split; [reflexivity|]. split; [reflexivity|]. split; [reflexivity|].
  intros a Ha. destruct a; try congruence; try reflexivity.
  - destruct i as [|[|[|i]]]; reflexivity.
  - destruct i as [|[|[|i]]]; reflexivity.
Qed.

(* the same schedule on the current code: the chain is cancelled by PullID itself and then
   every stage ends (the forwarder is not stuck, it returns through its ctx case) *)
Example pullid_fixed_same_schedule : exists p,
  prun (init_pipe [StFwd [] None; StPullID 3 None]) [PSrc (mkM 3 1 5); PXfer 0; PXfer 1; PSrc (mkM 3 3 0); PXfer 0] = Some p /\
  p_cancel p = true /\ input_closed p 2 = true /\
  exists p', prun p [PSrcClose; PExit 0] = Some p' /\ all_stages_done p' = true.
Proof.
  exists (mkP true false [StFwd [] None; StDone] [mkM 3 1 5]).
  split; [vm_compute; reflexivity|]. split; [reflexivity|]. split; [reflexivity|].
  exists (mkP true true [StDone; StDone] [mkM 3 1 5]). split; vm_compute; reflexivity.
Qed.

Lemma after_ok_tail : forall a r, after_ok (a :: r) = true -> after_ok r = true.
Proof. intros a r H. simpl in H. destruct a; auto. apply andb_true_iff in H. tauto. Qed.

Lemma after_ok_exit : forall l i st, nth_error l i = Some st -> after_ok l = true ->
  match i with 0 => True | S j => exists sj, nth_error l j = Some sj /\ is_done sj = true end ->
  after_ok (upd l i StDone) = true.
Proof.
  induction l; intros i st Hn H Hp.
  - destruct i; discriminate.
  - destruct i.
    + simpl. eapply after_ok_tail; eauto.
    + simpl in Hn. simpl upd. pose proof (after_ok_tail _ _ H) as Ht.
      assert (IH : after_ok (upd l i StDone) = true).
      { apply (IHl i st); auto; destruct i; auto; destruct Hp as (sj & Hj & Hd); simpl in Hj; eauto. }
      destruct a; simpl; auto.
      destruct i.
      * destruct Hp as (sj & Hj & Hd). simpl in Hj. inversion Hj; subst. discriminate.
      * simpl in H. destruct l; [discriminate|]. apply andb_true_iff in H. destruct H as (H1 & _).
        change (upd (s :: l) (S i) StDone) with (s :: upd l i StDone) in *.
        apply andb_true_iff. split; auto.
Qed.

Lemma recv_shape : forall st m, always_accepting (recv st m) = always_accepting st /\ shape_ok st (recv st m).
Proof.
  unfold shape_ok. intros st m. destruct st; simpl; auto.
  - destruct cur; simpl; auto.
  - destruct seeds; [destruct cur|]; simpl; auto.
  - destruct cur; simpl; auto. destruct (m_id m =? id)%Z; [destruct (m_kind m =? 3)%Z|]; simpl; auto.
Qed.

Lemma sent_shape : forall st, always_accepting (sent st) = always_accepting st /\ shape_ok st (sent st).
Proof. unfold shape_ok. intros st. destruct st; simpl; auto. destruct seeds; simpl; auto. Qed.

Theorem after_ok_step : forall fx p a p',
  after_ok (p_stages p) = true -> pstep_gen fx p a = Some p' -> after_ok (p_stages p') = true.
Proof.
  intros fx p a p' Hok H. destruct a; cbv beta iota delta [pstep_gen] in H; unfold stage_at in H.
  - destruct (p_cancel p); inversion H; subst; simpl; auto.
  - destruct (p_cancel p && negb (p_src_closed p)); inversion H; subst; simpl; auto.
  - destruct (p_src_closed p); try discriminate.
    destruct (nth_error (p_stages p) 0) as [st|] eqn:Hst; try discriminate.
    destruct (accepting st); inversion H; subst. simpl.
    destruct (recv_shape st m). apply (after_ok_upd_same _ _ st (recv st m)); auto.
  - destruct (nth_error (p_stages p) i) as [st|] eqn:Hst; try discriminate.
    destruct (offer st) as [m|]; try discriminate.
    destruct (sent_shape st) as (S1 & S2).
    assert (Hok1 : after_ok (upd (p_stages p) i (sent st)) = true) by (apply (after_ok_upd_same _ _ st (sent st)); auto).
    destruct (Nat.eqb (S i) (List.length (p_stages p))).
    + inversion H; subst. simpl. auto.
    + destruct (nth_error (p_stages p) (S i)) as [nx|] eqn:Hnx; try discriminate.
      destruct (accepting nx); inversion H; subst. simpl.
      destruct (recv_shape nx m). apply (after_ok_upd_same _ _ nx (recv nx m)); auto.
      rewrite nth_upd_neq by lia. auto.
  - destruct (nth_error (p_stages p) i) as [st|] eqn:Hst; try discriminate.
    match type of H with (if ?b then _ else _) = _ => destruct b eqn:Hb; try discriminate end.
    inversion H; subst. simpl.
    apply andb_true_iff in Hb. destruct Hb as (_ & Hb). apply orb_true_iff in Hb. destruct Hb as [Hb|Hb].
    + apply andb_true_iff in Hb. destruct Hb as (_ & Hin). eapply after_ok_exit; eauto.
      destruct i; auto. simpl in Hin. unfold stage_at in Hin.
      destruct (nth_error (p_stages p) i) eqn:Hj; try discriminate. eauto.
    + apply andb_true_iff in Hb. destruct Hb as (Hb & _). apply andb_true_iff in Hb. destruct Hb as (Hctx & _).
      apply (after_ok_upd_same _ _ st StDone); auto; unfold shape_ok; destruct st; simpl in *; auto; discriminate.
Qed.
