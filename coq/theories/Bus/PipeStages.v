(* Per-stage facts about the subscription pipeline model (Pipe.v): every kind of forwarding
   goroutine returns (closing its output) once its input is closed or the context is cancelled;
   no stage ever sends on a closed channel; a channel of the chain closes only after the cancel;
   a cancelled and closed chain drains; a subscription without backpressure never makes the
   writer wait for its consumer. *)
From SC Require Import Base.Prelude Bus.Bus Bus.Pipe Bus.BusProofs Bus.PipeProofs.
Local Open Scope nat_scope.

(* ---------- (e) input closed or context cancelled => the goroutine returns ---------- *)
Lemma exit_enabled : forall fx p i st,
  stage_at p i = Some st -> is_done st = false ->
  (accepting st && input_closed p i) || (has_ctx st && negb (accepting st) && p_cancel p) = true ->
  pstep_gen fx p (PExit i) = Some (set_stage p i StDone).
Proof.
  intros fx p i st Hst Hd Hc. cbv beta iota delta [pstep_gen]. rewrite Hst, Hd, Hc. reflexivity.
Qed.

(* minibus.DropExcess: `for event := range in` - returns when in is closed *)
Theorem stage_drop_exits : forall p i h, stage_at p i = Some (StDrop h) -> input_closed p i = true ->
  pstep p (PExit i) = Some (set_stage p i StDone).
Proof.
  intros p i h Hst Hin. apply (exit_enabled true p i _ Hst); auto. simpl. rewrite Hin. reflexivity.
Qed.

(* resource.mergeCollectionExcess: returns when in is closed (whatever it still holds) *)
Theorem stage_merge_exits : forall p i q, stage_at p i = Some (StMerge q) -> input_closed p i = true ->
  pstep p (PExit i) = Some (set_stage p i StDone).
Proof.
  intros p i q Hst Hin. apply (exit_enabled true p i _ Hst); auto. simpl. rewrite Hin. reflexivity.
Qed.

(* resource.changesAfter: with nothing in hand it returns when in is closed; holding a change it
   first hands it to the stage after it (which always receives), and then is in the first case *)
Theorem stage_after_exits : forall p i c, stage_at p i = Some (StAfter c) -> input_closed p i = true ->
  after_ok (p_stages p) = true ->
  match c with
  | None => pstep p (PExit i) = Some (set_stage p i StDone)
  | Some m => exists p', pstep p (PXfer i) = Some p' /\ stage_at p' i = Some (StAfter None) /\
                         input_closed p' i = true
  end.
Proof.
  intros p i c Hst Hin Hok. destruct c as [m|].
  - unfold stage_at in Hst. destruct (after_ok_next _ _ _ Hok Hst) as (nx & Hnx & Hacc).
    assert (Hl : S i < List.length (p_stages p)) by (eapply nth_some_lt; eauto).
    assert (Hli : i < List.length (p_stages p)) by lia.
    unfold pstep. cbv beta iota delta [pstep_gen]. unfold stage_at. rewrite Hst. cbn [offer].
    destruct (Nat.eqb (S i) (List.length (p_stages p))) eqn:E; [apply Nat.eqb_eq in E; lia|].
    rewrite Hnx, (always_accepting_accepting _ Hacc). eexists. split; [reflexivity|].
    unfold input_closed, stage_at. cbn [p_stages p_src_closed sent]. split.
    + rewrite nth_upd_neq by lia. rewrite nth_upd_eq by auto. reflexivity.
    + destruct i as [|j]; [exact Hin|].
      rewrite nth_upd_neq by lia. rewrite nth_upd_neq by lia. exact Hin.
  - apply (exit_enabled true p i _ Hst); auto. simpl. rewrite Hin. reflexivity.
Qed.

(* the forwarders of Value.Pull / Collection.Pull: waiting in `for event := range on` they return
   when on is closed; blocked in `select { case out <- ...: case <-ctx.Done(): return }` they
   return when the context is done *)
Theorem stage_fwd_exits : forall p i sd c, stage_at p i = Some (StFwd sd c) ->
  (accepting (StFwd sd c) = true -> input_closed p i = true ->
     pstep p (PExit i) = Some (set_stage p i StDone)) /\
  (accepting (StFwd sd c) = false -> p_cancel p = true ->
     pstep p (PExit i) = Some (set_stage p i StDone)).
Proof.
  intros p i sd c Hst. split; intros Ha Hb; apply (exit_enabled true p i _ Hst); auto;
    rewrite Ha, Hb; cbn [has_ctx negb andb orb]; auto.
Qed.

(* the forwarder of Collection.PullID: the same two ways out *)
Theorem stage_pullid_exits : forall p i id c, stage_at p i = Some (StPullID id c) ->
  (accepting (StPullID id c) = true -> input_closed p i = true ->
     pstep p (PExit i) = Some (set_stage p i StDone)) /\
  (accepting (StPullID id c) = false -> p_cancel p = true ->
     pstep p (PExit i) = Some (set_stage p i StDone)).
Proof.
  intros p i id c Hst. split; intros Ha Hb; apply (exit_enabled true p i _ Hst); auto;
    rewrite Ha, Hb; cbn [has_ctx negb andb orb]; auto.
Qed.

(* ---------- (f) no stage ever sends on a closed channel ---------- *)
Theorem xfer_channel_open_gen : forall fx p i p', pstep_gen fx p (PXfer i) = Some p' -> input_closed p (S i) = false.
Proof.
  intros fx p i p' H. cbv beta iota delta [pstep_gen] in H. unfold input_closed.
  destruct (stage_at p i) as [st|]; try discriminate.
  destruct (offer st) as [m|] eqn:Ho; try discriminate.
  apply (offer_sent _ _ Ho).
Qed.

Theorem xfer_channel_open : forall p i p', pstep p (PXfer i) = Some p' -> input_closed p (S i) = false.
Proof. intros p i p'. apply xfer_channel_open_gen. Qed.

Theorem src_channel_open : forall p m p', pstep p (PSrc m) = Some p' -> p_src_closed p = false.
Proof.
  intros p m p' H. unfold pstep in H. cbv beta iota delta [pstep_gen] in H.
  destruct (p_src_closed p); [discriminate|reflexivity].
Qed.

(* ---------- (g) a channel of the chain closes only after the cancel ---------- *)
(* PullID is never the first stage of a chain: it wraps an inner Pull.  (In the model a REMOVE
   delivered by PSrc straight into a PullID would end it without the cancel, which only PXfer
   models; see done_needs_cancel_head below.) *)
Definition is_pullid (st : stage) : bool := match st with StPullID _ _ => true | _ => false end.
Definition head_not_pullid (l : list stage) : bool :=
  match l with st :: _ => negb (is_pullid st) | [] => true end.

Definition cinv (p : pipe) : Prop :=
  head_not_pullid (p_stages p) = true /\
  (p_cancel p = false -> p_src_closed p = false /\ forall i, stage_at p i <> Some StDone).

Lemma head_upd : forall l i st st', nth_error l i = Some st ->
  (is_pullid st' = true -> is_pullid st = true) ->
  head_not_pullid l = true -> head_not_pullid (upd l i st') = true.
Proof.
  intros l i st st' Hn Hk H. destruct l; [destruct i; discriminate|].
  destruct i; simpl in *; auto. inversion Hn; subst.
  destruct (is_pullid st'); auto. rewrite Hk in H; auto.
Qed.

Lemma recv_pullid : forall st m, is_pullid (recv st m) = true -> is_pullid st = true.
Proof.
  intros st m. destruct st; simpl; auto.
  - destruct cur; auto.
  - destruct seeds; [destruct cur|]; auto.
Qed.

Lemma sent_pullid : forall st, is_pullid (sent st) = true -> is_pullid st = true.
Proof. intros st. destruct st; simpl; auto. destruct seeds; auto. Qed.

Lemma recv_done : forall st m, accepting st = true -> recv st m = StDone ->
  is_pullid st = true /\ ends_chain st m = true.
Proof.
  intros st m Ha H. destruct st; simpl in *; try discriminate.
  - destruct cur; discriminate.
  - destruct seeds; [destruct cur|]; discriminate.
  - destruct cur; try discriminate. split; auto.
    destruct (m_id m =? id)%Z; [|discriminate]. destruct (m_kind m =? 3)%Z; [auto|discriminate].
Qed.

Lemma is_done_eq : forall st, is_done st = true -> st = StDone.
Proof. destruct st; simpl; intros; try discriminate; auto. Qed.

Lemma cinv_input_open : forall p i, cinv p -> p_cancel p = false -> input_closed p i = false.
Proof.
  intros p i (_ & I) Hc. destruct (I Hc) as (I1 & I2). destruct i; simpl; auto.
  destruct (stage_at p i) as [st|] eqn:E; auto. destruct (is_done st) eqn:Ed; auto.
  apply is_done_eq in Ed. subst. exfalso. apply (I2 i). auto.
Qed.

Lemma cinv_step : forall p a p', cinv p -> pstep p a = Some p' -> cinv p'.
Proof.
  intros p a p' I H. pose proof I as (IH & IC). unfold pstep in H.
  destruct a; cbv beta iota delta [pstep_gen] in H; unfold stage_at in H.
  - destruct (p_cancel p); inversion H; subst. split; simpl; auto; discriminate.
  - destruct (p_cancel p && negb (p_src_closed p)); inversion H; subst. split; simpl; auto; discriminate.
  - (* PSrc *)
    destruct (p_src_closed p) eqn:Ec; try discriminate.
    destruct (nth_error (p_stages p) 0) as [st|] eqn:Hst; try discriminate.
    destruct (accepting st) eqn:Ha; inversion H; subst; clear H. unfold cinv, stage_at. simpl.
    split; [eapply head_upd; eauto; apply recv_pullid|].
    intros Hc. destruct (IC Hc) as (_ & I2). split; auto. intros j Hj.
    apply nth_upd in Hj. destruct Hj as [(<- & Hj & _)|(_ & Hj)]; [|apply (I2 j); auto].
    symmetry in Hj. destruct (recv_done _ _ Ha Hj) as (Hp & _).
    destruct (p_stages p); [discriminate|]. simpl in Hst. inversion Hst; subst.
    simpl in IH. rewrite Hp in IH. discriminate.
  - (* PXfer *)
    destruct (nth_error (p_stages p) i) as [st|] eqn:Hst; try discriminate.
    destruct (offer st) as [m|] eqn:Ho; try discriminate.
    destruct (offer_sent _ _ Ho) as (_ & Hsd & _).
    destruct (Nat.eqb (S i) (List.length (p_stages p))).
    + inversion H; subst; clear H. unfold cinv, stage_at. simpl.
      split; [eapply head_upd; eauto; apply sent_pullid|].
      intros Hc. destruct (IC Hc) as (I1 & I2). split; auto. intros j Hj.
      apply nth_upd in Hj. destruct Hj as [(_ & Hj & _)|(_ & Hj)]; [|apply (I2 j); auto].
      rewrite <- Hj in Hsd. discriminate.
    + destruct (nth_error (p_stages p) (S i)) as [nx|] eqn:Hnx; try discriminate.
      destruct (accepting nx) eqn:Ha; inversion H; subst; clear H. unfold cinv, stage_at. simpl.
      split.
      * eapply head_upd; [rewrite nth_upd_neq by lia; eauto | apply recv_pullid |].
        eapply head_upd; eauto; apply sent_pullid.
      * intros Hc. apply orb_false_iff in Hc. destruct Hc as (Hc & He).
        destruct (IC Hc) as (I1 & I2). split; auto. intros j Hj.
        apply nth_upd in Hj. destruct Hj as [(_ & Hj & _)|(_ & Hj)].
        -- symmetry in Hj. destruct (recv_done _ _ Ha Hj) as (_ & He'). congruence.
        -- apply nth_upd in Hj. destruct Hj as [(_ & Hj & _)|(_ & Hj)]; [|apply (I2 j); auto].
           rewrite <- Hj in Hsd. discriminate.
  - (* PExit *)
    destruct (nth_error (p_stages p) i) as [st|] eqn:Hst; try discriminate.
    match type of H with (if ?b then _ else _) = _ => destruct b eqn:Hb; try discriminate end.
    inversion H; subst; clear H. unfold cinv, stage_at. simpl.
    split; [eapply head_upd; eauto; discriminate|].
    intros Hc. exfalso. rewrite (cinv_input_open p i I Hc), Hc in Hb.
    rewrite !andb_false_r in Hb. discriminate.
Qed.

Lemma cinv_run : forall tr p p', cinv p -> prun p tr = Some p' -> cinv p'.
Proof.
  unfold prun. induction tr; simpl; intros p p' I H.
  - inversion H; subst; auto.
  - destruct (pstep_gen true p a) eqn:E; try discriminate.
    eapply IHtr; [|eauto]. eapply cinv_step; eauto.
Qed.

Lemma fresh_not_done : forall stages i, forallb fresh_stage stages = true -> nth_error stages i <> Some StDone.
Proof.
  intros stages i H Hn. rewrite forallb_forall in H. apply nth_error_In in Hn. apply H in Hn. discriminate.
Qed.

(* RESTATED: the hypothesis [head_not_pullid stages = true] is added; without it the statement
   is false in the model (done_needs_cancel_head). *)
Theorem done_needs_cancel : forall tr stages p i,
  forallb fresh_stage stages = true -> head_not_pullid stages = true ->
  prun (init_pipe stages) tr = Some p -> stage_at p i = Some StDone -> p_cancel p = true.
Proof.
  intros tr stages p i Hf Hh Hr Hd.
  assert (I0 : cinv (init_pipe stages)).
  { split; simpl; auto. intros _. split; auto. intros j. apply fresh_not_done. auto. }
  destruct (cinv_run _ _ _ I0 Hr) as (_ & I). destruct (p_cancel p); auto.
  destruct (I eq_refl) as (_ & I2). exfalso. apply (I2 i). auto.
Qed.

(* why the extra hypothesis: a chain that starts with PullID (which no subscription builds) *)
Example done_needs_cancel_head : exists p,
  prun (init_pipe [StPullID 3 None]) [PSrc (mkM 3 3 0)] = Some p /\
  stage_at p 0 = Some StDone /\ p_cancel p = false.
Proof. eexists. split; [vm_compute; reflexivity|]. split; reflexivity. Qed.

(* the theorem is not vacuous for the chains that exist: Pull inside PullID *)
Example done_needs_cancel_nonvacuous : exists p,
  forallb fresh_stage [StFwd [] None; StPullID 3 None] = true /\
  head_not_pullid [StFwd [] None; StPullID 3 None] = true /\
  prun (init_pipe [StFwd [] None; StPullID 3 None]) [PSrc (mkM 3 3 0); PXfer 0] = Some p /\
  stage_at p 1 = Some StDone /\ p_cancel p = true.
Proof. eexists. split; [reflexivity|]. split; [reflexivity|]. split; [vm_compute; reflexivity|]. split; reflexivity. Qed.

(* ---------- (h) a closed and cancelled chain ends ---------- *)
Theorem pipe_maximal_ends : forall p, p_src_closed p = true -> p_cancel p = true -> after_ok (p_stages p) = true ->
  (forall i, pstep p (PExit i) = None /\ pstep p (PXfer i) = None) -> all_stages_done p = true.
Proof.
  intros p Hc Hk Hok Hmax. destruct (all_stages_done p) eqn:E; auto.
  destruct (pipe_progress true p Hc Hk Hok E) as (i & p' & H). destruct (Hmax i) as (M1 & M2).
  unfold pstep in *. destruct H as [H|H]; congruence.
Qed.

Lemma pipe_drains_aux : forall n p, pmeasure p <= n ->
  p_src_closed p = true -> p_cancel p = true -> after_ok (p_stages p) = true ->
  exists tr p', prun p tr = Some p' /\ all_stages_done p' = true /\ List.length tr <= pmeasure p.
Proof.
  induction n; intros p Hm Hc Hk Hok.
  - destruct (all_stages_done p) eqn:E.
    + exists [], p. simpl. repeat split; auto. lia.
    + destruct (pipe_progress true p Hc Hk Hok E) as (i & p1 & H).
      assert (exists a, pstep_gen true p a = Some p1) as (a & Ha) by (destruct H; eauto).
      destruct (pstep_decreases _ _ _ _ Hc Hk Ha) as (Hlt & _). lia.
  - destruct (all_stages_done p) eqn:E.
    + exists [], p. simpl. repeat split; auto. lia.
    + destruct (pipe_progress true p Hc Hk Hok E) as (i & p1 & H).
      assert (exists a, pstep_gen true p a = Some p1) as (a & Ha) by (destruct H; eauto).
      destruct (pstep_decreases _ _ _ _ Hc Hk Ha) as (Hlt & Hc1 & Hk1).
      pose proof (after_ok_step _ _ _ _ Hok Ha) as Hok1.
      destruct (IHn p1) as (tr & p' & Hr & Hd & Hlen); auto; [lia|].
      exists (a :: tr), p'. unfold prun in *. simpl. rewrite Ha. repeat split; auto. lia.
Qed.

Theorem pipe_drains : forall p, p_src_closed p = true -> p_cancel p = true -> after_ok (p_stages p) = true ->
  exists tr p', prun p tr = Some p' /\ all_stages_done p' = true /\ (List.length tr <= pmeasure p)%nat.
Proof. intros p. apply (pipe_drains_aux (pmeasure p)). auto. Qed.

(* ---------- (i) without backpressure the writer never waits for the consumer ---------- *)
Theorem nobp_drop_accepts : forall p h r m, p_stages p = StDrop h :: r -> p_src_closed p = false ->
  exists p', pstep p (PSrc m) = Some p'.
Proof.
  intros p h r m Hs Hc. unfold pstep. cbv beta iota delta [pstep_gen]. unfold stage_at.
  rewrite Hc, Hs. simpl. eauto.
Qed.

Theorem nobp_after_accepts : forall p c q r m, p_stages p = StAfter c :: StMerge q :: r -> p_src_closed p = false ->
  (exists p', pstep p (PSrc m) = Some p') \/
  (exists p1 p2, pstep p (PXfer 0) = Some p1 /\ pstep p1 (PSrc m) = Some p2).
Proof.
  intros p c q r m Hs Hc. destruct p as [pc psc pst po]. simpl in Hs, Hc. subst.
  destruct c as [m0|].
  - right. unfold pstep. cbv beta iota delta [pstep_gen]. unfold stage_at. simpl.
    eexists. eexists. split; reflexivity.
  - left. unfold pstep. cbv beta iota delta [pstep_gen]. unfold stage_at. simpl. eauto.
Qed.

Print Assumptions stage_after_exits.
Print Assumptions done_needs_cancel.
Print Assumptions pipe_drains.
Print Assumptions nobp_after_accepts.
