(* Correspondence cases for the composed model Res.v: one resource.Collection, 1-3 writer
   threads, 1-2 subscribers with WithBackpressure(true) + WithUpdatesOnly(true), readers (Get),
   driven one controller action at a time:

     QStart w op   writer thread w calls Update (op = false) or Delete (op = true) on an id no
                   other call in flight uses; the one exception: an Update of the id of a Delete
                   that is parked after its first read, committed before that Delete goes on, so
                   that the Delete takes its retry path (RDelRetry); no abort can happen
     QStep w       open the gate writer w is parked at (gau.read, coll.publish or del.read)
     QGet          a new goroutine calls Collection.Get
     QRecv k       the consumer of subscriber k starts one blocking receive
     QCancel k     the context of subscriber k is cancelled

   After each action the harness waits for quiescence and records, per writer, where it is
   (0 no call in flight, 1 parked at gau.read, 2 parked at coll.publish, 3 parked at del.read,
   4 inside the call and not parked = blocked), the number of Get calls that have not returned,
   and per subscriber whether its consumer is still blocked, whether it saw the close, and the
   events (writer, call number) it received.

   The judge runs Res.v the same way.  Behind every listener channel is the forwarding goroutine
   of Collection.Pull (Pipe.v: StFwd [] cur): it receives one event from the listener channel,
   holds it until the consumer takes it or the context is cancelled, and ends when the channel
   is closed; [fw] is that goroutine.  All autonomous moves are explored up to quiescence and
   the observation must match one of the quiescent states.  [ts] (the resource has the publishing
   turnstile) is read from the source of the tree under test by the harness. *)
From SC Require Import Base.Prelude Bus.Bus Bus.Res Bus.Explore Bus.PipeJudge.

Inductive qaction :=
| QStart (w : nat) (del : bool) | QStep (w : nat) | QGet | QRecv (k : nat) | QCancel (k : nat).

(* the forwarder of one subscription *)
Record fwd := mkF { f_slot : option (nat * nat); f_done : bool;
                    f_cpend : bool; f_cclosed : bool; f_got : list (nat * nat) (* newest first *) }.

Record qstate := mkQ {
  qr : res;
  qwant : list (option bool);   (* call made, first RLock not yet passed *)
  qpark : list bool;
  qgets : nat;                  (* Get calls blocked on c.mu *)
  qf : list fwd
}.

Definition nthd {A} (l : list A) (i : nat) (d : A) : A := nth i l d.
Definition new_fwd : fwd := mkF None false false false [].
Definition fwd_at (q : qstate) (k : nat) : fwd := nthd (qf q) k new_fwd.
Definition pc_at (q : qstate) (w : nat) : rpc := nthd (rw (qr q)) w RIdle.

Definition parks (p : rpc) : bool :=
  match p with RUpdLock | RUpdPub _ | RDelLock _ => true | _ => false end.

Definition qinit (ts : bool) (nw nsub : nat) : qstate :=
  (* the subscriptions are made before the script starts *)
  let C := fold_left (fun C k => match rstep ts C (RSubBegin true) with
                                  | Some C1 => match rstep ts C1 (RSubEnd k) with Some C2 => C2 | None => C1 end
                                  | None => C end) (seq 0 nsub) (rinit nw) in
  mkQ C (repeat None nw) (repeat false nw) 0 (repeat new_fwd nsub).

Definition qact (ts : bool) (q : qstate) (a : qaction) : option qstate :=
  match a with
  | QStart w del =>
      match pc_at q w, nthd (qwant q) w None with
      | RIdle, None => Some (mkQ (qr q) (upd (qwant q) w (Some del)) (qpark q) (qgets q) (qf q))
      | _, _ => None
      end
  | QStep w => if nthd (qpark q) w false
               then Some (mkQ (qr q) (qwant q) (upd (qpark q) w false) (qgets q) (qf q)) else None
  | QGet => Some (mkQ (qr q) (qwant q) (qpark q) (S (qgets q)) (qf q))
  | QRecv k =>
      let f := fwd_at q k in
      if f_cpend f || f_cclosed f then None
      else Some (mkQ (qr q) (qwant q) (qpark q) (qgets q)
                     (upd (qf q) k (mkF (f_slot f) (f_done f) true (f_cclosed f) (f_got f))))
  | QCancel k => match rstep ts (qr q) (RBus (LCancel k)) with
                 | Some C => Some (mkQ C (qwant q) (qpark q) (qgets q) (qf q))
                 | None => None end
  end.

Definition with_r (q : qstate) (C : res) : qstate := mkQ C (qwant q) (qpark q) (qgets q) (qf q).
Definition with_f (q : qstate) (k : nat) (f : fwd) : qstate :=
  mkQ (qr q) (qwant q) (qpark q) (qgets q) (upd (qf q) k f).

(* which listener a sender is selecting on *)
Definition sel_of (c : config) (s : nat) : option nat :=
  match nth_error (ss c) s with
  | Some X => match s_pc X with SSel l _ _ _ _ => Some l | _ => None end
  | None => None
  end.
Definition calls_of (c : config) (s : nat) : nat :=
  match nth_error (ss c) s with Some X => s_calls X | None => O end.

Definition writer_moves (ts : bool) (q : qstate) (w : nat) : list qstate :=
  if nthd (qpark q) w false then [] else
  (* the call passes its first read section *)
  (match pc_at q w, nthd (qwant q) w None with
   | RIdle, Some del =>
       match rstep ts (qr q) (if del then RDelStart w else RUpdStart w) with
       | Some C => [mkQ C (upd (qwant q) w None) (upd (qpark q) w true) (qgets q) (qf q)]
       | None => [] end
   | _, _ => [] end)
  (* the steps without data-dependent alternatives (the generator excludes conflicts) *)
  ++ flat_map (fun a => match rstep ts (qr q) a with
                        | Some C => [mkQ C (qwant q) (upd (qpark q) w (parks (nthd (rw C) w RIdle))) (qgets q) (qf q)]
                        | None => [] end)
       [RUpdSave w; RDelTake w; RPublish w; RReturn w;
        RBus (LRLock w); RBus (LSelSendCtx w); RBus (LSelListenCtx w); RBus (LFinish w)]
  (* Delete finds the item changed since its first read (the scripts provoke this with an Update of
     the same id): Unlock, next attempt - the yield point del.retry is not a parking point *)
  ++ (match rstep ts (qr q) (RDelRetry w) with
      | Some C => [mkQ C (qwant q) (qpark q) (qgets q) (qf q)]
      | None => [] end)
  (* delivery: the event goes into the forwarder's hands *)
  ++ (match sel_of (rb (qr q)) w with
      | Some l =>
          match rstep ts (qr q) (RBus (LDeliver w)) with
          | Some C =>
              let f := fwd_at q l in
              [mkQ C (qwant q) (qpark q) (qgets q)
                   (upd (qf q) l (mkF (Some (w, calls_of (rb (qr q)) w)) (f_done f) (f_cpend f) (f_cclosed f) (f_got f)))]
          | None => [] end
      | None => [] end).

Definition lst_at (q : qstate) (k : nat) : lstn := nthd (ls (rb (qr q))) k new_listener.

Definition sub_moves (ts : bool) (q : qstate) (k : nat) : list qstate :=
  let f := fwd_at q k in
  let L := lst_at q k in
  (* the watcher *)
  flat_map (fun a => match rstep ts (qr q) a with Some C => [with_r q C] | None => [] end)
           [RBus (LWake k); RBus (LLockReq k); RBus (LStop k)]
  (* the forwarder: waits in `range emit` when it holds nothing *)
  ++ (if negb (f_done f) && match f_slot f with None => true | _ => false end
      then (match rstep ts (qr q) (RBus (LRecvStart k)) with Some C => [with_r q C] | None => [] end)
           ++ (match rstep ts (qr q) (RBus (LRecvClosed k)) with
               | Some C => [mkQ C (qwant q) (qpark q) (qgets q)
                                (upd (qf q) k (mkF None true (f_cpend f) (f_cclosed f) (f_got f)))]
               | None => [] end)
      else [])
  (* holding an event: the consumer takes it, or the context is done and it gives up *)
  ++ (match f_slot f with
      | Some e =>
          (if f_cpend f then [with_f q k (mkF None (f_done f) false (f_cclosed f) (e :: f_got f))] else [])
          ++ (if l_cancel L && negb (f_done f) then [with_f q k (mkF None true (f_cpend f) (f_cclosed f) (f_got f))] else [])
      | None => [] end)
  (* the consumer sees the close once the forwarder has ended *)
  ++ (if f_done f && f_cpend f && match f_slot f with None => true | _ => false end
      then [with_f q k (mkF None true false true (f_got f))] else []).

Definition get_moves (q : qstate) : list qstate :=
  match qgets q with
  | O => []
  | S _ => if wfree (qr q) then [mkQ (qr q) (qwant q) (qpark q) O (qf q)] else []
  end.

Definition qmoves (ts : bool) (q : qstate) : list qstate :=
  flat_map (writer_moves ts q) (seq 0 (List.length (rw (qr q))))
  ++ flat_map (sub_moves ts q) (seq 0 (List.length (qf q)))
  ++ get_moves q.

(* ---- observation and encoding ---- *)
Definition enc_e (e : nat * nat) : Z := zn (fst e) * 100000 + zn (snd e).

Definition obs_writer (q : qstate) (w : nat) : Z :=
  let p := pc_at q w in
  match p, nthd (qwant q) w None with
  | RIdle, None => 0
  | _, _ => if nthd (qpark q) w false
            then match p with RUpdLock => 1 | RUpdPub _ => 2 | RDelLock _ => 3 | _ => 4 end
            else 4
  end.

Definition qobserve (q : qstate) : list Z :=
  map (obs_writer q) (seq 0 (List.length (rw (qr q))))
  ++ [zn (qgets q)]
  ++ flat_map (fun f => [zb (f_cpend f); zb (f_cclosed f); zn (List.length (f_got f))] ++ map enc_e (rev (f_got f))) (qf q).

Definition enc_rpc (p : rpc) : list Z :=
  match p with
  | RIdle => [0] | RUpdLock => [1] | RUpdPub n => [2; zn n] | RUpdSend n => [3; zn n]
  | RDelLock a => [4; zn a] | RDelHold n => [5; zn n] | RDelSend n => [6; zn n]
  end.
Definition enc_nl (l : list nat) : list Z := zn (List.length l) :: map zn l.
Definition enc_spc (p : spc) : list Z :=
  match p with
  | SIdle => [0]
  | SLoop r g sn => 1 :: zb g :: enc_nl r ++ enc_nl sn
  | SSel l o r g sn => 2 :: zn l :: zb o :: zb g :: enc_nl r ++ enc_nl sn
  end.
Definition enc_q (q : qstate) : list Z :=
  qobserve q
  ++ flat_map enc_rpc (rw (qr q)) ++ [zn (rcommits (qr q)); zn (rdone (qr q)); 7]
  ++ flat_map (fun X => enc_spc (s_pc X) ++ [zn (s_calls X); 7]) (ss (rb (qr q)))
  ++ flat_map (fun L => [zb (l_cancel L); zb (l_closed L); zb (l_rcv L); zb (l_sawclose L);
                         match l_w L with WWait => 0 | WStop => 1 | WPending => 2 | WDone => 3 end;
                         zn (List.length (l_log L))]) (ls (rb (qr q)))
  ++ enc_nl (blist (rb (qr q)))
  ++ map (fun o => match o with None => 0 | Some false => 1 | Some true => 2 end) (qwant q)
  ++ map zb (qpark q)
  ++ flat_map (fun f => [match f_slot f with None => -1 | Some e => enc_e e end; zb (f_done f)]) (qf q).

Definition qsettle (ts : bool) := settle (qmoves ts) enc_q.

Definition qafter (ts : bool) (worlds : list qstate) (a : qaction) (o : list Z) : list qstate :=
  let nxt := flat_map (fun q => match qact ts q a with Some q' => qsettle ts q' | None => [] end) worlds in
  filter (fun q => zl_eqb (qobserve q) o) (uniq enc_q nxt).

Fixpoint qreplay (ts : bool) (worlds : list qstate) (script : list (qaction * list Z)) : list qstate :=
  match script with
  | [] => worlds
  | (a, o) :: r => match worlds with [] => [] | _ => qreplay ts (qafter ts worlds a o) r end
  end.

Record rescase := mkRC {
  rc_ts : bool;
  rc_nw : nat;
  rc_nsub : nat;
  rc_script : list (qaction * list Z);
  rc_panics : Z;
  rc_leaks : Z;        (* library goroutines left after the final cancel of every subscriber *)
  rc_stuck : Z         (* writer or Get calls that had not returned by then *)
}.

Definition res_agrees (c : rescase) : bool :=
  match qreplay (rc_ts c) [qinit (rc_ts c) (rc_nw c) (rc_nsub c)] (rc_script c) with
  | [] => false
  | _ => (rc_panics c =? 0) && (rc_leaks c =? 0) && (rc_stuck c =? 0)
  end.

(* ---- the oracle, on the recorded observations only ----
   "cancelled k" is known from the script.  At every step: if every subscriber is cancelled then
   no writer is blocked inside a call (code 4) and no Get is blocked; a consumer that receives
   after its cancel sees the close; at the end nothing is left. *)
Fixpoint all_true (l : list bool) : bool := match l with [] => true | b :: r => b && all_true r end.

(* With the turnstile a committed writer that the CONTROLLER holds at the yield point before
   bus.Send (code 2) has not published: later commits - and through a Delete among them, c.mu -
   legitimately wait for it; such steps are not judged. *)
Fixpoint res_clean (ts : bool) (nw : nat) (canc : list bool) (script : list (qaction * list Z)) : bool :=
  match script with
  | [] => true
  | (a, o) :: r =>
      let canc' := match a with QCancel k => upd canc k true | _ => canc end in
      (if all_true canc' && negb (ts && existsb (fun v => v =? 2) (firstn nw o))
       then forallb (fun v => negb (v =? 4)) (firstn nw o) && (nth nw o (-1) =? 0)
       else true)
      && res_clean ts nw canc' r
  end.

Definition res_ok (c : rescase) : bool :=
  (rc_panics c =? 0) && (rc_leaks c =? 0) && (rc_stuck c =? 0)
  && res_clean (rc_ts c) (rc_nw c) (repeat false (rc_nsub c)) (rc_script c).

(* model-branch coverage of a case: which blocking situations the replay went through
   (bit 0: a Delete held c.mu inside bus.Send at a quiescent state; bit 1: a writer waited for c.mu;
    bit 2: a Get was blocked; bit 3: a committed writer waited at the turnstile) *)
Definition q_flags (ts : bool) (q : qstate) : Z :=
  let C := qr q in
  (if existsb (fun p => match p with RDelSend _ => true | _ => false end) (rw C) then 1 else 0)
  + (if negb (wfree C) && existsb (fun w => match pc_at q w with RUpdLock | RDelLock _ => negb (nthd (qpark q) w false) | _ => false end)
                                   (seq 0 (List.length (rw C))) then 2 else 0)
  + (if Nat.ltb 0 (qgets q) then 4 else 0)
  + (if ts && existsb (fun w => match pc_at q w with
                                | RUpdPub n | RDelHold n => negb (nthd (qpark q) w false) && negb (Nat.eqb (S (rdone C)) n)
                                | _ => false end) (seq 0 (List.length (rw C))) then 8 else 0).
