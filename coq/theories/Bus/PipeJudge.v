(* Correspondence cases for one subscription of a resource (Value.Pull, Collection.Pull,
   Collection.PullID with or without backpressure) driven one action at a time:
     PASend m   a writer goroutine performs one write that publishes m (Set / Update / Delete)
     PARecv     the consumer starts one blocking receive
     PACancel   the subscription context is cancelled
     PATimeout  the harness waits until the oldest blocked writer has given up (Value.Set's 5 s
                send context expires: Bus.Send returns false through the ctx.Done case)
   The forwarder of Collection.Pull filters (include, equivalence against the held map): the chain
   is run with [fstep] of PipeHeld.v, the held map is part of the replayed state.
   After each action the harness waits until no goroutine is runnable and records
     [ writers still blocked; consumer still blocked; consumer saw the close;
       library goroutines of the subscription still alive; number of messages received ]
     ++ the received messages (id, kind, value), oldest first.
   The judge runs the model of Pipe.v the same way: after the action all autonomous steps are
   explored until nothing moves, and the observation must match one of the quiescent states. *)
From SC Require Import Base.Prelude Resource.Pull Bus.Bus Bus.Pipe Bus.PipeHeld Bus.Explore.

Inductive paction := PASend (m : msg) | PARecv | PACancel | PATimeout.

Record pj := mkPJ {
  pp : pipe;
  hld : hmap;         (* the held map of the Collection.Pull forwarder *)
  wq : list msg;     (* writers blocked in Bus.Send on this listener, oldest first *)
  cpend : bool;      (* the consumer is blocked receiving *)
  cclosed : bool     (* the consumer saw the close *)
}.

Definition fs (cfg : fcfg) (j : pj) (a : plabel) : option (pipe * hmap) :=
  match fstep cfg (mkFP (pp j) (hld j)) a with Some F => Some (fp F, fh F) | None => None end.

Definition pact (cfg : fcfg) (j : pj) (a : paction) : option pj :=
  match a with
  | PASend m => Some (mkPJ (pp j) (hld j) (wq j ++ [m]) (cpend j) (cclosed j))
  | PARecv => if cpend j || cclosed j then None else Some (mkPJ (pp j) (hld j) (wq j) true (cclosed j))
  | PACancel => match pstep (pp j) PCancel with
                | Some p => Some (mkPJ p (hld j) (wq j) (cpend j) (cclosed j))
                | None => Some j     (* already cancelled (by PullID itself): nothing changes *)
                end
  | PATimeout => match wq j with
                 | _ :: r => Some (mkPJ (pp j) (hld j) r (cpend j) (cclosed j))
                 | [] => None
                 end
  end.

Definition last_index (j : pj) : nat := pred (List.length (p_stages (pp j))).

Definition pmoves (cfg : fcfg) (j : pj) : list pj :=
  (* the oldest blocked writer: its select delivers, or sees the listen context done *)
  (match wq j with
   | m :: r =>
       (match fs cfg j (PSrc m) with Some (p, h) => [mkPJ p h r (cpend j) (cclosed j)] | None => [] end)
       ++ (if p_cancel (pp j) then [mkPJ (pp j) (hld j) r (cpend j) (cclosed j)] else [])
   | [] =>
       (* the watcher closes the listener channel once no sender holds the read lock *)
       match fs cfg j PSrcClose with Some (p, h) => [mkPJ p h [] (cpend j) (cclosed j)] | None => [] end
   end)
  ++ flat_map (fun i =>
       (if Nat.eqb i (last_index j)
        then (if cpend j then match fs cfg j (PXfer i) with
                              | Some (p, h) => [mkPJ p h (wq j) false (cclosed j)] | None => [] end
              else [])
        else match fs cfg j (PXfer i) with Some (p, h) => [mkPJ p h (wq j) (cpend j) (cclosed j)] | None => [] end)
       ++ match fs cfg j (PExit i) with Some (p, h) => [mkPJ p h (wq j) (cpend j) (cclosed j)] | None => [] end)
     (seq 0 (List.length (p_stages (pp j))))
  ++ (if cpend j && input_closed (pp j) (List.length (p_stages (pp j)))
      then [mkPJ (pp j) (hld j) (wq j) false true] else []).

Definition zb (b : bool) : Z := if b then 1 else 0.
Definition zn (n : nat) : Z := Z.of_nat n.
Definition enc_msg (m : msg) : list Z := [m_id m; m_kind m; m_val m].
Definition enc_msg_full (m : msg) : list Z := [m_id m; m_kind m; m_val m; m_old m].
Definition enc_om (o : option msg) : list Z := match o with Some m => 1 :: enc_msg_full m | None => [0] end.
Definition enc_msgs (l : list msg) : list Z := zn (List.length l) :: flat_map enc_msg l.
Definition enc_msgs_full (l : list msg) : list Z := zn (List.length l) :: flat_map enc_msg_full l.
Definition enc_held (h : hmap) : list Z :=
  zn (List.length h) :: flat_map (fun e => [match fst e with String a _ => zn (Ascii.nat_of_ascii a) | EmptyString => -1 end;
                                            match snd e with Some v => v | None => -1 end]) h.

Definition alive_goroutines (p : pipe) : nat :=
  ((if p_src_closed p then 0 else 1) + List.length (filter (fun st => negb (is_done st)) (p_stages p)))%nat.

(* valonly: the consumer of Value.Pull / PullID sees only the value of a change *)
Definition pobserve_m (valonly : bool) (j : pj) : list Z :=
  [zn (List.length (wq j)); zb (cpend j); zb (cclosed j); zn (alive_goroutines (pp j))]
  ++ enc_msgs (map (fun m => if valonly then mkM 0 0 (m_val m) else m) (rev (p_out (pp j)))).
Definition pobserve := pobserve_m false.

Definition enc_stage (st : stage) : list Z :=
  match st with
  | StDrop h => 1 :: enc_om h
  | StAfter c => 6 :: enc_om c
  | StMerge q => 2 :: enc_msgs_full q
  | StFwd s c => 3 :: enc_msgs_full s ++ enc_om c
  | StPullID id c => 4 :: id :: enc_om c
  | StDone => [5]
  end.

Definition enc_pj (j : pj) : list Z :=
  pobserve j ++ [zb (p_cancel (pp j)); zb (p_src_closed (pp j))]
  ++ flat_map enc_stage (p_stages (pp j)) ++ [9] ++ enc_msgs_full (wq j) ++ [9] ++ enc_held (hld j).

Definition psettle (cfg : fcfg) := settle (pmoves cfg) enc_pj.

Definition pafter (cfg : fcfg) (vo : bool) (worlds : list pj) (a : paction) (o : list Z) : list pj :=
  let nxt := flat_map (fun j => match pact cfg j a with Some j' => psettle cfg j' | None => [] end) worlds in
  filter (fun j => zl_eqb (pobserve_m vo j) o) (uniq enc_pj nxt).

Fixpoint preplay (cfg : fcfg) (vo : bool) (worlds : list pj) (script : list (paction * list Z)) : list pj :=
  match script with
  | [] => worlds
  | (a, o) :: r => match worlds with [] => [] | _ => preplay cfg vo (pafter cfg vo worlds a o) r end
  end.

Definition seeds_of (stages : list stage) : list msg :=
  flat_map (fun st => match st with StFwd s _ => s | _ => [] end) stages.

Record pipecase := mkPC {
  pc_cfg : fcfg;        (* equivalence of the collection, include filter of the subscription *)
  pc_pullid : Z;        (* the id of a PullID subscription, 0 otherwise *)
  pc_item0 : Z;         (* the value of that item when the subscription started, 0 = absent *)
  pc_valonly : bool;
  pc_stages : list stage;
  pc_script : list (paction * list Z);
  pc_panics : Z;
  pc_leaks : Z      (* library goroutines above the baseline after the final cancel and settle *)
}.

Definition pipe_agrees (c : pipecase) : bool :=
  match preplay (pc_cfg c) (pc_valonly c)
                [mkPJ (init_pipe (pc_stages c)) (held_init (pc_cfg c) (seeds_of (pc_stages c))) [] false false]
                (pc_script c) with
  | [] => false
  | _ => (pc_panics c =? 0) && (pc_leaks c =? 0)
  end.

(* ---- the oracle: evaluated on the recorded observations only ----
   once the context is cancelled, or once the consumer has seen its channel closed, no writer
   is blocked on the subscription and none of its goroutines is left; a receive started after
   the cancel sees the close *)
Definition obs_nth (o : list Z) (i : nat) : Z := nth i o (-1).

Fixpoint script_clean (strict_close : bool) (cancelled : bool) (script : list (paction * list Z)) : bool :=
  match script with
  | [] => true
  | (a, o) :: r =>
      let cancelled' := cancelled || match a with PACancel => true | _ => false end in
      let closed := obs_nth o 2 =? 1 in
      (if cancelled' || (strict_close && closed)
       then (obs_nth o 0 =? 0) && (obs_nth o 3 =? 0) else true)
      && (match a with PARecv => if cancelled' then closed else true | _ => true end)
      && script_clean strict_close cancelled' r
  end.

(* "a single-item subscription also ends when the item is removed": once a Delete of the item of a
   PullID has been written - the item existed, and it and every value it had since the start passed
   the include filter, so the subscription could see it - no quiescent observation shows the
   consumer still blocked in its receive with no writer blocked: the receive has returned a value
   or the close - until the item is added again (mergeCollectionExcess merges a pending REMOVE
   with a later ADD into a REPLACE: the item is back before the subscriber could see it gone).
   (With the close, script_clean demands that every goroutine is gone.)
   Evaluated on the script alone: the values written, not the model's state. *)
Fixpoint remove_ends (cfg : fcfg) (pid cur : Z) (allvis removed : bool) (script : list (paction * list Z)) : bool :=
  match script with
  | [] => true
  | (a, o) :: r =>
      let '(cur', allvis', removed') :=
        match a with
        | PASend m =>
            if m_id m =? pid
            then (m_val m, allvis && ((m_val m =? 0) || visible cfg pid (m_val m)),
                  if m_kind m =? 3 then removed || (negb (cur =? 0) && allvis)
                  else if cur =? 0 then false   (* re-added: without backpressure REMOVE + ADD may merge into a REPLACE *)
                  else removed)
            else (cur, allvis, removed)
        | _ => (cur, allvis, removed)
        end in
      (if removed' then negb ((obs_nth o 0 =? 0) && (obs_nth o 1 =? 1)) else true)
      && remove_ends cfg pid cur' allvis' removed' r
  end.

Definition pipe_ok (c : pipecase) : bool :=
  (pc_panics c =? 0) && (pc_leaks c =? 0) && script_clean true false (pc_script c)
  && (if pc_pullid c =? 0 then true
      else remove_ends (pc_cfg c) (pc_pullid c) (pc_item0 c)
                       ((pc_item0 c =? 0) || visible (pc_cfg c) (pc_pullid c) (pc_item0 c)) false (pc_script c)).

(* Fixed by /repo 728882a (was known finding 1): a PullID subscription whose item is removed
   left the goroutines of the inner Pull running until the context was cancelled and, with
   backpressure, blocked the second later write.  No class is excused any more. *)
Definition pipe_known (c : pipecase) : option Z := None.
