(* Correspondence cases for one subscription of a resource (Value.Pull, Collection.Pull,
   Collection.PullID with or without backpressure) driven one action at a time:
     PASend m   a writer goroutine performs one write that publishes m (Set / Update / Delete)
     PARecv     the consumer starts one blocking receive
     PACancel   the subscription context is cancelled
   After each action the harness waits until no goroutine is runnable and records
     [ writers still blocked; consumer still blocked; consumer saw the close;
       library goroutines of the subscription still alive; number of messages received ]
     ++ the received messages (id, kind, value), oldest first.
   The judge runs the model of Pipe.v the same way: after the action all autonomous steps are
   explored until nothing moves, and the observation must match one of the quiescent states. *)
From SC Require Import Base.Prelude Bus.Bus Bus.Pipe Bus.Explore.

Inductive paction := PASend (m : msg) | PARecv | PACancel.

Record pj := mkPJ {
  pp : pipe;
  wq : list msg;     (* writers blocked in Bus.Send on this listener, oldest first *)
  cpend : bool;      (* the consumer is blocked receiving *)
  cclosed : bool     (* the consumer saw the close *)
}.

Definition pact (j : pj) (a : paction) : option pj :=
  match a with
  | PASend m => Some (mkPJ (pp j) (wq j ++ [m]) (cpend j) (cclosed j))
  | PARecv => if cpend j || cclosed j then None else Some (mkPJ (pp j) (wq j) true (cclosed j))
  | PACancel => match pstep (pp j) PCancel with
                | Some p => Some (mkPJ p (wq j) (cpend j) (cclosed j))
                | None => Some j     (* already cancelled (by PullID itself): nothing changes *)
                end
  end.

Definition last_index (j : pj) : nat := pred (List.length (p_stages (pp j))).

Definition pmoves (j : pj) : list pj :=
  (* the oldest blocked writer: its select delivers, or sees the listen context done *)
  (match wq j with
   | m :: r =>
       (match pstep (pp j) (PSrc m) with Some p => [mkPJ p r (cpend j) (cclosed j)] | None => [] end)
       ++ (if p_cancel (pp j) then [mkPJ (pp j) r (cpend j) (cclosed j)] else [])
   | [] =>
       (* the watcher closes the listener channel once no sender holds the read lock *)
       match pstep (pp j) PSrcClose with Some p => [mkPJ p [] (cpend j) (cclosed j)] | None => [] end
   end)
  ++ flat_map (fun i =>
       (if Nat.eqb i (last_index j)
        then (if cpend j then match pstep (pp j) (PXfer i) with
                              | Some p => [mkPJ p (wq j) false (cclosed j)] | None => [] end
              else [])
        else match pstep (pp j) (PXfer i) with Some p => [mkPJ p (wq j) (cpend j) (cclosed j)] | None => [] end)
       ++ match pstep (pp j) (PExit i) with Some p => [mkPJ p (wq j) (cpend j) (cclosed j)] | None => [] end)
     (seq 0 (List.length (p_stages (pp j))))
  ++ (if cpend j && input_closed (pp j) (List.length (p_stages (pp j)))
      then [mkPJ (pp j) (wq j) false true] else []).

Definition zb (b : bool) : Z := if b then 1 else 0.
Definition zn (n : nat) : Z := Z.of_nat n.
Definition enc_msg (m : msg) : list Z := [m_id m; m_kind m; m_val m].
Definition enc_om (o : option msg) : list Z := match o with Some m => 1 :: enc_msg m | None => [0] end.
Definition enc_msgs (l : list msg) : list Z := zn (List.length l) :: flat_map enc_msg l.

Definition alive_goroutines (p : pipe) : nat :=
  ((if p_src_closed p then 0 else 1) + List.length (filter (fun st => negb (is_done st)) (p_stages p)))%nat.

(* valonly: the consumer of Value.Pull / PullID sees only the value of a change *)
Definition pobserve_m (valonly : bool) (j : pj) : list Z :=
  [zn (List.length (wq j)); zb (cpend j); zb (cclosed j); zn (alive_goroutines (pp j))]
  ++ enc_msgs (map (fun m => if valonly then mkM 0 0 (m_val m) else m) (rev (p_out (pp j)))).
Definition pobserve := pobserve_m false.

Definition enc_stage (st : stage) : list Z :=
  match st with
  | StDrop h => 1 :: enc_om h
  | StAfter c => 6 :: enc_om c
  | StMerge q => 2 :: enc_msgs q
  | StFwd s c => 3 :: enc_msgs s ++ enc_om c
  | StPullID id c => 4 :: id :: enc_om c
  | StDone => [5]
  end.

Definition enc_pj (j : pj) : list Z :=
  pobserve j ++ [zb (p_cancel (pp j)); zb (p_src_closed (pp j))]
  ++ flat_map enc_stage (p_stages (pp j)) ++ [9] ++ enc_msgs (wq j).

Definition psettle := settle pmoves enc_pj.

Definition pafter (vo : bool) (worlds : list pj) (a : paction) (o : list Z) : list pj :=
  let nxt := flat_map (fun j => match pact j a with Some j' => psettle j' | None => [] end) worlds in
  filter (fun j => zl_eqb (pobserve_m vo j) o) (uniq enc_pj nxt).

Fixpoint preplay (vo : bool) (worlds : list pj) (script : list (paction * list Z)) : list pj :=
  match script with
  | [] => worlds
  | (a, o) :: r => match worlds with [] => [] | _ => preplay vo (pafter vo worlds a o) r end
  end.

Record pipecase := mkPC {
  pc_valonly : bool;
  pc_stages : list stage;
  pc_script : list (paction * list Z);
  pc_panics : Z;
  pc_leaks : Z      (* library goroutines above the baseline after the final cancel and settle *)
}.

Definition pipe_agrees (c : pipecase) : bool :=
  match preplay (pc_valonly c) [mkPJ (init_pipe (pc_stages c)) [] false false] (pc_script c) with
  | [] => false
  | _ => (pc_panics c =? 0) && (pc_leaks c =? 0)
  end.

(* ---- the oracle: evaluated on the recorded observations only ----
   once the context is cancelled, or once the consumer has seen its channel closed, no writer
   is blocked on the subscription and none of its goroutines is left; a receive started after
   the cancel sees the close *)
Definition obs_nth (o : list Z) (i : nat) : Z := nth i o (-1).

Fixpoint script_clean (strict_close : bool) (cancelled : bool) (script : list (paction * list Z)) : bool :=
  match script with
  | [] => true
  | (a, o) :: r =>
      let cancelled' := cancelled || match a with PACancel => true | _ => false end in
      let closed := obs_nth o 2 =? 1 in
      (if cancelled' || (strict_close && closed)
       then (obs_nth o 0 =? 0) && (obs_nth o 3 =? 0) else true)
      && (match a with PARecv => if cancelled' then closed else true | _ => true end)
      && script_clean strict_close cancelled' r
  end.

Definition pipe_ok (c : pipecase) : bool :=
  (pc_panics c =? 0) && (pc_leaks c =? 0) && script_clean true false (pc_script c).

(* Fixed by /repo 728882a (was known finding 1): a PullID subscription whose item is removed
   left the goroutines of the inner Pull running until the context was cancelled and, with
   backpressure, blocked the second later write.  No class is excused any more. *)
Definition pipe_known (c : pipecase) : option Z := None.
