(* Proofs about the bus model (Bus.v): invariants of all reachable configurations. *)
From SC Require Import Base.Prelude Bus.Bus.
Local Open Scope nat_scope.

(* ---------- lists ---------- *)
Lemma upd_length : forall {A} (l : list A) i x, List.length (upd l i x) = List.length l.
Proof. induction l; destruct i; simpl; intros; auto. Qed.

Lemma nth_upd_eq : forall {A} (l : list A) i x, i < List.length l -> nth_error (upd l i x) i = Some x.
Proof. induction l; destruct i; simpl; intros; try lia; auto. apply IHl. lia. Qed.

Lemma nth_upd_neq : forall {A} (l : list A) i j x, i <> j -> nth_error (upd l i x) j = nth_error l j.
Proof. induction l; destruct i, j; simpl; intros; auto; try congruence. Qed.

Lemma nth_some_lt : forall {A} (l : list A) i x, nth_error l i = Some x -> i < List.length l.
Proof. intros. apply nth_error_Some. congruence. Qed.

Lemma nth_upd : forall {A} (l : list A) i j x y,
  nth_error (upd l i x) j = Some y ->
  (i = j /\ y = x /\ j < List.length l) \/ (i <> j /\ nth_error l j = Some y).
Proof.
  intros. destruct (Nat.eq_dec i j).
  - subst. left. assert (j < List.length l).
    { apply nth_some_lt in H. rewrite upd_length in H. auto. }
    rewrite nth_upd_eq in H by auto. inversion H. auto.
  - right. rewrite nth_upd_neq in H by auto. auto.
Qed.

Lemma nth_app_new : forall {A} (l : list A) x j y,
  nth_error (l ++ [x]) j = Some y -> nth_error l j = Some y \/ (j = List.length l /\ y = x).
Proof.
  intros. destruct (Nat.lt_ge_cases j (List.length l)).
  - rewrite nth_error_app1 in H by auto. auto.
  - rewrite nth_error_app2 in H by auto. destruct (j - List.length l) eqn:E.
    + simpl in H. inversion H. right. split; auto. lia.
    + simpl in H. destruct n; discriminate.
Qed.

(* ---------- reachability ---------- *)
Inductive reach (n : nat) : config -> Prop :=
| reach_init : reach n (init n)
| reach_step : forall c a c', reach n c -> step c a = Some c' -> reach n c'.

Lemma run_app : forall tr c a, run c (tr ++ [a]) = match run c tr with Some c' => step c' a | None => None end.
Proof.
  induction tr; simpl; intros.
  - destruct (step c a); auto.
  - destruct (step c a); auto.
Qed.

Lemma run_reach : forall n tr c, run (init n) tr = Some c -> reach n c.
Proof.
  intros n tr. induction tr using rev_ind; intros c H.
  - simpl in H. inversion H. constructor.
  - rewrite run_app in H. destruct (run (init n) tr) eqn:E; try discriminate.
    eapply reach_step; eauto.
Qed.

Lemma reach_run : forall n c c' tr, reach n c -> run c tr = Some c' -> reach n c'.
Proof.
  intros n c c' tr. revert c. induction tr; simpl; intros c Hr H.
  - inversion H. subst. auto.
  - destruct (step c a) eqn:E; try discriminate. apply (IHtr c0); [eapply reach_step; eauto | auto].
Qed.

(* break the nested matches of [step c a = Some c'] *)
Ltac break_step H :=
  repeat match type of H with
  | match ?x with _ => _ end = Some _ => destruct x eqn:?; try discriminate H
  end; inversion H; subst; clear H.

Lemma no_readers_spec : forall k c s X,
  no_readers k c = true -> nth_error (ss c) s = Some X -> sel_on k (s_pc X) = false.
Proof.
  unfold no_readers. intros. rewrite forallb_forall in H.
  apply nth_error_In in H0. apply H in H0. destruct (sel_on k (s_pc X)); auto; discriminate.
Qed.

(* ---------- 1. no send on a closed channel ---------- *)
Definition safe_sel (c : config) : Prop :=
  forall s X l r g sn L, nth_error (ss c) s = Some X -> s_pc X = SSel l true r g sn ->
    nth_error (ls c) l = Some L -> l_closed L = false.

Lemma init_ss : forall n s X, nth_error (ss (init n)) s = Some X -> X = new_sender.
Proof.
  intros. simpl in H. apply nth_error_In in H. apply repeat_spec in H. auto.
Qed.

Lemma safe_sel_step : forall c a c', safe_sel c -> step c a = Some c' -> safe_sel c'.
Proof.
  unfold safe_sel. intros c a c' I H s X l r g sn L HX Hpc HL.
  destruct a; simpl in H; break_step H; simpl in *;
    try (apply nth_upd in HX; destruct HX as [(? & ? & ?)|(? & HX)]; subst; simpl in *; try discriminate);
    try (apply nth_upd in HL; destruct HL as [(? & ? & ?)|(? & HL)]; subst; simpl in *);
    try (apply nth_app_new in HL; destruct HL as [HL|(? & ?)]; subst; simpl in *; auto);
    try solve [eapply I; eauto];
    try solve [inversion Hpc; subst; rewrite HL in *;
               match goal with E : Some _ = Some _ |- _ => inversion E; subst end;
               match goal with E : negb _ = true |- _ => apply negb_true_iff in E; auto end].
  - (* LStop *) exfalso.
    match goal with E : no_readers _ _ = true |- _ => pose proof (no_readers_spec _ _ _ _ E HX) as Hn end.
    rewrite Hpc in Hn. simpl in Hn. rewrite Nat.eqb_refl in Hn. discriminate.
Qed.

Lemma safe_sel_reach : forall n c, reach n c -> safe_sel c.
Proof.
  induction 1.
  - intros s X l r g sn L HX Hpc. apply init_ss in HX. subst. discriminate.
  - eapply safe_sel_step; eauto.
Qed.

Lemma no_panic : forall n c, reach n c -> panics c = false.
Proof.
  intros n c H. apply safe_sel_reach in H. unfold panics.
  destruct (existsb (sender_panics c) (ss c)) eqn:E; auto.
  apply existsb_exists in E. destruct E as (X & HIn & Hp).
  apply In_nth_error in HIn. destruct HIn as (s & HX).
  unfold sender_panics in Hp. destruct (s_pc X) eqn:Hpc; try discriminate.
  destruct chopen; try discriminate.
  destruct (nth_error (ls c) l) eqn:HL; try discriminate.
  rewrite (H _ _ _ _ _ _ _ HX Hpc HL) in Hp. discriminate.
Qed.

(* for every schedule from the empty bus: nobody is ever blocked sending on a channel that is
   closed, and a rendezvous never targets a closed channel *)
Theorem no_send_on_closed : forall n tr c,
  run (init n) tr = Some c ->
  panics c = false /\
  (forall s c' X l o r g sn L, step c (LDeliver s) = Some c' ->
     nth_error (ss c) s = Some X -> s_pc X = SSel l o r g sn -> nth_error (ls c) l = Some L ->
     l_closed L = false).
Proof.
  intros n tr c H. apply run_reach in H. split.
  - eapply no_panic; eauto.
  - intros s c' X l o r g sn L Hs HX Hpc HL.
    simpl in Hs. rewrite HX, Hpc in Hs. destruct o; try discriminate.
    eapply (safe_sel_reach _ _ H); eauto.
Qed.

(* the model is not vacuous: a schedule in which a sender is blocked in the select of a
   listener while that listener is cancelled and its watcher asks for the lock *)
Example window_reachable :
  exists c, run (init 1) [LListen; LRegister 0; LCall 0; LRLock 0; LCancel 0; LWake 0; LLockReq 0] = Some c
            /\ step c (LStop 0) = None /\ step c (LSelListenCtx 0) <> None.
Proof. eexists. split; [reflexivity|]. split; [reflexivity|discriminate]. Qed.

(* without the lock (stop allowed while a reader is in the select) the panic is reachable:
   shown on the configuration above by closing the channel directly *)
Example unlocked_stop_panics :
  exists c L, run (init 1) [LListen; LRegister 0; LCall 0; LRLock 0; LCancel 0; LWake 0; LLockReq 0] = Some c
    /\ nth_error (ls c) 0 = Some L
    /\ panics (set_l c 0 (mkL (l_cancel L) true WDone (l_reg L) (l_rcv L) (l_sawclose L) (l_log L))) = true.
Proof. eexists. eexists. split; [reflexivity|]. split; reflexivity. Qed.

(* ---------- 2. cancel closes: the measure mu ---------- *)
Definition rcount (k : nat) (l : list sender) : nat := List.length (filter (fun s => sel_on k (s_pc s)) l).

Lemma readers_rcount : forall k c, readers k c = rcount k (ss c).
Proof. reflexivity. Qed.

Lemma rcount_le : forall k l, rcount k l <= List.length l.
Proof. intros. unfold rcount. induction l; simpl; auto. destruct (sel_on k (s_pc a)); simpl; lia. Qed.

Lemma rcount_upd : forall k l s X X', nth_error l s = Some X ->
  rcount k (upd l s X') + (if sel_on k (s_pc X) then 1 else 0) = rcount k l + (if sel_on k (s_pc X') then 1 else 0).
Proof.
  unfold rcount. induction l; intros s X X' H.
  - destruct s; discriminate.
  - destruct s; simpl in H.
    + inversion H; subst. simpl. destruct (sel_on k (s_pc X)), (sel_on k (s_pc X')); simpl; lia.
    + simpl. specialize (IHl s X X' H). destruct (sel_on k (s_pc a)); simpl; lia.
Qed.

Lemma rcount_zero : forall k c, no_readers k c = true -> rcount k (ss c) = 0.
Proof.
  unfold no_readers, rcount. intros k c. induction (ss c); simpl; auto.
  intros H. apply andb_true_iff in H. destruct H as (H1 & H2).
  destruct (sel_on k (s_pc a)); try discriminate. auto.
Qed.

Lemma rcount_pos : forall k l, rcount k l > 0 -> exists s X, nth_error l s = Some X /\ sel_on k (s_pc X) = true.
Proof.
  unfold rcount. induction l; simpl; intros H; try lia.
  destruct (sel_on k (s_pc a)) eqn:E.
  - exists 0, a. auto.
  - destruct (IHl H) as (s & X & H1 & H2). exists (S s), X. auto.
Qed.

Lemma rcount_no : forall k c, rcount k (ss c) = 0 -> no_readers k c = true.
Proof.
  unfold no_readers, rcount. intros k c. induction (ss c); simpl; auto.
  destruct (sel_on k (s_pc a)); simpl; intros; try discriminate. auto.
Qed.

Definition rank (w : wpc) (n r : nat) : nat :=
  match w with WWait => 2 * n + 3 | WStop => 2 * n + 2 | WPending => 1 + r | WDone => 0 end.

Lemma mu_rank : forall k c, mu k c = match nth_error (ls c) k with
                                       | Some L => rank (l_w L) (List.length (ss c)) (rcount k (ss c))
                                       | None => 0 end.
Proof. intros. unfold mu. destruct (nth_error (ls c) k); auto. Qed.

Lemma step_ss_length : forall c a c', step c a = Some c' -> List.length (ss c') = List.length (ss c).
Proof.
  intros c a c' H. destruct a; simpl in H; break_step H; simpl; rewrite ?upd_length; auto.
Qed.

Lemma sel_on_true : forall k p, sel_on k p = true -> exists o r g sn, p = SSel k o r g sn.
Proof. destruct p; simpl; intros; try discriminate. apply Nat.eqb_eq in H. subst. eauto. Qed.

Ltac same_k := repeat match goal with
  | E1 : nth_error ?l ?k = Some ?a, E2 : nth_error ?l ?k = Some ?b |- _ =>
      tryif constr_eq a b then fail else (assert (a = b) by congruence; subst a)
  end.

(* how the k-th listener changes in one step *)
Lemma nth_ls_step : forall c a c' k K, step c a = Some c' -> nth_error (ls c) k = Some K ->
  exists K', nth_error (ls c') k = Some K' /\
    (l_w K' = l_w K \/ a = LWake k \/ a = LLockReq k \/ a = LStop k).
Proof.
  intros c a c' k K H HK. pose proof (nth_some_lt _ _ _ HK) as Hlt.
  destruct a; simpl in H; break_step H; simpl; eauto;
    try (rewrite nth_error_app1 by auto; eauto);
    match goal with |- context [nth_error (upd (ls c) ?l ?x) k] =>
      destruct (Nat.eq_dec l k) as [->|Hne];
      [rewrite nth_upd_eq by auto; eexists; split; [reflexivity|]; simpl; same_k; auto
      |rewrite nth_upd_neq by auto; eauto] end.
Qed.

Definition leaves (a : label) (s : nat) : Prop := a = LSelSendCtx s \/ a = LSelListenCtx s \/ a = LDeliver s.

Lemma rcount_step : forall c a c' k, step c a = Some c' ->
  rcount k (ss c') = rcount k (ss c)
  \/ (exists s, a = LRLock s /\ rcount k (ss c') = rcount k (ss c) + 1 /\
        forall K, nth_error (ls c) k = Some K -> l_w K <> WPending)
  \/ (exists s X, leaves a s /\ nth_error (ss c) s = Some X /\ sel_on k (s_pc X) = true /\
        rcount k (ss c') + 1 = rcount k (ss c)).
Proof.
  intros c a c' k H. unfold leaves.
  destruct a; simpl in H; break_step H; simpl; auto;
    match goal with
    | E : nth_error (ss c) ?s = Some ?X |- context [rcount k (upd (ss c) ?s ?X')] =>
        pose proof (rcount_upd k (ss c) s X X' E) as RU
    end;
    try match goal with E : s_pc _ = _ |- _ => rewrite E in RU end; simpl in RU.
  - left. lia.
  - destruct (Nat.eqb n k) eqn:El.
    + apply Nat.eqb_eq in El. subst. right. left. exists s. split; auto. split; [lia|].
      intros K HK. same_k. congruence.
    + left. lia.
  - destruct (Nat.eqb n k) eqn:El.
    + apply Nat.eqb_eq in El. subst. right. left. exists s. split; auto. split; [lia|].
      intros K HK. same_k. congruence.
    + left. lia.
  - destruct (Nat.eqb n k) eqn:El.
    + apply Nat.eqb_eq in El. subst. right. left. exists s. split; auto. split; [lia|].
      intros K HK. same_k. congruence.
    + left. lia.
  - destruct (Nat.eqb l k) eqn:El.
    + right. right. exists s, s0. rewrite Heqs1. simpl. rewrite El. repeat split; auto. lia.
    + left. lia.
  - destruct (Nat.eqb l k) eqn:El.
    + right. right. exists s, s0. rewrite Heqs1. simpl. rewrite El. repeat split; auto. lia.
    + left. lia.
  - destruct (Nat.eqb l k) eqn:El.
    + right. right. exists s, s0. rewrite Heqs1. simpl. rewrite El. repeat split; auto. lia.
    + left. lia.
  - left. lia.
  - left. destruct (sel_on k (s_pc s0)); lia.
Qed.

Lemma helper_leave : forall k c s X, nth_error (ss c) s = Some X -> forall K, nth_error (ls c) k = Some K ->
  forall a, leaves a s -> helper k c a = sel_on k (s_pc X) && match l_w K with WPending => true | _ => false end.
Proof. intros k c s X HX K HK a [->|[->| ->]]; simpl; rewrite HX, HK; auto. Qed.

Lemma mu_step : forall c a c' k K,
  step c a = Some c' -> nth_error (ls c) k = Some K ->
  mu k c' <= mu k c /\ (helper k c a = true -> mu k c' < mu k c).
Proof.
  intros c a c' k K H HK. rewrite !mu_rank, (step_ss_length _ _ _ H), HK.
  pose proof (rcount_le k (ss c)) as Hle. pose proof (nth_some_lt _ _ _ HK) as Hlt.
  destruct a; simpl in H; break_step H; unfold set_s, set_l; cbn [ls ss helper];
    try (rewrite nth_error_app1 by auto);
    try match goal with |- context [nth_error (upd (ls c) ?l ?x) k] =>
      destruct (Nat.eq_dec l k) as [->|Hne];
      [rewrite nth_upd_eq by auto; same_k | rewrite nth_upd_neq by auto] end;
    rewrite ?HK; cbn [l_w];
    try match goal with
    | E : nth_error (ss c) ?s = Some ?X |- context [rcount k (upd (ss c) ?s ?X')] =>
        pose proof (rcount_upd k (ss c) s X X' E) as RU;
        try match goal with E : s_pc _ = _ |- _ => rewrite E in RU end; cbn [with_pc s_pc sel_on] in RU
    end.
  all: try (destruct (l_w K) eqn:EW; cbn [rank] in *; rewrite ?andb_false_r, ?andb_true_r;
            try match goal with E : nth_error (ss _) _ = Some _ |- _ => rewrite E end;
            try match goal with E : s_pc _ = _ |- _ => rewrite E end; cbn [sel_on];

            try (match goal with |- context [Nat.eqb ?x ?y] => destruct (Nat.eqb x y) eqn:EQ; [apply Nat.eqb_eq in EQ; subst|] end); same_k;
            split; intros; try discriminate; try congruence; try lia).
  all: destruct (Nat.eqb n k) eqn:EQ; [apply Nat.eqb_eq in EQ; subst; same_k; congruence | lia].
Qed.

Lemma mu_progress : forall c k K, nth_error (ls c) k = Some K -> l_cancel K = true -> mu k c > 0 ->
  exists a c', helper k c a = true /\ step c a = Some c'.
Proof.
  intros c k K HK Hc Hm. rewrite mu_rank, HK in Hm. destruct (l_w K) eqn:EW; cbn [rank] in Hm.
  - exists (LWake k). simpl. rewrite HK, EW, Hc, Nat.eqb_refl. eauto.
  - exists (LLockReq k). simpl. rewrite HK, EW, Nat.eqb_refl. eauto.
  - destruct (rcount k (ss c)) eqn:ER.
    + exists (LStop k). simpl. rewrite HK, EW, Nat.eqb_refl, (rcount_no _ _ ER). eauto.
    + destruct (rcount_pos k (ss c)) as (s & X & HX & Hs); [lia|].
      destruct (sel_on_true _ _ Hs) as (o & r & g & sn & Hpc).
      exists (LSelListenCtx s). simpl. rewrite HX, Hpc, HK, Hc, EW. simpl. rewrite Nat.eqb_refl. eauto.
  - lia.
Qed.

Lemma mu_zero : forall c k K, nth_error (ls c) k = Some K -> (mu k c = 0 <-> l_w K = WDone).
Proof.
  intros c k K HK. rewrite mu_rank, HK. destruct (l_w K); cbn [rank]; split; intros; try discriminate; try lia; auto.
Qed.

Lemma helper_steps_bound : forall tr c c' k K, nth_error (ls c) k = Some K -> run c tr = Some c' ->
  mu k c' + helper_steps k c tr <= mu k c.
Proof.
  induction tr; simpl; intros c c' k K HK H.
  - inversion H. subst. lia.
  - destruct (step c a) eqn:E; try discriminate.
    destruct (nth_ls_step _ _ _ _ _ E HK) as (K' & HK' & _).
    specialize (IHtr _ _ _ _ HK' H). destruct (mu_step _ _ _ _ _ E HK) as (M1 & M2).
    destruct (helper k c a); [specialize (M2 eq_refl)|]; lia.
Qed.

(* watcher state, channel state and context flag of every listener are consistent *)
Definition winv (c : config) : Prop := forall k K, nth_error (ls c) k = Some K ->
  (l_closed K = true <-> l_w K = WDone) /\ (l_w K <> WWait -> l_cancel K = true).

Lemma winv_step : forall c a c', winv c -> step c a = Some c' -> winv c'.
Proof.
  unfold winv. intros c a c' I H k K HK.
  destruct a; simpl in H; break_step H; unfold set_s, set_l in *; cbn [ls] in *; auto;
    try solve [eapply I; eauto];
    try (apply nth_app_new in HK; destruct HK as [HK|(_ & ->)];
         [eapply I; eauto | simpl; split; [split; discriminate | congruence]]);
    apply nth_upd in HK; destruct HK as [(-> & -> & _)|(_ & HK)]; auto; cbn [l_closed l_w l_cancel];
    match goal with E : nth_error (ls c) _ = Some ?L |- _ => destruct (I _ _ E) as (I1 & I2) end;
    try solve [split; auto]; try solve [split; [split; congruence | auto]].
  - split; [|auto]. rewrite Heqw in I1. split; intros; try discriminate. apply I1 in H. discriminate.
  - split; [|intros; apply I2; congruence]. rewrite Heqw in I1. split; intros; try discriminate. apply I1 in H. discriminate.
  - split; [split; auto|]. intros _. apply I2. congruence.
Qed.

Lemma winv_reach : forall n c, reach n c -> winv c.
Proof.
  induction 1.
  - intros k K HK. destruct k; discriminate.
  - eapply winv_step; eauto.
Qed.

(* Cancel closes the channel.  For every configuration reachable from the empty bus and every
   listener k whose context is cancelled:
   - the measure mu k never grows, whatever step is taken by whatever goroutine, and every step
     of a helper of k (the watcher of k; a sender leaving the select of k while the watcher
     waits for the lock) makes it strictly smaller;
   - as long as it is positive some helper step is enabled (so nothing the subscription needs
     is ever blocked by other goroutines: the subscription cannot deadlock);
   - it is zero exactly when the watcher has ended, and then the channel is closed;
   - hence along any further schedule, once mu k helper steps have been taken, the channel is
     closed.  Under weak fairness (a goroutine that stays enabled is eventually scheduled)
     helper steps keep being taken while mu k > 0, because the enabled helper stays enabled
     until it or another helper moves (its enabledness depends only on the watcher state, the
     cancelled flag and its own pc). *)
Theorem cancel_closes : forall n tr c k K,
  run (init n) tr = Some c -> nth_error (ls c) k = Some K -> l_cancel K = true ->
  (forall a c', step c a = Some c' -> mu k c' <= mu k c /\ (helper k c a = true -> mu k c' < mu k c)) /\
  (mu k c > 0 -> exists a c', helper k c a = true /\ step c a = Some c') /\
  (mu k c = 0 <-> (l_w K = WDone /\ l_closed K = true)) /\
  (forall tr' c', run c tr' = Some c' -> helper_steps k c tr' >= mu k c ->
     exists K', nth_error (ls c') k = Some K' /\ l_w K' = WDone /\ l_closed K' = true).
Proof.
  intros n tr c k K Hr HK Hc. apply run_reach in Hr. split; [|split; [|split]].
  - intros a c' Hs. eapply mu_step; eauto.
  - intros Hm. eapply mu_progress; eauto.
  - pose proof (winv_reach _ _ Hr _ _ HK) as (W1 & _). rewrite (mu_zero _ _ _ HK). tauto.
  - intros tr' c' Hrun Hh. pose proof (helper_steps_bound _ _ _ _ _ HK Hrun) as Hb.
    assert (Hz : mu k c' = 0) by lia.
    assert (exists K', nth_error (ls c') k = Some K') as (K' & HK').
    { clear - HK Hrun. revert c K HK Hrun. induction tr'; simpl; intros c K HK Hrun.
      - inversion Hrun; subst; eauto.
      - destruct (step c a) eqn:E; try discriminate.
        destruct (nth_ls_step _ _ _ _ _ E HK) as (K1 & HK1 & _). eauto. }
    exists K'. split; auto. rewrite (mu_zero _ _ _ HK') in Hz. split; auto.
    pose proof (reach_run _ _ _ _ Hr Hrun) as Hr'.
    destruct (winv_reach _ _ Hr' _ _ HK') as (W1 & _). tauto.
Qed.

(* a channel is only ever closed after its context was cancelled *)
Theorem closed_only_after_cancel : forall n tr c k K,
  run (init n) tr = Some c -> nth_error (ls c) k = Some K -> l_closed K = true -> l_cancel K = true.
Proof.
  intros n tr c k K Hr HK Hc. apply run_reach in Hr. destruct (winv_reach _ _ Hr _ _ HK) as (W1 & W2).
  apply W2. apply W1 in Hc. congruence.
Qed.
