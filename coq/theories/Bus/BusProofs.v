(* Proofs about the bus model (Bus.v): invariants of all reachable configurations. *)
From SC Require Import Base.Prelude Bus.Bus.
Local Open Scope nat_scope.

(* ---------- lists ---------- *)
Lemma upd_length : forall {A} (l : list A) i x, List.length (upd l i x) = List.length l.
Proof. induction l; destruct i; simpl; intros; auto. Qed.

Lemma nth_upd_eq : forall {A} (l : list A) i x, i < List.length l -> nth_error (upd l i x) i = Some x.
Proof. induction l; destruct i; simpl; intros; try lia; auto. apply IHl. lia. Qed.

Lemma nth_upd_neq : forall {A} (l : list A) i j x, i <> j -> nth_error (upd l i x) j = nth_error l j.
Proof. induction l; destruct i, j; simpl; intros; auto; try congruence. Qed.

Lemma nth_some_lt : forall {A} (l : list A) i x, nth_error l i = Some x -> i < List.length l.
Proof. intros. apply nth_error_Some. congruence. Qed.

Lemma nth_upd : forall {A} (l : list A) i j x y,
  nth_error (upd l i x) j = Some y ->
  (i = j /\ y = x /\ j < List.length l) \/ (i <> j /\ nth_error l j = Some y).
Proof.
  intros. destruct (Nat.eq_dec i j).
  - subst. left. assert (j < List.length l).
    { apply nth_some_lt in H. rewrite upd_length in H. auto. }
    rewrite nth_upd_eq in H by auto. inversion H. auto.
  - right. rewrite nth_upd_neq in H by auto. auto.
Qed.

Lemma nth_app_new : forall {A} (l : list A) x j y,
  nth_error (l ++ [x]) j = Some y -> nth_error l j = Some y \/ (j = List.length l /\ y = x).
Proof.
  intros. destruct (Nat.lt_ge_cases j (List.length l)).
  - rewrite nth_error_app1 in H by auto. auto.
  - rewrite nth_error_app2 in H by auto. destruct (j - List.length l) eqn:E.
    + simpl in H. inversion H. right. split; auto. lia.
    + simpl in H. destruct n; discriminate.
Qed.

(* ---------- reachability ---------- *)
Inductive reach (n : nat) : config -> Prop :=
| reach_init : reach n (init n)
| reach_step : forall c a c', reach n c -> step c a = Some c' -> reach n c'.

Lemma run_app : forall tr c a, run c (tr ++ [a]) = match run c tr with Some c' => step c' a | None => None end.
Proof.
  induction tr; simpl; intros.
  - destruct (step c a); auto.
  - destruct (step c a); auto.
Qed.

Lemma run_reach : forall n tr c, run (init n) tr = Some c -> reach n c.
Proof.
  intros n tr. induction tr using rev_ind; intros c H.
  - simpl in H. inversion H. constructor.
  - rewrite run_app in H. destruct (run (init n) tr) eqn:E; try discriminate.
    eapply reach_step; eauto.
Qed.

Lemma reach_run : forall n c c' tr, reach n c -> run c tr = Some c' -> reach n c'.
Proof.
  intros n c c' tr. revert c. induction tr; simpl; intros c Hr H.
  - inversion H. subst. auto.
  - destruct (step c a) eqn:E; try discriminate. apply (IHtr c0); [eapply reach_step; eauto | auto].
Qed.

(* break the nested matches of [step c a = Some c'] *)
Ltac break_step H :=
  repeat match type of H with
  | match ?x with _ => _ end = Some _ => destruct x eqn:?; try discriminate H
  end; inversion H; subst; clear H.

Lemma no_readers_spec : forall k c s X,
  no_readers k c = true -> nth_error (ss c) s = Some X -> sel_on k (s_pc X) = false.
Proof.
  unfold no_readers. intros. rewrite forallb_forall in H.
  apply nth_error_In in H0. apply H in H0. destruct (sel_on k (s_pc X)); auto; discriminate.
Qed.

(* ---------- 1. no send on a closed channel ---------- *)
Definition safe_sel (c : config) : Prop :=
  forall s X l r g sn L, nth_error (ss c) s = Some X -> s_pc X = SSel l true r g sn ->
    nth_error (ls c) l = Some L -> l_closed L = false.

Lemma init_ss : forall n s X, nth_error (ss (init n)) s = Some X -> X = new_sender.
Proof.
  intros. simpl in H. apply nth_error_In in H. apply repeat_spec in H. auto.
Qed.

Lemma safe_sel_step : forall c a c', safe_sel c -> step c a = Some c' -> safe_sel c'.
Proof.
  unfold safe_sel. intros c a c' I H s X l r g sn L HX Hpc HL.
  destruct a; simpl in H; break_step H; simpl in *;
    try (apply nth_upd in HX; destruct HX as [(? & ? & ?)|(? & HX)]; subst; simpl in *; try discriminate);
    try (apply nth_upd in HL; destruct HL as [(? & ? & ?)|(? & HL)]; subst; simpl in *);
    try (apply nth_app_new in HL; destruct HL as [HL|(? & ?)]; subst; simpl in *; auto);
    try solve [eapply I; eauto];
    try solve [inversion Hpc; subst; rewrite HL in *;
               match goal with E : Some _ = Some _ |- _ => inversion E; subst end;
               match goal with E : negb _ = true |- _ => apply negb_true_iff in E; auto end].
  - (* LStop *) exfalso.
    match goal with E : no_readers _ _ = true |- _ => pose proof (no_readers_spec _ _ _ _ E HX) as Hn end.
    rewrite Hpc in Hn. simpl in Hn. rewrite Nat.eqb_refl in Hn. discriminate.
Qed.

Lemma safe_sel_reach : forall n c, reach n c -> safe_sel c.
Proof.
  induction 1.
  - intros s X l r g sn L HX Hpc. apply init_ss in HX. subst. discriminate.
  - eapply safe_sel_step; eauto.
Qed.

Lemma no_panic : forall n c, reach n c -> panics c = false.
Proof.
  intros n c H. apply safe_sel_reach in H. unfold panics.
  destruct (existsb (sender_panics c) (ss c)) eqn:E; auto.
  apply existsb_exists in E. destruct E as (X & HIn & Hp).
  apply In_nth_error in HIn. destruct HIn as (s & HX).
  unfold sender_panics in Hp. destruct (s_pc X) eqn:Hpc; try discriminate.
  destruct chopen; try discriminate.
  destruct (nth_error (ls c) l) eqn:HL; try discriminate.
  rewrite (H _ _ _ _ _ _ _ HX Hpc HL) in Hp. discriminate.
Qed.

(* for every schedule from the empty bus: nobody is ever blocked sending on a channel that is
   closed, and a rendezvous never targets a closed channel *)
Theorem no_send_on_closed : forall n tr c,
  run (init n) tr = Some c ->
  panics c = false /\
  (forall s c' X l o r g sn L, step c (LDeliver s) = Some c' ->
     nth_error (ss c) s = Some X -> s_pc X = SSel l o r g sn -> nth_error (ls c) l = Some L ->
     l_closed L = false).
Proof.
  intros n tr c H. apply run_reach in H. split.
  - eapply no_panic; eauto.
  - intros s c' X l o r g sn L Hs HX Hpc HL.
    simpl in Hs. rewrite HX, Hpc in Hs. destruct o; try discriminate.
    eapply (safe_sel_reach _ _ H); eauto.
Qed.

(* the model is not vacuous: a schedule in which a sender is blocked in the select of a
   listener while that listener is cancelled and its watcher asks for the lock *)
Example window_reachable :
  exists c, run (init 1) [LListen; LRegister 0; LCall 0; LRLock 0; LCancel 0; LWake 0; LLockReq 0] = Some c
            /\ step c (LStop 0) = None /\ step c (LSelListenCtx 0) <> None.
Proof. eexists. split; [reflexivity|]. split; [reflexivity|discriminate]. Qed.

(* without the lock (stop allowed while a reader is in the select) the panic is reachable:
   shown on the configuration above by closing the channel directly *)
Example unlocked_stop_panics :
  exists c L, run (init 1) [LListen; LRegister 0; LCall 0; LRLock 0; LCancel 0; LWake 0; LLockReq 0] = Some c
    /\ nth_error (ls c) 0 = Some L
    /\ panics (set_l c 0 (mkL (l_cancel L) true WDone (l_reg L) (l_rcv L) (l_sawclose L) (l_log L))) = true.
Proof. eexists. eexists. split; [reflexivity|]. split; reflexivity. Qed.

(* ---------- 2. cancel closes: the measure mu ---------- *)
Definition rcount (k : nat) (l : list sender) : nat := List.length (filter (fun s => sel_on k (s_pc s)) l).

Lemma readers_rcount : forall k c, readers k c = rcount k (ss c).
Proof. reflexivity. Qed.

Lemma rcount_le : forall k l, rcount k l <= List.length l.
Proof. intros. unfold rcount. induction l; simpl; auto. destruct (sel_on k (s_pc a)); simpl; lia. Qed.

Lemma rcount_upd : forall k l s X X', nth_error l s = Some X ->
  rcount k (upd l s X') + (if sel_on k (s_pc X) then 1 else 0) = rcount k l + (if sel_on k (s_pc X') then 1 else 0).
Proof.
  unfold rcount. induction l; intros s X X' H.
  - destruct s; discriminate.
  - destruct s; simpl in H.
    + inversion H; subst. simpl. destruct (sel_on k (s_pc X)), (sel_on k (s_pc X')); simpl; lia.
    + simpl. specialize (IHl s X X' H). destruct (sel_on k (s_pc a)); simpl; lia.
Qed.

Lemma rcount_zero : forall k c, no_readers k c = true -> rcount k (ss c) = 0.
Proof.
  unfold no_readers, rcount. intros k c. induction (ss c); simpl; auto.
  intros H. apply andb_true_iff in H. destruct H as (H1 & H2).
  destruct (sel_on k (s_pc a)); try discriminate. auto.
Qed.

Lemma rcount_pos : forall k l, rcount k l > 0 -> exists s X, nth_error l s = Some X /\ sel_on k (s_pc X) = true.
Proof.
  unfold rcount. induction l; simpl; intros H; try lia.
  destruct (sel_on k (s_pc a)) eqn:E.
  - exists 0, a. auto.
  - destruct (IHl H) as (s & X & H1 & H2). exists (S s), X. auto.
Qed.

Lemma rcount_no : forall k c, rcount k (ss c) = 0 -> no_readers k c = true.
Proof.
  unfold no_readers, rcount. intros k c. induction (ss c); simpl; auto.
  destruct (sel_on k (s_pc a)); simpl; intros; try discriminate. auto.
Qed.

Definition rank (w : wpc) (n r : nat) : nat :=
  match w with WWait => 2 * n + 3 | WStop => 2 * n + 2 | WPending => 1 + r | WDone => 0 end.

Lemma mu_rank : forall k c, mu k c = match nth_error (ls c) k with
                                       | Some L => rank (l_w L) (List.length (ss c)) (rcount k (ss c))
                                       | None => 0 end.
Proof. intros. unfold mu. destruct (nth_error (ls c) k); auto. Qed.

Lemma step_ss_length : forall c a c', step c a = Some c' -> List.length (ss c') = List.length (ss c).
Proof.
  intros c a c' H. destruct a; simpl in H; break_step H; simpl; rewrite ?upd_length; auto.
Qed.

Lemma sel_on_true : forall k p, sel_on k p = true -> exists o r g sn, p = SSel k o r g sn.
Proof. destruct p; simpl; intros; try discriminate. apply Nat.eqb_eq in H. subst. eauto. Qed.

Ltac same_k := repeat match goal with
  | E1 : nth_error ?l ?k = Some ?a, E2 : nth_error ?l ?k = Some ?b |- _ =>
      tryif constr_eq a b then fail else (assert (a = b) by congruence; subst a)
  end.

(* how the k-th listener changes in one step *)
Lemma nth_ls_step : forall c a c' k K, step c a = Some c' -> nth_error (ls c) k = Some K ->
  exists K', nth_error (ls c') k = Some K' /\
    (l_w K' = l_w K \/ a = LWake k \/ a = LLockReq k \/ a = LStop k).
Proof.
  intros c a c' k K H HK. pose proof (nth_some_lt _ _ _ HK) as Hlt.
  destruct a; simpl in H; break_step H; simpl; eauto;
    try (rewrite nth_error_app1 by auto; eauto);
    match goal with |- context [nth_error (upd (ls c) ?l ?x) k] =>
      destruct (Nat.eq_dec l k) as [->|Hne];
      [rewrite nth_upd_eq by auto; eexists; split; [reflexivity|]; simpl; same_k; auto
      |rewrite nth_upd_neq by auto; eauto] end.
Qed.

Definition leaves (a : label) (s : nat) : Prop := a = LSelSendCtx s \/ a = LSelListenCtx s \/ a = LDeliver s.

Lemma rcount_step : forall c a c' k, step c a = Some c' ->
  rcount k (ss c') = rcount k (ss c)
  \/ (exists s, a = LRLock s /\ rcount k (ss c') = rcount k (ss c) + 1 /\
        forall K, nth_error (ls c) k = Some K -> l_w K <> WPending)
  \/ (exists s X, leaves a s /\ nth_error (ss c) s = Some X /\ sel_on k (s_pc X) = true /\
        rcount k (ss c') + 1 = rcount k (ss c)).
Proof.
  intros c a c' k H. unfold leaves.
  destruct a; simpl in H; break_step H; simpl; auto;
    match goal with
    | E : nth_error (ss c) ?s = Some ?X |- context [rcount k (upd (ss c) ?s ?X')] =>
        pose proof (rcount_upd k (ss c) s X X' E) as RU
    end;
    try match goal with E : s_pc _ = _ |- _ => rewrite E in RU end; simpl in RU.
  - left. lia.
  - destruct (Nat.eqb n k) eqn:El.
    + apply Nat.eqb_eq in El. subst. right. left. exists s. split; auto. split; [lia|].
      intros K HK. same_k. congruence.
    + left. lia.
  - destruct (Nat.eqb n k) eqn:El.
    + apply Nat.eqb_eq in El. subst. right. left. exists s. split; auto. split; [lia|].
      intros K HK. same_k. congruence.
    + left. lia.
  - destruct (Nat.eqb n k) eqn:El.
    + apply Nat.eqb_eq in El. subst. right. left. exists s. split; auto. split; [lia|].
      intros K HK. same_k. congruence.
    + left. lia.
  - destruct (Nat.eqb l k) eqn:El.
    + right. right. exists s, s0. rewrite Heqs1. simpl. rewrite El. repeat split; auto. lia.
    + left. lia.
  - destruct (Nat.eqb l k) eqn:El.
    + right. right. exists s, s0. rewrite Heqs1. simpl. rewrite El. repeat split; auto. lia.
    + left. lia.
  - destruct (Nat.eqb l k) eqn:El.
    + right. right. exists s, s0. rewrite Heqs1. simpl. rewrite El. repeat split; auto. lia.
    + left. lia.
  - left. lia.
  - left. destruct (sel_on k (s_pc s0)); lia.
Qed.

Lemma helper_leave : forall k c s X, nth_error (ss c) s = Some X -> forall K, nth_error (ls c) k = Some K ->
  forall a, leaves a s -> helper k c a = sel_on k (s_pc X) && match l_w K with WPending => true | _ => false end.
Proof. intros k c s X HX K HK a [->|[->| ->]]; simpl; rewrite HX, HK; auto. Qed.

Lemma mu_step : forall c a c' k K,
  step c a = Some c' -> nth_error (ls c) k = Some K ->
  mu k c' <= mu k c /\ (helper k c a = true -> mu k c' < mu k c).
Proof.
  intros c a c' k K H HK. rewrite !mu_rank, (step_ss_length _ _ _ H), HK.
  pose proof (rcount_le k (ss c)) as Hle. pose proof (nth_some_lt _ _ _ HK) as Hlt.
  destruct a; simpl in H; break_step H; unfold set_s, set_l; cbn [ls ss helper];
    try (rewrite nth_error_app1 by auto);
    try match goal with |- context [nth_error (upd (ls c) ?l ?x) k] =>
      destruct (Nat.eq_dec l k) as [->|Hne];
      [rewrite nth_upd_eq by auto; same_k | rewrite nth_upd_neq by auto] end;
    rewrite ?HK; cbn [l_w];
    try match goal with
    | E : nth_error (ss c) ?s = Some ?X |- context [rcount k (upd (ss c) ?s ?X')] =>
        pose proof (rcount_upd k (ss c) s X X' E) as RU;
        try match goal with E : s_pc _ = _ |- _ => rewrite E in RU end; cbn [with_pc s_pc sel_on] in RU
    end.
  all: try (destruct (l_w K) eqn:EW; cbn [rank] in *; rewrite ?andb_false_r, ?andb_true_r;
            try match goal with E : nth_error (ss _) _ = Some _ |- _ => rewrite E end;
            try match goal with E : s_pc _ = _ |- _ => rewrite E end; cbn [sel_on];

            try (match goal with |- context [Nat.eqb ?x ?y] => destruct (Nat.eqb x y) eqn:EQ; [apply Nat.eqb_eq in EQ; subst|] end); same_k;
            split; intros; try discriminate; try congruence; try lia).
  all: destruct (Nat.eqb n k) eqn:EQ; [apply Nat.eqb_eq in EQ; subst; same_k; congruence | lia].
Qed.

Lemma mu_progress : forall c k K, nth_error (ls c) k = Some K -> l_cancel K = true -> mu k c > 0 ->
  exists a c', helper k c a = true /\ step c a = Some c'.
Proof.
  intros c k K HK Hc Hm. rewrite mu_rank, HK in Hm. destruct (l_w K) eqn:EW; cbn [rank] in Hm.
  - exists (LWake k). simpl. rewrite HK, EW, Hc, Nat.eqb_refl. eauto.
  - exists (LLockReq k). simpl. rewrite HK, EW, Nat.eqb_refl. eauto.
  - destruct (rcount k (ss c)) eqn:ER.
    + exists (LStop k). simpl. rewrite HK, EW, Nat.eqb_refl, (rcount_no _ _ ER). eauto.
    + destruct (rcount_pos k (ss c)) as (s & X & HX & Hs); [lia|].
      destruct (sel_on_true _ _ Hs) as (o & r & g & sn & Hpc).
      exists (LSelListenCtx s). simpl. rewrite HX, Hpc, HK, Hc, EW. simpl. rewrite Nat.eqb_refl. eauto.
  - lia.
Qed.

Lemma mu_zero : forall c k K, nth_error (ls c) k = Some K -> (mu k c = 0 <-> l_w K = WDone).
Proof.
  intros c k K HK. rewrite mu_rank, HK. destruct (l_w K); cbn [rank]; split; intros; try discriminate; try lia; auto.
Qed.

Lemma helper_steps_bound : forall tr c c' k K, nth_error (ls c) k = Some K -> run c tr = Some c' ->
  mu k c' + helper_steps k c tr <= mu k c.
Proof.
  induction tr; simpl; intros c c' k K HK H.
  - inversion H. subst. lia.
  - destruct (step c a) eqn:E; try discriminate.
    destruct (nth_ls_step _ _ _ _ _ E HK) as (K' & HK' & _).
    specialize (IHtr _ _ _ _ HK' H). destruct (mu_step _ _ _ _ _ E HK) as (M1 & M2).
    destruct (helper k c a); [specialize (M2 eq_refl)|]; lia.
Qed.

(* watcher state, channel state and context flag of every listener are consistent *)
Definition winv (c : config) : Prop := forall k K, nth_error (ls c) k = Some K ->
  (l_closed K = true <-> l_w K = WDone) /\ (l_w K <> WWait -> l_cancel K = true).

Lemma winv_step : forall c a c', winv c -> step c a = Some c' -> winv c'.
Proof.
  unfold winv. intros c a c' I H k K HK.
  destruct a; simpl in H; break_step H; unfold set_s, set_l in *; cbn [ls] in *; auto;
    try solve [eapply I; eauto];
    try (apply nth_app_new in HK; destruct HK as [HK|(_ & ->)];
         [eapply I; eauto | simpl; split; [split; discriminate | congruence]]);
    apply nth_upd in HK; destruct HK as [(-> & -> & _)|(_ & HK)]; auto; cbn [l_closed l_w l_cancel];
    match goal with E : nth_error (ls c) _ = Some ?L |- _ => destruct (I _ _ E) as (I1 & I2) end;
    try solve [split; auto]; try solve [split; [split; congruence | auto]].
  - split; [|auto]. rewrite Heqw in I1. split; intros; try discriminate. apply I1 in H. discriminate.
  - split; [|intros; apply I2; congruence]. rewrite Heqw in I1. split; intros; try discriminate. apply I1 in H. discriminate.
  - split; [split; auto|]. intros _. apply I2. congruence.
Qed.

Lemma winv_reach : forall n c, reach n c -> winv c.
Proof.
  induction 1.
  - intros k K HK. destruct k; discriminate.
  - eapply winv_step; eauto.
Qed.

(* Cancel closes the channel.  For every configuration reachable from the empty bus and every
   listener k whose context is cancelled:
   - the measure mu k never grows, whatever step is taken by whatever goroutine, and every step
     of a helper of k (the watcher of k; a sender leaving the select of k while the watcher
     waits for the lock) makes it strictly smaller;
   - as long as it is positive some helper step is enabled (so nothing the subscription needs
     is ever blocked by other goroutines: the subscription cannot deadlock);
   - it is zero exactly when the watcher has ended, and then the channel is closed;
   - hence along any further schedule, once mu k helper steps have been taken, the channel is
     closed.  Under weak fairness (a goroutine that stays enabled is eventually scheduled)
     helper steps keep being taken while mu k > 0, because the enabled helper stays enabled
     until it or another helper moves (its enabledness depends only on the watcher state, the
     cancelled flag and its own pc). *)
Theorem cancel_closes : forall n tr c k K,
  run (init n) tr = Some c -> nth_error (ls c) k = Some K -> l_cancel K = true ->
  (forall a c', step c a = Some c' -> mu k c' <= mu k c /\ (helper k c a = true -> mu k c' < mu k c)) /\
  (mu k c > 0 -> exists a c', helper k c a = true /\ step c a = Some c') /\
  (mu k c = 0 <-> (l_w K = WDone /\ l_closed K = true)) /\
  (forall tr' c', run c tr' = Some c' -> helper_steps k c tr' >= mu k c ->
     exists K', nth_error (ls c') k = Some K' /\ l_w K' = WDone /\ l_closed K' = true).
Proof.
  intros n tr c k K Hr HK Hc. apply run_reach in Hr. split; [|split; [|split]].
  - intros a c' Hs. eapply mu_step; eauto.
  - intros Hm. eapply mu_progress; eauto.
  - pose proof (winv_reach _ _ Hr _ _ HK) as (W1 & _). rewrite (mu_zero _ _ _ HK). tauto.
  - intros tr' c' Hrun Hh. pose proof (helper_steps_bound _ _ _ _ _ HK Hrun) as Hb.
    assert (Hz : mu k c' = 0) by lia.
    assert (exists K', nth_error (ls c') k = Some K') as (K' & HK').
    { clear - HK Hrun. revert c K HK Hrun. induction tr'; simpl; intros c K HK Hrun.
      - inversion Hrun; subst; eauto.
      - destruct (step c a) eqn:E; try discriminate.
        destruct (nth_ls_step _ _ _ _ _ E HK) as (K1 & HK1 & _). eauto. }
    exists K'. split; auto. rewrite (mu_zero _ _ _ HK') in Hz. split; auto.
    pose proof (reach_run _ _ _ _ Hr Hrun) as Hr'.
    destruct (winv_reach _ _ Hr' _ _ HK') as (W1 & _). tauto.
Qed.

(* a channel is only ever closed after its context was cancelled *)
Theorem closed_only_after_cancel : forall n tr c k K,
  run (init n) tr = Some c -> nth_error (ls c) k = Some K -> l_closed K = true -> l_cancel K = true.
Proof.
  intros n tr c k K Hr HK Hc. apply run_reach in Hr. destruct (winv_reach _ _ Hr _ _ HK) as (W1 & W2).
  apply W2. apply W1 in Hc. congruence.
Qed.

(* ---------- 3. indices are valid; who can be blocked, and by whom ---------- *)
Definition pending (p : spc) : list nat :=
  match p with SIdle => [] | SLoop r _ _ => r | SSel l _ r _ _ => l :: r end.
Definition snap_of (p : spc) : list nat :=
  match p with SIdle => [] | SLoop _ _ sn => sn | SSel _ _ _ _ sn => sn end.

Definition vinv (c : config) : Prop :=
  (forall l, In l (blist c) -> l < List.length (ls c)) /\
  (forall s X l, nth_error (ss c) s = Some X -> In l (pending (s_pc X) ++ snap_of (s_pc X)) -> l < List.length (ls c)).

Lemma step_ls_length : forall c a c', step c a = Some c' -> List.length (ls c) <= List.length (ls c').
Proof.
  intros c a c' H. destruct a; simpl in H; break_step H; unfold set_s, set_l; simpl; rewrite ?upd_length, ?app_length; simpl; lia.
Qed.

Lemma vinv_step : forall c a c', vinv c -> step c a = Some c' -> vinv c'.
Proof.
  intros c a c' (I1 & I2) H. pose proof (step_ls_length _ _ _ H) as Hlen.
  split.
  - intros l Hl. eapply Nat.lt_le_trans; [|exact Hlen].
    destruct a; simpl in H; break_step H; unfold set_s, set_l in *; simpl in *; auto.
    + destruct gc; auto. apply filter_In in Hl. apply I1. tauto.
    + apply in_app_or in Hl. destruct Hl as [Hl|[<-|[]]]; auto. eapply nth_some_lt; eauto.
  - intros s X l HX Hl. eapply Nat.lt_le_trans; [|exact Hlen].
    destruct a; simpl in H; break_step H; unfold set_s, set_l in *; simpl in *;
      try solve [eapply I2; eauto];
      (apply nth_upd in HX; destruct HX as [(-> & -> & _)|(_ & HX)]; [|eapply I2; eauto]); simpl in *.
    all: try solve [apply in_app_or in Hl; destruct Hl; auto].
    all: try solve [simpl in Hl; tauto].
    all: eapply I2; [eassumption|]; try match goal with E : s_pc _ = _ |- _ => rewrite E end;
         simpl in Hl |- *; try tauto; auto.
Qed.

Lemma vinv_reach : forall n c, reach n c -> vinv c.
Proof.
  induction 1.
  - split; simpl; intros; try tauto. apply init_ss in H. subst. simpl in H0. tauto.
  - eapply vinv_step; eauto.
Qed.

Definition blocked_sender (c : config) (s : nat) : Prop :=
  step c (LCall s) = None /\ step c (LRLock s) = None /\ step c (LSelSendCtx s) = None /\
  step c (LSelListenCtx s) = None /\ step c (LDeliver s) = None /\ step c (LFinish s) = None.

(* A sender that cannot move is either waiting for the read lock of a listener whose stop has
   asked for the lock (that listener is cancelled, and by cancel_closes the wait ends after at
   most mu helper steps, all of them enabled), or it is in the select of a listener that is NOT
   cancelled, its own context is not cancelled, and that listener's consumer is not receiving
   (backpressure of a live subscription).  In particular a cancelled or abandoned listener
   never holds a sender in its select, and nothing else ever blocks a sender. *)
Theorem others_unaffected : forall n tr c s X,
  run (init n) tr = Some c -> nth_error (ss c) s = Some X -> blocked_sender c s ->
  (exists l r g sn L, s_pc X = SLoop (l :: r) g sn /\ nth_error (ls c) l = Some L /\
                      l_w L = WPending /\ l_cancel L = true)
  \/ (exists l o r g sn L, s_pc X = SSel l o r g sn /\ nth_error (ls c) l = Some L /\
                      l_cancel L = false /\ s_cancel X = false /\ (l_rcv L = false \/ o = false)).
Proof.
  intros n tr c s X Hr HX (B1 & B2 & B3 & B4 & B5 & B6). apply run_reach in Hr.
  pose proof (vinv_reach _ _ Hr) as (_ & V). pose proof (winv_reach _ _ Hr) as W.
  simpl in *. rewrite HX in *. destruct (s_pc X) eqn:Hpc.
  - discriminate.
  - destruct rest as [|l r]; [discriminate|].
    assert (Hl : l < List.length (ls c)). { eapply V; eauto. rewrite Hpc. simpl. auto. }
    destruct (nth_error (ls c) l) as [L|] eqn:HL; [|apply nth_error_None in HL; lia].
    left. exists l, r, gc, snap, L. destruct (l_w L) eqn:EW; try discriminate.
    repeat split; auto. apply (W _ _ HL). congruence.
  - assert (Hl : l < List.length (ls c)). { eapply V; eauto. rewrite Hpc. simpl. auto. }
    destruct (nth_error (ls c) l) as [L|] eqn:HL; [|apply nth_error_None in HL; lia].
    right. exists l, chopen, rest, gc, snap, L.
    destruct (l_cancel L) eqn:EC; [discriminate|]. destruct (s_cancel X) eqn:ES; [discriminate|].
    repeat split; auto. destruct chopen; auto. destruct (l_rcv L); [discriminate|auto].
Qed.

(* ---------- 4. delivery ---------- *)
(* how listener k of the new configuration relates to the old one *)
Definition lrel (c : config) (a : label) (k : nat) (K K' : lstn) : Prop :=
  (l_cancel K' = l_cancel K \/ (a = LCancel k /\ l_cancel K' = true)) /\
  (l_reg K' = l_reg K \/ (a = LRegister k /\ l_reg K' = true /\ l_reg K = false)) /\
  (l_log K' = l_log K \/
   exists s X, a = LDeliver s /\ nth_error (ss c) s = Some X /\ sel_on k (s_pc X) = true /\
               l_log K' = (s, s_calls X) :: l_log K).

Lemma ls_back : forall c a c' k K', step c a = Some c' -> nth_error (ls c') k = Some K' ->
  (a = LListen /\ K' = new_listener /\ k = List.length (ls c)) \/
  (exists K, nth_error (ls c) k = Some K /\ lrel c a k K K').
Proof.
  intros c a c' k K' H HK'. unfold lrel.
  destruct a; simpl in H; break_step H; unfold set_s, set_l in *; cbn [ls] in *;
    try solve [right; exists K'; split; auto];
    try (apply nth_app_new in HK'; destruct HK' as [HK'|(-> & ->)]; [right; exists K'; split; auto | left; auto]);
    try (apply nth_upd in HK'; destruct HK' as [(-> & -> & _)|(_ & HK')];
         [right; eexists; split; [eassumption|]; cbn [l_cancel l_reg l_log]; repeat split; auto
         |right; exists K'; split; auto]).
  right. exists s, s0. rewrite Heqs1. simpl. rewrite Nat.eqb_refl. auto.
Qed.

(* forward: cancel and registration flags only go up, logs only grow *)
Lemma ls_forward : forall c a c' k K, step c a = Some c' -> nth_error (ls c) k = Some K ->
  exists K', nth_error (ls c') k = Some K' /\ lrel c a k K K'.
Proof.
  intros c a c' k K H HK. destruct (nth_ls_step _ _ _ _ _ H HK) as (K' & HK' & _).
  exists K'. split; auto. destruct (ls_back _ _ _ _ _ H HK') as [(-> & _ & ->)|(K0 & HK0 & R)].
  - apply nth_some_lt in HK. lia.
  - rewrite HK in HK0. inversion HK0. subst. auto.
Qed.

(* listeners registered and not cancelled are in Bus.listeners *)
Definition rinv (c : config) : Prop := forall k K, nth_error (ls c) k = Some K ->
  l_reg K = true -> l_cancel K = false -> In k (blist c).

Lemma blist_step : forall c a c' k, step c a = Some c' -> In k (blist c) -> alive c k = true -> In k (blist c').
Proof.
  intros c a c' k H Hin Ha. destruct a; simpl in H; break_step H; unfold set_s, set_l; simpl; auto.
  - destruct gc; auto. apply filter_In. auto.
  - apply in_or_app. auto.
Qed.

Lemma rinv_step : forall c a c', rinv c -> step c a = Some c' -> rinv c'.
Proof.
  unfold rinv. intros c a c' I H k K' HK' Hreg Hc.
  destruct (ls_back _ _ _ _ _ H HK') as [(-> & -> & ->)|(K & HK & (R1 & R2 & _))].
  - discriminate.
  - destruct R1 as [R1|(_ & R1)]; [|congruence].
    destruct R2 as [R2|(-> & _ & _)].
    + apply (blist_step _ _ _ _ H).
      * apply (I _ _ HK); congruence.
      * unfold alive. rewrite HK. rewrite <- R1, Hc. auto.
    + simpl in H. rewrite HK in H. destruct (l_reg K); inversion H. simpl. apply in_or_app. simpl. auto.
Qed.

Lemma rinv_reach : forall n c, reach n c -> rinv c.
Proof.
  induction 1.
  - intros k K HK. destruct k; discriminate.
  - eapply rinv_step; eauto.
Qed.

(* every listener of the snapshot that the current Send is done with was cancelled or got the event *)
Definition served (c : config) (s : nat) (n : nat) (l : nat) : Prop :=
  exists L, nth_error (ls c) l = Some L /\ (l_cancel L = true \/ In (s, n) (l_log L)).

Definition dinv (c : config) : Prop := forall s X l, nth_error (ss c) s = Some X ->
  In l (snap_of (s_pc X)) -> In l (pending (s_pc X)) \/ served c s (s_calls X) l.

Lemma served_step : forall c a c' s n l, step c a = Some c' -> served c s n l -> served c' s n l.
Proof.
  intros c a c' s n l H (L & HL & P). destruct (ls_forward _ _ _ _ _ H HL) as (L' & HL' & (R1 & _ & R3)).
  exists L'. split; auto. destruct P as [P|P].
  - left. destruct R1 as [R1|(_ & R1)]; congruence.
  - right. destruct R3 as [R3|(s1 & X1 & _ & _ & _ & R3)]; rewrite R3; simpl; auto.
Qed.

Lemma dinv_step : forall c a c', dinv c -> step c a = Some c' -> dinv c'.
Proof.
  unfold dinv. intros c a c' I H s X' l HX' Hsnap. pose proof H as H0.
  assert (Other : nth_error (ss c) s = Some X' -> In l (pending (s_pc X')) \/ served c' s (s_calls X') l).
  { intros HX. destruct (I _ _ _ HX Hsnap) as [P|P]; auto. right. eapply served_step; eauto. }
  destruct a; simpl in H; break_step H; unfold set_s, set_l in *; cbn [ss ls] in *; auto;
    (apply nth_upd in HX'; destruct HX' as [(-> & -> & _)|(_ & HX')]; [|auto]);
    cbn [with_pc s_pc s_calls snap_of pending] in *;
    try (match goal with E : nth_error (ss c) _ = Some ?X |- _ =>
           pose proof (I _ _ l E) as IX; match goal with E2 : s_pc X = _ |- _ => rewrite E2 in IX end;
           cbn [snap_of pending] in IX; specialize (IX Hsnap) end).
  - left; auto.
  - destruct IX as [P|P]; auto; right; eapply served_step; eauto.
  - destruct IX as [P|P]; auto; right; eapply served_step; eauto.
  - destruct IX as [P|P]; auto; right; eapply served_step; eauto.
  - destruct Hsnap.
  - destruct IX as [[<-|P]|P]; auto.
    right. eexists. split; [eassumption|]. auto.
  - destruct IX as [[<-|P]|P]; auto.
    + right. eexists. cbn [ls]. split; [apply nth_upd_eq; eapply nth_some_lt; eauto|]. simpl. auto.
    + right. eapply served_step; eauto.
  - destruct Hsnap.
  - destruct (I _ _ l Heqo Hsnap) as [P|P]; auto; right; eapply served_step; eauto.
Qed.

Lemma dinv_reach : forall n c, reach n c -> dinv c.
Proof.
  induction 1.
  - intros s X l HX. apply init_ss in HX. subst. simpl. tauto.
  - eapply dinv_step; eauto.
Qed.

(* An event reaches every listener that is live for the whole Send:
   (1) the snapshot taken by a Send contains every listener whose Listen has returned and whose
       context is not cancelled at that moment;
   (2) when a Send is about to return true, every listener of its snapshot that is still not
       cancelled has received the event of this call. *)
Theorem delivered_when_live : forall n tr c s X,
  run (init n) tr = Some c -> nth_error (ss c) s = Some X ->
  (forall c' X', step c (LCall s) = Some c' -> nth_error (ss c') s = Some X' ->
     forall k K, nth_error (ls c) k = Some K -> l_reg K = true -> l_cancel K = false ->
       In k (snap_of (s_pc X'))) /\
  (forall g sn, s_pc X = SLoop [] g sn ->
     forall l, In l sn -> exists L, nth_error (ls c) l = Some L /\
       (l_cancel L = true \/ In (s, s_calls X) (l_log L))).
Proof.
  intros n tr c s X Hr HX. apply run_reach in Hr. split.
  - intros c' X' Hs HX' k K HK Hreg Hc. pose proof (rinv_reach _ _ Hr _ _ HK Hreg Hc) as Hin.
    simpl in Hs. rewrite HX in Hs. destruct (s_pc X); try discriminate. inversion Hs; subst; clear Hs.
    simpl in HX'. rewrite nth_upd_eq in HX' by (eapply nth_some_lt; eauto). inversion HX'. subst. simpl. auto.
  - intros g sn Hpc l Hl. pose proof (dinv_reach _ _ Hr _ _ l HX) as D. rewrite Hpc in D. simpl in D.
    destruct (D Hl) as [[]|P]. exact P.
Qed.

(* ---------- 5. at most once, in per-sender order ---------- *)
Fixpoint sorted_log (log : list (nat * nat)) : Prop :=
  match log with
  | [] => True
  | (s, n) :: r => (forall m, In (s, m) r -> m < n) /\ sorted_log r
  end.

Lemma ss_back : forall c a c' s X', step c a = Some c' -> nth_error (ss c') s = Some X' ->
  exists X, nth_error (ss c) s = Some X /\
    ((a = LCall s /\ s_calls X' = S (s_calls X) /\ pending (s_pc X') = blist c)
     \/ (s_calls X' = s_calls X /\ pending (s_pc X') = pending (s_pc X))
     \/ (s_calls X' = s_calls X /\ exists k, sel_on k (s_pc X) = true /\ pending (s_pc X) = k :: pending (s_pc X'))
     \/ (s_calls X' = s_calls X /\ pending (s_pc X') = [])).
Proof.
  intros c a c' s X' H HX'.
  destruct a; simpl in H; break_step H; unfold set_s, set_l in *; cbn [ss] in *;
    try solve [exists X'; split; auto];
    (apply nth_upd in HX'; destruct HX' as [(-> & -> & _)|(_ & HX')]; [|exists X'; split; auto]);
    eexists; (split; [eassumption|]); cbn [with_pc s_pc s_calls pending];
    try match goal with E : s_pc _ = _ |- _ => rewrite E end; cbn [pending sel_on]; auto.
  - right. right. left. split; auto. exists l. rewrite Nat.eqb_refl. auto.
  - right. right. left. split; auto. exists l. rewrite Nat.eqb_refl. auto.
Qed.

Definition oinv (c : config) : Prop :=
  (forall l L, nth_error (ls c) l = Some L -> sorted_log (l_log L)) /\
  (forall s X l L m, nth_error (ss c) s = Some X -> nth_error (ls c) l = Some L -> In (s, m) (l_log L) ->
     m <= s_calls X /\ (In l (pending (s_pc X)) -> m < s_calls X)) /\
  (forall s X, nth_error (ss c) s = Some X -> NoDup (pending (s_pc X))) /\
  NoDup (blist c) /\
  (forall k, In k (blist c) -> exists K, nth_error (ls c) k = Some K /\ l_reg K = true).

Lemma sel_on_pending : forall k p, sel_on k p = true -> In k (pending p).
Proof. intros k p H. destruct (sel_on_true _ _ H) as (o & r & g & sn & ->). simpl. auto. Qed.

Lemma sel_on_unique : forall k l p, sel_on k p = true -> sel_on l p = true -> k = l.
Proof.
  intros k l p H1 H2. destruct p; simpl in *; try discriminate.
  apply Nat.eqb_eq in H1. apply Nat.eqb_eq in H2. congruence.
Qed.

Lemma NoDup_snoc : forall {A} (l : list A) k, NoDup l -> ~ In k l -> NoDup (l ++ [k]).
Proof.
  induction l; simpl; intros k Hn Hi.
  - constructor; auto; constructor.
  - inversion Hn; subst. constructor.
    + intros Hin. apply in_app_or in Hin. destruct Hin as [Hin|[->|[]]]; auto.
    + apply IHl; auto.
Qed.

Lemma oinv_step : forall c a c', oinv c -> step c a = Some c' -> oinv c'.
Proof.
  intros c a c' (O1 & O2 & O3 & O4 & O5) H. split; [|split; [|split; [|split]]].
  - (* logs stay sorted *)
    intros l L' HL'. destruct (ls_back _ _ _ _ _ H HL') as [(_ & -> & _)|(K & HK & (_ & _ & R3))].
    + simpl. auto.
    + destruct R3 as [->|(s1 & X1 & _ & HX1 & Hsel & ->)]; [eapply O1; eauto|].
      simpl. split; [|eapply O1; eauto]. intros m Hm.
      apply (O2 _ _ _ _ _ HX1 HK Hm). apply sel_on_pending. auto.
  - (* bounds *)
    intros s X' l L' m HX' HL' Hin.
    destruct (ls_back _ _ _ _ _ H HL') as [(_ & -> & _)|(K & HK & (_ & _ & R3))]; [destruct Hin|].
    destruct (ss_back _ _ _ _ _ H HX') as (X & HX & SB).
    assert (Old : In (s, m) (l_log K) -> m <= s_calls X' /\ (In l (pending (s_pc X')) -> m < s_calls X')).
    { intros Hold. destruct (O2 _ _ _ _ _ HX HK Hold) as (B1 & B2).
      destruct SB as [(_ & Hc & _)|[(Hc & Hp)|[(Hc & k & _ & Hp)|(Hc & Hp)]]]; rewrite Hc.
      - split; [lia|]. intros _. lia.
      - rewrite Hp. auto.
      - split; auto. intros Hl. apply B2. rewrite Hp. simpl. auto.
      - rewrite Hp. split; auto. intros []. }
    destruct R3 as [R3|(s1 & X1 & Ha & HX1 & Hsel & R3)]; rewrite R3 in Hin; auto.
    destruct Hin as [Heq|Hin]; auto. inversion Heq; subst s1 m. clear Heq.
    rewrite HX in HX1. inversion HX1; subst X1. clear HX1.
    destruct SB as [(Ha' & _)|[(Hc & Hp)|[(Hc & k & Hk & Hp)|(Hc & Hp)]]].
    + congruence.
    + (* the pc of a delivering sender changes *) exfalso.
      subst a. simpl in H. rewrite HX in H. destruct (sel_on_true _ _ Hsel) as (o & r & g & sn & Hpc).
      rewrite Hpc in H. destruct o; try discriminate. destruct (nth_error (ls c) l); try discriminate.
      destruct (l_rcv l0); try discriminate. inversion H; subst c'. clear H. simpl in HX'.
      rewrite nth_upd_eq in HX' by (eapply nth_some_lt; eauto). inversion HX'; subst X'.
      rewrite Hpc in Hp. simpl in Hp. specialize (O3 _ _ HX). rewrite Hpc in O3. simpl in O3.
      inversion O3; subst. apply (f_equal (@List.length nat)) in Hp. simpl in Hp. lia.
    + rewrite Hc. split; auto. intros Hl. exfalso.
      pose proof (sel_on_unique _ _ _ Hk Hsel) as ->. specialize (O3 _ _ HX). rewrite Hp in O3.
      inversion O3; auto.
    + rewrite Hc. split; auto. rewrite Hp. intros [].
  - (* each listener at most once in what is left of the snapshot *)
    intros s X' HX'. destruct (ss_back _ _ _ _ _ H HX') as (X & HX & SB). specialize (O3 _ _ HX).
    destruct SB as [(Ha & _ & Hp)|[(_ & Hp)|[(_ & k & _ & Hp)|(_ & Hp)]]]; rewrite ?Hp in *; auto.
    + inversion O3; auto.
    + constructor.
  - (* Bus.listeners has no duplicates *)
    destruct a; simpl in H; break_step H; unfold set_s, set_l; simpl; auto.
    + destruct gc; auto. apply NoDup_filter. auto.
    + apply NoDup_snoc; auto.
      intros Hin. destruct (O5 _ Hin) as (K & HK & Hr). congruence.
  - intros k Hin.
    assert (Hold : In k (blist c) -> exists K, nth_error (ls c') k = Some K /\ l_reg K = true).
    { intros Hi. destruct (O5 _ Hi) as (K & HK & Hr).
      destruct (ls_forward _ _ _ _ _ H HK) as (K' & HK' & (_ & R2 & _)). exists K'. split; auto.
      destruct R2 as [R2|(_ & R2 & _)]; congruence. }
    destruct a; simpl in H; pose proof H as H0; break_step H; unfold set_s, set_l in *; simpl in *; auto.
    + destruct gc; auto. apply filter_In in Hin. apply Hold. tauto.
    + apply in_app_or in Hin. destruct Hin as [Hin|[<-|[]]]; auto.
      eexists. split; [apply nth_upd_eq; eapply nth_some_lt; eauto|]. auto.
Qed.

Lemma oinv_reach : forall n c, reach n c -> oinv c.
Proof.
  induction 1.
  - split; [|split; [|split; [|split]]]; simpl.
    + intros l L HL. destruct l; discriminate.
    + intros s X l L m _ HL. destruct l; discriminate.
    + intros s X HX. apply init_ss in HX. subst. simpl. constructor.
    + constructor.
    + intros k [].
  - eapply oinv_step; eauto.
Qed.

Lemma sorted_log_nodup : forall log, sorted_log log -> NoDup log.
Proof.
  induction log as [|[s n] r IH]; simpl; intros H; constructor.
  - intros Hin. destruct H as (H & _). specialize (H _ Hin). lia.
  - apply IH. tauto.
Qed.

(* Every listener's log (newest first), for every schedule: the call numbers of one sender are
   strictly decreasing towards the past - events of one sender arrive in the order of its Send
   calls and none arrives twice - and only events of calls that were made appear. *)
Theorem exactly_once_in_order : forall n tr c l L,
  run (init n) tr = Some c -> nth_error (ls c) l = Some L ->
  sorted_log (l_log L) /\ NoDup (l_log L) /\
  (forall s X m, nth_error (ss c) s = Some X -> In (s, m) (l_log L) -> m <= s_calls X).
Proof.
  intros n tr c l L Hr HL. apply run_reach in Hr. destruct (oinv_reach _ _ Hr) as (O1 & O2 & _).
  split; [eapply O1; eauto|]. split; [apply sorted_log_nodup; eapply O1; eauto|].
  intros s X m HX Hin. apply (O2 _ _ _ _ _ HX HL Hin).
Qed.
