(* Proofs about the filters of the Collection.Pull forwarder (Bus/PipeHeld.v):
   the REMOVE of an item the subscription can see is ALWAYS sent on - whatever equivalence,
   include filter, updates-only, whatever was or was not sent for the id before - so a PullID
   behind the forwarder ends when its item is removed.  All statements are for every held map the
   loop can build (invariant [held_some], preserved by every pass over a well-formed change). *)
From SC Require Import Base.Prelude Resource.Impl Resource.Pull Bus.Bus Bus.Pipe Bus.BusProofs Bus.PipeProofs Bus.PipeHeld.

Local Open Scope Z_scope.

Lemma optz_some : forall z, z <> 0 -> optz z = Some z.
Proof. intros z H. unfold optz. destruct (Z.eqb_spec z 0); congruence. Qed.
Lemma optz_zero : optz 0 = None.
Proof. reflexivity. Qed.
Lemma zopt_optz : forall z, zopt (optz z) = z.
Proof. intros z. unfold optz. destruct (Z.eqb_spec z 0); simpl; congruence. Qed.

Lemma cmp_of_value_nil : forall e cmp v, cmp_of e = Some cmp -> cmp (Some v) None = false.
Proof. intros e cmp v H. destruct e; simpl in H; inversion H; reflexivity. Qed.
Lemma cmp_of_nil_value : forall e cmp v, cmp_of e = Some cmp -> cmp None (Some v) = false.
Proof. intros e cmp v H. destruct e; simpl in H; inversion H; reflexivity. Qed.

(* ---------- held maps ---------- *)
Lemma held_some_get : forall (h : hmap) id b, held_some h = true -> hget id h = Some b -> exists v, b = Some v.
Proof.
  induction h as [|(k, x) r IH]; simpl; intros id b Hs Hg; [discriminate|].
  apply andb_true_iff in Hs. destruct Hs as (Hx & Hr). simpl in Hx.
  destruct (String.eqb k id).
  - inversion Hg. subst. destruct b; [eauto|discriminate].
  - eapply IH; eauto.
Qed.

Lemma held_some_set : forall (h : hmap) id v, held_some h = true -> held_some (hset id (Some v) h) = true.
Proof.
  induction h as [|(k, x) r IH]; simpl; intros id v Hs; [reflexivity|].
  apply andb_true_iff in Hs. destruct Hs as (Hx & Hr).
  destruct (String.eqb k id); simpl.
  - exact Hr.
  - rewrite Hx. simpl. apply IH. exact Hr.
Qed.

Lemma held_some_del : forall (h : hmap) id, held_some h = true -> held_some (hdel id h) = true.
Proof.
  induction h as [|(k, x) r IH]; simpl; intros id Hs; [reflexivity|].
  apply andb_true_iff in Hs. destruct Hs as (Hx & Hr).
  destruct (String.eqb k id); simpl; [apply IH; exact Hr|]. rewrite Hx. simpl. apply IH. exact Hr.
Qed.

(* held after the seed loop holds values only (a seed carries its value) *)
Lemma held_init_some : forall cfg seeds,
  forallb (fun m => negb (m_val m =? 0)) seeds = true -> held_some (held_init cfg seeds) = true.
Proof.
  intros cfg seeds H. unfold held_init. destruct (cmp_of (fc_eq cfg)); [|reflexivity].
  assert (forall h, held_some h = true ->
            held_some (fold_left (fun h m => hset (id_str (m_id m)) (optz (m_val m)) h) seeds h) = true) as G.
  { induction seeds as [|m r IH]; simpl; intros h Hh; [exact Hh|].
    simpl in H. apply andb_true_iff in H. destruct H as (Hm & Hr). apply IH; auto.
    apply negb_true_iff in Hm. apply Z.eqb_neq in Hm. rewrite optz_some by exact Hm.
    apply held_some_set. exact Hh. }
  apply G. reflexivity.
Qed.

(* ---------- include on well-formed changes ---------- *)
Lemma wf_cases : forall m, wf_msg m = true -> m_old m <> 0 \/ m_val m <> 0.
Proof.
  intros m H. unfold wf_msg in H.
  destruct (m_kind m =? 1); [|destruct (m_kind m =? 3)];
    apply andb_true_iff in H; destruct H as (H1 & H2).
  - right. apply negb_true_iff in H2. apply Z.eqb_neq in H2. exact H2.
  - left. apply negb_true_iff in H1. apply Z.eqb_neq in H1. exact H1.
  - left. apply negb_true_iff in H1. apply Z.eqb_neq in H1. exact H1.
Qed.

Lemma include_gen_keeps_some : forall inc (c0 c : cchange Z),
  cc_old c0 <> None \/ cc_new c0 <> None ->
  include_gen false false inc c0 = Some c -> cc_old c <> None \/ cc_new c <> None.
Proof.
  intros inc c0 c Hm H. unfold include_gen in H.
  destruct inc as [f|]; [|inversion H; subst; exact Hm].
  cbn [orb] in H.
  destruct (cc_old c0) as [o|] eqn:Eo; destruct (cc_new c0) as [v|] eqn:En; cbn [andb] in H.
  - destruct (f (cc_id c0) (Some o)); destruct (f (cc_id c0) (Some v)); cbn in H; inversion H; subst; cbn;
      try rewrite Eo; try rewrite En; try (left; discriminate); try (right; discriminate).
  - destruct (f (cc_id c0) (Some o)); cbn in H; inversion H; subst; cbn; try rewrite Eo; left; discriminate.
  - destruct (f (cc_id c0) (Some v)); cbn in H; inversion H; subst; cbn; try rewrite En; right; discriminate.
  - destruct Hm; congruence.
Qed.

Lemma include_keeps_some : forall inc m c, wf_msg m = true ->
  include_gen false false inc (to_cc m) = Some c -> cc_old c <> None \/ cc_new c <> None.
Proof.
  intros inc m c Hwf H. eapply include_gen_keeps_some; [|exact H].
  simpl. destruct (wf_cases _ Hwf) as [Ho|Hv]; [left; rewrite optz_some by exact Ho|right; rewrite optz_some by exact Hv]; discriminate.
Qed.

(* ---------- the invariant: every pass over a well-formed change keeps held_some ---------- *)
Theorem fwd_in_keeps_held_some : forall cfg h m,
  held_some h = true -> wf_msg m = true -> held_some (snd (fwd_in cfg h m)) = true.
Proof.
  intros cfg h m Hh Hwf. unfold fwd_in.
  destruct (include_gen false false (inc_of (fc_inc cfg)) (to_cc m)) as [c|] eqn:Ei; [|exact Hh].
  destruct (cmp_of (fc_eq cfg)) as [cmp|] eqn:Ec; [|exact Hh].
  pose proof (include_keeps_some _ _ _ Hwf Ei) as Hc.
  unfold held_step.
  destruct (hget (cc_id c) h) as [b|] eqn:Eg.
  - destruct (held_some_get _ _ _ Hh Eg) as (v & ->).
    destruct (cmp (Some v) (cc_new c)); cbn [snd].
    + destruct (if true then (false, hset (cc_id c) (Some v) h) else (true, h)) eqn:E; inversion E; subst.
      cbn [snd]. apply held_some_set. exact Hh.
    + destruct (cc_new c); cbn [snd]; [apply held_some_set|apply held_some_del]; exact Hh.
  - destruct (cmp (cc_old c) (cc_new c)) eqn:Eq.
    + cbn [snd]. destruct (cc_old c) as [o|] eqn:Eo.
      * apply held_some_set. exact Hh.
      * exfalso. destruct (cc_new c) as [v|] eqn:En.
        -- rewrite (cmp_of_nil_value _ _ v Ec) in Eq. discriminate.
        -- destruct Hc; congruence.
    + destruct (cc_new c); cbn [snd]; [apply held_some_set|apply held_some_del]; exact Hh.
Qed.

(* ---------- a REMOVE of a visible item is always sent on ---------- *)
Definition is_remove_of (cfg : fcfg) (m : msg) : Prop :=
  m_kind m = 3 /\ m_val m = 0 /\ m_old m <> 0 /\ visible cfg (m_id m) (m_old m) = true.

Theorem fwd_remove_forwarded : forall cfg h m,
  held_some h = true -> is_remove_of cfg m -> fst (fwd_in cfg h m) = Some m.
Proof.
  intros cfg h m Hh (Hk & Hv & Ho & Hvis). destruct m as [id k v o]. cbn [m_kind m_val m_old m_id] in *. subst k v.
  unfold fwd_in, to_cc. cbn [m_id m_kind m_val m_old]. rewrite optz_zero, (optz_some _ Ho).
  change (kind_of 3) with KRemove.
  assert (include_gen false false (inc_of (fc_inc cfg)) (mkCC (id_str id) 0 KRemove (Some o) None false false)
          = Some (mkCC (id_str id) 0 KRemove (Some o) None false false)) as Hi.
  { unfold include_gen, visible in *. destruct (inc_of (fc_inc cfg)) as [f|]; [|reflexivity].
    cbn [orb andb cc_old cc_new cc_id]. rewrite Hvis. reflexivity. }
  rewrite Hi. destruct (cmp_of (fc_eq cfg)) as [cmp|] eqn:Ec.
  - unfold held_step. cbn [cc_id cc_old cc_new].
    destruct (hget (id_str id) h) as [b|] eqn:Eg.
    + destruct (held_some_get _ _ _ Hh Eg) as (x & ->). rewrite (cmp_of_value_nil _ _ x Ec). reflexivity.
    + rewrite (cmp_of_value_nil _ _ o Ec). reflexivity.
  - reflexivity.
Qed.

(* the seeded variant (REMOVE skipped when nothing was sent for the id) loses it: an updates-only
   subscription (empty held) on an existing item *)
Example held_step_skip_unsent_refuted :
  fst (held_step cmp_exact [] (to_cc (mkMo 1 3 0 5))) = true /\
  fst (held_step_skip_unsent cmp_exact [] (to_cc (mkMo 1 3 0 5))) = false.
Proof. split; reflexivity. Qed.

(* ---------- the loop over any history ---------- *)
Lemma fwd_run_app : forall cfg a b h,
  fwd_run cfg h (a ++ b) =
  (fst (fwd_run cfg h a) ++ fst (fwd_run cfg (snd (fwd_run cfg h a)) b),
   snd (fwd_run cfg (snd (fwd_run cfg h a)) b)).
Proof.
  induction a as [|m r IH]; intros b h; cbn [fwd_run app].
  - cbn [fst snd app]. destruct (fwd_run cfg h b); reflexivity.
  - destruct (fwd_in cfg h m) as [o h'] eqn:E. rewrite IH.
    destruct (fwd_run cfg h' r) as [out h''] eqn:Er. cbn [fst snd].
    destruct (fwd_run cfg h'' b) as [out2 h3]. cbn [fst snd].
    destruct o; reflexivity.
Qed.

Lemma fwd_run_keeps_held_some : forall cfg ms h,
  held_some h = true -> forallb wf_msg ms = true -> held_some (snd (fwd_run cfg h ms)) = true.
Proof.
  induction ms as [|m r IH]; intros h Hh Hw; cbn [fwd_run]; [exact Hh|].
  cbn [forallb] in Hw. apply andb_true_iff in Hw. destruct Hw as (Hm & Hr).
  pose proof (fwd_in_keeps_held_some cfg h m Hh Hm) as H1.
  destruct (fwd_in cfg h m) as [o h'] eqn:E. cbn [snd] in H1.
  pose proof (IH h' H1 Hr) as H2. destruct (fwd_run cfg h' r) as [out h'']. exact H2.
Qed.

(* whatever well-formed changes the forwarder handled before (any number, any ids, delivered or
   suppressed), starting from the held map of any seed: the REMOVE goes out, in its place *)
Theorem fwd_run_remove_forwarded : forall cfg seeds pre m post,
  forallb (fun s => negb (m_val s =? 0)) seeds = true ->
  forallb wf_msg pre = true -> is_remove_of cfg m ->
  exists out1 out2,
    fst (fwd_run cfg (held_init cfg seeds) (pre ++ m :: post)) = out1 ++ m :: out2 /\
    out1 = fst (fwd_run cfg (held_init cfg seeds) pre).
Proof.
  intros cfg seeds pre m post Hs Hp Hm.
  pose proof (fwd_run_keeps_held_some cfg pre _ (held_init_some cfg seeds Hs) Hp) as Hh.
  rewrite fwd_run_app. cbn [fst].
  set (h1 := snd (fwd_run cfg (held_init cfg seeds) pre)) in *.
  cbn [fwd_run]. pose proof (fwd_remove_forwarded cfg h1 m Hh Hm) as Hf.
  destruct (fwd_in cfg h1 m) as [o h2]. cbn [fst] in Hf. subst o.
  destruct (fwd_run cfg h2 post) as [out2 h3]. cbn [fst].
  eexists. exists out2. split; reflexivity.
Qed.

(* ---------- in the chain ---------- *)
Definition fwd_at (p : pipe) (i : nat) : Prop := stage_at p i = Some (StFwd [] None).

(* the hand-over of a REMOVE into an accepting forwarder leaves the forwarder offering it *)
Theorem fstep_remove_enters : forall cfg F i st m,
  held_some (fh F) = true -> stage_at (fp F) i = Some st -> offer st = Some m ->
  fwd_at (fp F) (S i) -> is_remove_of cfg m ->
  exists F', fstep cfg F (PXfer i) = Some F' /\ stage_at (fp F') (S i) = Some (StFwd [] (Some m)) /\
             held_some (fh F') = true.
Proof.
  intros cfg F i st m Hh Hst Ho Hf Hm. unfold fwd_at in Hf. unfold fstep. rewrite Hst, Hf, Ho.
  pose proof (fwd_remove_forwarded cfg (fh F) m Hh Hm) as H1.
  assert (wf_msg m = true) as Hwf.
  { destruct Hm as (Hk & Hv & Hold & _). unfold wf_msg. rewrite Hk, Hv. cbn.
    apply Z.eqb_neq in Hold. rewrite Hold. reflexivity. }
  pose proof (fwd_in_keeps_held_some cfg (fh F) m Hh Hwf) as H2.
  destruct (fwd_in cfg (fh F) m) as [o h']. cbn [fst snd] in *. subst o.
  eexists. split; [reflexivity|]. cbn [fp fh]. split; [|exact H2].
  unfold stage_at. cbn [p_stages]. apply nth_upd_eq. rewrite upd_length.
  eapply nth_some_lt; eauto.
Qed.

Theorem fstep_remove_enters_src : forall cfg F m,
  held_some (fh F) = true -> fwd_at (fp F) 0 -> p_src_closed (fp F) = false -> is_remove_of cfg m ->
  exists F', fstep cfg F (PSrc m) = Some F' /\ stage_at (fp F') 0 = Some (StFwd [] (Some m)) /\
             held_some (fh F') = true.
Proof.
  intros cfg F m Hh Hf Hc Hm. unfold fwd_at in Hf. unfold fstep. rewrite Hf, Hc.
  pose proof (fwd_remove_forwarded cfg (fh F) m Hh Hm) as H1.
  assert (wf_msg m = true) as Hwf.
  { destruct Hm as (Hk & Hv & Hold & _). unfold wf_msg. rewrite Hk, Hv. cbn.
    apply Z.eqb_neq in Hold. rewrite Hold. reflexivity. }
  pose proof (fwd_in_keeps_held_some cfg (fh F) m Hh Hwf) as H2.
  destruct (fwd_in cfg (fh F) m) as [o h']. cbn [fst snd] in *. subst o.
  eexists. split; [reflexivity|]. cbn [fp fh]. split; [|exact H2].
  unfold stage_at, set_stage. cbn [p_stages]. apply nth_upd_eq. eapply nth_some_lt; eauto.
Qed.

(* ... and the PullID behind it then returns and cancels the chain (the steps that do not enter a
   forwarder are those of Pipe.v) *)
Theorem fstep_pullid_ends_on_remove : forall cfg F i m id,
  stage_at (fp F) i = Some (StFwd [] (Some m)) -> stage_at (fp F) (S i) = Some (StPullID id None) ->
  m_id m = id -> m_kind m = 3 ->
  exists F', fstep cfg F (PXfer i) = Some F' /\ stage_at (fp F') (S i) = Some StDone /\ p_cancel (fp F') = true.
Proof.
  intros cfg F i m id Hst Hnx Hid Hk.
  destruct (pullid_ends_on_remove (fp F) i _ m id Hst eq_refl Hnx Hid Hk) as (p' & Hp & Hd & Hc).
  exists (mkFP p' (fh F)). unfold fstep. rewrite Hst, Hnx, Hp. cbn [lift fp]. auto.
Qed.

(* the invariant along every schedule of the filtered chain: held holds values only, provided the
   changes that reach a forwarder are well-formed *)
Definition inputs_wf (F : fpipe) (a : plabel) : Prop :=
  match a with
  | PSrc m => wf_msg m = true
  | PXfer i => forall st m, stage_at (fp F) i = Some st -> offer st = Some m -> wf_msg m = true
  | _ => True
  end.

Theorem fstep_keeps_held_some : forall cfg F a F',
  held_some (fh F) = true -> inputs_wf F a -> fstep cfg F a = Some F' -> held_some (fh F') = true.
Proof.
  intros cfg F a F' Hh Hw H. unfold fstep in H.
  assert (forall o, lift (fh F) o = Some F' -> held_some (fh F') = true) as Hl.
  { intros o Ho. destruct o; simpl in Ho; inversion Ho; subst. exact Hh. }
  destruct a; try (eapply Hl; exact H).
  - (* PSrc *)
    destruct (stage_at (fp F) 0) as [st|] eqn:E0; [|eapply Hl; exact H].
    destruct st; try (eapply Hl; exact H). destruct seeds; [|eapply Hl; exact H]. destruct cur; [eapply Hl; exact H|].
    destruct (p_src_closed (fp F)); [discriminate|].
    pose proof (fwd_in_keeps_held_some cfg (fh F) m Hh Hw) as H2.
    destruct (fwd_in cfg (fh F) m) as [o h']. cbn [snd] in H2. destruct o; inversion H; subst; exact H2.
  - (* PXfer *)
    destruct (stage_at (fp F) i) as [st|] eqn:Ei; [|eapply Hl; exact H].
    destruct (stage_at (fp F) (S i)) as [nx|] eqn:En; [|eapply Hl; exact H].
    destruct nx; try (eapply Hl; exact H). destruct seeds; [|eapply Hl; exact H]. destruct cur; [eapply Hl; exact H|].
    destruct (offer st) as [m|] eqn:Eo; [|discriminate].
    pose proof (fwd_in_keeps_held_some cfg (fh F) m Hh (Hw _ _ Ei Eo)) as H2.
    destruct (fwd_in cfg (fh F) m) as [o h']. cbn [snd] in H2. destruct o; inversion H; subst; exact H2.
Qed.

(* without an equivalence and without an include filter the filtered chain is the chain of Pipe.v *)
Lemma of_cc_to_cc : forall m, (m_kind m = 1 \/ m_kind m = 2 \/ m_kind m = 3 \/ m_kind m = 4) ->
  of_cc m (to_cc m) = m.
Proof.
  intros [id k v o] Hk. cbn [m_kind] in Hk. unfold of_cc, to_cc. cbn [m_id m_kind m_val m_old cc_kind cc_new cc_old].
  rewrite !zopt_optz. destruct Hk as [->|[->|[->| ->]]]; reflexivity.
Qed.

Theorem fwd_in_plain : forall h m, (m_kind m = 1 \/ m_kind m = 2 \/ m_kind m = 3 \/ m_kind m = 4) ->
  fwd_in (mkFC EqNone IncNone) h m = (Some m, h).
Proof. intros h m Hk. unfold fwd_in. cbn. rewrite of_cc_to_cc by exact Hk. reflexivity. Qed.
