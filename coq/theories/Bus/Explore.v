(* Exhaustive exploration of the autonomous moves of a system up to quiescence, with
   duplicate removal through an injective encoding of states as lists of integers.
   Used by the judges only (not by the theorems). *)
From SC Require Import Base.Prelude.

Definition zl_eqb := list_eqb Z.eqb.

Section Explore.
  Context {A : Type}.
  Variable moves : A -> list A.
  Variable enc : A -> list Z.

  Fixpoint add_new (seen : list (list Z)) (l : list A) : list (list Z) * list A :=
    match l with
    | [] => (seen, [])
    | j :: r =>
        let e := enc j in
        if existsb (zl_eqb e) seen then add_new seen r
        else let '(seen', r') := add_new (e :: seen) r in (seen', j :: r')
    end.

  (* all quiescent states reachable from the frontier *)
  Fixpoint closure (fuel : nat) (seen : list (list Z)) (frontier quiet : list A) : list A :=
    match fuel with
    | O => quiet
    | S fuel' =>
        match frontier with
        | [] => quiet
        | _ =>
            let q := filter (fun j => match moves j with [] => true | _ => false end) frontier in
            let nxt := flat_map moves frontier in
            let '(seen', fresh) := add_new seen nxt in
            closure fuel' seen' fresh (q ++ quiet)
        end
    end.

  Definition settle (j : A) : list A :=
    let '(seen, fr) := add_new [] [j] in closure 300 seen fr [].

  Definition uniq (l : list A) : list A := snd (add_new [] l).
End Explore.
