(* Model of internal/minibus/bus.go as a labelled transition system.

   One configuration = the listeners created so far (each with its watcher goroutine, its
   context flag and the state of its channel), the sender threads (each either idle or somewhere
   inside one Bus.Send call) and Bus.listeners.  One label = one atomic step of one goroutine:

     Bus.Send        LCall s        RLock; copy b.listeners; RUnlock            (bus.go:15-20)
     listener.send   LRLock s       l.m.RLock, evaluate the select operands      (bus.go:85-88)
                     LSelSendCtx s  case <-ctx.Done(): return false, true         (bus.go:89-91)
                     LSelListenCtx s case <-l.ctx.Done(): return true, false      (bus.go:93-96)
                     LDeliver s     case l.ch <- event with a waiting receiver    (bus.go:98-100)
     Bus.Send        LFinish s      if needGc { collect }; return true            (bus.go:36-40,43-55)
     Bus.Listen      LListen        make(chan), start the watcher goroutine       (bus.go:58-68)
                     LRegister k    Lock; append; Unlock; return ch               (bus.go:71-75)
     watcher         LWake k        <-ctx.Done() returns                          (bus.go:66)
                     LLockReq k     l.m.Lock() called: the writer is now pending  (bus.go:105)
                     LStop k        lock acquired; close(l.ch); l.ch = nil; Unlock (bus.go:105-110)
     environment     LCancel k / LCancelSend s   the listen / send context is cancelled
                     LRecvStart k   the consumer of listener k blocks in <-ch
                     LRecvClosed k  that receive returns (zero, false) because ch is closed

   The two RWMutexes are not stored: a lock is held exactly by the goroutines whose program
   counter lies inside the critical section (senders in SSel hold the read lock of their
   listener; the watcher in WPending has called Lock, which - Go's RWMutex being writer
   preferring - blocks new readers, and it acquires the lock when no reader is left).  The bus
   mutex only protects atomic blocks that cannot block inside and is therefore folded into the
   steps LCall, LFinish (collect) and LRegister.

   Events are identified by (sender, call number).  l_log is the sequence of events delivered
   on the listener's channel, NEWEST FIRST.  s_rets are the results of the finished Send calls,
   newest first.  The ghost component [snap] of a sender's pc remembers the snapshot. *)
From SC Require Import Base.Prelude.

Inductive wpc := WWait | WStop | WPending | WDone.

Record lstn := mkL {
  l_cancel : bool;      (* listen context done *)
  l_closed : bool;      (* ch was closed (and set to nil) by stop *)
  l_w : wpc;            (* watcher goroutine *)
  l_reg : bool;         (* Listen has appended it to Bus.listeners and returned *)
  l_rcv : bool;         (* a consumer is blocked receiving from ch *)
  l_sawclose : bool;    (* the consumer has observed the close *)
  l_log : list (nat * nat)
}.

Inductive spc :=
| SIdle
| SLoop (rest : list nat) (gc : bool) (snap : list nat)
    (* inside Send, before l.send of the head of rest; after the loop when rest = [] *)
| SSel (l : nat) (chopen : bool) (rest : list nat) (gc : bool) (snap : list nat).
    (* inside l.send holding l.m.RLock, blocked in the select; chopen = l.ch was not nil when
       the select evaluated its operands *)

Record sender := mkS {
  s_pc : spc;
  s_cancel : bool;      (* the context passed to Send is done *)
  s_calls : nat;        (* calls started so far; the current event is (s, s_calls) *)
  s_rets : list bool
}.

Record config := mkC { ls : list lstn; ss : list sender; blist : list nat }.

Inductive label :=
| LCall (s : nat) | LRLock (s : nat) | LSelSendCtx (s : nat) | LSelListenCtx (s : nat)
| LDeliver (s : nat) | LFinish (s : nat)
| LListen | LRegister (k : nat) | LCancel (k : nat) | LCancelSend (s : nat)
| LWake (k : nat) | LLockReq (k : nat) | LStop (k : nat)
| LRecvStart (k : nat) | LRecvClosed (k : nat).

Fixpoint upd {A} (l : list A) (i : nat) (x : A) : list A :=
  match l, i with
  | [], _ => []
  | _ :: r, O => x :: r
  | y :: r, S i' => y :: upd r i' x
  end.

Definition new_listener : lstn := mkL false false WWait false false false [].
Definition new_sender : sender := mkS SIdle false 0 [].
Definition init (nsenders : nat) : config := mkC [] (repeat new_sender nsenders) [].

Definition sel_on (k : nat) (p : spc) : bool :=
  match p with SSel l _ _ _ _ => Nat.eqb l k | _ => false end.

(* nobody holds the read lock of listener k *)
Definition no_readers (k : nat) (c : config) : bool :=
  forallb (fun s => negb (sel_on k (s_pc s))) (ss c).

Definition alive (c : config) (k : nat) : bool :=
  match nth_error (ls c) k with Some L => negb (l_cancel L) | None => false end.

Definition set_l (c : config) (k : nat) (L : lstn) : config := mkC (upd (ls c) k L) (ss c) (blist c).
Definition set_s (c : config) (s : nat) (X : sender) : config := mkC (ls c) (upd (ss c) s X) (blist c).

Definition with_pc (X : sender) (p : spc) : sender := mkS p (s_cancel X) (s_calls X) (s_rets X).

Definition step (c : config) (a : label) : option config :=
  match a with
  | LCall s =>
      match nth_error (ss c) s with
      | Some X =>
          match s_pc X with
          | SIdle => Some (set_s c s (mkS (SLoop (blist c) false (blist c)) (s_cancel X) (Datatypes.S (s_calls X)) (s_rets X)))
          | _ => None
          end
      | None => None
      end
  | LRLock s =>
      match nth_error (ss c) s with
      | Some X =>
          match s_pc X with
          | SLoop (l :: rest) gc snap =>
              match nth_error (ls c) l with
              | Some L =>
                  match l_w L with
                  | WPending => None     (* a writer is waiting for or holding the lock *)
                  | _ => Some (set_s c s (with_pc X (SSel l (negb (l_closed L)) rest gc snap)))
                  end
              | None => None
              end
          | _ => None
          end
      | None => None
      end
  | LSelSendCtx s =>
      match nth_error (ss c) s with
      | Some X =>
          match s_pc X with
          | SSel l _ rest gc snap =>
              if s_cancel X then Some (set_s c s (mkS SIdle (s_cancel X) (s_calls X) (false :: s_rets X)))
              else None
          | _ => None
          end
      | None => None
      end
  | LSelListenCtx s =>
      match nth_error (ss c) s with
      | Some X =>
          match s_pc X with
          | SSel l _ rest gc snap =>
              match nth_error (ls c) l with
              | Some L => if l_cancel L then Some (set_s c s (with_pc X (SLoop rest true snap))) else None
              | None => None
              end
          | _ => None
          end
      | None => None
      end
  | LDeliver s =>
      match nth_error (ss c) s with
      | Some X =>
          match s_pc X with
          | SSel l true rest gc snap =>
              match nth_error (ls c) l with
              | Some L =>
                  if l_rcv L
                  then Some (mkC (upd (ls c) l (mkL (l_cancel L) (l_closed L) (l_w L) (l_reg L) false (l_sawclose L)
                                                  ((s, s_calls X) :: l_log L)))
                                 (upd (ss c) s (with_pc X (SLoop rest gc snap)))
                                 (blist c))
                  else None
              | None => None
              end
          | _ => None
          end
      | None => None
      end
  | LFinish s =>
      match nth_error (ss c) s with
      | Some X =>
          match s_pc X with
          | SLoop [] gc snap =>
              Some (mkC (ls c)
                        (upd (ss c) s (mkS SIdle (s_cancel X) (s_calls X) (true :: s_rets X)))
                        (if gc then filter (alive c) (blist c) else blist c))
          | _ => None
          end
      | None => None
      end
  | LListen => Some (mkC (ls c ++ [new_listener]) (ss c) (blist c))
  | LRegister k =>
      match nth_error (ls c) k with
      | Some L =>
          if l_reg L then None
          else Some (mkC (upd (ls c) k (mkL (l_cancel L) (l_closed L) (l_w L) true (l_rcv L) (l_sawclose L) (l_log L)))
                         (ss c) (blist c ++ [k]))
      | None => None
      end
  | LCancel k =>
      match nth_error (ls c) k with
      | Some L => Some (set_l c k (mkL true (l_closed L) (l_w L) (l_reg L) (l_rcv L) (l_sawclose L) (l_log L)))
      | None => None
      end
  | LCancelSend s =>
      match nth_error (ss c) s with
      | Some X => Some (set_s c s (mkS (s_pc X) true (s_calls X) (s_rets X)))
      | None => None
      end
  | LWake k =>
      match nth_error (ls c) k with
      | Some L =>
          match l_w L with
          | WWait => if l_cancel L
                     then Some (set_l c k (mkL (l_cancel L) (l_closed L) WStop (l_reg L) (l_rcv L) (l_sawclose L) (l_log L)))
                     else None
          | _ => None
          end
      | None => None
      end
  | LLockReq k =>
      match nth_error (ls c) k with
      | Some L =>
          match l_w L with
          | WStop => Some (set_l c k (mkL (l_cancel L) (l_closed L) WPending (l_reg L) (l_rcv L) (l_sawclose L) (l_log L)))
          | _ => None
          end
      | None => None
      end
  | LStop k =>
      match nth_error (ls c) k with
      | Some L =>
          match l_w L with
          | WPending => if no_readers k c
                        then Some (set_l c k (mkL (l_cancel L) true WDone (l_reg L) (l_rcv L) (l_sawclose L) (l_log L)))
                        else None
          | _ => None
          end
      | None => None
      end
  | LRecvStart k =>
      match nth_error (ls c) k with
      | Some L =>
          if l_rcv L || l_sawclose L then None
          else Some (set_l c k (mkL (l_cancel L) (l_closed L) (l_w L) (l_reg L) true (l_sawclose L) (l_log L)))
      | None => None
      end
  | LRecvClosed k =>
      match nth_error (ls c) k with
      | Some L =>
          if l_rcv L && l_closed L
          then Some (set_l c k (mkL (l_cancel L) (l_closed L) (l_w L) (l_reg L) false true (l_log L)))
          else None
      | None => None
      end
  end.

Fixpoint run (c : config) (tr : list label) : option config :=
  match tr with
  | [] => Some c
  | a :: r => match step c a with Some c' => run c' r | None => None end
  end.

(* A goroutine blocked in `case l.ch <- event` on a channel that gets closed panics
   ("send on closed channel"); so would a rendezvous that targets a closed channel. *)
Definition sender_panics (c : config) (X : sender) : bool :=
  match s_pc X with
  | SSel l true _ _ _ => match nth_error (ls c) l with Some L => l_closed L | None => false end
  | _ => false
  end.
Definition panics (c : config) : bool := existsb (sender_panics c) (ss c).

(* ---- the cancel measure of listener k (see BusProofs) ---- *)
Definition readers (k : nat) (c : config) : nat :=
  List.length (filter (fun s => sel_on k (s_pc s)) (ss c)).

Definition mu (k : nat) (c : config) : nat :=
  match nth_error (ls c) k with
  | Some L =>
      match l_w L with
      | WWait => (2 * List.length (ss c) + 3)%nat
      | WStop => (2 * List.length (ss c) + 2)%nat
      | WPending => (1 + readers k c)%nat
      | WDone => 0%nat
      end
  | None => 0%nat
  end.

(* the steps that work towards closing listener k: its watcher's steps, and a reader of k
   leaving the select while the watcher waits for the lock *)
Definition helper (k : nat) (c : config) (a : label) : bool :=
  match a with
  | LWake k' | LLockReq k' | LStop k' => Nat.eqb k' k
  | LSelSendCtx s | LSelListenCtx s | LDeliver s =>
      match nth_error (ss c) s, nth_error (ls c) k with
      | Some X, Some L => sel_on k (s_pc X) && match l_w L with WPending => true | _ => false end
      | _, _ => false
      end
  | _ => false
  end.

Fixpoint helper_steps (k : nat) (c : config) (tr : list label) : nat :=
  match tr with
  | [] => 0
  | a :: r =>
      match step c a with
      | Some c' => (if helper k c a then 1 else 0) + helper_steps k c' r
      | None => 0%nat
      end
  end%nat.
