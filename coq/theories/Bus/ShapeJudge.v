(* Structural facts generated from the source of the tree under test on every run
   (harness/c10/shape.go, go/ast) and compared with what the models assume.

   Forwarding goroutines (Pipe.v).  For each one the harness reports: does the goroutine
   `defer close(out)`; how many sends on its output are in a select with a `<-ctx.Done()` case,
   how many in a select that also receives from its input, how many bare.  The model says:
     has_ctx st            <-> every send has the ctx case           (PExit while offering needs the cancel)
     always_accepting st   <-> every send is in a select with <-in   (the stage receives while it offers)
     neither (StAfter)     <-> the sends are bare                    (needs after_ok: an always-receiving successor)
   and every stage closes its output when it returns (StDone = "its output is closed").

   bus.go (Bus.v): the lock discipline that the transition system folds into its atomic steps
   (SSel = read lock held over the whole select; LStop = close and nil in one critical section;
   LCall = snapshot copied under the read lock and the loop runs over the copy; LFinish = collect
   entirely under the write lock; LRegister under the write lock; the watcher = wait, then stop),
   PullID's deferred cancel (pstep vs pstep_v0) and Delete publishing before it unlocks (Res.v:
   RDelSend holds c.mu), the chain shape after_ok (changesAfter is only built directly in front of
   mergeCollectionExcess / DropExcess) and `if !ok { return }` after every receive of the two
   always-receiving stages (PExit enabled whenever their input is closed). *)
From SC Require Import Base.Prelude Bus.Bus Bus.Pipe.

Record gshape := mkGS { g_name : string; g_defer_close : bool; g_ctx : Z; g_in : Z; g_bare : Z }.

Definition stage_of (name : string) : option stage :=
  if String.eqb name "DropExcess" then Some (StDrop None)
  else if String.eqb name "mergeCollectionExcess" then Some (StMerge [])
  else if String.eqb name "changesAfter" then Some (StAfter None)
  else if String.eqb name "Collection.Pull" then Some (StFwd [] None)
  else if String.eqb name "Value.Pull" then Some (StFwd [] None)
  else if String.eqb name "Collection.PullID" then Some (StPullID 0 None)
  else None.

Definition row_ok (r : gshape) : bool :=
  match stage_of (g_name r) with
  | None => false
  | Some st =>
      g_defer_close r
      && Bool.eqb (has_ctx st) ((0 <? g_ctx r) && (g_in r =? 0) && (g_bare r =? 0))
      && Bool.eqb (always_accepting st) ((0 <? g_in r) && (g_ctx r =? 0) && (g_bare r =? 0))
      && Bool.eqb (negb (has_ctx st) && negb (always_accepting st)) ((0 <? g_bare r) && (g_ctx r =? 0) && (g_in r =? 0))
  end.

Definition expected_goroutines : list string :=
  ["DropExcess"; "mergeCollectionExcess"; "changesAfter"; "Collection.Pull"; "Value.Pull"; "Collection.PullID"]%string.

Definition expected_facts : list string :=
  ["send.rlock-held-over-select"; "send.select-three-cases-on-l.ch"; "stop.lock-held-over-close-and-nil";
   "Send.snapshot-under-rlock-iterates-copy"; "collect.whole-body-under-write-lock"; "Listen.registers-under-write-lock";
   "Listen.watcher-waits-ctx-then-stop"; "PullID.defer-cancel"; "Delete.send-before-unlock";
   "changesAfter.only-feeds-always-receiving-stage"; "DropExcess.returns-on-every-closed-receive";
   "mergeCollectionExcess.returns-on-every-closed-receive";
   "Update.send-after-GetAndUpdate-returned"; "Value.set.send-after-GetAndUpdate-returned";
   "Delete.one-Lock-released-on-retry-and-after-send";
   (* Res.v RReturn / ResProofs.turnstile_pairing: every way out of a call that entered the turnstile leaves it *)
   "Value.set.turnstile-left-on-every-path"; "Update.turnstile-left-on-every-path"; "Delete.turnstile-left-on-every-path"]%string.

Definition shape_agrees (rows : list gshape) (facts : list (string * bool)) : bool :=
  list_eqb String.eqb (map g_name rows) expected_goroutines
  && forallb row_ok rows
  && list_eqb String.eqb (map fst facts) expected_facts
  && forallb snd facts.
