(* Model of the goroutines between a bus listener channel and the consumer of a subscription:

     minibus.DropExcess                 (internal/minibus/util.go:9-35)       StDrop
     resource.changesAfter              (pkg/resource/collection.go, since 9d7adf1) StAfter: unwraps the
                                        published changes in front of mergeCollectionExcess; a plain
                                        `for e := range in { out <- e }` without any ctx case
     resource.mergeCollectionExcess     (pkg/resource/backpressure.go:12-73)   StMerge
     the forwarder of Value.Pull        (pkg/resource/value.go:101-127)        StFwd (0 or 1 seed)
     the forwarder of Collection.Pull   (pkg/resource/collection.go:230-272)   StFwd (seeds)
     the forwarder of Collection.PullID (pkg/resource/collection.go:285-308)   StPullID

   A subscription is a chain: source (the listener channel) -> stage 0 -> ... -> stage n-1 ->
   consumer.  Every channel is unbuffered, so a message moves by a rendezvous between a stage
   that offers it and the next stage (or the consumer) being ready to receive.  A stage closes
   its output when it ends (all of them `defer close(out)`), so "the input of stage i+1 is
   closed" is "stage i is StDone"; the input of stage 0 is the listener channel, closed by the
   watcher of the bus model (Bus.LStop), which only happens after the context was cancelled.

   Steps:  PCancel            the subscription context is cancelled
           PSrcClose          the listener channel is closed (enabled only after PCancel)
           PSrc m             the bus delivers m to stage 0 (Bus.LDeliver with stage 0 receiving)
           PXfer i            stage i hands the message it offers to stage i+1 / the consumer
           PExit i            stage i returns: its input is closed while it receives, or (stages
                              with a ctx case in their select) the context is done while it sends;
                              PullID also returns by itself on a REMOVE of its id (inside PXfer)
                              and its deferred cancel() then ends the context of the chain.
   Filters (equivalence, include) only skip a send and are not modelled.  A message is
   (id, kind, value) with kind 1 ADD, 2 UPDATE, 3 REMOVE, 4 REPLACE as in types.ChangeType. *)
From SC Require Import Base.Prelude Bus.Bus.

(* m_old: the change's OldValue (0 = nil, as m_val = 0 for the new value of a REMOVE); only the
   filters of the Collection.Pull forwarder (Bus/PipeHeld.v) read it *)
Record msg := mkMo { m_id : Z; m_kind : Z; m_val : Z; m_old : Z }.
Definition mkM (id k v : Z) : msg := mkMo id k v 0.

Inductive stage :=
| StAfter (cur : option msg)                   (* changesAfter: the change it is handing on *)
| StDrop (has : option msg)
| StMerge (q : list msg)                       (* one pending change per id, in queue order *)
| StFwd (seeds : list msg) (cur : option msg)  (* seeds still to emit; the change being sent *)
| StPullID (id : Z) (cur : option msg)
| StDone.

Record pipe := mkP {
  p_cancel : bool;
  p_src_closed : bool;
  p_stages : list stage;
  p_out : list msg       (* what the consumer received, newest first *)
}.

Inductive plabel := PCancel | PSrcClose | PSrc (m : msg) | PXfer (i : nat) | PExit (i : nat).

Definition accepting (st : stage) : bool :=
  match st with
  | StDrop _ | StMerge _ => true
  | StAfter None => true
  | StFwd [] None => true
  | StPullID _ None => true
  | _ => false
  end.

Definition offer (st : stage) : option msg :=
  match st with
  | StDrop h => h
  | StAfter c => c
  | StMerge (m :: _) => Some m
  | StFwd (m :: _) _ => Some m
  | StFwd [] c => c
  | StPullID _ c => c
  | _ => None
  end.

Definition has_ctx (st : stage) : bool :=
  match st with StFwd _ _ | StPullID _ _ => true | _ => false end.

Definition is_done (st : stage) : bool := match st with StDone => true | _ => false end.

(* mergeChanges on kinds (backpressure.go:75-113); None = the pending change is deleted *)
Definition merge_kind (a b : Z) : option Z :=
  if a =? 1 then (if b =? 3 then None else if (b =? 2) || (b =? 4) then Some 1 else Some b)
  else if a =? 2 then (if b =? 1 then Some 4 else Some b)
  else if a =? 4 then (if (b =? 1) || (b =? 2) then Some 4 else Some b)
  else if a =? 3 then (if b =? 3 then Some 3 else Some 4)
  else Some b.

(* mergeChanges on the old value: ADD then UPDATE/REPLACE is an ADD (old = nil); after UPDATE,
   REPLACE, REMOVE the old value of the pending change is kept *)
Definition merge_old (ka kb olda oldb : Z) : Z :=
  if ka =? 1 then (if (kb =? 2) || (kb =? 4) then 0 else oldb)
  else if (ka =? 2) || (ka =? 4) || (ka =? 3) then olda
  else oldb.

Fixpoint find_id (id : Z) (q : list msg) : option msg :=
  match q with [] => None | m :: r => if m_id m =? id then Some m else find_id id r end.
Fixpoint remove_id (id : Z) (q : list msg) : list msg :=
  match q with [] => [] | m :: r => if m_id m =? id then r else m :: remove_id id r end.

Definition merge_in (q : list msg) (m : msg) : list msg :=
  match find_id (m_id m) q with
  | None => q ++ [m]
  | Some old =>
      match merge_kind (m_kind old) (m_kind m) with
      | None => remove_id (m_id m) q
      | Some k => remove_id (m_id m) q ++ [mkMo (m_id m) k (m_val m) (merge_old (m_kind old) (m_kind m) (m_old old) (m_old m))]
      end
  end.

Definition recv (st : stage) (m : msg) : stage :=
  match st with
  | StDrop _ => StDrop (Some m)
  | StAfter None => StAfter (Some m)
  | StMerge q => StMerge (merge_in q m)
  | StFwd [] None => StFwd [] (Some m)
  | StPullID id None =>
      if m_id m =? id then (if m_kind m =? 3 then StDone else StPullID id (Some m))
      else StPullID id None
  | _ => st
  end.

Definition sent (st : stage) : stage :=
  match st with
  | StDrop _ => StDrop None
  | StAfter _ => StAfter None
  | StMerge q => StMerge (tl q)
  | StFwd (_ :: r) c => StFwd r c
  | StFwd [] _ => StFwd [] None
  | StPullID id _ => StPullID id None
  | StDone => StDone
  end.

Definition stage_at (p : pipe) (i : nat) : option stage := nth_error (p_stages p) i.

Definition input_closed (p : pipe) (i : nat) : bool :=
  match i with
  | O => p_src_closed p
  | S j => match stage_at p j with Some st => is_done st | None => false end
  end.

Definition set_stage (p : pipe) (i : nat) (st : stage) : pipe :=
  mkP (p_cancel p) (p_src_closed p) (upd (p_stages p) i st) (p_out p).

(* PullID ends on the REMOVE of its id.  Since the fix 728882a its deferred cancel() then ends
   the context of the inner Pull (the whole chain upstream of it); before the fix ([fixed] =
   false, kept as pstep_v0) it just returned and left the inner Pull running. *)
Definition ends_chain (nx : stage) (m : msg) : bool :=
  match nx with
  | StPullID id None => (m_id m =? id) && (m_kind m =? 3)
  | _ => false
  end.

Definition pstep_gen (fixed : bool) (p : pipe) (a : plabel) : option pipe :=
  match a with
  | PCancel => if p_cancel p then None else Some (mkP true (p_src_closed p) (p_stages p) (p_out p))
  | PSrcClose =>
      if p_cancel p && negb (p_src_closed p) then Some (mkP true true (p_stages p) (p_out p)) else None
  | PSrc m =>
      if p_src_closed p then None else
      match stage_at p 0 with
      | Some st => if accepting st then Some (set_stage p 0 (recv st m)) else None
      | None => None
      end
  | PXfer i =>
      match stage_at p i with
      | Some st =>
          match offer st with
          | Some m =>
              if Nat.eqb (S i) (List.length (p_stages p))
              then Some (mkP (p_cancel p) (p_src_closed p) (upd (p_stages p) i (sent st)) (m :: p_out p))
              else match stage_at p (S i) with
                   | Some nx => if accepting nx
                                then Some (mkP (p_cancel p || (fixed && ends_chain nx m)) (p_src_closed p)
                                               (upd (upd (p_stages p) i (sent st)) (S i) (recv nx m)) (p_out p))
                                else None
                   | None => None
                   end
          | None => None
          end
      | None => None
      end
  | PExit i =>
      match stage_at p i with
      | Some st =>
          if negb (is_done st)
             && ((accepting st && input_closed p i)
                 || (has_ctx st && negb (accepting st) && p_cancel p))
          then Some (set_stage p i StDone) else None
      | None => None
      end
  end.

Definition pstep := pstep_gen true.
Definition pstep_v0 := pstep_gen false.

Fixpoint prun_gen (fixed : bool) (p : pipe) (tr : list plabel) : option pipe :=
  match tr with
  | [] => Some p
  | a :: r => match pstep_gen fixed p a with Some p' => prun_gen fixed p' r | None => None end
  end.
Definition prun := prun_gen true.
Definition prun_v0 := prun_gen false.

Definition pend (st : stage) : nat :=
  match st with
  | StDrop (Some _) => 1
  | StAfter (Some _) => 1
  | StMerge q => List.length q
  | StFwd s c => List.length s + match c with Some _ => 1 | None => 0 end
  | StPullID _ (Some _) => 1
  | _ => 0
  end%nat.

(* weight of the stages from position i on, in a chain whose remaining length is the length
   of the list: a pending message at a stage with w stages (itself included) after it still
   has at most w hops to make *)
Fixpoint weight (l : list stage) : nat :=
  match l with
  | [] => 0
  | st :: r => (if is_done st then 0 else 1 + pend st * (1 + List.length r)) + weight r
  end%nat.

Definition pmeasure (p : pipe) : nat := weight (p_stages p).

Definition all_stages_done (p : pipe) : bool := forallb is_done (p_stages p).

(* the chain started for a subscription *)
Definition init_pipe (stages : list stage) : pipe := mkP false false stages [].
Definition fresh_stage (st : stage) : bool :=
  match st with
  | StDrop None | StAfter None | StMerge [] | StFwd _ None | StPullID _ None => true
  | _ => false
  end.

(* changesAfter has neither a ctx case nor a select on its input while it hands a change on: it
   relies on the stage after it (mergeCollectionExcess, which always receives and ends only
   after its input is closed) to take the change.  [after_ok] states that shape. *)
Definition always_accepting (st : stage) : bool :=
  match st with StDrop _ | StMerge _ => true | _ => false end.
Fixpoint after_ok (l : list stage) : bool :=
  match l with
  | [] => true
  | StAfter _ :: r => match r with nx :: _ => always_accepting nx | [] => false end && after_ok r
  | _ :: r => after_ok r
  end.
