(* Well-formedness of the changes in the filtered chain is an invariant of every schedule, so the
   hypotheses of PipeHeldProofs (held holds values only; the changes that reach a forwarder are
   well-formed) hold along every schedule from a fresh chain.  Proofs. *)
From SC Require Import Base.Prelude Resource.Impl Resource.Pull Bus.Bus Bus.Pipe Bus.BusProofs Bus.PipeProofs Bus.PipeHeld Bus.PipeHeldProofs.

Local Open Scope Z_scope.

Definition owf (o : option msg) : bool := match o with Some m => wf_msg m | None => true end.

Definition stage_wf (st : stage) : bool :=
  match st with
  | StAfter c | StDrop c | StPullID _ c => owf c
  | StMerge q => forallb wf_msg q
  | StFwd s c => forallb wf_msg s && owf c
  | StDone => true
  end.

Definition chain_wf (F : fpipe) : bool := forallb stage_wf (p_stages (fp F)) && held_some (fh F).

(* ---------- mergeChanges keeps changes well-formed ---------- *)
Lemma merge_wf : forall a b k id,
  wf_msg a = true -> wf_msg b = true -> merge_kind (m_kind a) (m_kind b) = Some k ->
  wf_msg (mkMo id k (m_val b) (merge_old (m_kind a) (m_kind b) (m_old a) (m_old b))) = true.
Proof.
  intros [ia ka va oa] [ib kb vb ob] k id. unfold wf_msg, merge_kind, merge_old. cbn [m_kind m_val m_old].
  repeat match goal with
         | |- context [Z.eqb ?x ?y] => is_var x; destruct (Z.eqb_spec x y); subst; cbn
         end;
    intros Ha Hb Hk; try discriminate; inversion Hk; subst; cbn in *;
    try reflexivity; try discriminate; try congruence; try lia.
Qed.

Lemma find_id_in : forall id q m, find_id id q = Some m -> In m q.
Proof.
  induction q as [|x r IH]; simpl; intros m H; [discriminate|].
  destruct (m_id x =? id); [inversion H; auto|right; auto].
Qed.

Lemma forallb_remove_id : forall id q, forallb wf_msg q = true -> forallb wf_msg (remove_id id q) = true.
Proof.
  induction q as [|x r IH]; simpl; intros H; [reflexivity|].
  apply andb_true_iff in H. destruct H as (Hx & Hr).
  destruct (m_id x =? id); [exact Hr|]. simpl. rewrite Hx. simpl. apply IH. exact Hr.
Qed.

Lemma forallb_snoc : forall q m, forallb wf_msg q = true -> wf_msg m = true -> forallb wf_msg (q ++ [m]) = true.
Proof. intros q m Hq Hm. rewrite forallb_app, Hq. simpl. rewrite Hm. reflexivity. Qed.

Lemma merge_in_wf : forall q m, forallb wf_msg q = true -> wf_msg m = true -> forallb wf_msg (merge_in q m) = true.
Proof.
  intros q m Hq Hm. unfold merge_in. destruct (find_id (m_id m) q) as [old|] eqn:Ef.
  - assert (wf_msg old = true) as Ho.
    { apply find_id_in in Ef. rewrite forallb_forall in Hq. apply Hq. exact Ef. }
    destruct (merge_kind (m_kind old) (m_kind m)) as [k|] eqn:Ek.
    + apply forallb_snoc; [apply forallb_remove_id; exact Hq|]. apply merge_wf; auto.
    + apply forallb_remove_id. exact Hq.
  - apply forallb_snoc; auto.
Qed.

Lemma recv_wf : forall st m, stage_wf st = true -> wf_msg m = true -> stage_wf (recv st m) = true.
Proof.
  intros st m Hs Hm. destruct st as [c|h|q|s c|id c|]; simpl in *; auto.
  - destruct c; simpl; auto.
  - apply merge_in_wf; auto.
  - destruct s; [|exact Hs]. destruct c; simpl in *; auto.
  - destruct c; simpl in *; auto. destruct (m_id m =? id); [|reflexivity]. destruct (m_kind m =? 3); simpl; auto.
Qed.

Lemma sent_wf : forall st, stage_wf st = true -> stage_wf (sent st) = true.
Proof.
  intros st Hs. destruct st as [c|h|q|s c|id c|]; simpl in *; auto.
  - destruct q; simpl in *; auto. apply andb_true_iff in Hs. tauto.
  - destruct s; simpl in *; auto. apply andb_true_iff in Hs. destruct Hs as (H1 & H2).
    apply andb_true_iff in H1. destruct H1 as (_ & H1). rewrite H1, H2. reflexivity.
Qed.

Lemma offer_wf : forall st m, stage_wf st = true -> offer st = Some m -> wf_msg m = true.
Proof.
  intros st m Hs Ho. destruct st as [c|h|q|s c|id c|]; simpl in *; try discriminate; subst; auto.
  - destruct q; [discriminate|]. inversion Ho; subst. simpl in Hs. apply andb_true_iff in Hs. tauto.
  - apply andb_true_iff in Hs. destruct Hs as (H1 & H2). destruct s.
    + subst. exact H2.
    + inversion Ho; subst. simpl in H1. apply andb_true_iff in H1. tauto.
Qed.

Lemma forallb_upd : forall (l : list stage) i st, forallb stage_wf l = true -> stage_wf st = true ->
  forallb stage_wf (upd l i st) = true.
Proof.
  induction l as [|x r IH]; intros i st Hl Hs; simpl; [reflexivity|].
  simpl in Hl. apply andb_true_iff in Hl. destruct Hl as (Hx & Hr).
  destruct i; simpl; [rewrite Hs, Hr; reflexivity|]. rewrite Hx. simpl. apply IH; auto.
Qed.

Lemma forallb_nth : forall (l : list stage) i st, forallb stage_wf l = true -> nth_error l i = Some st -> stage_wf st = true.
Proof.
  intros l i st Hl Hn. rewrite forallb_forall in Hl. apply Hl. eapply nth_error_In; eauto.
Qed.

(* what the forwarder sends on is well-formed (include only synthesises an ADD of a present new value
   and a REMOVE of a present old value) *)
Lemma fwd_in_out_wf : forall cfg h m m', wf_msg m = true -> fst (fwd_in cfg h m) = Some m' -> wf_msg m' = true.
Proof.
  intros cfg h m m' Hwf H. unfold fwd_in in H.
  destruct (include_gen false false (inc_of (fc_inc cfg)) (to_cc m)) as [c|] eqn:Ei; [|discriminate].
  assert (wf_msg (of_cc m c) = true) as Hc.
  { clear H. destruct m as [id k v o]. unfold include_gen, to_cc in Ei. cbn [m_id m_kind m_val m_old] in Ei.
    unfold wf_msg in Hwf. cbn [m_kind m_val m_old] in Hwf. unfold of_cc, wf_msg. cbn [m_id m_kind m_val m_old].
    destruct (inc_of (fc_inc cfg)) as [f|].
    - cbn [orb cc_old cc_new cc_id] in Ei. unfold optz in Ei. unfold kind_of in Ei.
      revert Hwf Ei.
      repeat match goal with
             | |- context [Z.eqb ?x ?y] => is_var x; destruct (Z.eqb_spec x y); subst; cbn
             end; intros Hwf Ei; try discriminate;
      repeat match type of Ei with context [f ?a ?b] => destruct (f a b); cbn in Ei end;
      inversion Ei; subst; cbn; try reflexivity; try discriminate;
      repeat match goal with
             | |- context [Z.eqb ?x ?y] => is_var x; destruct (Z.eqb_spec x y); subst; cbn
             end; try reflexivity; try congruence; try lia.
    - inversion Ei; subst. cbn [cc_kind cc_new cc_old]. rewrite !zopt_optz. unfold kind_of.
      revert Hwf.
      repeat match goal with
             | |- context [Z.eqb ?x ?y] => is_var x; destruct (Z.eqb_spec x y); subst; cbn
             end; intros Hwf; try discriminate; try reflexivity; try congruence; try lia. }
  destruct (cmp_of (fc_eq cfg)) as [cmp|].
  - destruct (held_step cmp h c) as [send h']. destruct send; cbn [fst] in H; inversion H; subst. exact Hc.
  - cbn [fst] in H. inversion H; subst. exact Hc.
Qed.

(* ---------- every step keeps the chain well-formed ---------- *)
Definition src_wf (a : plabel) : Prop := match a with PSrc m => wf_msg m = true | _ => True end.

Lemma pstep_wf : forall p a p', forallb stage_wf (p_stages p) = true -> src_wf a ->
  pstep p a = Some p' -> forallb stage_wf (p_stages p') = true.
Proof.
  intros p a p' Hw Ha H. unfold pstep in H. destruct a; cbv beta iota delta [pstep_gen] in H; unfold stage_at in H.
  - destruct (p_cancel p); inversion H; subst; exact Hw.
  - destruct (p_cancel p && negb (p_src_closed p)); inversion H; subst; exact Hw.
  - destruct (p_src_closed p); [discriminate|].
    destruct (nth_error (p_stages p) 0) as [st|] eqn:E0; [|discriminate].
    destruct (accepting st); inversion H; subst. cbn [set_stage p_stages].
    apply forallb_upd; auto. apply recv_wf; auto. eapply forallb_nth; eauto.
  - destruct (nth_error (p_stages p) i) as [st|] eqn:Ei; [|discriminate].
    destruct (offer st) as [m|] eqn:Eo; [|discriminate].
    pose proof (forallb_nth _ _ _ Hw Ei) as Hst.
    destruct (Nat.eqb (S i) (List.length (p_stages p))).
    + inversion H; subst. cbn [p_stages]. apply forallb_upd; auto. apply sent_wf; auto.
    + destruct (nth_error (p_stages p) (S i)) as [nx|] eqn:En; [|discriminate].
      destruct (accepting nx); inversion H; subst. cbn [p_stages].
      apply forallb_upd; [apply forallb_upd; auto; apply sent_wf; auto|].
      apply recv_wf; [eapply forallb_nth; eauto|eapply offer_wf; eauto].
  - destruct (nth_error (p_stages p) i) as [st|] eqn:Ei; [|discriminate].
    match type of H with (if ?c then _ else _) = _ => destruct c end; inversion H; subst.
    cbn [set_stage p_stages]. apply forallb_upd; auto.
Qed.

Theorem fstep_chain_wf : forall cfg F a F',
  chain_wf F = true -> src_wf a -> fstep cfg F a = Some F' -> chain_wf F' = true.
Proof.
  intros cfg F a F' Hc Ha H. unfold chain_wf in *. apply andb_true_iff in Hc. destruct Hc as (Hw & Hh).
  assert (forall o, lift (fh F) o = Some F' -> (forall p', o = Some p' -> forallb stage_wf (p_stages p') = true) ->
            forallb stage_wf (p_stages (fp F')) && held_some (fh F') = true) as Hl.
  { intros o Ho Hp. destruct o as [p'|]; simpl in Ho; inversion Ho; subst. cbn [fp fh]. rewrite (Hp p' eq_refl), Hh. reflexivity. }
  assert (forall a0, src_wf a0 -> forall p', pstep (fp F) a0 = Some p' -> forallb stage_wf (p_stages p') = true) as Hps.
  { intros a0 Ha0 p' Hp. eapply pstep_wf; eauto. }
  unfold fstep in H. destruct a; try (eapply Hl; [exact H|apply Hps; exact Ha]).
  - (* PSrc *)
    destruct (stage_at (fp F) 0) as [st|] eqn:E0; [|eapply Hl; [exact H|apply Hps; exact Ha]].
    destruct st; try (eapply Hl; [exact H|apply Hps; exact Ha]).
    destruct seeds; [|eapply Hl; [exact H|apply Hps; exact Ha]].
    destruct cur; [eapply Hl; [exact H|apply Hps; exact Ha]|].
    destruct (p_src_closed (fp F)); [discriminate|].
    pose proof (fwd_in_keeps_held_some cfg (fh F) m Hh Ha) as H2.
    pose proof (fwd_in_out_wf cfg (fh F) m) as H3.
    destruct (fwd_in cfg (fh F) m) as [o h']. cbn [fst snd] in *.
    destruct o as [m'|]; inversion H; subst; cbn [fp fh]; rewrite H2, andb_true_r; [|exact Hw].
    cbn [set_stage p_stages]. apply forallb_upd; auto. simpl. apply H3; auto.
  - (* PXfer *)
    destruct (stage_at (fp F) i) as [st|] eqn:Ei; [|eapply Hl; [exact H|apply Hps; exact Ha]].
    destruct (stage_at (fp F) (S i)) as [nx|] eqn:En; [|eapply Hl; [exact H|apply Hps; exact Ha]].
    destruct nx; try (eapply Hl; [exact H|apply Hps; exact Ha]).
    destruct seeds; [|eapply Hl; [exact H|apply Hps; exact Ha]].
    destruct cur; [eapply Hl; [exact H|apply Hps; exact Ha]|].
    destruct (offer st) as [m|] eqn:Eo; [|discriminate].
    pose proof (forallb_nth _ _ _ Hw Ei) as Hst. pose proof (offer_wf _ _ Hst Eo) as Hm.
    pose proof (fwd_in_keeps_held_some cfg (fh F) m Hh Hm) as H2.
    pose proof (fwd_in_out_wf cfg (fh F) m) as H3.
    destruct (fwd_in cfg (fh F) m) as [o h']. cbn [fst snd] in *.
    destruct o as [m'|]; inversion H; subst; cbn [fp fh]; rewrite H2, andb_true_r.
    + cbn [p_stages]. apply forallb_upd; [apply forallb_upd; auto; apply sent_wf; auto|]. simpl. apply H3; auto.
    + cbn [set_stage p_stages]. apply forallb_upd; auto. apply sent_wf; auto.
Qed.

Fixpoint srcs_wf (tr : list plabel) : Prop :=
  match tr with [] => True | a :: r => src_wf a /\ srcs_wf r end.

Theorem frun_chain_wf : forall cfg tr F F',
  chain_wf F = true -> srcs_wf tr -> frun cfg F tr = Some F' -> chain_wf F' = true.
Proof.
  induction tr as [|a r IH]; intros F F' Hc Hs H; simpl in H.
  - inversion H; subst. exact Hc.
  - destruct Hs as (Ha & Hr). destruct (fstep cfg F a) as [F1|] eqn:E; [|discriminate].
    eapply IH; [|exact Hr|exact H]. eapply fstep_chain_wf; eauto.
Qed.

(* a fresh chain: stages as Pull / PullID start them, seeds are ADDs of values *)
Definition init_fpipe (cfg : fcfg) (stages : list stage) (seeds : list msg) : fpipe :=
  mkFP (init_pipe stages) (held_init cfg seeds).

Lemma init_chain_wf : forall cfg stages seeds,
  forallb stage_wf stages = true -> forallb (fun m => negb (m_val m =? 0)) seeds = true ->
  chain_wf (init_fpipe cfg stages seeds) = true.
Proof.
  intros cfg stages seeds H1 H2. unfold chain_wf, init_fpipe. cbn [fp fh init_pipe p_stages].
  rewrite H1, (held_init_some cfg seeds H2). reflexivity.
Qed.

(* THE schedule-level statement: from a fresh chain, along ANY schedule in which the bus delivers
   well-formed changes (whatever is delivered, merged, suppressed, dropped, in whatever interleaving
   with receives, exits and the cancel), whenever the REMOVE of an item the subscription can see is
   handed to the accepting forwarder - by the stage before it or by the bus - the forwarder offers
   exactly that REMOVE next; and a PullID of that item behind the forwarder then returns and cancels
   the chain. *)
Theorem remove_ends_pullid_on_every_schedule : forall cfg stages seeds tr F m,
  forallb stage_wf stages = true -> forallb (fun s => negb (m_val s =? 0)) seeds = true ->
  srcs_wf tr -> frun cfg (init_fpipe cfg stages seeds) tr = Some F -> is_remove_of cfg m ->
  (forall i st, stage_at (fp F) i = Some st -> offer st = Some m -> fwd_at (fp F) (S i) ->
     exists F', fstep cfg F (PXfer i) = Some F' /\ stage_at (fp F') (S i) = Some (StFwd [] (Some m)) /\
       forall id, stage_at (fp F') (S (S i)) = Some (StPullID id None) -> m_id m = id ->
         exists F'', fstep cfg F' (PXfer (S i)) = Some F'' /\
                     stage_at (fp F'') (S (S i)) = Some StDone /\ p_cancel (fp F'') = true) /\
  (fwd_at (fp F) 0 -> p_src_closed (fp F) = false ->
     exists F', fstep cfg F (PSrc m) = Some F' /\ stage_at (fp F') 0 = Some (StFwd [] (Some m)) /\
       forall id, stage_at (fp F') 1 = Some (StPullID id None) -> m_id m = id ->
         exists F'', fstep cfg F' (PXfer 0) = Some F'' /\
                     stage_at (fp F'') 1 = Some StDone /\ p_cancel (fp F'') = true).
Proof.
  intros cfg stages seeds tr F m Hst Hsd Htr Hrun Hm.
  pose proof (frun_chain_wf cfg tr _ F (init_chain_wf cfg stages seeds Hst Hsd) Htr Hrun) as Hc.
  unfold chain_wf in Hc. apply andb_true_iff in Hc. destruct Hc as (_ & Hh).
  split.
  - intros i st H1 H2 H3. destruct (fstep_remove_enters cfg F i st m Hh H1 H2 H3 Hm) as (F' & Hs & Hf & _).
    exists F'. split; [exact Hs|]. split; [exact Hf|]. intros id Hp Hid.
    destruct Hm as (Hk & _). eapply fstep_pullid_ends_on_remove; eauto.
  - intros H1 H2. destruct (fstep_remove_enters_src cfg F m Hh H1 H2 Hm) as (F' & Hs & Hf & _).
    exists F'. split; [exact Hs|]. split; [exact Hf|]. intros id Hp Hid.
    destruct Hm as (Hk & _). eapply fstep_pullid_ends_on_remove; eauto.
Qed.
