(* Correspondence cases for C10.

   KScript: the harness drives a real minibus.Bus one controller action at a time.  Sender
   goroutines, the goroutine calling Listen and the watcher goroutines park at the verif yield
   points of bus.go (bus.send.listener, bus.listener.send.locked, bus.send.collect,
   bus.listen.register, bus.stop.lock);
   after every action the harness waits until no goroutine of the library or of the harness is
   runnable and records what it can see (where each thread is, what each consumer received).
   The judge replays the same actions on the model: after an action every goroutine that is not
   parked runs on, in every possible order (the select statement with several ready cases and
   several senders offering to one receiver are real choices), until nothing can move; the set of
   quiescent model states whose observable projection equals the recorded one must stay non
   empty.  After the script the harness cancels every listener, opens all gates and lets
   everything run free; the model predicts (and the theorems of Props/C10.v prove for every
   schedule) that then every Send returns, every channel is closed and every goroutine ends.

   C10_ok is evaluated on the recorded run alone and does not use the transition system. *)
From SC Require Import Base.Prelude Bus.Bus Bus.Pipe Bus.Explore Bus.PipeJudge Bus.Res Bus.ResJudge Bus.ShapeJudge.

(* ---------- controller actions ---------- *)
Inductive action :=
| ACall (s : nat)        (* sender thread s calls bus.Send(ctx_s, (s, n)) *)
| AStepS (s : nat)       (* open the gate sender s is parked at *)
| AListen                (* a new goroutine calls bus.Listen(ctx_k); it parks before registering *)
| AStepL (k : nat)       (* let Listen k register and return *)
| AStepW (k : nat)       (* open the gate in listener.stop for watcher k *)
| ACancel (k : nat) | ACancelSend (s : nat)
| ARecv (k : nat).       (* consumer k starts one blocking receive *)

Record jstate := mkJ { jc : config; sp : list bool; wp : list bool }.

Definition getb (l : list bool) (i : nat) : bool := nth i l false.

Definition park_after (p : spc) : bool :=
  match p with
  | SLoop (_ :: _) _ _ => true      (* gate bus.send.listener *)
  | SLoop [] true _ => true         (* gate bus.send.collect *)
  | SSel _ _ _ _ _ => true          (* gate bus.listener.send.locked: holds the read lock, before the select *)
  | _ => false
  end.

Definition pc_of (c : config) (s : nat) : spc :=
  match nth_error (ss c) s with Some X => s_pc X | None => SIdle end.

Definition act (j : jstate) (a : action) : option jstate :=
  match a with
  | ACall s => match step (jc j) (LCall s) with
               | Some c' => Some (mkJ c' (upd (sp j) s (park_after (pc_of c' s))) (wp j))
               | None => None end
  | AStepS s => if getb (sp j) s then Some (mkJ (jc j) (upd (sp j) s false) (wp j)) else None
  | AListen => match step (jc j) LListen with
               | Some c' => Some (mkJ c' (sp j) (wp j ++ [false]))
               | None => None end
  | AStepL k => match step (jc j) (LRegister k) with
                | Some c' => Some (mkJ c' (sp j) (wp j)) | None => None end
  | AStepW k => if getb (wp j) k then Some (mkJ (jc j) (sp j) (upd (wp j) k false)) else None
  | ACancel k => match step (jc j) (LCancel k) with
                 | Some c' => Some (mkJ c' (sp j) (wp j)) | None => None end
  | ACancelSend s => match step (jc j) (LCancelSend s) with
                     | Some c' => Some (mkJ c' (sp j) (wp j)) | None => None end
  | ARecv k => match step (jc j) (LRecvStart k) with
               | Some c' => Some (mkJ c' (sp j) (wp j)) | None => None end
  end.

(* the moves goroutines make on their own *)
Definition sender_moves (j : jstate) (s : nat) : list jstate :=
  if getb (sp j) s then [] else
  flat_map (fun a => match step (jc j) a with
                     | Some c' => [mkJ c' (upd (sp j) s (park_after (pc_of c' s))) (wp j)]
                     | None => [] end)
           [LRLock s; LSelSendCtx s; LSelListenCtx s; LDeliver s; LFinish s].

Definition watcher_moves (j : jstate) (k : nat) : list jstate :=
  (match step (jc j) (LWake k) with
   | Some c' => [mkJ c' (sp j) (upd (wp j) k true)]     (* parks at bus.stop.lock *)
   | None => [] end)
  ++ (if getb (wp j) k then [] else
      flat_map (fun a => match step (jc j) a with Some c' => [mkJ c' (sp j) (wp j)] | None => [] end)
               [LLockReq k; LStop k])
  ++ (match step (jc j) (LRecvClosed k) with Some c' => [mkJ c' (sp j) (wp j)] | None => [] end).

Definition moves (j : jstate) : list jstate :=
  flat_map (sender_moves j) (seq 0 (List.length (ss (jc j))))
  ++ flat_map (watcher_moves j) (seq 0 (List.length (ls (jc j)))).

(* ---------- encodings (observation, and a full one to remove duplicates) ---------- *)
Definition enc_ev (e : nat * nat) : Z := zn (fst e) * 100000 + zn (snd e).

Definition obs_sender (X : sender) (parked : bool) : list Z :=
  [ match s_pc X with
    | SIdle => 0
    | SLoop (_ :: _) _ _ => if parked then 1 else 3
    | SLoop [] _ _ => if parked then 2 else 3
    | SSel _ _ _ _ _ => if parked then 4 else 3
    end;
    zn (List.length (s_rets X));
    match s_rets X with [] => 2 | b :: _ => zb b end ].

Definition obs_listener (L : lstn) : list Z :=
  [ match l_w L with WWait => 0 | WStop => 1 | WPending => 2 | WDone => 3 end;
    zb (l_reg L); zb (l_rcv L); zb (l_sawclose L); zn (List.length (l_log L)) ]
  ++ map enc_ev (rev (l_log L)).

Fixpoint zipb {A} (l : list A) (b : list bool) : list (A * bool) :=
  match l with
  | [] => []
  | x :: r => (x, hd false b) :: zipb r (tl b)
  end.

Definition observe (j : jstate) : list Z :=
  zn (List.length (ss (jc j))) :: flat_map (fun p => obs_sender (fst p) (snd p)) (zipb (ss (jc j)) (sp j))
  ++ zn (List.length (ls (jc j))) :: flat_map obs_listener (ls (jc j)).

Definition enc_list (l : list nat) : list Z := zn (List.length l) :: map zn l.
Definition enc_pc (p : spc) : list Z :=
  match p with
  | SIdle => [0]
  | SLoop r g sn => 1 :: zb g :: enc_list r ++ enc_list sn
  | SSel l o r g sn => 2 :: zn l :: zb o :: zb g :: enc_list r ++ enc_list sn
  end.
Definition enc_j (j : jstate) : list Z :=
  observe j
  ++ flat_map (fun X => enc_pc (s_pc X) ++ [zb (s_cancel X); zn (s_calls X)] ++ map zb (s_rets X) ++ [7]) (ss (jc j))
  ++ flat_map (fun L => [zb (l_cancel L); zb (l_closed L)]) (ls (jc j))
  ++ enc_list (blist (jc j)) ++ map zb (sp j) ++ [8] ++ map zb (wp j).

Definition jsettle := settle moves enc_j.

Definition after (worlds : list jstate) (a : action) (o : list Z) : list jstate :=
  let nxt := flat_map (fun j => match act j a with Some j' => jsettle j' | None => [] end) worlds in
  filter (fun j => zl_eqb (observe j) o) (uniq enc_j nxt).

Fixpoint replay (worlds : list jstate) (script : list (action * list Z)) : list jstate :=
  match script with
  | [] => worlds
  | (a, o) :: r => match worlds with [] => [] | _ => replay (after worlds a o) r end
  end.

(* ---------- the free-running end of a run ---------- *)
Definition fin_labels (c : config) : list label :=
  flat_map (fun s => [LRLock s; LSelListenCtx s; LSelSendCtx s; LDeliver s; LFinish s]) (seq 0 (List.length (ss c)))
  ++ flat_map (fun k => [LRegister k; LWake k; LLockReq k; LStop k; LRecvClosed k; LRecvStart k]) (seq 0 (List.length (ls c))).

Fixpoint first_step (c : config) (l : list label) : option config :=
  match l with
  | [] => None
  | a :: r => match step c a with Some c' => Some c' | None => first_step c r end
  end.

Fixpoint free_run (fuel : nat) (c : config) : config :=
  match fuel with
  | O => c
  | S f => match first_step c (fin_labels c) with Some c' => free_run f c' | None => c end
  end.

Definition cancel_all (c : config) : config :=
  mkC (map (fun L => mkL true (l_closed L) (l_w L) (l_reg L) (l_rcv L) (l_sawclose L) (l_log L)) (ls c)) (ss c) (blist c).

Definition all_done (c : config) : bool :=
  forallb (fun X => match s_pc X with SIdle => true | _ => false end) (ss c)
  && forallb (fun L => l_closed L && l_sawclose L && match l_w L with WDone => true | _ => false end) (ls c).

Definition final_fuel (c : config) : nat :=
  (50 + 20 * (List.length (ss c) + 1) * (List.length (ls c) + 1))%nat.

(* ---------- what the harness records for the oracle ---------- *)
Record callrec := mkCall { c_s : Z; c_n : Z; c_start : Z; c_end : Z; c_ok : bool; c_ret : bool }.
   (* c_start / c_end: index of the action that started the call / after which it was seen
      finished (the length of the script when it only finished in the free-running end) *)
Record lrec := mkLR { r_reg : Z; r_cancel : Z; r_log : list (Z * Z); r_closed : bool }.
   (* r_reg: index of the action that completed the registration (or the script length);
      r_cancel: index of the cancel action (or the script length); r_log oldest first;
      r_closed: the consumer saw the close within the bound after the final cancel *)
Record finrec := mkFin { f_calls : list callrec; f_ls : list lrec; f_panics : Z; f_leaks : Z }.

Inductive c10case :=
| KScript (nsenders : nat) (script : list (action * list Z)) (fin : finrec)
| KFree (f : finrec)      (* free-running run: only the end-of-run record; times are ticks of a global counter *)
| KPipe (sc : pipecase)
| KRes (rc : rescase)
| KShape (rows : list gshape) (facts : list (string * bool)).   (* read from the source, see ShapeJudge.v *)   (* writers / readers / subscribers of one Collection, see ResJudge.v *)

(* ---------- the oracle ---------- *)
Fixpoint incr_for (s : Z) (last : Z) (log : list (Z * Z)) : bool :=
  match log with
  | [] => true
  | (s', n) :: r => if s' =? s then (last <? n) && incr_for s n r else incr_for s last r
  end.

Definition log_ok (calls : list callrec) (log : list (Z * Z)) : bool :=
  (* per sender strictly increasing call numbers (so: in order, never twice), and only events
     of calls that were made *)
  forallb (fun e => incr_for (fst e) 0 log) log
  && forallb (fun e => existsb (fun cl => (c_s cl =? fst e) && (c_n cl =? snd e)) calls) log.

Definition delivered_ok (calls : list callrec) (r : lrec) : bool :=
  forallb (fun cl =>
    if c_ret cl && c_ok cl && (r_reg r <? c_start cl) && (c_end cl <? r_cancel r)
    then existsb (fun e => (fst e =? c_s cl) && (snd e =? c_n cl)) (r_log r)
    else true) calls.

Definition script_ok (f : finrec) : bool :=
  (f_panics f =? 0) && (f_leaks f =? 0)
  && forallb c_ret (f_calls f)
  && forallb r_closed (f_ls f)
  && forallb (fun r => log_ok (f_calls f) (r_log r) && delivered_ok (f_calls f) r) (f_ls f).

Definition C10_ok (c : c10case) : bool :=
  match c with
  | KScript _ _ f => script_ok f
  | KFree f => script_ok f
  | KPipe p => pipe_ok p
  | KRes r => res_ok r
  | KShape _ _ => true
  end.

Definition C10_guard (c : c10case) : bool := true.

Definition init_j (n : nat) : jstate := mkJ (init n) (repeat false n) [].

Fixpoint all2b {A B} (f : A -> B -> bool) (a : list A) (b : list B) : bool :=
  match a, b with
  | [], [] => true
  | x :: a', y :: b' => f x y && all2b f a' b'
  | _, _ => false
  end.

Definition fin_agrees (worlds : list jstate) (f : finrec) : bool :=
  match worlds with
  | [] => false
  | _ =>
      (* every world ends, free running after cancelling all listeners, with everything done *)
      forallb (fun j => let c := cancel_all (jc j) in all_done (free_run (final_fuel c) c)) worlds
      && forallb c_ret (f_calls f) && forallb r_closed (f_ls f) && (f_leaks f =? 0) && (f_panics f =? 0)
      (* the logs at the end of the scripted part are prefixes of the final logs *)
      && existsb (fun j =>
           all2b (fun (L : lstn) (r : lrec) =>
                       list_eqb Z.eqb (map enc_ev (rev (l_log L)))
                                (firstn (List.length (l_log L)) (map (fun e => fst e * 100000 + snd e) (r_log r))))
                    (ls (jc j)) (f_ls f)) worlds
  end.

Definition agrees (c : c10case) : bool :=
  match c with
  | KScript n script f => fin_agrees (replay [init_j n] script) f
  | KFree f =>
      (* the model's prediction for any run that ends with every listener cancelled: all Send
         calls return, every consumer sees the close, no goroutine is left, nothing panics *)
      forallb c_ret (f_calls f) && forallb r_closed (f_ls f) && (f_leaks f =? 0) && (f_panics f =? 0)
  | KPipe p => pipe_agrees p
  | KRes r => res_agrees r
  | KShape rows facts => shape_agrees rows facts
  end.

Definition known_class (c : c10case) : option Z :=
  match c with
  | KScript _ _ _ => None
  | KFree _ => None
  | KPipe p => pipe_known p
  | KRes _ => None
  | KShape _ _ => None
  end.

Definition judge (c : c10case) : Z :=
  verdict (agrees c) (if C10_guard c then C10_ok c else true) (known_class c).
