(* The filters of the Collection.Pull forwarder inside the chain of Pipe.v.

   Pipe.v treats the forwarder (StFwd) as "takes a change, offers it on"; the code between the
   receive and the send (pkg/resource/collection.go, the event loop of Collection.Pull) is

       change, ok := change.include(readConfig.Include);  if !ok { continue }
       change = change.filter(filter)
       if held != nil {  base, sent := held[id]; if !sent { base = change.OldValue }
                         if equivalence.Compare(base, NewValue) { held[id] = base; continue }
                         if NewValue == nil { delete(held, id) } else { held[id] = NewValue } }
       select { case send <- change: ... }

   That loop body is the SHARED model Resource/Pull.v ([include_gen false false], [held_step]: the
   model of record of the held map since /repo 3a50d70); this file instantiates it with the
   values of the C10 harness (Int64Value wrappers: M = Z, 0 = nil) and plugs it into the hand-over
   INTO an accepting forwarder: the change is either taken (possibly rewritten by include: ADD when
   the item enters the filter, REMOVE when it leaves) or skipped, in which case the stage stays
   accepting and the sending side has still completed its send.

   A subscription ends without a cancel only through PullID seeing the REMOVE of its item, so
   whether the forwarder lets a REMOVE through decides whether the goroutines of a PullID ever
   end: PipeHeldProofs.v proves it does, for every held map the loop can build.

   [fstep] extends [pstep] (Pipe.v); with no equivalence and no include it IS pstep
   (PipeHeldProofs.fstep_plain).  No proofs here. *)
From SC Require Import Base.Prelude Resource.Impl Resource.Pull Bus.Bus Bus.Pipe.

(* the equivalences / include filters the harness configures, as data *)
Inductive eqspec := EqNone | EqExact | EqTens.        (* none; WithNoDuplicates; same value/10 *)
Inductive incspec := IncNone | IncGe (t : Z) | IncNotId (id : Z).
Record fcfg := mkFC { fc_eq : eqspec; fc_inc : incspec }.

Definition id_str (z : Z) : string := String (Ascii.ascii_of_nat (Z.to_nat z)) EmptyString.

Definition cmp_exact (a b : option Z) : bool :=
  match a, b with None, None => true | Some x, Some y => x =? y | _, _ => false end.
Definition cmp_tens (a b : option Z) : bool :=
  match a, b with None, None => true | Some x, Some y => (x / 10) =? (y / 10) | _, _ => false end.
Definition cmp_of (e : eqspec) : option (option Z -> option Z -> bool) :=
  match e with EqNone => None | EqExact => Some cmp_exact | EqTens => Some cmp_tens end.

Definition inc_of (i : incspec) : option (string -> option Z -> bool) :=
  match i with
  | IncNone => None
  | IncGe t => Some (fun _ v => match v with Some x => t <=? x | None => false end)
  | IncNotId id => Some (fun s _ => negb (String.eqb s (id_str id)))
  end.

Definition optz (z : Z) : option Z := if z =? 0 then None else Some z.
Definition zopt (o : option Z) : Z := match o with Some z => z | None => 0 end.

Definition kind_of (k : Z) : kind := if k =? 1 then KAdd else if k =? 3 then KRemove else KUpdate.

Definition to_cc (m : msg) : cchange Z :=
  mkCC (id_str (m_id m)) 0 (kind_of (m_kind m)) (optz (m_old m)) (optz (m_val m)) false false.
(* include only ever synthesises ADD and REMOVE; UPDATE / REPLACE pass with their own kind *)
Definition of_cc (m : msg) (c : cchange Z) : msg :=
  mkMo (m_id m)
       (match cc_kind c with KAdd => 1 | KRemove => 3 | KUpdate => if m_kind m =? 4 then 4 else 2 end)
       (zopt (cc_new c)) (zopt (cc_old c)).

Definition hmap := heldmap Z.

(* one pass of the loop body on the change [m]: what is sent on (None = skipped), held afterwards.
   (No read mask in this harness: change.filter is the identity.) *)
Definition fwd_in (cfg : fcfg) (h : hmap) (m : msg) : option msg * hmap :=
  match include_gen false false (inc_of (fc_inc cfg)) (to_cc m) with
  | None => (None, h)
  | Some c =>
      match cmp_of (fc_eq cfg) with
      | None => (Some (of_cc m c), h)
      | Some cmp => let '(send, h') := held_step cmp h c in
                    (if send then Some (of_cc m c) else None, h')
      end
  end.

(* the forwarder loop over a whole list of incoming changes *)
Fixpoint fwd_run (cfg : fcfg) (h : hmap) (ms : list msg) : list msg * hmap :=
  match ms with
  | [] => ([], h)
  | m :: r => let '(o, h') := fwd_in cfg h m in
              let '(out, h'') := fwd_run cfg h' r in
              (match o with Some m' => m' :: out | None => out end, h'')
  end.

(* held after the seed loop (only with an equivalence; nil map otherwise, never read) *)
Definition held_init (cfg : fcfg) (seeds : list msg) : hmap :=
  match cmp_of (fc_eq cfg) with
  | None => []
  | Some _ => fold_left (fun h m => hset (id_str (m_id m)) (optz (m_val m)) h) seeds []
  end.

Record fpipe := mkFP { fp : pipe; fh : hmap }.

Definition lift (h : hmap) (o : option pipe) : option fpipe :=
  match o with Some p => Some (mkFP p h) | None => None end.

Definition fstep (cfg : fcfg) (F : fpipe) (a : plabel) : option fpipe :=
  let p := fp F in
  match a with
  | PSrc m =>
      match stage_at p 0 with
      | Some (StFwd [] None) =>
          if p_src_closed p then None else
          match fwd_in cfg (fh F) m with
          | (None, h') => Some (mkFP p h')
          | (Some m', h') => Some (mkFP (set_stage p 0 (StFwd [] (Some m'))) h')
          end
      | _ => lift (fh F) (pstep p a)
      end
  | PXfer i =>
      match stage_at p i, stage_at p (S i) with
      | Some st, Some (StFwd [] None) =>
          match offer st with
          | Some m =>
              match fwd_in cfg (fh F) m with
              | (None, h') => Some (mkFP (set_stage p i (sent st)) h')
              | (Some m', h') =>
                  Some (mkFP (mkP (p_cancel p) (p_src_closed p)
                                  (upd (upd (p_stages p) i (sent st)) (S i) (StFwd [] (Some m'))) (p_out p)) h')
              end
          | None => None
          end
      | _, _ => lift (fh F) (pstep p a)
      end
  | _ => lift (fh F) (pstep p a)
  end.

Fixpoint frun (cfg : fcfg) (F : fpipe) (tr : list plabel) : option fpipe :=
  match tr with
  | [] => Some F
  | a :: r => match fstep cfg F a with Some F' => frun cfg F' r | None => None end
  end.

(* ---- hypotheses of the theorems, as computable predicates ---- *)
(* a change as Collection writes publish it and mergeChanges keeps it: an ADD has no old value,
   a REMOVE no new one, everything else both *)
Definition wf_msg (m : msg) : bool :=
  if m_kind m =? 1 then (m_old m =? 0) && negb (m_val m =? 0)
  else if m_kind m =? 3 then negb (m_old m =? 0) && (m_val m =? 0)
  else negb (m_old m =? 0) && negb (m_val m =? 0).

(* every entry of held is a value (never nil) *)
Definition held_some (h : hmap) : bool :=
  forallb (fun e => match snd e with Some _ => true | None => false end) h.

(* the value [v] of item [id] passes the include filter *)
Definition visible (cfg : fcfg) (id v : Z) : bool :=
  match inc_of (fc_inc cfg) with None => true | Some f => f (id_str id) (Some v) end.

(* ---- the r4 seeded variant of the held step, kept as a refuted alternative ----
   "a removal is not put to the comparer: if held has nothing for the id the REMOVE is skipped" *)
Definition held_step_skip_unsent (cmp : option Z -> option Z -> bool) (h : hmap) (c : cchange Z) : bool * hmap :=
  match cc_new c with
  | None => match hget (cc_id c) h with
            | None => (false, h)
            | Some _ => (true, hdel (cc_id c) h)
            end
  | Some _ => held_step cmp h c
  end.
