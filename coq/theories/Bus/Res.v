(* The writers, readers and subscribers of one resource (resource.Collection; resource.Value is
   the special case without Delete) composed with the bus model of Bus.v.

   What the code does with its locks (pkg/resource/collection.go, value.go, atomic.go):

     Update / Value.Set   GetAndUpdate: RLock; get; RUnlock           RUpdStart   (atomic.go:37-40)
                          change() without a lock                                  (atomic.go:46-49)
                          Lock; get again; compare; save;             RUpdSave / RUpdAbort
                          commits++; Unlock                                        (atomic.go:51-59)
                          [turnstile enter: wait until every earlier commit has published]
                          bus.Send(...)                               RPublish, then the steps of
                                                                      bus sender w (Bus.v), RReturn
     Delete               RLock; read; RUnlock                        RDelStart   (collection.go:204-207)
                          Lock; compare; (changed: Unlock, retry,     RDelRetry / RDelGiveUp
                          at most 5 attempts)                                      (collection.go:223-231)
                          delete; commits++;                          RDelTake
                          [turnstile enter]
                          bus.Send(...) STILL HOLDING c.mu            RPublish ... RReturn
                          Unlock                                                   (collection.go:234-243)
     Get / List           RLock ... RUnlock                           RRead
     Pull / PullID        onUpdate: (unless UpdatesOnly) RLock; seed; RSubBegin
                          bus.Listen (starts the watcher, registers)  RSubEnd
                          RUnlock                                                  (collection.go:316-331)

   c.mu is not stored: it is write-held by the writer whose pc is RDelHold / RDelSend (every other
   write section is one atomic step) and read-held by the registrations in progress whose flag
   is set (every other read section is one atomic step).  Writer w publishes as bus sender w.
   The data (items, messages) are not modelled: where the code branches on data both outcomes
   are steps with the same enabling condition (RUpdSave/RUpdAbort, RDelTake/RDelRetry/RDelGiveUp).

   [ts] = the resource has the publishing turnstile (commit n may call bus.Send only when the
   commits before n have returned from theirs); ts = false is the code without it.  Every
   theorem of ResProofs.v is proved for both.

   Not represented: sync.RWMutex makes new readers wait behind a writer that has called Lock and
   is itself waiting for a current reader.  The only read sections that are not atomic are the
   registrations (RSubBegin .. RSubEnd), whose remaining step is always enabled, so such a wait
   ends after that one step; it is not a state of this model. *)
From SC Require Import Base.Prelude Bus.Bus.

Inductive rpc :=
| RIdle
| RUpdLock                 (* GetAndUpdate: first read and change() done, about to Lock *)
| RUpdPub (n : nat)        (* saved as commit n, c.mu released, before bus.Send *)
| RUpdSend (n : nat)       (* inside bus.Send *)
| RDelLock (att : nat)     (* Delete: checks done, about to Lock; attempt number *)
| RDelHold (n : nat)       (* deleted as commit n, HOLDS c.mu, before bus.Send *)
| RDelSend (n : nat).      (* HOLDS c.mu, inside bus.Send *)

Record res := mkR {
  rb : config;
  rw : list rpc;
  rcommits : nat;
  rdone : nat;                  (* turnstile: commits up to here have published *)
  rpend : list (nat * bool)     (* bus.Listen calls in progress: listener, holds c.mu.RLock *)
}.

Inductive rlabel :=
| RBus (a : label)
| RUpdStart (w : nat) | RUpdSave (w : nat) | RUpdAbort (w : nat)
| RDelStart (w : nat) | RDelTake (w : nat) | RDelRetry (w : nat) | RDelGiveUp (w : nat)
| RPublish (w : nat) | RReturn (w : nat)
| RRead
| RSubBegin (updatesOnly : bool) | RSubEnd (k : nat).

Definition rinit (n : nat) : res := mkR (init n) (repeat RIdle n) 0 0 [].

Definition holds_w (p : rpc) : bool :=
  match p with RDelHold _ | RDelSend _ => true | _ => false end.
Definition in_send (p : rpc) : bool :=
  match p with RUpdSend _ | RDelSend _ => true | _ => false end.
Definition commit_of (p : rpc) : option nat :=
  match p with RUpdPub n | RUpdSend n | RDelHold n | RDelSend n => Some n | _ => None end.

(* nobody holds c.mu for writing / for reading *)
Definition wfree (C : res) : bool := forallb (fun p => negb (holds_w p)) (rw C).
Definition rfree (C : res) : bool := forallb (fun e => negb (snd e)) (rpend C).

Definition bus_label_ok (a : label) : bool :=
  match a with LCall _ | LListen | LRegister _ => false | _ => true end.

Definition set_w (C : res) (w : nat) (p : rpc) : res :=
  mkR (rb C) (upd (rw C) w p) (rcommits C) (rdone C) (rpend C).

Fixpoint pend_find (k : nat) (l : list (nat * bool)) : bool :=
  match l with [] => false | (k', _) :: r => Nat.eqb k' k || pend_find k r end.
Fixpoint pend_remove (k : nat) (l : list (nat * bool)) : list (nat * bool) :=
  match l with [] => [] | (k', h) :: r => if Nat.eqb k' k then r else (k', h) :: pend_remove k r end.

Definition sender_idle (c : config) (w : nat) : bool :=
  match nth_error (ss c) w with
  | Some X => match s_pc X with SIdle => true | _ => false end
  | None => false
  end.

Definition rstep (ts : bool) (C : res) (a : rlabel) : option res :=
  match a with
  | RBus b =>
      if bus_label_ok b
      then match step (rb C) b with
           | Some c' => Some (mkR c' (rw C) (rcommits C) (rdone C) (rpend C))
           | None => None end
      else None
  | RUpdStart w =>
      match nth_error (rw C) w with
      | Some RIdle => if wfree C then Some (set_w C w RUpdLock) else None
      | _ => None end
  | RUpdSave w =>
      match nth_error (rw C) w with
      | Some RUpdLock =>
          if wfree C && rfree C
          then Some (mkR (rb C) (upd (rw C) w (RUpdPub (S (rcommits C)))) (S (rcommits C)) (rdone C) (rpend C))
          else None
      | _ => None end
  | RUpdAbort w =>
      match nth_error (rw C) w with
      | Some RUpdLock => if wfree C && rfree C then Some (set_w C w RIdle) else None
      | _ => None end
  | RDelStart w =>
      match nth_error (rw C) w with
      | Some RIdle => if wfree C then Some (set_w C w (RDelLock 0)) else None
      | _ => None end
  | RDelTake w =>
      match nth_error (rw C) w with
      | Some (RDelLock _) =>
          if wfree C && rfree C
          then Some (mkR (rb C) (upd (rw C) w (RDelHold (S (rcommits C)))) (S (rcommits C)) (rdone C) (rpend C))
          else None
      | _ => None end
  | RDelRetry w =>
      match nth_error (rw C) w with
      | Some (RDelLock att) =>
          if wfree C && rfree C && Nat.ltb (S att) 5 then Some (set_w C w (RDelLock (S att))) else None
      | _ => None end
  | RDelGiveUp w =>
      match nth_error (rw C) w with
      | Some (RDelLock _) => if wfree C && rfree C then Some (set_w C w RIdle) else None
      | _ => None end
  | RPublish w =>
      match nth_error (rw C) w with
      | Some (RUpdPub n) =>
          if negb ts || Nat.eqb (S (rdone C)) n
          then match step (rb C) (LCall w) with
               | Some c' => Some (mkR c' (upd (rw C) w (RUpdSend n)) (rcommits C) (rdone C) (rpend C))
               | None => None end
          else None
      | Some (RDelHold n) =>
          if negb ts || Nat.eqb (S (rdone C)) n
          then match step (rb C) (LCall w) with
               | Some c' => Some (mkR c' (upd (rw C) w (RDelSend n)) (rcommits C) (rdone C) (rpend C))
               | None => None end
          else None
      | _ => None end
  | RReturn w =>
      match nth_error (rw C) w with
      | Some (RUpdSend n) | Some (RDelSend n) =>
          if sender_idle (rb C) w
          then Some (mkR (rb C) (upd (rw C) w RIdle) (rcommits C) (if ts then n else rdone C) (rpend C))
          else None
      | _ => None end
  | RRead => if wfree C then Some C else None
  | RSubBegin uo =>
      if uo || wfree C
      then match step (rb C) LListen with
           | Some c' => Some (mkR c' (rw C) (rcommits C) (rdone C) (rpend C ++ [(List.length (ls (rb C)), negb uo)]))
           | None => None end
      else None
  | RSubEnd k =>
      if pend_find k (rpend C)
      then match step (rb C) (LRegister k) with
           | Some c' => Some (mkR c' (rw C) (rcommits C) (rdone C) (pend_remove k (rpend C)))
           | None => None end
      else None
  end.

Fixpoint rrun (ts : bool) (C : res) (tr : list rlabel) : option res :=
  match tr with
  | [] => Some C
  | a :: r => match rstep ts C a with Some C' => rrun ts C' r | None => None end
  end.

(* The steps the goroutines of the library make on their own, once the application has made its
   calls: everything except a new call (RUpdStart, RDelStart, RRead, RSubBegin), a cancel
   (LCancel, LCancelSend) and a consumer starting to receive (LRecvStart). *)
Definition autonomous (a : rlabel) : bool :=
  match a with
  | RBus (LRLock _) | RBus (LSelSendCtx _) | RBus (LSelListenCtx _) | RBus (LDeliver _) | RBus (LFinish _)
  | RBus (LWake _) | RBus (LLockReq _) | RBus (LStop _) | RBus (LRecvClosed _) => true
  | RUpdSave _ | RUpdAbort _ | RDelTake _ | RDelRetry _ | RDelGiveUp _ | RPublish _ | RReturn _ | RSubEnd _ => true
  | _ => false
  end.

Definition busy (C : res) : bool :=
  existsb (fun p => match p with RIdle => false | _ => true end) (rw C)
  || match rpend C with [] => false | _ => true end.

(* ---- the measure behind "after the cancel everything proceeds" (see ResProofs) ---- *)
Definition smeasure (p : spc) : nat :=
  match p with
  | SIdle => 0
  | SLoop r _ _ => 2 * List.length r + 1
  | SSel _ _ r _ _ => 2 * List.length r + 2
  end%nat.
Definition lmeasure (L : lstn) : nat :=
  (match l_w L with WWait => 3 | WStop => 2 | WPending => 1 | WDone => 0 end
   + (if l_rcv L then 1 else 0))%nat.
Definition wmeasure (B : nat) (p : rpc) : nat :=
  match p with
  | RIdle => 0
  | RUpdSend _ | RDelSend _ => 1
  | RUpdPub _ | RDelHold _ => 2 + B
  | RUpdLock => 3 + B
  | RDelLock att => 3 + B + (5 - att)
  end%nat.
Definition sum (l : list nat) : nat := fold_right Nat.add 0%nat l.
Definition rmeasure (C : res) : nat :=
  let B := (2 * List.length (ls (rb C)) + 2)%nat in
  (sum (map (wmeasure B) (rw C)) + sum (map (fun X => smeasure (s_pc X)) (ss (rb C)))
   + sum (map lmeasure (ls (rb C))) + List.length (rpend C))%nat.

Definition all_cancelled (C : res) : bool := forallb l_cancel (ls (rb C)).

(* ---- the turnstile must be left on EVERY way out of a call (round 4) ----
   [rstep] leaves in RReturn whatever the result of the Send: delivered everywhere, listener
   cancelled, or given up because the send context expired (Value.Set's 5 s budget: LCancelSend,
   then LSelSendCtx; the result false is the head of s_rets).  [rstep_leaky] is the variant in which
   the leave is an explicit call placed after the "bus.Send blocked for too long" early return: a
   writer whose Send gave up returns WITHOUT leaving.  ResTurnstile.v refutes it. *)
Definition last_send_gave_up (c : config) (w : nat) : bool :=
  match nth_error (ss c) w with
  | Some X => match s_rets X with false :: _ => true | _ => false end
  | None => false
  end.

Definition rstep_leaky (C : res) (a : rlabel) : option res :=
  match a with
  | RReturn w =>
      match rstep true C a with
      | Some C' => if last_send_gave_up (rb C) w
                   then Some (mkR (rb C') (rw C') (rcommits C') (rdone C) (rpend C'))
                   else Some C'
      | None => None
      end
  | _ => rstep true C a
  end.

Fixpoint rrun_leaky (C : res) (tr : list rlabel) : option res :=
  match tr with
  | [] => Some C
  | a :: r => match rstep_leaky C a with Some C' => rrun_leaky C' r | None => None end
  end.
