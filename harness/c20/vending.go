package main

import (
	"context"
	"sort"

	"google.golang.org/grpc/status"

	"github.com/smart-core-os/sc-api/go/traits"
	"github.com/smart-core-os/sc-golang/pkg/trait/vendingpb"
	"github.com/smart-core-os/sc-golang/verifharness/vcoq"
)

var consumablePool = []string{"coffee", "milk", "water", "cups"}

func coqQty(q *traits.Consumable_Quantity) string {
	if q == nil {
		return "None"
	}
	return vcoq.Some(vcoq.App("mkQty", vcoq.Z(int64(q.Unit)), coqQ(float64(q.Amount))))
}

func coqStock(s *traits.Consumable_Stock) string {
	if s == nil {
		return "None"
	}
	return vcoq.Some(vcoq.App("mkStock", coqQty(s.Used), coqQty(s.Remaining), coqQty(s.LastDispensed), vcoq.Bool(s.Dispensing)))
}

func jsQty(q *traits.Consumable_Quantity) any {
	if q == nil {
		return nil
	}
	return map[string]any{"unit": q.Unit.String(), "amount": q.Amount}
}
func jsStock(s *traits.Consumable_Stock) any {
	if s == nil {
		return nil
	}
	return map[string]any{"consumable": s.Consumable, "used": jsQty(s.Used), "remaining": jsQty(s.Remaining),
		"last_dispensed": jsQty(s.LastDispensed), "dispensing": s.Dispensing}
}

func (g *gen) qty() *traits.Consumable_Quantity {
	return &traits.Consumable_Quantity{Unit: traits.Consumable_Unit(g.unit()), Amount: g.amount()}
}

func (g *gen) vending() {
	nseq := 60 * g.mult
	for s := 0; s < nseq; s++ {
		// configuration: stock records with every subset of used/remaining present, some consumables
		var stocks []*traits.Consumable_Stock
		var stockNames, consNames []string
		var cons []*traits.Consumable
		for i, name := range consumablePool {
			if g.r.Chance(70) {
				st := &traits.Consumable_Stock{Consumable: name, Dispensing: g.r.Chance(20)}
				sub := (s + i) % 4
				if g.r.Chance(30) {
					sub = g.r.Intn(4)
				}
				if sub&1 != 0 {
					st.Used = g.qty()
				}
				if sub&2 != 0 {
					st.Remaining = g.qty()
					if st.Used != nil && g.r.Chance(50) {
						st.Remaining.Unit = st.Used.Unit
					}
				}
				stocks = append(stocks, st)
				stockNames = append(stockNames, name)
			}
			if g.r.Chance(40) {
				// consumable names are distinct from stock names so that a misrouted option is not masked by a duplicate-id panic
				cons = append(cons, &traits.Consumable{Name: "k-" + name})
				consNames = append(consNames, "k-"+name)
			}
		}
		sort.Strings(stockNames)
		sort.Strings(consNames)
		cfg := map[string]any{"model": "vendingpb", "initial_stock": jsStocks(stocks), "initial_consumables": consNames}
		var m *vendingpb.Model
		var gotInv, gotCons []string
		if g.try("panic:vendingpb:options", cfg, func() {
			m = vendingpb.NewModel(vendingpb.WithInitialStock(stocks...), vendingpb.WithInitialConsumable(cons...))
			for _, st := range m.ListInventory() {
				gotInv = append(gotInv, st.Consumable)
			}
			for _, c := range m.ListConsumables() {
				gotCons = append(gotCons, c.Name)
			}
		}) {
			// keep exercising dispense with the stock alone
			m = vendingpb.NewModel(vendingpb.WithInitialStock(stocks...))
		} else {
			g.add(vcoq.App("KVendConfig", coqStrs(stockNames), coqStrs(consNames), coqStrs(gotInv), coqStrs(gotCons)),
				map[string]any{"config": cfg, "inventory": gotInv, "consumables": gotCons}, "vending.config")
		}
		srv := vendingpb.NewModelServer(m)
		var hist []any
		for k := g.r.Range(3, 10); k > 0; k-- {
			name := g.pick(consumablePool)
			if g.r.Chance(5) {
				name = "unknown"
			}
			q := g.qty()
			if pre, ok := m.GetStock(name); ok && g.r.Chance(60) {
				// mostly convertible quantities
				switch {
				case pre.Used != nil && g.r.Bool():
					q.Unit = pre.Used.Unit
				case pre.Remaining != nil:
					q.Unit = pre.Remaining.Unit
				}
				if g.r.Chance(30) && (q.Unit == 3 || q.Unit == 4 || q.Unit == 5) {
					q.Unit = traits.Consumable_Unit(3 + g.r.Intn(3))
				}
			}
			viaRPC := g.r.Bool()
			op := map[string]any{"op": "Dispense", "consumable": name, "quantity": jsQty(q), "rpc": viaRPC}
			hist = append(hist, op)
			replay := map[string]any{"config": cfg, "ops": append([]any{}, hist...)}
			pre, _ := m.GetStock(name)
			var ret *traits.Consumable_Stock
			var err error
			if g.try("panic:vendingpb:dispense", replay, func() {
				if viaRPC {
					ret, err = srv.Dispense(context.Background(), &traits.DispenseRequest{Consumable: name, Quantity: q})
				} else {
					ret, err = m.DispenseInstantly(name, q)
				}
			}) {
				break
			}
			post, _ := m.GetStock(name)
			obs, tag := "", ""
			switch {
			case err != nil:
				obs, tag = vcoq.App("VErr", vcoq.Z(int64(status.Code(err)))), "vending.dispense.error"
			case ret == nil:
				obs, tag = "VNilNil", "vending.dispense.nilnil"
			default:
				obs, tag = "(VStock "+coqStock(ret)[len("(Some "):], "vending.dispense.ok"
				if ret.Consumable != name {
					g.direct("dispense returned another consumable's stock", "vendingpb:wrong-stock", replay)
				}
			}
			coqq := vcoq.App("mkQty", vcoq.Z(int64(q.Unit)), coqQ(float64(q.Amount)))
			g.add(vcoq.App("KDispense", coqStock(pre), coqq, obs, coqStock(post)),
				map[string]any{"model": "vendingpb", "pre": jsStock(pre), "op": op, "returned": jsStock(ret), "error": errCode(err), "post": jsStock(post)}, tag)
		}
	}
}

func jsStocks(l []*traits.Consumable_Stock) []any {
	out := []any{}
	for _, s := range l {
		out = append(out, jsStock(s))
	}
	return out
}

func errCode(err error) any {
	if err == nil {
		return nil
	}
	return int(status.Code(err))
}
