package main

// vendingpb record CRUD through the model API: Create/Update(masked)/Delete of stock and consumables
// interleaved with dispenses. One KVStore case per operation: the whole inventory and consumables list
// before, the operation, the answer, both lists after.

import (
	"context"
	"fmt"

	"google.golang.org/grpc/status"
	"google.golang.org/protobuf/proto"
	"google.golang.org/protobuf/types/known/fieldmaskpb"

	"github.com/smart-core-os/sc-api/go/traits"
	"github.com/smart-core-os/sc-golang/pkg/resource"
	"github.com/smart-core-os/sc-golang/pkg/trait/vendingpb"
	"github.com/smart-core-os/sc-golang/verifharness/vcoq"
)

func coqStockBare(s *traits.Consumable_Stock) string {
	return vcoq.App("mkStock", coqQty(s.Used), coqQty(s.Remaining), coqQty(s.LastDispensed), vcoq.Bool(s.Dispensing))
}
func coqConsBare(c *traits.Consumable) string {
	return vcoq.App("mkCons", vcoq.Str(c.Title), vcoq.Str(c.Url))
}
func jsCons(c *traits.Consumable) any {
	if c == nil {
		return nil
	}
	return map[string]any{"name": c.Name, "title": c.Title, "url": c.Url}
}

// vendState reads both collections through the model's List methods. namesOK: every record is listed in
// key order under its own name and Get returns the same record.
func vendState(m *vendingpb.Model) (coq string, js any, namesOK bool) {
	namesOK = true
	var inv, cons []string
	var jsInv, jsC []any
	for _, st := range m.ListInventory() {
		inv = append(inv, vcoq.Pair(vcoq.Str(st.Consumable), coqStockBare(st)))
		jsInv = append(jsInv, jsStock(st))
		if got, ok := m.GetStock(st.Consumable); !ok || !proto.Equal(got, st) {
			namesOK = false
		}
	}
	for _, c := range m.ListConsumables() {
		cons = append(cons, vcoq.Pair(vcoq.Str(c.Name), coqConsBare(c)))
		jsC = append(jsC, jsCons(c))
		if got, ok := m.GetConsumable(c.Name); !ok || !proto.Equal(got, c) {
			namesOK = false
		}
	}
	return vcoq.Pair(vcoq.List(inv), vcoq.List(cons)), map[string]any{"inventory": jsInv, "consumables": jsC}, namesOK
}

var stockPaths = []string{"consumable", "remaining", "used", "last_dispensed", "dispensing"}
var consPaths = []string{"name", "title", "url"}

// someMask: nil (no mask), or any subset of paths (possibly empty), rarely with an unknown field.
func (g *gen) someMask(paths []string) (*fieldmaskpb.FieldMask, []bool, bool) {
	in := make([]bool, len(paths))
	if g.r.Chance(35) {
		return nil, in, false
	}
	fm := &fieldmaskpb.FieldMask{Paths: []string{}}
	for i, p := range paths {
		if g.r.Chance(40) {
			in[i] = true
			fm.Paths = append(fm.Paths, p)
		}
	}
	bad := g.r.Chance(4)
	if bad {
		fm.Paths = append(fm.Paths, "no_such_field")
	}
	// the order of the paths is irrelevant: rotate
	if len(fm.Paths) > 1 {
		k := g.r.Intn(len(fm.Paths))
		fm.Paths = append(fm.Paths[k:], fm.Paths[:k]...)
	}
	return fm, in, bad
}

func coqMaskOpt(ctor string, fm *fieldmaskpb.FieldMask, in []bool, bad bool) string {
	if fm == nil {
		return "None"
	}
	args := make([]string, 0, len(in)+1)
	for _, b := range in {
		args = append(args, vcoq.Bool(b))
	}
	args = append(args, vcoq.Bool(bad))
	return vcoq.Some(vcoq.App(ctor, args...))
}

func jsMask(fm *fieldmaskpb.FieldMask) any {
	if fm == nil {
		return nil
	}
	return append([]string{}, fm.Paths...)
}

func (g *gen) vendStore() {
	nseq := 100 * g.mult
	names := append(append([]string{}, consumablePool...), "tea")
	for s := 0; s < nseq; s++ {
		var opts []resource.Option
		var initStock []*traits.Consumable_Stock
		var initCons []*traits.Consumable
		for _, nm := range names {
			if g.r.Chance(40) {
				st := &traits.Consumable_Stock{Consumable: nm}
				if g.r.Chance(70) {
					st.Used = g.qty()
				}
				if g.r.Chance(70) {
					st.Remaining = g.qty()
				}
				initStock = append(initStock, st)
			}
			if g.r.Chance(40) {
				initCons = append(initCons, &traits.Consumable{Name: nm, Title: "T-" + nm})
			}
		}
		opts = append(opts, vendingpb.WithInitialStock(initStock...), vendingpb.WithInitialConsumable(initCons...))
		if g.r.Bool() {
			opts[0], opts[1] = opts[1], opts[0]
		}
		opts, plain := g.sprinkle(opts, nil)
		cfg := map[string]any{"model": "vendingpb", "initial_stock": jsStocks(initStock), "initial_consumables": len(initCons), "plain_options": plain}
		var m *vendingpb.Model
		if g.try("panic:vendingpb:options", cfg, func() { m = vendingpb.NewModel(opts...); vendState(m) }) {
			continue
		}
		srv := vendingpb.NewModelServer(m)
		var hist []any
		for k := g.r.Range(5, 14); k > 0; k-- {
			name := g.pick(names)
			if g.r.Chance(50) { // mostly records that exist
				var have []string
				for _, st := range m.ListInventory() {
					have = append(have, st.Consumable)
				}
				for _, c := range m.ListConsumables() {
					have = append(have, c.Name)
				}
				if len(have) > 0 {
					name = g.pick(have)
				}
			}
			var preCoq, postCoq, opCoq, obs, tag string
			var preJS, postJS any
			var op map[string]any
			var run func()
			var err error
			okNames := true
			kind := g.r.Intn(100)
			switch {
			case kind < 45: // stock CRUD
				switch sub := g.r.Intn(10); {
				case sub < 3:
					st := &traits.Consumable_Stock{Consumable: name, Dispensing: g.r.Chance(20)}
					if g.r.Chance(10) {
						st.Consumable = "" // the collection invents a name
					}
					if g.r.Bool() {
						st.Used = g.qty()
					}
					if g.r.Bool() {
						st.Remaining = g.qty()
					}
					reqName, payloadCoq := st.Consumable, coqStockBare(st)
					op = map[string]any{"op": "CreateStock", "stock": jsStock(st)}
					tag = "vstore.stock.create"
					var ret *traits.Consumable_Stock
					run = func() {
						ret, err = m.CreateStock(st)
						gen := ""
						if err == nil && reqName == "" {
							gen = ret.Consumable
						}
						opCoq = vcoq.App("VInv", vcoq.App("SCreate", vcoq.Str(reqName), vcoq.Str(gen), payloadCoq))
						if err != nil {
							obs = vcoq.App("RInv", vcoq.App("SErr", vcoq.Z(int64(status.Code(err)))))
						} else {
							obs = vcoq.App("RInv", vcoq.App("SOk", vcoq.Str(ret.Consumable), coqStockBare(ret)))
						}
					}
				case sub < 8:
					st := &traits.Consumable_Stock{Consumable: name, Dispensing: g.r.Chance(30)}
					if g.r.Chance(4) {
						st.Consumable = ""
					}
					if g.r.Chance(60) {
						st.Used = g.qty()
						if g.r.Chance(15) {
							st.Used.Amount = 0 // proto.Merge keeps the stored amount
						}
					}
					if g.r.Chance(60) {
						st.Remaining = g.qty()
						if g.r.Chance(15) {
							st.Remaining.Unit = 0
						}
					}
					if g.r.Chance(30) {
						st.LastDispensed = g.qty()
					}
					fm, in, bad := g.someMask(stockPaths)
					opCoq = vcoq.App("VInv", vcoq.App("SUpdate", vcoq.Str(st.Consumable), coqStockBare(st), coqMaskOpt("mkSM", fm, in, bad)))
					viaRPC := g.r.Bool()
					op = map[string]any{"op": "UpdateStock", "stock": jsStock(st), "update_mask": jsMask(fm), "rpc": viaRPC}
					tag = "vstore.stock.update"
					if fm != nil {
						tag += ".masked"
					}
					run = func() {
						var ret *traits.Consumable_Stock
						if viaRPC {
							ret, err = srv.UpdateStock(context.Background(), &traits.UpdateStockRequest{Stock: st, UpdateMask: fm})
						} else {
							ret, err = m.UpdateStock(st, resource.WithUpdateMask(fm))
						}
						if err != nil {
							obs = vcoq.App("RInv", vcoq.App("SErr", vcoq.Z(int64(status.Code(err)))))
						} else {
							obs = vcoq.App("RInv", vcoq.App("SOk", vcoq.Str(ret.Consumable), coqStockBare(ret)))
						}
					}
				default:
					allow := g.r.Chance(40)
					opCoq = vcoq.App("VInv", vcoq.App("SDelete", vcoq.Str(name), vcoq.Bool(allow)))
					op = map[string]any{"op": "DeleteStock", "consumable": name, "allow_missing": allow}
					tag = "vstore.stock.delete"
					run = func() {
						var ret *traits.Consumable_Stock
						ret, err = m.DeleteStock(name, resource.WithAllowMissing(allow))
						switch {
						case err != nil:
							obs = vcoq.App("RInv", vcoq.App("SErr", vcoq.Z(int64(status.Code(err)))))
						case ret == nil:
							obs = "(RInv SNil)"
						default:
							obs = vcoq.App("RInv", vcoq.App("SOk", vcoq.Str(ret.Consumable), coqStockBare(ret)))
						}
					}
				}
			case kind < 75: // consumable CRUD
				switch sub := g.r.Intn(10); {
				case sub < 3:
					c := &traits.Consumable{Name: name, Title: g.pick([]string{"", "Title", "Other"}), Url: g.pick([]string{"", "http://x"})}
					if g.r.Chance(10) {
						c.Name = ""
					}
					reqName, payloadCoq := c.Name, coqConsBare(c)
					op = map[string]any{"op": "CreateConsumable", "consumable": jsCons(c)}
					tag = "vstore.consumable.create"
					run = func() {
						var ret *traits.Consumable
						ret, err = m.CreateConsumable(c)
						gen := ""
						if err == nil && reqName == "" {
							gen = ret.Name
						}
						opCoq = vcoq.App("VCons", vcoq.App("SCreate", vcoq.Str(reqName), vcoq.Str(gen), payloadCoq))
						if err != nil {
							obs = vcoq.App("RCons", vcoq.App("SErr", vcoq.Z(int64(status.Code(err)))))
						} else {
							obs = vcoq.App("RCons", vcoq.App("SOk", vcoq.Str(ret.Name), coqConsBare(ret)))
						}
					}
				case sub < 8:
					c := &traits.Consumable{Name: name, Title: g.pick([]string{"", "Title", "Other"}), Url: g.pick([]string{"", "http://x", "http://y"})}
					if g.r.Chance(4) {
						c.Name = ""
					}
					fm, in, bad := g.someMask(consPaths)
					opCoq = vcoq.App("VCons", vcoq.App("SUpdate", vcoq.Str(c.Name), coqConsBare(c), coqMaskOpt("mkCM", fm, in, bad)))
					op = map[string]any{"op": "UpdateConsumable", "consumable": jsCons(c), "update_mask": jsMask(fm)}
					tag = "vstore.consumable.update"
					if fm != nil {
						tag += ".masked"
					}
					run = func() {
						var ret *traits.Consumable
						ret, err = m.UpdateConsumable(c, resource.WithUpdateMask(fm))
						if err != nil {
							obs = vcoq.App("RCons", vcoq.App("SErr", vcoq.Z(int64(status.Code(err)))))
						} else {
							obs = vcoq.App("RCons", vcoq.App("SOk", vcoq.Str(ret.Name), coqConsBare(ret)))
						}
					}
				default:
					allow := g.r.Chance(40)
					opCoq = vcoq.App("VCons", vcoq.App("SDelete", vcoq.Str(name), vcoq.Bool(allow)))
					op = map[string]any{"op": "DeleteConsumable", "name": name, "allow_missing": allow}
					tag = "vstore.consumable.delete"
					run = func() {
						var ret *traits.Consumable
						ret, err = m.DeleteConsumable(name, resource.WithAllowMissing(allow))
						switch {
						case err != nil:
							obs = vcoq.App("RCons", vcoq.App("SErr", vcoq.Z(int64(status.Code(err)))))
						case ret == nil:
							obs = "(RCons SNil)"
						default:
							obs = vcoq.App("RCons", vcoq.App("SOk", vcoq.Str(ret.Name), coqConsBare(ret)))
						}
					}
				}
			default: // dispense in the middle of the CRUD traffic
				q := g.qty()
				if pre, ok := m.GetStock(name); ok && g.r.Chance(70) {
					switch {
					case pre.Used != nil && pre.Used.Unit != 0:
						q.Unit = pre.Used.Unit
					case pre.Remaining != nil && pre.Remaining.Unit != 0:
						q.Unit = pre.Remaining.Unit
					}
				}
				opCoq = vcoq.App("VDispense", vcoq.Str(name), vcoq.App("mkQty", vcoq.Z(int64(q.Unit)), coqQ(float64(q.Amount))))
				op = map[string]any{"op": "Dispense", "consumable": name, "quantity": jsQty(q)}
				tag = "vstore.dispense"
				run = func() {
					var ret *traits.Consumable_Stock
					ret, err = m.DispenseInstantly(name, q)
					switch {
					case err != nil:
						obs = vcoq.App("RDisp", vcoq.App("VErr", vcoq.Z(int64(status.Code(err)))))
					case ret == nil:
						obs = "(RDisp VNilNil)"
					default:
						obs = vcoq.App("RDisp", vcoq.App("VStock", coqStockBare(ret)))
					}
				}
			}
			hist = append(hist, op)
			replay := map[string]any{"config": cfg, "ops": append([]any{}, hist...)}
			var n1, n2 bool
			preCoq, preJS, n1 = vendState(m)
			if g.try("panic:vendingpb:crud", replay, run) {
				break
			}
			if g.try("panic:vendingpb:crud", replay, func() { postCoq, postJS, n2 = vendState(m) }) {
				break
			}
			okNames = n1 && n2
			if err != nil {
				tag += ".error"
			}
			g.add(vcoq.App("KVStore", preCoq, vcoq.Bool(okNames), opCoq, obs, postCoq),
				map[string]any{"config": cfg, "pre": preJS, "op": op, "answer": obs, "error": errCode(err), "post": postJS, "history": fmt.Sprint(len(hist))}, tag)
		}
	}
}
