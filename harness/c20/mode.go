package main

import (
	"context"
	"math"
	"sort"

	"google.golang.org/grpc/status"
	"google.golang.org/protobuf/types/known/fieldmaskpb"

	"github.com/smart-core-os/sc-api/go/traits"
	"github.com/smart-core-os/sc-golang/pkg/trait/modepb"
	"github.com/smart-core-os/sc-golang/verifharness/vcoq"
)

var modeNames = []string{"temperature", "spin", "speed", "eco"}
var modeValuePool = []string{"auto", "slow", "fast", "delicates", "medium", "whites", "on", "off"}

func coqModes(ms *traits.Modes) string {
	it := make([]string, len(ms.Modes))
	for i, m := range ms.Modes {
		vs := make([]string, len(m.Values))
		for j, v := range m.Values {
			vs[j] = v.Name
		}
		it[i] = vcoq.Pair(vcoq.Str(m.Name), coqStrs(vs))
	}
	return vcoq.List(it)
}
func jsModes(ms *traits.Modes) any {
	out := []any{}
	for _, m := range ms.Modes {
		vs := []string{}
		for _, v := range m.Values {
			vs = append(vs, v.Name)
		}
		out = append(out, map[string]any{"name": m.Name, "values": vs})
	}
	return out
}
func coqMap(m map[string]string) string {
	keys := make([]string, 0, len(m))
	for k := range m {
		keys = append(keys, k)
	}
	sort.Strings(keys)
	it := make([]string, len(keys))
	for i, k := range keys {
		it[i] = vcoq.Pair(vcoq.Str(k), vcoq.Str(m[k]))
	}
	return vcoq.List(it)
}
func coqRel(m map[string]int32) string {
	keys := make([]string, 0, len(m))
	for k := range m {
		keys = append(keys, k)
	}
	sort.Strings(keys)
	it := make([]string, len(keys))
	for i, k := range keys {
		it[i] = vcoq.Pair(vcoq.Str(k), vcoq.Z(int64(m[k])))
	}
	return vcoq.List(it)
}
func copyMap(m map[string]string) map[string]string {
	out := map[string]string{}
	for k, v := range m {
		out[k] = v
	}
	return out
}

func (g *gen) mode() {
	nseq := 60 * g.mult
	for s := 0; s < nseq; s++ {
		custom := g.r.Chance(75)
		given := modepb.DefaultModes
		if custom {
			given = &traits.Modes{}
			perm := g.r.Intn(len(modeNames))
			for i := g.r.Range(1, 3); i > 0; i-- {
				md := &traits.Modes_Mode{Name: modeNames[(perm+i)%len(modeNames)], Ordered: g.r.Bool()}
				off := g.r.Intn(len(modeValuePool))
				for j := g.r.Range(1, 4); j > 0; j-- {
					md.Values = append(md.Values, &traits.Modes_Value{Name: modeValuePool[(off+j)%len(modeValuePool)]})
				}
				given.Modes = append(given.Modes, md)
			}
		}
		cfg := map[string]any{"model": "modepb", "modes": jsModes(given), "custom": custom}
		var m *modepb.Model
		if g.try("panic:modepb:new", cfg, func() {
			if custom {
				m = modepb.NewModelModes(given)
			} else {
				m = modepb.NewModel()
			}
		}) {
			continue
		}
		g.add(vcoq.App("KModeConfig", coqModes(given), coqModes(m.Modes()), coqMap(m.ModeValues().Values)),
			map[string]any{"config": cfg, "modes": jsModes(m.Modes()), "values": m.ModeValues().Values}, "mode.config")
		srv := modepb.NewModelServer(m)
		var hist []any
		for k := g.r.Range(3, 10); k > 0; k-- {
			req := &traits.UpdateModeValuesRequest{}
			abs := map[string]string{}
			if g.r.Chance(35) {
				for _, md := range given.Modes {
					if g.r.Bool() {
						abs[md.Name] = md.Values[g.r.Intn(len(md.Values))].Name
					}
				}
				if g.r.Chance(10) {
					abs[g.pick(modeNames)] = "bogus"
				}
				req.ModeValues = &traits.ModeValues{Values: copyMap(abs)}
			} else if g.r.Chance(20) {
				req.ModeValues = &traits.ModeValues{}
			}
			rel := map[string]int32{}
			if g.r.Chance(75) {
				for _, md := range given.Modes {
					if g.r.Chance(60) {
						rel[md.Name] = int32(g.r.Range(-7, 7))
						if g.r.Chance(3) {
							rel[md.Name] = math.MinInt32 + int32(g.r.Intn(3))
						}
					}
				}
				if g.r.Chance(10) {
					rel[g.pick(modeNames)] = int32(g.r.Range(-2, 2))
				}
				req.Relative = &traits.ModeValuesRelative{Values: rel}
			}
			mask := 0
			switch g.r.Intn(10) {
			case 0, 1, 2:
				mask = 1
				req.UpdateMask = &fieldmaskpb.FieldMask{Paths: []string{"values"}}
			case 3:
				mask = 2
				req.UpdateMask = &fieldmaskpb.FieldMask{}
			}
			op := map[string]any{"op": "UpdateModeValues", "mode_values": abs, "relative": rel, "mask": mask}
			hist = append(hist, op)
			replay := map[string]any{"config": cfg, "ops": append([]any{}, hist...)}
			pre := m.ModeValues().Values
			var ret *traits.ModeValues
			var err error
			if g.try("panic:modepb:update", replay, func() {
				ret, err = srv.UpdateModeValues(context.Background(), req)
			}) {
				break
			}
			post := m.ModeValues().Values
			obs, tag := "None", "mode.error"
			var retJ any
			if err == nil {
				obs, tag, retJ = vcoq.Some(coqMap(ret.Values)), "mode.ok", ret.Values
				if len(rel) > 0 {
					tag = "mode.ok.relative"
				}
			}
			g.add(vcoq.App("KMode", coqModes(given), coqMap(pre), coqMap(abs), coqRel(rel), vcoq.Int(mask), obs, coqMap(post)),
				map[string]any{"config": cfg, "pre": pre, "op": op, "returned": retJ, "error": errCode(err), "post": post}, tag)
		}
	}
}

var _ = status.Code
