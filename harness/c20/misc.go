package main

import (
	"context"
	"fmt"
	"math"
	"time"

	"google.golang.org/grpc/status"
	"google.golang.org/protobuf/types/known/fieldmaskpb"
	"google.golang.org/protobuf/types/known/timestamppb"

	"github.com/smart-core-os/sc-api/go/traits"
	"github.com/smart-core-os/sc-golang/pkg/resource"
	"github.com/smart-core-os/sc-golang/pkg/trait/enterleavesensorpb"
	"github.com/smart-core-os/sc-golang/pkg/trait/meterpb"
	"github.com/smart-core-os/sc-golang/pkg/trait/publicationpb"
	"github.com/smart-core-os/sc-golang/verifharness/vcoq"
)

// fakeClock is the clock given to the models: whole seconds, set by the harness before each operation.
type fakeClock struct{ sec int64 }

func (c *fakeClock) Now() time.Time { return time.Unix(c.sec, 0) }

func coqOptTime(t *timestamppb.Timestamp) string {
	if t == nil {
		return "None"
	}
	if t.Nanos != 0 {
		panic("fake clock yields whole seconds")
	}
	return vcoq.Some(vcoq.Z(t.Seconds))
}
func jsTime(t *timestamppb.Timestamp) any {
	if t == nil {
		return nil
	}
	return t.Seconds
}
func coqOptI32(p *int32) string {
	if p == nil {
		return "None"
	}
	return vcoq.Some(vcoq.Z(int64(*p)))
}
func jsI32(p *int32) any {
	if p == nil {
		return nil
	}
	return *p
}

// ---- enter/leave ----

func coqEl(e *traits.EnterLeaveEvent) string {
	occ := "None"
	if e.Occupant != nil {
		occ = vcoq.Some(vcoq.Str(occKey(e.Occupant)))
	}
	return vcoq.App("mkEl", vcoq.Z(int64(e.Direction)), occ, coqOptI32(e.EnterTotal), coqOptI32(e.LeaveTotal))
}
// occKey renders the occupant fields the harness varies (the model treats the occupant as opaque).
func occKey(o *traits.EnterLeaveEvent_Occupant) string {
	return fmt.Sprintf("%s|%s|%s|%v", o.Name, o.Title, o.Email, o.Ids)
}

func jsEl(e *traits.EnterLeaveEvent) any {
	var occ any
	if e.Occupant != nil {
		occ = occKey(e.Occupant)
	}
	return map[string]any{"direction": int32(e.Direction), "occupant": occ, "enter_total": jsI32(e.EnterTotal), "leave_total": jsI32(e.LeaveTotal)}
}

func (g *gen) enterLeave() {
	nseq := 40 * g.mult
	for s := 0; s < nseq; s++ {
		var opts []resource.Option
		cfg := map[string]any{"model": "enterleavesensorpb"}
		if g.r.Chance(50) {
			init := &traits.EnterLeaveEvent{}
			if g.r.Chance(70) {
				v := int32(g.r.Intn(50))
				if g.r.Chance(5) {
					v = math.MaxInt32
				}
				init.EnterTotal = &v
			}
			if g.r.Chance(70) {
				v := int32(g.r.Intn(50))
				init.LeaveTotal = &v
			}
			opts = append(opts, enterleavesensorpb.WithInitialEnterLeaveEvent(init))
			cfg["initial"] = jsEl(init)
		}
		opts, plain := g.sprinkle(opts, nil)
		cfg["plain_options"] = plain
		m := enterleavesensorpb.NewModel(opts...)
		srv := enterleavesensorpb.NewModelServer(m)
		var hist []any
		for k := g.r.Range(4, 12); k > 0; k-- {
			pre, _ := m.GetEnterLeaveEvent()
			var op map[string]any
			var opCoq, tag string
			var run func() error
			if g.r.Chance(15) {
				viaRPC := g.r.Bool()
				op, opCoq, tag = map[string]any{"op": "ResetTotals", "rpc": viaRPC}, "ElReset", "enterleave.reset"
				run = func() error {
					if viaRPC {
						_, err := srv.ResetEnterLeaveTotals(context.Background(), &traits.ResetEnterLeaveTotalsRequest{})
						return err
					}
					return m.ResetTotals()
				}
			} else {
				ev := &traits.EnterLeaveEvent{Direction: traits.EnterLeaveEvent_Direction(g.r.Intn(3))}
				if g.r.Chance(40) {
					ev.Occupant = &traits.EnterLeaveEvent_Occupant{Name: g.pick([]string{"alice", "bob", ""})}
					if g.r.Chance(40) {
						ev.Occupant.Title, ev.Occupant.Email = g.pick([]string{"Dr", ""}), g.pick([]string{"a@example.com", ""})
					}
					if g.r.Chance(20) {
						ev.Occupant.Ids = map[string]string{"badge": g.pick([]string{"17", "42"})}
					}
				}
				total := func(cur *int32) *int32 {
					switch g.r.Intn(10) {
					case 0: // the current value: treated as "not supplied"
						v := int32(0)
						if cur != nil {
							v = *cur
						}
						return &v
					case 1:
						v := int32(g.r.Intn(100))
						return &v
					}
					return nil
				}
				ev.EnterTotal, ev.LeaveTotal = total(pre.EnterTotal), total(pre.LeaveTotal)
				op, opCoq, tag = map[string]any{"op": "CreateEnterLeaveEvent", "event": jsEl(ev)}, vcoq.App("ElEvent", coqEl(ev)), "enterleave.event"
				run = func() error { return m.CreateEnterLeaveEvent(ev) }
			}
			hist = append(hist, op)
			replay := map[string]any{"config": cfg, "ops": append([]any{}, hist...)}
			var err error
			if g.try("panic:enterleavesensorpb", replay, func() { err = run() }) {
				break
			}
			if err != nil {
				g.direct("enter/leave operation failed: "+status.Code(err).String(), "enterleavesensorpb:error", replay)
				break
			}
			post, _ := m.GetEnterLeaveEvent()
			g.add(vcoq.App("KEnterLeave", coqEl(pre), opCoq, coqEl(post)),
				map[string]any{"config": cfg, "pre": jsEl(pre), "op": op, "post": jsEl(post)}, tag)
		}
	}
}

// ---- meter ----

func coqMeter(r *traits.MeterReading) string {
	u := float64(r.Usage)
	if u != math.Trunc(u) {
		panic("non-integral usage generated")
	}
	return vcoq.App("mkMeter", vcoq.Z(int64(u)), coqOptTime(r.StartTime), coqOptTime(r.EndTime))
}
func jsMeter(r *traits.MeterReading) any {
	if r == nil {
		return nil
	}
	return map[string]any{"usage": r.Usage, "start_time": jsTime(r.StartTime), "end_time": jsTime(r.EndTime)}
}

func (g *gen) meter() {
	nseq := 40 * g.mult
	for s := 0; s < nseq; s++ {
		clk := &fakeClock{sec: 1_700_000_000 + int64(g.r.Intn(1000))}
		opts := []resource.Option{resource.WithClock(clk)}
		cfg := map[string]any{"model": "meterpb", "clock": clk.sec}
		initCoq := "None"
		if g.r.Chance(60) {
			init := &traits.MeterReading{Usage: float32(g.r.Intn(500))}
			a := clk.sec - int64(g.r.Range(10, 100))
			b := a + int64(g.r.Intn(10))
			sub := g.r.Intn(4)
			if sub&1 != 0 {
				init.StartTime = timestamppb.New(time.Unix(a, 0))
			}
			if sub&2 != 0 {
				init.EndTime = timestamppb.New(time.Unix(b, 0))
			}
			if g.r.Chance(30) { // an earlier initial value that the later one replaces
				opts = append(opts, resource.WithInitialValue(&traits.MeterReading{Usage: 77, StartTime: timestamppb.New(time.Unix(3, 0))}))
			}
			opts = append(opts, resource.WithInitialValue(init))
			cfg["initial"] = jsMeter(init)
			initCoq = vcoq.Some(coqMeter(init))
		}
		opts, plain := g.sprinkle(opts, clk)
		cfg["plain_options"] = plain
		var m *meterpb.Model
		if g.try("panic:meterpb:new", cfg, func() { m = meterpb.NewModel(opts...) }) {
			continue
		}
		first, _ := m.GetMeterReading()
		g.add(vcoq.App("KMeterNew", initCoq, vcoq.Z(clk.sec), coqMeter(first)),
			map[string]any{"config": cfg, "reading": jsMeter(first)}, "meter.new")
		var hist []any
		for k := g.r.Range(3, 9); k > 0; k-- {
			clk.sec += int64(g.r.Intn(6))
			pre, _ := m.GetMeterReading()
			var op map[string]any
			var opCoq, tag string
			var ret *traits.MeterReading
			var err error
			var run func()
			if g.r.Chance(25) {
				op, opCoq, tag = map[string]any{"op": "Reset", "now": clk.sec}, vcoq.App("MReset", vcoq.Z(clk.sec)), "meter.reset"
				run = func() { ret, err = m.Reset() }
			} else {
				v := float32(g.r.Intn(1000))
				if g.r.Chance(15) {
					v = 0
				}
				op, opCoq, tag = map[string]any{"op": "RecordReading", "usage": v, "now": clk.sec}, vcoq.App("MRecord", vcoq.Z(int64(v)), vcoq.Z(clk.sec)), "meter.record"
				run = func() { ret, err = m.RecordReading(v) }
			}
			hist = append(hist, op)
			replay := map[string]any{"config": cfg, "ops": append([]any{}, hist...)}
			if g.try("panic:meterpb", replay, run) {
				break
			}
			if err != nil {
				g.direct("meter operation failed: "+status.Code(err).String(), "meterpb:error", replay)
				break
			}
			post, _ := m.GetMeterReading()
			g.add(vcoq.App("KMeter", coqMeter(pre), opCoq, coqMeter(ret), coqMeter(post)),
				map[string]any{"config": cfg, "pre": jsMeter(pre), "op": op, "returned": jsMeter(ret), "post": jsMeter(post)}, tag)
		}
	}
}

// ---- publication ----

func coqPub(p *traits.Publication) string {
	if p == nil {
		return "None"
	}
	a := "None"
	if p.Audience != nil {
		a = vcoq.Some(vcoq.App("mkAud", vcoq.Str(p.Audience.Name), vcoq.Z(int64(p.Audience.Receipt)),
			vcoq.Str(p.Audience.ReceiptRejectedReason), coqOptTime(p.Audience.ReceiptTime)))
	}
	return vcoq.Some(vcoq.App("mkPub", vcoq.Str(p.Id), vcoq.Str(p.Version), vcoq.Str(string(p.Body)), vcoq.Str(p.MediaType), a, coqOptTime(p.PublishTime)))
}
func coqPubBare(p *traits.Publication) string {
	s := coqPub(p)
	return s[len("(Some ") : len(s)-1]
}
func jsPub(p *traits.Publication) any {
	if p == nil {
		return nil
	}
	var a any
	if p.Audience != nil {
		a = map[string]any{"name": p.Audience.Name, "receipt": int32(p.Audience.Receipt), "reason": p.Audience.ReceiptRejectedReason, "receipt_time": jsTime(p.Audience.ReceiptTime)}
	}
	return map[string]any{"id": p.Id, "version": p.Version, "body": string(p.Body), "media_type": p.MediaType, "audience": a, "publish_time": jsTime(p.PublishTime)}
}

var pubIDs = []string{"p1", "p2", "cfg/a"}
var pubBodies = []string{"", "hello", "{\"a\":1}", "hello2"}
var pubMedia = []string{"", "text/plain", "application/json"}
var pubAud = []string{"dev1", "dev2", ""}

func (g *gen) somePub(id string) *traits.Publication {
	p := &traits.Publication{Id: id, Body: []byte(g.pick(pubBodies)), MediaType: g.pick(pubMedia)}
	if g.r.Chance(70) {
		p.Audience = &traits.Publication_Audience{Name: g.pick(pubAud)}
		if g.r.Chance(30) { // stale receipt fields sent by the client must be reset
			p.Audience.Receipt = traits.Publication_Audience_Receipt(g.r.Intn(4))
			p.Audience.ReceiptRejectedReason = "old"
			p.Audience.ReceiptTime = timestamppb.New(time.Unix(5, 0))
		}
	}
	if g.r.Chance(20) {
		p.Version = "client-version"
		p.PublishTime = timestamppb.New(time.Unix(7, 0))
	}
	return p
}

var pubPaths = []string{"id", "version", "body", "media_type", "publish_time", "audience",
	"audience.name", "audience.receipt", "audience.receipt_rejected_reason", "audience.receipt_time"}

// pubMask: nil, or any subset of the publication paths (nested audience paths included), rarely an unknown field.
func (g *gen) pubMask() (*fieldmaskpb.FieldMask, string) {
	if g.r.Chance(30) {
		return nil, "None"
	}
	in := make([]bool, len(pubPaths))
	switch g.r.Intn(10) {
	case 0:
		in[6] = true // audience.name alone
	case 1:
		in[5] = true // the whole audience
	case 2:
		in[2] = true
	case 3:
		in[2], in[3] = true, true
	case 4: // nothing: a mask without paths
	default:
		for i := range in {
			in[i] = g.r.Chance(25)
		}
	}
	fm := &fieldmaskpb.FieldMask{Paths: []string{}}
	args := make([]string, 0, len(in)+1)
	for i, b := range in {
		if b {
			fm.Paths = append(fm.Paths, pubPaths[i])
		}
		args = append(args, vcoq.Bool(b))
	}
	bad := g.r.Chance(3)
	if bad {
		fm.Paths = append(fm.Paths, "audience.no_such_field")
	}
	args = append(args, vcoq.Bool(bad))
	if len(fm.Paths) > 1 {
		k := g.r.Intn(len(fm.Paths))
		fm.Paths = append(fm.Paths[k:], fm.Paths[:k]...)
	}
	return fm, vcoq.Some(vcoq.App("mkPM", args...))
}

// refVersions answers "which version does a server mint for a publication with this content": the version
// a fresh model server gives a newly created publication with the same id, body, media type and audience name.
type refVersions map[string]string

func (rv refVersions) of(p *traits.Publication) string {
	if p == nil {
		return ""
	}
	key := fmt.Sprintf("%q %q %q %q", p.Id, p.Body, p.MediaType, p.GetAudience().GetName())
	if v, ok := rv[key]; ok {
		return v
	}
	q := &traits.Publication{Id: p.Id, Body: append([]byte{}, p.Body...), MediaType: p.MediaType}
	if n := p.GetAudience().GetName(); n != "" {
		q.Audience = &traits.Publication_Audience{Name: n}
	}
	created, err := publicationpb.NewModelServer(publicationpb.NewModel()).CreatePublication(context.Background(), &traits.CreatePublicationRequest{Publication: q})
	if err != nil {
		panic(err)
	}
	rv[key] = created.Version
	return created.Version
}

func (g *gen) publication() {
	nseq := 120 * g.mult
	ref := refVersions{}
	for s := 0; s < nseq; s++ {
		clk := &fakeClock{sec: 1_700_000_000}
		opts := []resource.Option{resource.WithClock(clk)}
		cfg := map[string]any{"model": "publicationpb"}
		if g.r.Chance(30) { // an initial record, stored as configured
			p := g.somePub(g.pick(pubIDs))
			if g.r.Bool() {
				p.Version = ref.of(p)
			}
			opts = append(opts, publicationpb.WithInitialPublication(p))
			cfg["initial"] = jsPub(p)
		}
		opts, plain := g.sprinkle(opts, clk)
		cfg["plain_options"] = plain
		var m *publicationpb.Model
		if g.try("panic:publicationpb:new", cfg, func() { m = publicationpb.NewModel(opts...) }) {
			continue
		}
		srv := publicationpb.NewModelServer(m)
		var hist []any
		oldVersions := map[string]string{}
		for k := g.r.Range(5, 16); k > 0; k-- {
			clk.sec += int64(g.r.Range(1, 5))
			id := g.pick(pubIDs)
			pre, _ := m.GetPublication(id)
			version := func() string {
				switch {
				case pre != nil && g.r.Chance(60):
					return pre.Version
				case oldVersions[id] != "" && g.r.Chance(70):
					return oldVersions[id]
				case g.r.Chance(50):
					return ""
				}
				return "deadbeef"
			}
			var op map[string]any
			var opCoq, tag string
			var ret *traits.Publication
			var err error
			var run func()
			switch kind := g.r.Intn(20); {
			case kind < 4 || (pre == nil && kind < 12):
				p := g.somePub(id)
				op, opCoq, tag = map[string]any{"op": "CreatePublication", "publication": jsPub(p)}, vcoq.App("PCreate", coqPubBare(p)), "publication.create"
				run = func() {
					ret, err = srv.CreatePublication(context.Background(), &traits.CreatePublicationRequest{Publication: p})
				}
			case kind < 11:
				p := g.somePub(id)
				if g.r.Chance(4) {
					p.Id = ""
				}
				if p.Audience != nil && g.r.Chance(10) {
					p.Audience.Name = "" // an audience without a name
				}
				fm, maskCoq := g.pubMask()
				req := &traits.UpdatePublicationRequest{Publication: p, Version: version(), UpdateMask: fm}
				if g.r.Chance(40) {
					req.Version = ""
				}
				op = map[string]any{"op": "UpdatePublication", "publication": jsPub(p), "update_mask": jsMask(fm), "version": req.Version}
				opCoq, tag = vcoq.App("PUpdate", coqPubBare(p), maskCoq, vcoq.Str(req.Version)), "publication.update"
				if fm != nil {
					tag = "publication.update.masked"
				}
				run = func() { ret, err = srv.UpdatePublication(context.Background(), req) }
			case kind < 12:
				req := &traits.DeletePublicationRequest{Id: id, Version: version(), AllowMissing: g.r.Chance(40)}
				if g.r.Chance(40) {
					req.Version = ""
				}
				if g.r.Chance(5) {
					req.Id = ""
				}
				op = map[string]any{"op": "DeletePublication", "id": req.Id, "version": req.Version, "allow_missing": req.AllowMissing}
				opCoq, tag = vcoq.App("PDelete", vcoq.Str(req.Id), vcoq.Str(req.Version), vcoq.Bool(req.AllowMissing)), "publication.delete"
				run = func() {
					ret, err = srv.DeletePublication(context.Background(), req)
					if err != nil {
						ret = nil // a server answers with the error alone
					}
				}
			default:
				req := &traits.AcknowledgePublicationRequest{Id: id, Version: version(), AllowAcknowledged: g.r.Chance(40),
					Receipt: traits.Publication_Audience_Receipt(2 + g.r.Intn(2))}
				if g.r.Chance(10) {
					req.Receipt = traits.Publication_Audience_Receipt(g.r.Intn(2))
				}
				if req.Receipt == traits.Publication_Audience_REJECTED || g.r.Chance(10) {
					req.ReceiptRejectedReason = g.pick([]string{"bad format", "too big", ""})
				}
				if g.r.Chance(3) {
					req.Id = ""
				}
				op = map[string]any{"op": "AcknowledgePublication", "id": req.Id, "version": req.Version, "receipt": int32(req.Receipt),
					"reason": req.ReceiptRejectedReason, "allow_acknowledged": req.AllowAcknowledged}
				opCoq = vcoq.App("PAck", vcoq.Str(req.Id), vcoq.Str(req.Version), vcoq.Z(int64(req.Receipt)), vcoq.Str(req.ReceiptRejectedReason), vcoq.Bool(req.AllowAcknowledged))
				tag = "publication.ack"
				run = func() { ret, err = srv.AcknowledgePublication(context.Background(), req) }
			}
			hist = append(hist, op)
			replay := map[string]any{"config": cfg, "ops": append([]any{}, hist...)}
			preCoq, preJS := coqPub(pre), jsPub(pre) // before the call
			if g.try("panic:publicationpb", replay, run) {
				break
			}
			post, _ := m.GetPublication(id)
			obs := ""
			switch {
			case err != nil:
				obs = vcoq.App("PErr", vcoq.Z(int64(status.Code(err))))
				tag += ".error"
			case ret == nil:
				obs = "PNil"
			default:
				obs = vcoq.App("POk", coqPubBare(ret))
			}
			if pre != nil && post != nil && pre.Version != post.Version {
				oldVersions[id] = pre.Version
			}
			// the version the content before / after the operation should carry
			hpre, hpost := ref.of(pre), ref.of(post)
			g.add(vcoq.App("KPub", vcoq.Z(clk.sec), preCoq, opCoq, obs, coqPub(post), vcoq.Str(hpre), vcoq.Str(hpost)),
				map[string]any{"config": cfg, "now": clk.sec, "pre": preJS, "op": op, "returned": jsPub(ret), "error": errCode(err), "post": jsPub(post),
					"version_of_content_before": hpre, "version_of_content_after": hpost}, tag)
		}
	}
}
