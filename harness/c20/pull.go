package main

// Pull / stream methods of the trait models built on one resource.Value: a subscriber is attached before the
// first operation (after its seed has arrived when not updates_only), a goroutine drains the channel, and after
// every accepted operation the harness waits (polling, generous bound) until the change has arrived. One case
// per sequence: initial value, operations with clock readings, which were accepted, the stream received
// (value, change time) and the getter after every operation. A sequence in which a wait times out is discarded
// (timing, not behaviour); if every sequence of a model is discarded that is reported.

import (
	"context"
	"sync"
	"time"

	"google.golang.org/protobuf/proto"

	"github.com/smart-core-os/sc-api/go/traits"
	"github.com/smart-core-os/sc-golang/pkg/resource"
	"github.com/smart-core-os/sc-golang/pkg/trait/enterleavesensorpb"
	"github.com/smart-core-os/sc-golang/pkg/trait/fanspeedpb"
	"github.com/smart-core-os/sc-golang/pkg/trait/meterpb"
	"github.com/smart-core-os/sc-golang/verifharness/vcoq"
	"github.com/smart-core-os/sc-golang/verifharness/vmsg"
)

type collector struct {
	mu     sync.Mutex
	coq    []string
	js     []any
	done   chan struct{}
	cancel context.CancelFunc
}

func collect[T any](cancel context.CancelFunc, ch <-chan T, f func(T) (string, any)) *collector {
	c := &collector{done: make(chan struct{}), cancel: cancel}
	go func() {
		defer close(c.done)
		for x := range ch {
			s, j := f(x)
			c.mu.Lock()
			c.coq = append(c.coq, s)
			c.js = append(c.js, j)
			c.mu.Unlock()
		}
	}()
	return c
}

// waitLen waits until n changes have arrived (true) or 20 s have passed (false).
func (c *collector) waitLen(n int) bool {
	deadline := time.Now().Add(20 * time.Second)
	for {
		c.mu.Lock()
		l := len(c.coq)
		c.mu.Unlock()
		if l >= n {
			return true
		}
		if time.Now().After(deadline) {
			return false
		}
		time.Sleep(200 * time.Microsecond)
	}
}

func (c *collector) stop() ([]string, []any) {
	c.cancel()
	select {
	case <-c.done:
	case <-time.After(20 * time.Second):
	}
	c.mu.Lock()
	defer c.mu.Unlock()
	return append([]string{}, c.coq...), append([]any{}, c.js...)
}

func withTime(v string, t time.Time) string { return vcoq.Pair(v, vcoq.Z(t.Unix())) }

type pullSeq struct {
	g                 *gen
	col               *collector
	expected          int
	ops, acc, gets    []string
	opsJS, getsJS     []any
	timedOut, stopped bool
}

// after records one executed operation: its Coq text, the clock reading, whether it was accepted, the getter.
func (p *pullSeq) after(opCoq string, opJS any, now int64, accepted, expectEvent bool, getCoq string, getJS any) {
	p.ops = append(p.ops, vcoq.Pair(opCoq, vcoq.Z(now)))
	p.opsJS = append(p.opsJS, opJS)
	p.acc = append(p.acc, vcoq.Bool(accepted))
	p.gets = append(p.gets, getCoq)
	p.getsJS = append(p.getsJS, getJS)
	if expectEvent {
		p.expected++
		if !p.col.waitLen(p.expected) {
			p.timedOut = true
		}
	}
}

func (g *gen) pulls() {
	nseq := 25 * g.mult
	type stat struct{ tried, done int }
	stats := map[string]*stat{"enterleave": {}, "meter": {}, "fan": {}}
	emit := func(model, ctor string, uo bool, extra []string, s0 string, t0 int64, p *pullSeq, cfg map[string]any) {
		stats[model].tried++
		stream, streamJS := p.col.stop()
		if p.timedOut {
			return
		}
		stats[model].done++
		args := append([]string{vcoq.Bool(uo)}, extra...)
		args = append(args, s0, vcoq.Z(t0), vcoq.List(p.ops), vcoq.List(p.acc), vcoq.List(stream), vcoq.List(p.gets))
		tag := "pull." + model
		if uo {
			tag += ".updates_only"
		}
		g.add(vcoq.App(ctor, args...), map[string]any{"config": cfg, "updates_only": uo, "ops": p.opsJS, "stream": streamJS, "getter_after_each_op": p.getsJS}, tag)
	}

	for s := 0; s < nseq; s++ {
		// ---- enter/leave ----
		{
			clk := &fakeClock{sec: 1_700_000_000 + int64(g.r.Intn(1000))}
			init := &traits.EnterLeaveEvent{}
			if g.r.Chance(60) {
				v := int32(g.r.Intn(50))
				init.EnterTotal = &v
			}
			if g.r.Chance(60) {
				v := int32(g.r.Intn(50))
				init.LeaveTotal = &v
			}
			cfg := map[string]any{"model": "enterleavesensorpb", "initial": jsEl(init), "clock": clk.sec}
			m := enterleavesensorpb.NewModel(resource.WithClock(clk), enterleavesensorpb.WithInitialEnterLeaveEvent(init))
			if g.r.Chance(60) { // an event before the subscription: the seed must not carry its occupant / direction
				_ = m.CreateEnterLeaveEvent(&traits.EnterLeaveEvent{Direction: traits.EnterLeaveEvent_ENTER, Occupant: &traits.EnterLeaveEvent_Occupant{Name: "carol"}})
			}
			s0, _ := m.GetEnterLeaveEvent()
			uo := false // PullEnterLeaveEvents subscribes from a goroutine: only the seed tells when it has
			ctx, cancel := context.WithCancel(context.Background())
			p := &pullSeq{g: g}
			p.col = collect(cancel, m.PullEnterLeaveEvents(ctx, resource.WithUpdatesOnly(uo)), func(c enterleavesensorpb.EnterLeaveEventChange) (string, any) {
				return withTime(coqEl(c.Value), c.ChangeTime), map[string]any{"value": jsEl(c.Value), "change_time": c.ChangeTime.Unix()}
			})
			p.expected = 1
			p.timedOut = !p.col.waitLen(1)
			t0 := clk.sec
			for k := g.r.Range(2, 8); k > 0 && !p.timedOut; k-- {
				clk.sec += int64(g.r.Range(1, 5))
				var opCoq string
				var opJS any
				var err error
				if g.r.Chance(15) {
					opCoq, opJS = "ElReset", map[string]any{"op": "ResetTotals"}
					err = m.ResetTotals()
				} else {
					ev := &traits.EnterLeaveEvent{Direction: traits.EnterLeaveEvent_Direction(g.r.Intn(3))}
					if g.r.Chance(40) {
						ev.Occupant = &traits.EnterLeaveEvent_Occupant{Name: g.pick([]string{"alice", "bob", ""})}
					}
					if g.r.Chance(10) {
						v := int32(g.r.Intn(100))
						ev.EnterTotal = &v
					}
					opCoq, opJS = vcoq.App("ElEvent", coqEl(ev)), map[string]any{"op": "CreateEnterLeaveEvent", "event": jsEl(ev)}
					err = m.CreateEnterLeaveEvent(ev)
				}
				if err != nil { // only the bus timeout can fail here: timing
					p.timedOut = true
					break
				}
				get, _ := m.GetEnterLeaveEvent()
				p.after(opCoq, opJS, clk.sec, true, true, coqEl(get), jsEl(get))
			}
			emit("enterleave", "KPullEL", uo, nil, coqEl(s0), t0, p, cfg)
		}
		// ---- meter ----
		{
			clk := &fakeClock{sec: 1_700_000_000 + int64(g.r.Intn(1000))}
			cfg := map[string]any{"model": "meterpb", "clock": clk.sec}
			m := meterpb.NewModel(resource.WithClock(clk))
			s0, _ := m.GetMeterReading()
			uo := g.r.Chance(30)
			ctx, cancel := context.WithCancel(context.Background())
			p := &pullSeq{g: g}
			p.col = collect(cancel, m.PullMeterReadings(ctx, resource.WithUpdatesOnly(uo)), func(c meterpb.PullMeterReadingChange) (string, any) {
				return withTime(coqMM(c.Value), c.ChangeTime), map[string]any{"value": jsMM(c.Value), "change_time": c.ChangeTime.Unix()}
			})
			if !uo {
				p.expected = 1
				p.timedOut = !p.col.waitLen(1)
			}
			t0 := clk.sec
			for k := g.r.Range(2, 8); k > 0 && !p.timedOut; k-- {
				clk.sec += int64(g.r.Range(1, 5))
				var opCoq string
				var opJS any
				var err error
				accepted := true
				switch c := g.r.Intn(100); {
				case c < 20:
					opCoq, opJS = vcoq.App("MMReset", vcoq.Z(clk.sec)), map[string]any{"op": "Reset", "now": clk.sec}
					_, err = m.Reset()
				case c < 60:
					v := float32(g.r.Intn(1000))
					opCoq, opJS = vcoq.App("MMRecord", vcoq.Z(int64(v)), vcoq.Z(clk.sec)), map[string]any{"op": "RecordReading", "usage": v, "now": clk.sec}
					_, err = m.RecordReading(v)
				default:
					req := &traits.MeterReading{StartTime: g.someTS(clk.sec), EndTime: g.someTS(clk.sec), Usage: float32(g.r.Intn(1000))}
					fm := g.pathMask(meterValidPaths, meterBadPaths)
					opCoq = vcoq.App("MMUpdate", vmsg.Mask(fm), coqMM(req))
					opJS = map[string]any{"op": "UpdateMeterReading", "reading": jsMM(req), "update_mask": vmsg.MaskJSON(fm)}
					_, err = m.UpdateMeterReading(req, resource.WithUpdateMask(fm))
					if err != nil {
						accepted, err = false, nil // a rejected mask: nothing is published
					}
				}
				if err != nil {
					p.timedOut = true
					break
				}
				get, _ := m.GetMeterReading()
				p.after(opCoq, opJS, clk.sec, accepted, accepted, coqMM(get), jsMM(get))
			}
			emit("meter", "KPullMeter", uo, nil, coqMM(s0), t0, p, cfg)
		}
		// ---- fan speed ----
		{
			clk := &fakeClock{sec: 1_700_000_000 + int64(g.r.Intn(1000))}
			presets := fanspeedpb.DefaultPresets
			cfg := map[string]any{"model": "fanspeedpb", "presets": "default", "clock": clk.sec}
			m := fanspeedpb.NewModel(resource.WithClock(clk))
			srv := fanspeedpb.NewModelServer(m)
			psCoq := make([]string, len(presets))
			for i, pr := range presets {
				psCoq[i] = vcoq.Pair(vcoq.Str(pr.Name), vcoq.Z(int64(pr.Percentage)))
			}
			s0 := m.FanSpeed()
			held := s0
			uo := false // PullFanSpeed subscribes from a goroutine: only the seed tells when it has
			ctx, cancel := context.WithCancel(context.Background())
			p := &pullSeq{g: g}
			p.col = collect(cancel, m.PullFanSpeed(ctx, resource.WithUpdatesOnly(uo)), func(c fanspeedpb.FanSpeedChange) (string, any) {
				return withTime(coqFan(c.Value), c.ChangeTime), map[string]any{"value": jsFan(c.Value), "change_time": c.ChangeTime.Unix()}
			})
			p.expected = 1
			p.timedOut = !p.col.waitLen(1)
			t0 := clk.sec
			for k := g.r.Range(2, 8); k > 0 && !p.timedOut; k-- {
				clk.sec += int64(g.r.Range(1, 5))
				req := &traits.FanSpeed{Direction: traits.FanSpeed_Direction(g.r.Intn(3))}
				relative := g.r.Chance(30)
				switch g.r.Intn(4) {
				case 0:
					req.Preset = g.pick([]string{presets[g.r.Intn(len(presets))].Name, "no-such-preset"})
				case 1:
					if relative {
						req.PresetIndex = int32(g.r.Range(-2, 2))
					} else {
						req.PresetIndex = int32(g.r.Range(-1, len(presets)))
					}
				case 2:
					if relative {
						req.Percentage = float32(g.r.Range(-30, 30))
					} else {
						req.Percentage = float32(g.r.Intn(101))
					}
				}
				opCoq := vcoq.Pair(coqFan(req), vcoq.Bool(relative))
				opJS := map[string]any{"op": "UpdateFanSpeed", "fan_speed": jsFan(req), "relative": relative}
				_, err := srv.UpdateFanSpeed(context.Background(), &traits.UpdateFanSpeedRequest{FanSpeed: req, Relative: relative})
				get := m.FanSpeed()
				// the fan speed resource has a message equivalence: a value equal to the one last delivered is not delivered
				expect := err == nil && !proto.Equal(get, held)
				if expect {
					held = get
				}
				p.after(opCoq, opJS, clk.sec, err == nil, expect, coqFan(get), jsFan(get))
			}
			emit("fan", "KPullFan", uo, []string{vcoq.List(psCoq)}, coqFan(s0), t0, p, cfg)
		}
	}
	for model, st := range stats {
		if st.tried > 0 && st.done == 0 {
			g.direct("no subscriber of "+model+" received its changes within 20 s in any of the sequences", "pull:"+model+":nothing-delivered", nil)
		}
	}
}
