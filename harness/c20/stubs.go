package main

func (g *gen) fan()         {}
func (g *gen) mode()        {}
func (g *gen) enterLeave()  {}
func (g *gen) meter()       {}
func (g *gen) publication() {}
