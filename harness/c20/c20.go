// Correspondence generator for C20: trait models keep derived state consistent.
// One file per trait model; each emits one case per operation of a random operation sequence:
// the observed state before, the operation, what was returned and the observed state after.
package main

import (
	"fmt"
	"runtime/debug"
	"strings"

	"github.com/smart-core-os/sc-golang/verifharness/vcoq"
	"github.com/smart-core-os/sc-golang/verifharness/vh"
)

func init() { vh.Register("C20", genC20) }

func main() { vh.Main() }

type gen struct {
	o    *vcoq.Out
	r    *vcoq.Rand
	mult int
}

func genC20(o *vcoq.Out, r *vcoq.Rand, tier string) error {
	o.Header = "From SC Require Import Base.Prelude Traits.C20Judge.\nFrom Coq Require Import QArith.\nOpen Scope string_scope."
	o.CaseType = "c20case"
	o.Judge = "judge"
	o.Shard = 200
	o.Rule = "one case per executed operation (state before, operation, response, state after); distinct by full text"
	g := &gen{o: o, r: r, mult: 1}
	if tier == "thorough" {
		g.mult = 15
	}
	g.parent()
	g.units()
	g.vending()
	g.fan()
	g.mode()
	g.enterLeave()
	g.meter()
	g.publication()
	g.constructors()
	g.vendStore()
	g.meterMask()
	g.stockMask()
	g.pubStore()
	g.pulls()
	return nil
}

func (g *gen) add(coq string, js any, tags ...string) {
	g.o.Add(vcoq.Case{Coq: coq, JSON: js, Key: coq, NonTrivial: true, Tags: tags})
}

// try runs fn and reports a recovered panic as a direct violation with the given class.
func (g *gen) try(class string, replay any, fn func()) (panicked bool) {
	defer func() {
		if p := recover(); p != nil {
			panicked = true
			st := string(debug.Stack())
			if i := strings.Index(st, "/repo/"); i >= 0 {
				st = st[i:]
				if j := strings.IndexByte(st, '\n'); j >= 0 {
					st = st[:j]
				}
			} else {
				st = ""
			}
			g.direct(fmt.Sprintf("panic on a well-formed request: %v (%s)", p, st), class, replay)
		}
	}()
	fn()
	return false
}

func (g *gen) direct(what, class string, replay any) {
	for _, d := range g.o.Directs {
		if d.Class == class {
			return // one witness per class is enough
		}
	}
	g.o.Directs = append(g.o.Directs, vcoq.Direct{What: what, Class: class, Replay: replay})
}

func coqStrs(l []string) string {
	it := make([]string, len(l))
	for i, s := range l {
		it[i] = vcoq.Str(s)
	}
	return vcoq.List(it)
}

func coqOptStr(s *string) string {
	if s == nil {
		return "None"
	}
	return vcoq.Some(vcoq.Str(*s))
}

func (g *gen) pick(l []string) string { return l[g.r.Intn(len(l))] }
