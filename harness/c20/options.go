package main

// Model constructors with explicit configuration: random option lists (any subset and order of the model's
// targeted options, interleaved with 0-10 plain resource options) for every model that takes options.
// One KNew case per constructed model: the option list, whether construction or a getter panicked, and
// the content of every resource of the model read back through the model's getters.

import (
	"encoding/hex"
	"fmt"
	"math/rand"
	"sort"

	"google.golang.org/protobuf/proto"

	"github.com/smart-core-os/sc-api/go/traits"
	"github.com/smart-core-os/sc-golang/pkg/cmp"
	"github.com/smart-core-os/sc-golang/pkg/resource"
	"github.com/smart-core-os/sc-golang/pkg/time/clock"
	"github.com/smart-core-os/sc-golang/pkg/trait/electricpb"
	"github.com/smart-core-os/sc-golang/pkg/trait/enterleavesensorpb"
	"github.com/smart-core-os/sc-golang/pkg/trait/fanspeedpb"
	"github.com/smart-core-os/sc-golang/pkg/trait/publicationpb"
	"github.com/smart-core-os/sc-golang/pkg/trait/vendingpb"
	"github.com/smart-core-os/sc-golang/verifharness/vcoq"
)

// payload renders a message as an opaque, canonical string.
func payload(m proto.Message) string {
	b, err := proto.MarshalOptions{Deterministic: true}.Marshal(m)
	if err != nil {
		panic(err)
	}
	return "x" + hex.EncodeToString(b)
}

var plainNames = []string{"clock", "rng", "no-duplicates", "message-equivalence", "empty", "id-interceptor"}

// plainOpt is a resource option that does not target a resource of a model and does not change what a
// freshly constructed resource holds. clk: the clock to hand out (nil: a throw-away fake clock).
func (g *gen) plainOpt(clk resource.Clock) (resource.Option, int) {
	k := g.r.Intn(len(plainNames))
	switch k {
	case 0:
		if clk == nil {
			clk = &fakeClock{sec: 1_700_000_000}
		}
		return resource.WithClock(clk), k
	case 1:
		return resource.WithRNG(rand.New(rand.NewSource(int64(g.r.Intn(1000))))), k
	case 2:
		return resource.WithNoDuplicates(), k
	case 3:
		return resource.WithMessageEquivalence(cmp.Equal()), k
	case 4:
		return resource.EmptyOption{}, k
	}
	return resource.WithIDInterceptor(func(id string) string { return id }), k
}

// sprinkle interleaves 0-10 plain resource options with opts, keeping the order of opts.
func (g *gen) sprinkle(opts []resource.Option, clk resource.Clock) ([]resource.Option, []any) {
	n := g.r.Intn(11)
	out := append([]resource.Option{}, opts...)
	var names []any
	for i := 0; i < n; i++ {
		o, k := g.plainOpt(clk)
		at := g.r.Intn(len(out) + 1)
		out = append(out, nil)
		copy(out[at+1:], out[at:])
		out[at] = o
		names = append(names, plainNames[k])
	}
	return out, names
}

// mo is one option given to a model constructor together with its Coq rendering (a mopt).
type mo struct {
	coq string
	js  any
	opt resource.Option
}

func coqPlainList(ks []int) string {
	it := make([]string, len(ks))
	for i, k := range ks {
		it[i] = vcoq.App("OPlain", vcoq.Int(k))
	}
	return vcoq.List(it)
}

func (g *gen) moPlain(clk resource.Clock) mo {
	o, k := g.plainOpt(clk)
	return mo{coq: vcoq.App("MAll", vcoq.App("OPlain", vcoq.Int(k))), js: plainNames[k], opt: o}
}

// moTargetPlain wraps 1-3 plain options in a With<Resource>Option.
func (g *gen) moTargetPlain(r int, name string, wrap func(...resource.Option) resource.Option) mo {
	var os []resource.Option
	var ks []int
	var js []any
	for i := g.r.Range(1, 3); i > 0; i-- {
		o, k := g.plainOpt(nil)
		os, ks, js = append(os, o), append(ks, k), append(js, plainNames[k])
	}
	return mo{coq: vcoq.App("MTarget", vcoq.Nat(r), coqPlainList(ks)), js: map[string]any{name: js}, opt: wrap(os...)}
}

func coqRecs(ids []string, vals []string) string {
	it := make([]string, len(ids))
	for i := range ids {
		it[i] = vcoq.App("OInitRecord", vcoq.Str(ids[i]), vcoq.Str(vals[i]))
	}
	return vcoq.List(it)
}

type resObs struct {
	ids, vals []string // collection records, sorted by id as listed
	value     *string
}

func (r resObs) coq() string {
	it := make([]string, len(r.ids))
	for i := range r.ids {
		it[i] = vcoq.Pair(vcoq.Str(r.ids[i]), vcoq.Str(r.vals[i]))
	}
	return vcoq.App("mkRS", vcoq.List(it), coqOptStr(r.value))
}
func (r resObs) js() any {
	m := map[string]any{}
	for i := range r.ids {
		m[r.ids[i]] = r.vals[i]
	}
	return map[string]any{"records": m, "value": r.value}
}

func (g *gen) shuffle(items []mo) {
	for i := len(items) - 1; i > 0; i-- {
		j := g.r.Intn(i + 1)
		items[i], items[j] = items[j], items[i]
	}
}

// emitNew builds a model from the shuffled items + 0..10 plain options and records what observe reads back.
func (g *gen) emitNew(model int, name string, dflt []string, items []mo, observe func(opts []resource.Option) []resObs) {
	for n := g.r.Intn(11); n > 0; n-- {
		items = append(items, g.moPlain(nil))
	}
	g.shuffle(items)
	opts := make([]resource.Option, len(items))
	coq := make([]string, len(items))
	js := make([]any, len(items))
	for i, it := range items {
		opts[i], coq[i], js[i] = it.opt, it.coq, it.js
	}
	var obs []resObs
	panicked, what := false, ""
	func() {
		defer func() {
			if p := recover(); p != nil {
				panicked, what = true, fmt.Sprint(p)
			}
		}()
		obs = observe(opts)
	}()
	obsCoq := make([]string, len(obs))
	obsJS := make([]any, len(obs))
	for i, o := range obs {
		obsCoq[i], obsJS[i] = o.coq(), o.js()
	}
	if panicked {
		obsCoq, obsJS = nil, nil
	}
	tag := fmt.Sprintf("new.%s", name)
	if panicked {
		tag += ".panic"
	}
	g.add(vcoq.App("KNew", vcoq.Int(model), vcoq.List(dflt), vcoq.List(coq), vcoq.Bool(panicked), vcoq.List(obsCoq)),
		map[string]any{"model": name, "constructor_options_in_order": js, "panicked": panicked, "panic": what, "resources": obsJS}, tag)
}

func strp(s string) *string { return &s }

func (g *gen) constructors() {
	n := 100 * g.mult
	for s := 0; s < n; s++ {
		g.newVending()
		g.newVending()
		g.newPublication()
		g.newElectric()
		g.newFan()
		g.newEnterLeave()
	}
}

func (g *gen) newVending() {
	var items []mo
	pool := append([]string{}, consumablePool...)
	// initial stock, in 0-2 WithInitialStock calls and sometimes as a bare WithInventoryOption(WithInitialRecord)
	var stockNames, consNames []string
	for _, nm := range pool {
		if g.r.Chance(45) {
			stockNames = append(stockNames, nm)
		}
		if g.r.Chance(45) { // the same names on purpose: a consumable and its stock share the name
			consNames = append(consNames, nm)
		}
	}
	if g.r.Chance(4) && len(stockNames) > 0 { // documented to panic
		stockNames = append(stockNames, stockNames[0])
	}
	if g.r.Chance(4) && len(consNames) > 0 {
		consNames = append(consNames, consNames[0])
	}
	for len(stockNames) > 0 {
		k := g.r.Range(1, len(stockNames))
		var sts []*traits.Consumable_Stock
		var ids, vals []string
		for _, nm := range stockNames[:k] {
			st := &traits.Consumable_Stock{Consumable: nm, Used: g.qty()}
			if g.r.Bool() {
				st.Remaining = g.qty()
			}
			sts, ids, vals = append(sts, st), append(ids, nm), append(vals, payload(st))
		}
		stockNames = stockNames[k:]
		it := mo{coq: vcoq.App("MTarget", "0%nat", coqRecs(ids, vals)), js: map[string]any{"WithInitialStock": jsStocks(sts)}}
		if len(sts) == 1 && g.r.Chance(30) {
			it.opt = vendingpb.WithInventoryOption(resource.WithInitialRecord(sts[0].Consumable, sts[0]))
		} else {
			it.opt = vendingpb.WithInitialStock(sts...)
		}
		items = append(items, it)
	}
	for len(consNames) > 0 {
		k := g.r.Range(1, len(consNames))
		var cs []*traits.Consumable
		var ids, vals []string
		for _, nm := range consNames[:k] {
			c := &traits.Consumable{Name: nm, Title: g.pick([]string{"", "Title", "Other"})}
			cs, ids, vals = append(cs, c), append(ids, nm), append(vals, payload(c))
		}
		consNames = consNames[k:]
		items = append(items, mo{coq: vcoq.App("MTarget", "1%nat", coqRecs(ids, vals)),
			js: map[string]any{"WithInitialConsumable": ids}, opt: vendingpb.WithInitialConsumable(cs...)})
	}
	if g.r.Chance(30) {
		items = append(items, g.moTargetPlain(0, "WithInventoryOption", vendingpb.WithInventoryOption))
	}
	if g.r.Chance(30) {
		items = append(items, g.moTargetPlain(1, "WithConsumablesOption", vendingpb.WithConsumablesOption))
	}
	g.emitNew(0, "vendingpb", nil, items, func(opts []resource.Option) []resObs {
		m := vendingpb.NewModel(opts...)
		var inv, cons resObs
		for _, st := range m.ListInventory() {
			inv.ids, inv.vals = append(inv.ids, st.Consumable), append(inv.vals, payload(st))
			if got, ok := m.GetStock(st.Consumable); !ok || !proto.Equal(got, st) {
				panic("GetStock disagrees with ListInventory for " + st.Consumable)
			}
		}
		for _, c := range m.ListConsumables() {
			cons.ids, cons.vals = append(cons.ids, c.Name), append(cons.vals, payload(c))
			if got, ok := m.GetConsumable(c.Name); !ok || !proto.Equal(got, c) {
				panic("GetConsumable disagrees with ListConsumables for " + c.Name)
			}
		}
		return []resObs{inv, cons}
	})
}

func (g *gen) newPublication() {
	var items []mo
	var names []string
	for _, id := range pubIDs {
		if g.r.Chance(50) {
			names = append(names, id)
		}
	}
	if g.r.Chance(4) && len(names) > 0 {
		names = append(names, names[0])
	}
	for len(names) > 0 {
		k := g.r.Range(1, len(names))
		var ps []*traits.Publication
		var ids, vals []string
		for _, id := range names[:k] {
			p := g.somePub(id)
			ps, ids, vals = append(ps, p), append(ids, id), append(vals, payload(p))
		}
		names = names[k:]
		items = append(items, mo{coq: vcoq.App("MTarget", "0%nat", coqRecs(ids, vals)),
			js: map[string]any{"WithInitialPublication": ids}, opt: publicationpb.WithInitialPublication(ps...)})
	}
	if g.r.Chance(30) {
		items = append(items, g.moTargetPlain(0, "WithPublicationOption", publicationpb.WithPublicationOption))
	}
	g.emitNew(1, "publicationpb", nil, items, func(opts []resource.Option) []resObs {
		m := publicationpb.NewModel(opts...)
		var r resObs
		for _, p := range m.ListPublications() {
			r.ids, r.vals = append(r.ids, p.Id), append(r.vals, payload(p))
			if got, ok := m.GetPublication(p.Id); !ok || !proto.Equal(got, p) {
				panic("GetPublication disagrees with ListPublications for " + p.Id)
			}
		}
		return []resObs{r}
	})
}

func (g *gen) newElectric() {
	d0 := electricpb.NewModel()
	dflt := []string{
		vcoq.App("MTarget", "0%nat", vcoq.List([]string{vcoq.App("OInitValue", vcoq.Str(payload(d0.Demand())))})),
		vcoq.App("MTarget", "1%nat", vcoq.List([]string{vcoq.App("OInitValue", vcoq.Str(payload(d0.ActiveMode())))})),
	}
	var items []mo
	for i := g.r.Intn(3); i > 0; i-- { // the last one wins
		v := float32(200 + g.r.Intn(50))
		d := &traits.ElectricDemand{Current: float32(g.r.Intn(13)), Voltage: &v, Rating: 13}
		items = append(items, mo{coq: vcoq.App("MTarget", "0%nat", vcoq.List([]string{vcoq.App("OInitValue", vcoq.Str(payload(d)))})),
			js: map[string]any{"WithInitialDemand": d.Current}, opt: electricpb.WithInitialDemand(d)})
	}
	if g.r.Chance(40) {
		a := &traits.ElectricMode{Id: g.pick([]string{"m1", "m2"}), Title: "active"}
		items = append(items, mo{coq: vcoq.App("MTarget", "1%nat", vcoq.List([]string{vcoq.App("OInitValue", vcoq.Str(payload(a)))})),
			js: map[string]any{"WithInitialActiveMode": a.Id}, opt: electricpb.WithInitialActiveMode(a)})
	}
	var names []string
	for _, id := range []string{"m1", "m2", "m3"} {
		if g.r.Chance(50) {
			names = append(names, id)
		}
	}
	if g.r.Chance(4) && len(names) > 0 {
		names = append(names, names[0])
	}
	for len(names) > 0 {
		k := g.r.Range(1, len(names))
		var ms []*traits.ElectricMode
		var ids, vals []string
		for _, id := range names[:k] {
			m := &traits.ElectricMode{Id: id, Title: g.pick([]string{"eco", "fast", ""})}
			ms, ids, vals = append(ms, m), append(ids, id), append(vals, payload(m))
		}
		names = names[k:]
		items = append(items, mo{coq: vcoq.App("MTarget", "2%nat", coqRecs(ids, vals)),
			js: map[string]any{"WithInitialMode": ids}, opt: electricpb.WithInitialMode(ms...)})
	}
	if g.r.Chance(25) {
		items = append(items, g.moTargetPlain(0, "WithDemandOption", electricpb.WithDemandOption))
	}
	if g.r.Chance(25) {
		items = append(items, g.moTargetPlain(1, "WithActiveModeOption", electricpb.WithActiveModeOption))
	}
	if g.r.Chance(25) {
		items = append(items, g.moTargetPlain(2, "WithModeOption", electricpb.WithModeOption))
	}
	if g.r.Chance(25) {
		items = append(items, mo{coq: vcoq.App("MEvery", "[OPlain 0]"), js: "electricpb.WithClock", opt: electricpb.WithClock(clock.Real())})
	}
	if g.r.Chance(25) {
		items = append(items, mo{coq: vcoq.App("MEvery", "[OPlain 1]"), js: "electricpb.WithRNG", opt: electricpb.WithRNG(rand.New(rand.NewSource(7)))})
	}
	g.emitNew(2, "electricpb", dflt, items, func(opts []resource.Option) []resObs {
		m := electricpb.NewModel(opts...)
		var modes resObs
		for _, md := range m.Modes() {
			modes.ids, modes.vals = append(modes.ids, md.Id), append(modes.vals, payload(md))
			if got, ok := m.FindMode(md.Id); !ok || !proto.Equal(got, md) {
				panic("FindMode disagrees with Modes for " + md.Id)
			}
		}
		return []resObs{{value: strp(payload(m.Demand()))}, {value: strp(payload(m.ActiveMode()))}, modes}
	})
}

func (g *gen) newFan() {
	d0 := fanspeedpb.NewModel()
	dflt := []string{vcoq.App("MTarget", "0%nat", vcoq.List([]string{vcoq.App("OInitValue", vcoq.Str(payload(d0.FanSpeed())))}))}
	var items []mo
	for i := g.r.Intn(3); i > 0; i-- {
		f := &traits.FanSpeed{Percentage: float32(g.r.Intn(101)), Direction: traits.FanSpeed_Direction(g.r.Intn(3)), PresetIndex: -1}
		items = append(items, mo{coq: vcoq.App("MTarget", "0%nat", vcoq.List([]string{vcoq.App("OInitValue", vcoq.Str(payload(f)))})),
			js: map[string]any{"WithInitialFanSpeed": jsFan(f)}, opt: fanspeedpb.WithInitialFanSpeed(f)})
	}
	if g.r.Chance(40) {
		ps := []fanspeedpb.Preset{{Name: "a", Percentage: 10}, {Name: "b", Percentage: 60}}[:g.r.Intn(3)]
		items = append(items, mo{coq: vcoq.App("MSetting", "0%nat", vcoq.Str(fmt.Sprint(ps))), js: map[string]any{"WithPresets": fmt.Sprint(ps)}, opt: fanspeedpb.WithPresets(ps...)})
	}
	if g.r.Chance(30) {
		items = append(items, g.moTargetPlain(0, "WithFanSpeedOption", fanspeedpb.WithFanSpeedOption))
	}
	g.emitNew(3, "fanspeedpb", dflt, items, func(opts []resource.Option) []resObs {
		m := fanspeedpb.NewModel(opts...)
		return []resObs{{value: strp(payload(m.FanSpeed()))}}
	})
}

func (g *gen) newEnterLeave() {
	d0, _ := enterleavesensorpb.NewModel().GetEnterLeaveEvent()
	dflt := []string{vcoq.App("MTarget", "0%nat", vcoq.List([]string{vcoq.App("OInitValue", vcoq.Str(payload(d0)))}))}
	var items []mo
	for i := g.r.Intn(3); i > 0; i-- {
		a, b := int32(g.r.Intn(40)), int32(g.r.Intn(40))
		e := &traits.EnterLeaveEvent{EnterTotal: &a}
		if g.r.Bool() {
			e.LeaveTotal = &b
		}
		if g.r.Chance(30) {
			e.Occupant = &traits.EnterLeaveEvent_Occupant{Name: "carol"}
		}
		items = append(items, mo{coq: vcoq.App("MTarget", "0%nat", vcoq.List([]string{vcoq.App("OInitValue", vcoq.Str(payload(e)))})),
			js: map[string]any{"WithInitialEnterLeaveEvent": jsEl(e)}, opt: enterleavesensorpb.WithInitialEnterLeaveEvent(e)})
	}
	if g.r.Chance(30) {
		items = append(items, g.moTargetPlain(0, "WithEnterLeaveEventOption", enterleavesensorpb.WithEnterLeaveEventOption))
	}
	g.emitNew(4, "enterleavesensorpb", dflt, items, func(opts []resource.Option) []resObs {
		m := enterleavesensorpb.NewModel(opts...)
		e, _ := m.GetEnterLeaveEvent()
		return []resObs{{value: strp(payload(e))}}
	})
}

var _ = sort.Strings
