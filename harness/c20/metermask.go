package main

// meterpb.Model.UpdateMeterReading with arbitrary update masks (nested timestamp paths, invalid paths,
// duplicates, nil, empty) interleaved with RecordReading / Reset. One KMeterSeq case per operation; the
// judge compares with the typed path model AND with the generic FieldUpdater model run on the encoded trees.
// One KSchema case: the message descriptors the hand-written schemas of the path models stand for.

import (
	"strings"

	"google.golang.org/grpc/status"
	"google.golang.org/protobuf/proto"
	"google.golang.org/protobuf/types/known/fieldmaskpb"
	"google.golang.org/protobuf/types/known/timestamppb"

	"github.com/smart-core-os/sc-api/go/traits"
	"github.com/smart-core-os/sc-golang/pkg/resource"
	"github.com/smart-core-os/sc-golang/pkg/trait/meterpb"
	"github.com/smart-core-os/sc-golang/pkg/trait/vendingpb"
	"github.com/smart-core-os/sc-golang/verifharness/vcoq"
	"github.com/smart-core-os/sc-golang/verifharness/vmsg"
)

func coqTS(t *timestamppb.Timestamp) string {
	if t == nil {
		return "None"
	}
	return vcoq.Some(vcoq.Pair(vcoq.Z(t.Seconds), vcoq.Z(int64(t.Nanos))))
}
func jsTS(t *timestamppb.Timestamp) any {
	if t == nil {
		return nil
	}
	return map[string]any{"seconds": t.Seconds, "nanos": t.Nanos}
}
func coqMM(r *traits.MeterReading) string {
	u := float64(r.Usage)
	if u != float64(int64(u)) {
		panic("non-integral usage generated")
	}
	return vcoq.App("mkMM", vcoq.Z(int64(u)), coqTS(r.StartTime), coqTS(r.EndTime))
}
func jsMM(r *traits.MeterReading) any {
	if r == nil {
		return nil
	}
	return map[string]any{"usage": r.Usage, "start_time": jsTS(r.StartTime), "end_time": jsTS(r.EndTime)}
}

var meterValidPaths = []string{"usage", "start_time", "start_time.seconds", "start_time.nanos", "end_time", "end_time.seconds", "end_time.nanos"}
var meterBadPaths = []string{"bogus", "usage.x", "start_time.bogus", "end_time.seconds.x", "reading"}

// pathMask: nil, or 0..4 paths drawn with repetition from valid (rarely from bad).
func (g *gen) pathMask(valid, bad []string) *fieldmaskpb.FieldMask {
	if g.r.Chance(12) {
		return nil
	}
	fm := &fieldmaskpb.FieldMask{Paths: []string{}}
	n := 1 + g.r.Intn(4)
	if g.r.Chance(8) {
		n = 0
	}
	for i := 0; i < n; i++ {
		if g.r.Chance(4) {
			fm.Paths = append(fm.Paths, g.pick(bad))
		} else {
			fm.Paths = append(fm.Paths, g.pick(valid))
		}
	}
	return fm
}

func (g *gen) someTS(base int64) *timestamppb.Timestamp {
	switch g.r.Intn(6) {
	case 0:
		return nil
	case 1:
		return &timestamppb.Timestamp{} // present but empty
	case 2:
		return &timestamppb.Timestamp{Nanos: int32(g.r.Range(1, 999))}
	case 3:
		return &timestamppb.Timestamp{Seconds: base + int64(g.r.Intn(50))}
	default:
		return &timestamppb.Timestamp{Seconds: base + int64(g.r.Intn(50)) - 25, Nanos: int32(g.r.Intn(1000))}
	}
}

func (g *gen) meterMask() {
	// the descriptors behind the hand-written schemas
	dump := vmsg.SchemaV(&traits.MeterReading{}, &traits.Consumable_Stock{})
	if i, j := strings.Index(dump, ":= ["), strings.LastIndex(dump, "]."); i >= 0 && j > i {
		lit := dump[i+3 : j+1]
		g.o.Add(vcoq.Case{Coq: "KSchema (" + lit + ")", JSON: map[string]any{"schema": "MeterReading, Consumable.Stock descriptors"},
			Key: "schema", NonTrivial: true, Tags: []string{"schema"}})
	} else {
		g.direct("schema dump has an unexpected shape", "c20:schema-dump", nil)
	}

	nseq := 60 * g.mult
	for s := 0; s < nseq; s++ {
		clk := &fakeClock{sec: 1_700_000_000 + int64(g.r.Intn(1000))}
		cfg := map[string]any{"model": "meterpb", "clock": clk.sec}
		var m *meterpb.Model
		if g.try("panic:meterpb:new", cfg, func() { m = meterpb.NewModel(resource.WithClock(clk)) }) {
			continue
		}
		var hist []any
		for k := g.r.Range(4, 10); k > 0; k-- {
			clk.sec += int64(g.r.Intn(6))
			pre, _ := m.GetMeterReading()
			var op map[string]any
			var opCoq, tag string
			var ret *traits.MeterReading
			var err error
			var run func()
			switch c := g.r.Intn(100); {
			case c < 12:
				op, opCoq, tag = map[string]any{"op": "Reset", "now": clk.sec}, vcoq.App("MMReset", vcoq.Z(clk.sec)), "metermask.reset"
				run = func() { ret, err = m.Reset() }
			case c < 30:
				v := float32(g.r.Intn(1000))
				op, opCoq, tag = map[string]any{"op": "RecordReading", "usage": v, "now": clk.sec}, vcoq.App("MMRecord", vcoq.Z(int64(v)), vcoq.Z(clk.sec)), "metermask.record"
				run = func() { ret, err = m.RecordReading(v) }
			default:
				req := &traits.MeterReading{StartTime: g.someTS(clk.sec), EndTime: g.someTS(clk.sec)}
				if g.r.Chance(70) {
					req.Usage = float32(g.r.Intn(1000))
				}
				fm := g.pathMask(meterValidPaths, meterBadPaths)
				op = map[string]any{"op": "UpdateMeterReading", "reading": jsMM(req), "update_mask": vmsg.MaskJSON(fm)}
				opCoq = vcoq.App("MMUpdate", vmsg.Mask(fm), coqMM(req))
				tag = "metermask.update"
				switch {
				case fm == nil:
					tag += ".nil"
				case len(fm.Paths) == 0:
					tag += ".empty"
				default:
					for _, p := range fm.Paths {
						if strings.Contains(p, ".") {
							tag = "metermask.update.nested"
						}
					}
				}
				run = func() { ret, err = m.UpdateMeterReading(req, resource.WithUpdateMask(fm)) }
				if fm == nil && g.r.Bool() {
					run = func() { ret, err = m.UpdateMeterReading(req) }
				}
			}
			hist = append(hist, op)
			replay := map[string]any{"config": cfg, "ops": append([]any{}, hist...)}
			if g.try("panic:meterpb", replay, run) {
				break
			}
			post, _ := m.GetMeterReading()
			code := int64(status.Code(err))
			retCoq := "None"
			if err == nil && ret != nil {
				retCoq = vcoq.Some(coqMM(ret))
			}
			if err != nil {
				tag += ".rejected"
			}
			g.add(vcoq.App("KMeterSeq", coqMM(pre), opCoq, vcoq.Z(code), retCoq, coqMM(post)),
				map[string]any{"config": cfg, "pre": jsMM(pre), "op": op, "code": code, "returned": jsMM(ret), "post": jsMM(post)}, tag)
		}
	}
}

// ---- vendingpb.UpdateStock with arbitrary path masks (nested quantity paths) ----

func coqPQ(q *traits.Consumable_Quantity) string {
	if q == nil {
		return "None"
	}
	a := float64(q.Amount)
	if a != float64(int64(a)) {
		panic("non-integral amount generated")
	}
	return vcoq.Some(vcoq.Pair(vcoq.Z(int64(q.Unit)), vcoq.Z(int64(a))))
}
func coqPS(s *traits.Consumable_Stock) string {
	return vcoq.App("mkPS", coqPQ(s.Used), coqPQ(s.Remaining), coqPQ(s.LastDispensed), vcoq.Bool(s.Dispensing))
}
func coqOptPS(s *traits.Consumable_Stock) string {
	if s == nil {
		return "None"
	}
	return vcoq.Some(coqPS(s))
}

var stockValidPaths = []string{"consumable", "used", "used.amount", "used.unit", "remaining", "remaining.amount", "remaining.unit",
	"last_dispensed", "last_dispensed.amount", "last_dispensed.unit", "dispensing"}
var stockBadPaths = []string{"no_such_field", "used.x", "dispensing.x", "remaining.amount.y", "stock"}

func (g *gen) intQty() *traits.Consumable_Quantity {
	switch g.r.Intn(6) {
	case 0:
		return nil
	case 1:
		return &traits.Consumable_Quantity{} // present but empty
	case 2:
		return &traits.Consumable_Quantity{Unit: traits.Consumable_Unit(g.unit())}
	case 3:
		return &traits.Consumable_Quantity{Amount: float32(g.r.Range(1, 500))}
	default:
		return &traits.Consumable_Quantity{Unit: traits.Consumable_Unit(g.unit()), Amount: float32(g.r.Range(1, 500))}
	}
}

func (g *gen) stockMask() {
	nseq := 60 * g.mult
	names := []string{"beans", "water"}
	for s := 0; s < nseq; s++ {
		var init []*traits.Consumable_Stock
		for _, nm := range names {
			if g.r.Chance(85) {
				init = append(init, &traits.Consumable_Stock{Consumable: nm, Used: g.intQty(), Remaining: g.intQty(), Dispensing: g.r.Chance(30)})
			}
		}
		cfg := map[string]any{"model": "vendingpb", "initial_stock": jsStocks(init)}
		var m *vendingpb.Model
		if g.try("panic:vendingpb:options", cfg, func() { m = vendingpb.NewModel(vendingpb.WithInitialStock(init...)) }) {
			continue
		}
		var hist []any
		for k := g.r.Range(3, 8); k > 0; k-- {
			name := g.pick(names)
			other := names[0]
			if other == name {
				other = names[1]
			}
			pre, _ := m.GetStock(name)
			otherPre, _ := m.GetStock(other)
			req := &traits.Consumable_Stock{Consumable: name, Used: g.intQty(), Remaining: g.intQty(), Dispensing: g.r.Chance(40)}
			if g.r.Chance(30) {
				req.LastDispensed = g.intQty()
			}
			fm := g.pathMask(stockValidPaths, stockBadPaths)
			op := map[string]any{"op": "UpdateStock", "stock": jsStock(req), "update_mask": vmsg.MaskJSON(fm)}
			hist = append(hist, op)
			replay := map[string]any{"config": cfg, "ops": append([]any{}, hist...)}
			reqCoq := coqPS(req) // before the call: Merge filters the request in place
			var ret *traits.Consumable_Stock
			var err error
			if g.try("panic:vendingpb", replay, func() { ret, err = m.UpdateStock(req, resource.WithUpdateMask(fm)) }) {
				break
			}
			post, _ := m.GetStock(name)
			otherPost, _ := m.GetStock(other)
			otherSame := (otherPre == nil) == (otherPost == nil) && (otherPre == nil || proto.Equal(otherPre, otherPost))
			code := int64(status.Code(err))
			tag := "stockmask.update"
			switch {
			case fm == nil:
				tag += ".nil"
			case len(fm.Paths) == 0:
				tag += ".empty"
			default:
				for _, p := range fm.Paths {
					if strings.Contains(p, ".") {
						tag = "stockmask.update.nested"
					}
				}
			}
			if err != nil {
				tag += ".rejected"
			}
			retOK := (err != nil && ret == nil) || (err == nil && ret != nil && proto.Equal(ret, post))
			g.add(vcoq.App("KStockMask", vcoq.Str(name), coqOptPS(pre), reqCoq, vmsg.Mask(fm), vcoq.Z(code), vcoq.Bool(retOK), coqOptPS(post), vcoq.Bool(otherSame)),
				map[string]any{"config": cfg, "pre": jsStock(pre), "op": op, "code": code, "returned": jsStock(ret), "post": jsStock(post), "other_unchanged": otherSame}, tag)
		}
	}
}
