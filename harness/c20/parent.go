package main

import (
	"sort"

	"github.com/smart-core-os/sc-api/go/traits"
	"github.com/smart-core-os/sc-golang/pkg/trait"
	"github.com/smart-core-os/sc-golang/pkg/trait/parentpb"
	"github.com/smart-core-os/sc-golang/verifharness/vcoq"
)

// byte order matters: upper case < lower case, prefixes first, digits before letters
var traitPool = []string{"a", "aa", "ab", "b", "B", "Z", "a0", "c", "d", "smartcore.traits.OnOff", "smartcore.traits.Light", "e"}
var childPool = []string{"c0", "c1", "C2", "c10", "x"}

type childObs struct {
	Name   string   `json:"name"`
	Traits []string `json:"traits"`
}

func listChildren(m *parentpb.Model) []childObs {
	var out []childObs
	for _, c := range m.ListChildren() {
		co := childObs{Name: c.Name, Traits: []string{}}
		for _, t := range c.Traits {
			co.Traits = append(co.Traits, t.Name)
		}
		out = append(out, co)
	}
	return out
}

func coqChildren(cs []childObs) string {
	it := make([]string, len(cs))
	for i, c := range cs {
		it[i] = vcoq.Pair(vcoq.Str(c.Name), coqStrs(c.Traits))
	}
	return vcoq.List(it)
}

func (g *gen) someTraits(max int) []string {
	n := g.r.Intn(max + 1)
	out := make([]string, n)
	for i := range out {
		out[i] = g.pick(traitPool)
	}
	return out
}

func (g *gen) parent() {
	nseq := 50 * g.mult
	for s := 0; s < nseq; s++ {
		m := parentpb.NewModel()
		// initial children through AddChild (requires sorted traits)
		for i := g.r.Intn(4); i > 0; i-- {
			ts := g.someTraits(5)
			sort.Strings(ts)
			if !g.r.Chance(5) { // rarely keep duplicates (outside the guard: only the model is compared)
				ts = dedup(ts)
			}
			c := &traits.Child{Name: g.pick(childPool)}
			for _, t := range ts {
				c.Traits = append(c.Traits, &traits.Trait{Name: t})
			}
			m.AddChild(c)
		}
		nops := g.r.Range(4, 14)
		var hist []any
		for k := 0; k < nops; k++ {
			pre := listChildren(m)
			child := g.pick(childPool)
			names := g.someTraits(3)
			if g.r.Chance(30) && len(pre) > 0 {
				// aim at existing traits / near misses
				c := pre[g.r.Intn(len(pre))]
				child = c.Name
				if len(c.Traits) > 0 && g.r.Bool() {
					names = append(names, c.Traits[g.r.Intn(len(c.Traits))])
				}
			}
			tn := make([]trait.Name, len(names))
			for i, n := range names {
				tn[i] = trait.Name(n)
			}
			isAdd := g.r.Chance(45)
			op := map[string]any{"op": "RemoveChildTrait", "child": child, "names": names}
			if isAdd {
				op["op"] = "AddChildTrait"
			}
			hist = append(hist, op)
			replay := map[string]any{"model": "parentpb", "ops": append([]any{}, hist...), "initial": pre}
			var ret *traits.Child
			var created bool
			if g.try("panic:parentpb", replay, func() {
				if isAdd {
					ret, created = m.AddChildTrait(child, tn...)
				} else {
					ret = m.RemoveChildTrait(child, tn...)
				}
			}) {
				break
			}
			post := listChildren(m)
			retS := "None"
			var retJ any
			if ret != nil {
				var rt []string
				for _, t := range ret.Traits {
					rt = append(rt, t.Name)
				}
				if ret.Name != child {
					g.direct("returned child has a different name", "parentpb:wrong-child", replay)
				}
				retS = vcoq.Some(coqStrs(rt))
				retJ = rt
			}
			ctor, tag := "PRemove", "parent.remove"
			if isAdd {
				ctor, tag = "PAdd", "parent.add"
			}
			coq := vcoq.App("KParent", coqChildren(pre), vcoq.App(ctor, vcoq.Str(child), coqStrs(names)),
				vcoq.Pair(retS, vcoq.Bool(created)), coqChildren(post))
			g.add(coq, map[string]any{"model": "parentpb", "pre": pre, "op": op, "returned": retJ, "created": created, "post": post}, tag)
		}
	}
}

func dedup(l []string) []string {
	var out []string
	for i, s := range l {
		if i == 0 || s != l[i-1] {
			out = append(out, s)
		}
	}
	return out
}
