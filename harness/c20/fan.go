package main

import (
	"context"
	"math"

	"google.golang.org/grpc/status"

	"github.com/smart-core-os/sc-api/go/traits"
	"github.com/smart-core-os/sc-golang/pkg/resource"
	"github.com/smart-core-os/sc-golang/pkg/trait/fanspeedpb"
	"github.com/smart-core-os/sc-golang/verifharness/vcoq"
)

var presetNames = []string{"off", "low", "med", "high", "full", "eco", "boost"}
var presetPcts = []float32{0, 15, 40, 75, 100, 50, 15, 60}

func coqFan(f *traits.FanSpeed) string {
	p := float64(f.Percentage)
	if p != math.Trunc(p) {
		panic("non-integral percentage generated")
	}
	return vcoq.App("mkFan", vcoq.Z(int64(p)), vcoq.Str(f.Preset), vcoq.Z(int64(f.PresetIndex)), vcoq.Z(int64(f.Direction)))
}
func jsFan(f *traits.FanSpeed) any {
	if f == nil {
		return nil
	}
	return map[string]any{"percentage": f.Percentage, "preset": f.Preset, "preset_index": f.PresetIndex, "direction": int32(f.Direction)}
}

func (g *gen) fan() {
	nseq := 70 * g.mult
	for s := 0; s < nseq; s++ {
		var opts []resource.Option
		presets := fanspeedpb.DefaultPresets
		cfg := map[string]any{"model": "fanspeedpb", "presets": "default"}
		if g.r.Chance(70) {
			n := g.r.Intn(6)
			if g.r.Chance(15) {
				n = 0
			}
			custom := make([]fanspeedpb.Preset, n)
			for i := range custom {
				custom[i] = fanspeedpb.Preset{Name: g.pick(presetNames), Percentage: presetPcts[g.r.Intn(len(presetPcts))]}
			}
			presets = custom
			opts = append(opts, fanspeedpb.WithPresets(custom...))
			var js []any
			for _, p := range custom {
				js = append(js, map[string]any{"name": p.Name, "percentage": p.Percentage})
			}
			cfg["presets"] = js
		}
		// initial value: consistent with the presets (mostly)
		if g.r.Chance(90) || len(presets) == 0 {
			init := &traits.FanSpeed{Direction: traits.FanSpeed_Direction(g.r.Intn(3))}
			if len(presets) > 0 && g.r.Chance(70) {
				i := g.r.Intn(len(presets))
				init.Preset, init.Percentage, init.PresetIndex = presets[i].Name, presets[i].Percentage, int32(i)
			} else {
				init.PresetIndex = -1
				for {
					init.Percentage = float32(g.r.Intn(100))
					ok := true
					for _, p := range presets {
						if p.Percentage == init.Percentage {
							ok = false
						}
					}
					if ok {
						break
					}
				}
			}
			opts = append(opts, fanspeedpb.WithInitialFanSpeed(init))
			cfg["initial"] = jsFan(init)
		}
		opts, plain := g.sprinkle(opts, nil)
		cfg["plain_options"] = plain
		m := fanspeedpb.NewModel(opts...)
		srv := fanspeedpb.NewModelServer(m)
		psCoq := make([]string, len(presets))
		for i, p := range presets {
			psCoq[i] = vcoq.Pair(vcoq.Str(p.Name), vcoq.Z(int64(p.Percentage)))
		}
		var hist []any
		for k := g.r.Range(4, 12); k > 0; k-- {
			req := &traits.FanSpeed{}
			relative := g.r.Chance(35)
			if g.r.Chance(70) {
				req.Direction = traits.FanSpeed_Direction(g.r.Intn(3))
			}
			kind := g.r.Intn(8)
			if kind == 0 || kind == 5 { // preset by name
				if len(presets) > 0 && !g.r.Chance(10) {
					req.Preset = presets[g.r.Intn(len(presets))].Name
				} else {
					req.Preset = g.pick(presetNames)
				}
			}
			if kind == 1 || kind == 5 || kind == 6 { // index
				if relative {
					req.PresetIndex = int32(g.r.Range(-2, 2))
					if g.r.Chance(3) {
						req.PresetIndex = math.MaxInt32
					}
				} else {
					req.PresetIndex = int32(g.r.Range(-1, len(presets)+1))
				}
			}
			if kind == 2 || kind == 3 || kind == 6 { // percentage
				if relative {
					req.Percentage = float32(g.r.Range(-30, 30))
				} else if len(presets) > 0 && g.r.Bool() {
					req.Percentage = presets[g.r.Intn(len(presets))].Percentage
				} else {
					req.Percentage = float32(g.r.Intn(101))
				}
			}
			// kind 4, 7: nothing set (besides direction)
			viaRPC := relative || g.r.Bool()
			reqCoq, reqJS := coqFan(req), jsFan(req) // before the call: the interceptor edits the request message
			if !viaRPC && g.r.Chance(50) {
				if g.fanMasked(m, presets, psCoq, cfg, &hist, req) {
					break
				}
				continue
			}
			op := map[string]any{"op": "UpdateFanSpeed", "fan_speed": reqJS, "relative": relative, "rpc": viaRPC}
			hist = append(hist, op)
			replay := map[string]any{"config": cfg, "ops": append([]any{}, hist...)}
			pre := m.FanSpeed()
			var ret *traits.FanSpeed
			var err error
			if g.try("panic:fanspeedpb:update", replay, func() {
				if viaRPC {
					ret, err = srv.UpdateFanSpeed(context.Background(), &traits.UpdateFanSpeedRequest{FanSpeed: req, Relative: relative})
				} else {
					ret, err = m.UpdateFanSpeed(req)
				}
			}) {
				break
			}
			post := m.FanSpeed()
			var obs, tag string
			if err != nil {
				obs, tag = vcoq.App("FErr", vcoq.Z(int64(status.Code(err)))), "fan.error"
			} else {
				obs, tag = vcoq.App("FOk", coqFan(ret)), "fan.ok"
				if relative {
					tag = "fan.ok.relative"
				}
			}
			g.add(vcoq.App("KFan", vcoq.List(psCoq), coqFan(pre), reqCoq, vcoq.Bool(relative), obs, coqFan(post)),
				map[string]any{"config": cfg, "pre": jsFan(pre), "op": op, "returned": jsFan(ret), "error": errCode(err), "post": jsFan(post)}, tag)
		}
	}
}

var fanPaths = []string{"percentage", "preset", "preset_index", "direction"}

// fanMasked: Model.UpdateFanSpeed with resource.WithUpdateMask over any subset of the four fields.
func (g *gen) fanMasked(m *fanspeedpb.Model, presets []fanspeedpb.Preset, psCoq []string, cfg map[string]any, hist *[]any, req *traits.FanSpeed) (stop bool) {
	if g.r.Chance(30) && len(presets) > 0 { // a request that names everything, consistent or not
		req.Preset = presets[g.r.Intn(len(presets))].Name
		req.PresetIndex = int32(g.r.Range(0, len(presets)))
		req.Percentage = float32(g.r.Intn(101))
	}
	fm, in, bad := g.someMask(fanPaths)
	reqCoq, reqJS := coqFan(req), jsFan(req)
	op := map[string]any{"op": "Model.UpdateFanSpeed", "fan_speed": reqJS, "update_mask": jsMask(fm)}
	*hist = append(*hist, op)
	replay := map[string]any{"config": cfg, "ops": append([]any{}, (*hist)...)}
	pre := m.FanSpeed()
	var ret *traits.FanSpeed
	var err error
	if g.try("panic:fanspeedpb:update", replay, func() { ret, err = m.UpdateFanSpeed(req, resource.WithUpdateMask(fm)) }) {
		return true
	}
	post := m.FanSpeed()
	var obs, tag string
	if err != nil {
		obs, tag = vcoq.App("FErr", vcoq.Z(int64(status.Code(err)))), "fan.masked.error"
	} else {
		obs, tag = vcoq.App("FOk", coqFan(ret)), "fan.masked.ok"
	}
	g.add(vcoq.App("KFanMask", vcoq.List(psCoq), coqFan(pre), reqCoq, coqMaskOpt("mkFM", fm, in, bad), obs, coqFan(post)),
		map[string]any{"config": cfg, "pre": jsFan(pre), "op": op, "returned": jsFan(ret), "error": errCode(err), "post": jsFan(post)}, tag)
	return false
}
