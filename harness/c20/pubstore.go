package main

// publicationpb over ALL ids: the whole listing before and after every operation (KPubs), creates without id
// with the collection's random source scripted so that the candidates of resource.GenerateUniqueId are known
// (and collide with existing ids).

import (
	"context"
	"encoding/base64"

	"google.golang.org/grpc/status"

	"github.com/smart-core-os/sc-api/go/traits"
	"github.com/smart-core-os/sc-golang/pkg/resource"
	"github.com/smart-core-os/sc-golang/pkg/trait/publicationpb"
	"github.com/smart-core-os/sc-golang/verifharness/vcoq"
)

// scriptRNG serves the prepared byte strings in order (GenerateUniqueId reads 6+i bytes for candidate i).
type scriptRNG struct {
	bufs [][]byte
	k    int
}

func (r *scriptRNG) Read(p []byte) (int, error) {
	if r.k < len(r.bufs) && len(r.bufs[r.k]) == len(p) {
		copy(p, r.bufs[r.k])
	} else {
		for i := range p {
			p[i] = byte(0x55 + r.k)
		}
	}
	r.k++
	return len(p), nil
}

func enc(b []byte) string { return base64.RawURLEncoding.EncodeToString(b) }

func coqPubs(l []*traits.Publication) string {
	it := make([]string, len(l))
	for i, p := range l {
		it[i] = vcoq.Pair(vcoq.Str(p.Id), coqPubBare(p))
	}
	return vcoq.List(it)
}
func jsPubs(l []*traits.Publication) []any {
	out := []any{}
	for _, p := range l {
		out = append(out, jsPub(p))
	}
	return out
}
func findPub(l []*traits.Publication, id string) *traits.Publication {
	for _, p := range l {
		if p.Id == id {
			return p
		}
	}
	return nil
}

func (g *gen) pubStore() {
	nseq := 60 * g.mult
	ref := refVersions{}
	// ids a client may choose that are also what the random source can yield as candidate 0, 1, 2
	fixed := [][]byte{{1, 2, 3, 4, 5, 6}, {9, 8, 7, 6, 5, 4, 3}, {0, 0, 0, 0, 0, 0, 0, 1}}
	ids := []string{"p1", "zz", enc(fixed[0]), enc(fixed[1]), enc(fixed[2])}
	for s := 0; s < nseq; s++ {
		clk := &fakeClock{sec: 1_700_000_000}
		rng := &scriptRNG{}
		opts := []resource.Option{resource.WithClock(clk), resource.WithRNG(rng)}
		cfg := map[string]any{"model": "publicationpb", "rng": "scripted"}
		if g.r.Chance(40) {
			p := g.somePub(g.pick(ids))
			p.Version = ref.of(p)
			opts = append(opts, publicationpb.WithInitialPublication(p))
			cfg["initial"] = jsPub(p)
		}
		var m *publicationpb.Model
		if g.try("panic:publicationpb:new", cfg, func() { m = publicationpb.NewModel(opts...) }) {
			continue
		}
		srv := publicationpb.NewModelServer(m)
		var hist []any
		var generated [][]byte
		for k := g.r.Range(5, 14); k > 0; k-- {
			clk.sec += int64(g.r.Range(1, 5))
			pre := m.ListPublications()
			id := g.pick(ids)
			if len(pre) > 0 && g.r.Chance(50) {
				id = pre[g.r.Intn(len(pre))].Id
			}
			preAt := findPub(pre, id)
			// the candidates of this call
			cands := make([][]byte, 10)
			for i := range cands {
				b := make([]byte, 6+i)
				for j := range b {
					b[j] = byte(g.r.U64())
				}
				if i < len(fixed) && g.r.Chance(55) {
					b = append([]byte{}, fixed[i]...)
				} else if g.r.Chance(40) {
					for _, old := range generated {
						if len(old) == 6+i {
							b = append([]byte{}, old...)
						}
					}
				}
				cands[i] = b
			}
			candStrs := make([]string, len(cands))
			for i, b := range cands {
				candStrs[i] = enc(b)
			}
			rng.bufs, rng.k = cands, 0

			var op map[string]any
			var opCoq, tag string
			var ret *traits.Publication
			var err error
			var run func()
			genCreate := false
			switch kind := g.r.Intn(20); {
			case kind < 8:
				p := g.somePub(id)
				if g.r.Chance(60) {
					p.Id = ""
					genCreate = true
				}
				op, opCoq, tag = map[string]any{"op": "CreatePublication", "publication": jsPub(p), "rng_candidates": candStrs}, vcoq.App("PCreate", coqPubBare(p)), "pubs.create"
				if genCreate {
					tag = "pubs.create.generated"
				}
				run = func() {
					ret, err = srv.CreatePublication(context.Background(), &traits.CreatePublicationRequest{Publication: p})
				}
			case kind < 13:
				p := g.somePub(id)
				fm, maskCoq := g.pubMask()
				req := &traits.UpdatePublicationRequest{Publication: p, UpdateMask: fm}
				if preAt != nil && g.r.Chance(40) {
					req.Version = preAt.Version
				} else if g.r.Chance(20) {
					req.Version = "deadbeef"
				}
				op = map[string]any{"op": "UpdatePublication", "publication": jsPub(p), "update_mask": jsMask(fm), "version": req.Version}
				opCoq, tag = vcoq.App("PUpdate", coqPubBare(p), maskCoq, vcoq.Str(req.Version)), "pubs.update"
				run = func() { ret, err = srv.UpdatePublication(context.Background(), req) }
			case kind < 16:
				req := &traits.DeletePublicationRequest{Id: id, AllowMissing: g.r.Chance(40)}
				op = map[string]any{"op": "DeletePublication", "id": req.Id, "allow_missing": req.AllowMissing}
				opCoq, tag = vcoq.App("PDelete", vcoq.Str(req.Id), vcoq.Str(""), vcoq.Bool(req.AllowMissing)), "pubs.delete"
				run = func() {
					ret, err = srv.DeletePublication(context.Background(), req)
					if err != nil {
						ret = nil
					}
				}
			default:
				req := &traits.AcknowledgePublicationRequest{Id: id, Version: "deadbeef", AllowAcknowledged: g.r.Chance(40),
					Receipt: traits.Publication_Audience_Receipt(2 + g.r.Intn(2))}
				if preAt != nil && g.r.Chance(75) {
					req.Version = preAt.Version
				}
				op = map[string]any{"op": "AcknowledgePublication", "id": req.Id, "version": req.Version, "receipt": int32(req.Receipt), "allow_acknowledged": req.AllowAcknowledged}
				opCoq = vcoq.App("PAck", vcoq.Str(req.Id), vcoq.Str(req.Version), vcoq.Z(int64(req.Receipt)), vcoq.Str(""), vcoq.Bool(req.AllowAcknowledged))
				tag = "pubs.ack"
				run = func() { ret, err = srv.AcknowledgePublication(context.Background(), req) }
			}
			hist = append(hist, op)
			replay := map[string]any{"config": cfg, "ops": append([]any{}, hist...)}
			preCoq, preJS := coqPubs(pre), jsPubs(pre)
			if g.try("panic:publicationpb", replay, run) {
				break
			}
			post := m.ListPublications()
			obs := ""
			switch {
			case err != nil:
				obs = vcoq.App("PErr", vcoq.Z(int64(status.Code(err))))
				tag += ".error"
			case ret == nil:
				obs = "PNil"
			default:
				obs = vcoq.App("POk", coqPubBare(ret))
			}
			addr := id
			if genCreate {
				addr = ""
				if err == nil && ret != nil {
					addr = ret.Id
					if rng.k >= 1 && rng.k <= len(cands) {
						generated = append(generated, cands[rng.k-1])
					}
					if rng.k > 1 {
						tag += ".after-collisions"
					}
				}
			}
			hpre, hpost := ref.of(findPub(pre, addr)), ref.of(findPub(post, addr))
			g.add(vcoq.App("KPubs", vcoq.Z(clk.sec), preCoq, opCoq, coqStrs(candStrs), obs, coqPubs(post), vcoq.Str(hpre), vcoq.Str(hpost)),
				map[string]any{"config": cfg, "now": clk.sec, "pre": preJS, "op": op, "returned": jsPub(ret), "error": errCode(err), "post": jsPubs(post),
					"version_of_content_before": hpre, "version_of_content_after": hpost}, tag)
		}
	}
}
