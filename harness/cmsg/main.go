// Command cmsg is the correspondence harness of the field-mask properties C06 (reads) and C05 (writes):
// it runs /repo/pkg/masks (and resource.Value on top of it) on generated messages and masks and writes
// what it observed as Coq cases for Masks/C06Judge.v and Masks/C05Judge.v.
package main

import (
	"github.com/smart-core-os/sc-golang/verifharness/vh"
	"github.com/smart-core-os/sc-golang/verifharness/vmsg"
)

func init() {
	vmsg.RegisterSchema()
	vh.Register("C06", genC06)
}

func main() { vh.Main() }
