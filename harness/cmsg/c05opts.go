package main

import (
	"fmt"
	"time"

	"github.com/smart-core-os/sc-golang/pkg/resource"
	"github.com/smart-core-os/sc-golang/verifharness/vcoq"
	"github.com/smart-core-os/sc-golang/verifharness/vmsg"
	"google.golang.org/grpc/status"
	"google.golang.org/protobuf/proto"
	"google.golang.org/protobuf/types/known/fieldmaskpb"
)

// Option LISTS: resource.Value.Set with a random sequence of the mask-carrying write options, in the
// order given, against Masks/Options.v (compute_wreq / write_opts). The options are applied in order by
// ComputeWriteConfig, so the same option may occur several times and the order matters for some of them
// (WithUpdateMask resets what WithMoreUpdateMask added; the last WithResetMask wins) and not for others
// (WithMoreWritableFields, WithAllFieldsWritable).

type wopt struct {
	kind  string // update, update-paths, more-update, more-update-paths, reset, reset-paths, all-writable, more-writable, more-writable-paths, other
	mask  *fieldmaskpb.FieldMask
	paths []string
}

func (o wopt) coq() string {
	m := func() string {
		if o.paths != nil || o.kind == "update-paths" || o.kind == "more-update-paths" || o.kind == "reset-paths" || o.kind == "more-writable-paths" {
			return "(Some " + vmsg.Paths(o.paths) + ")"
		}
		return vmsg.Mask(o.mask)
	}
	switch o.kind {
	case "update", "update-paths":
		return "OUpdateMask " + m()
	case "more-update", "more-update-paths":
		return "OMoreUpdateMask " + m()
	case "reset", "reset-paths":
		return "OResetMask " + m()
	case "all-writable":
		return "OAllWritable"
	case "more-writable", "more-writable-paths":
		return "OMoreWritable " + m()
	}
	return "OOtherW"
}

func (o wopt) json() any {
	switch o.kind {
	case "all-writable", "other":
		return o.kind
	}
	if o.mask == nil && o.paths == nil {
		return map[string]any{o.kind: nil}
	}
	return map[string]any{o.kind: o.thePaths()}
}

func (o wopt) thePaths() []string {
	if o.mask != nil {
		return append([]string{}, o.mask.Paths...)
	}
	return append([]string{}, o.paths...)
}

func (o wopt) option() resource.WriteOption {
	switch o.kind {
	case "update":
		return resource.WithUpdateMask(o.mask)
	case "update-paths":
		return resource.WithUpdatePaths(o.paths...)
	case "more-update":
		return resource.WithMoreUpdateMask(o.mask)
	case "more-update-paths":
		return resource.WithMoreUpdatePaths(o.paths...)
	case "reset":
		return resource.WithResetMask(o.mask)
	case "reset-paths":
		return resource.WithResetPaths(o.paths...)
	case "all-writable":
		return resource.WithAllFieldsWritable()
	case "more-writable":
		return resource.WithMoreWritableFields(o.mask)
	case "more-writable-paths":
		return resource.WithMoreWritablePaths(o.paths...)
	}
	return resource.WithWriteTime(time.Unix(1700000000, 0))
}

func (g *c05) optList(stored, written proto.Message, resw *fieldmaskpb.FieldMask) {
	r := g.r
	md := stored.ProtoReflect().Descriptor()
	bad := map[string]vmsg.PathKind{} // the corrupt paths of this tuple
	somePaths := func(allowBad bool) []string {
		n := r.Intn(3)
		ps := []string{}
		for i := 0; i < n; i++ {
			ps = append(ps, g.pathIn(stored, written))
		}
		if allowBad && r.Chance(12) {
			kinds := []vmsg.PathKind{vmsg.PathUnknown, vmsg.PathThroughScalar, vmsg.PathThroughMap, vmsg.PathThroughRepMsg}
			kind := kinds[r.Intn(len(kinds))]
			if b, ok := vmsg.CorruptPath(r, md, kind); ok {
				bad[b] = kind
				ps = withPaths(&fieldmaskpb.FieldMask{Paths: ps}, r, b).Paths
			}
		}
		if allowBad && r.Chance(10) {
			// an invalid path below a valid one of the same tuple
			p := g.pathIn(stored, written)
			if b, kind, ok := invalidBelow(r, md, p); ok {
				bad[b] = kind
				ps = withPaths(&fieldmaskpb.FieldMask{Paths: ps}, r, p, b).Paths
			}
		}
		return ps
	}
	kinds := []string{"update", "update", "update-paths", "more-update", "more-update-paths", "more-update-paths", "reset", "reset-paths",
		"all-writable", "more-writable", "more-writable-paths", "more-writable-paths", "other"}
	n := r.Intn(7)
	var opts []wopt
	for i := 0; i < n; i++ {
		o := wopt{kind: kinds[r.Intn(len(kinds))]}
		if o.kind == "all-writable" && r.Chance(60) {
			o.kind = "more-writable-paths" // keep all-writable rare: it switches the writable mask off
		}
		switch o.kind {
		case "update", "more-update", "reset":
			if r.Chance(15) {
				o.mask = nil // nil mask
			} else {
				o.mask = &fieldmaskpb.FieldMask{Paths: somePaths(true)}
			}
		case "more-writable":
			if r.Chance(15) {
				o.mask = nil
			} else {
				o.mask = &fieldmaskpb.FieldMask{Paths: somePaths(false)}
			}
		case "update-paths", "more-update-paths", "reset-paths":
			o.paths = somePaths(true)
		case "more-writable-paths":
			o.paths = somePaths(false)
		}
		opts = append(opts, o)
	}
	// the same kind of option twice (with other paths) is where "last wins" / "all of them count" / "only
	// the ones after the update mask count" differ from their broken variants
	if len(opts) > 0 && r.Chance(45) {
		first := opts[r.Intn(len(opts))]
		again := wopt{kind: first.kind}
		switch first.kind {
		case "update", "more-update", "reset":
			again.mask = &fieldmaskpb.FieldMask{Paths: somePaths(true)}
		case "more-writable":
			again.mask = &fieldmaskpb.FieldMask{Paths: somePaths(false)}
		case "update-paths", "more-update-paths", "reset-paths":
			again.paths = somePaths(true)
		case "more-writable-paths":
			again.paths = somePaths(false)
		}
		i := r.Intn(len(opts) + 1)
		opts = append(opts[:i], append([]wopt{again}, opts[i:]...)...)
	}
	// what the options MEAN, computed here independently of the library: the last update option and the
	// more-update options after it; the last reset option
	var effUpdate []string
	updateNil := true
	var effReset []string
	for _, o := range opts {
		switch o.kind {
		case "update", "update-paths":
			updateNil = o.kind == "update" && o.mask == nil
			effUpdate = o.thePaths()
		case "more-update", "more-update-paths":
			if !updateNil {
				effUpdate = append(effUpdate, o.thePaths()...)
			}
		case "reset", "reset-paths":
			effReset = o.thePaths()
		}
	}
	mtag, rtag := vmsg.PathValid, vmsg.PathValid
	if !updateNil {
		for _, p := range effUpdate {
			if k, ok := bad[p]; ok {
				mtag = k
			}
		}
	}
	for _, p := range effReset {
		if k, ok := bad[p]; ok {
			rtag = k
		}
	}

	var jopts []any
	var copts []string
	var ropts []resource.WriteOption
	var before [][]string
	for _, o := range opts {
		jopts = append(jopts, o.json())
		copts = append(copts, o.coq())
		ropts = append(ropts, o.option())
		before = append(before, o.thePaths())
	}
	js := map[string]any{"op": "Value.Set(options)", "type": string(md.FullName()), "stored": vmsg.JSON(stored), "written": vmsg.JSON(written),
		"writable": vmsg.MaskJSON(resw), "options": jopts}
	init := proto.Clone(stored)
	src := proto.Clone(written)
	v := resource.NewValue(resource.WithInitialValue(init), resource.WithWritableFields(cloneMask(resw)))
	var ret proto.Message
	var err error
	panicked := false
	func() {
		defer func() {
			if p := recover(); p != nil {
				panicked = true
				js["panic"] = fmt.Sprint(p)
			}
		}()
		ret, err = v.Set(src, ropts...)
	}()
	code := int64(status.Code(err))
	js["code"] = code
	tags := []string{"via:Value.Set(options)", fmt.Sprintf("code:%d", code), fmt.Sprintf("options:%d", len(opts)), "update-tag:" + mtag.String()}
	seen := map[string]bool{}
	for _, o := range opts {
		if !seen[o.kind] {
			tags = append(tags, "option:"+o.kind)
			seen[o.kind] = true
		}
	}
	obs := "SPanic"
	if !panicked {
		next := v.Get()
		rs := "None"
		if err == nil {
			rs = "(Some " + vmsg.Value(ret) + ")"
			js["returned"] = vmsg.JSON(ret)
		}
		js["next_get"] = vmsg.JSON(next)
		obs = "(SRet " + rs + " " + vmsg.Value(next) + ")"
		if !proto.Equal(init, stored) {
			g.o.Directs = append(g.o.Directs, vcoq.Direct{What: "Value.Set modified the previously stored message in place", Class: "stored-mutated:Value.Set", Replay: js})
		}
	} else {
		tags = append(tags, "result:panic")
	}
	for i, o := range opts {
		if !samePaths(before[i], o.thePaths()) {
			g.o.Directs = append(g.o.Directs, vcoq.Direct{What: "Value.Set changed a caller's field mask", Class: "mask-mutated:Value.Set", Replay: js})
		}
	}
	term := vcoq.App("KOpts", vmsg.TypeName(stored), vmsg.Mask(resw), vcoq.List(copts), vcoq.Int(int(mtag)), vcoq.Int(int(rtag)),
		vmsg.Value(stored), vmsg.Value(written), vcoq.Z(code), obs)
	g.o.Add(vcoq.Case{Coq: term, JSON: js, Key: term, NonTrivial: code == 0 && len(opts) > 1, Tags: tags})
}
