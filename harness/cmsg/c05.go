package main

import (
	"fmt"
	"sort"
	"strings"

	"github.com/smart-core-os/sc-api/go/traits"
	"github.com/smart-core-os/sc-golang/internal/testproto"
	"github.com/smart-core-os/sc-golang/pkg/masks"
	"github.com/smart-core-os/sc-golang/pkg/resource"
	"github.com/smart-core-os/sc-golang/verifharness/vcoq"
	"github.com/smart-core-os/sc-golang/verifharness/vh"
	"github.com/smart-core-os/sc-golang/verifharness/vmsg"
	"google.golang.org/grpc/status"
	"google.golang.org/protobuf/proto"
	"google.golang.org/protobuf/reflect/protoreflect"
	"google.golang.org/protobuf/types/known/fieldmaskpb"
)

func init() { vh.Register("C05", genC05) }

type c05 struct {
	o *vcoq.Out
	r *vcoq.Rand
	// classes of the tuple being emitted, for the histogram
	pairClass string
	poison    string
}

// which branch of FieldUpdater.Merge (= of the model's merge_gen) a tuple takes, for the histogram
func mergeBranch(code int64, um, wm *fieldmaskpb.FieldMask) string {
	switch {
	case code != 0:
		return "model-branch:rejected-by-Validate"
	case wm != nil && len(wm.Paths) == 0:
		return "model-branch:nothing-writable"
	case um == nil && wm == nil:
		return "model-branch:nil-update,nil-writable(reset dst)"
	case um == nil:
		return "model-branch:nil-update,prune-writable"
	case len(um.Paths) == 0:
		return "model-branch:empty-update"
	case wm == nil:
		return "model-branch:masked,nil-writable"
	}
	return "model-branch:masked,writable-filter"
}

func (g *c05) classTags() []string {
	var out []string
	if g.pairClass != "" {
		out = append(out, g.pairClass)
	}
	if g.poison != "" {
		out = append(out, "invalid-child+valid-parent", "poison:"+g.poison)
	}
	return out
}

func cloneMask(fm *fieldmaskpb.FieldMask) *fieldmaskpb.FieldMask {
	if fm == nil {
		return nil
	}
	return &fieldmaskpb.FieldMask{Paths: append([]string{}, fm.Paths...)}
}

func maskChanged(a, b *fieldmaskpb.FieldMask) bool {
	if a == nil || b == nil {
		return (a == nil) != (b == nil)
	}
	return !samePaths(a.Paths, b.Paths)
}

// relation of the update mask to the writable mask, for the histogram
func relationClass(um, wm *fieldmaskpb.FieldMask) []string {
	if um == nil {
		return []string{"rel:nil-update"}
	}
	if wm == nil {
		return []string{"rel:nil-writable"}
	}
	seen := map[string]bool{}
	for _, p := range um.Paths {
		best := "disjoint"
		for _, w := range wm.Paths {
			switch vmsg.PathRelation(w, p) {
			case "equal":
				best = "equal"
			case "parent-child": // writable is a parent of the update path: allowed
				if best != "equal" {
					best = "update-inside-writable"
				}
			case "child-parent": // update path is a parent of a narrower writable path
				if best == "disjoint" {
					best = "update-parent-of-writable"
				}
			}
		}
		seen["rel:"+best] = true
	}
	var out []string
	for k := range seen {
		out = append(out, k)
	}
	return out
}

func selfClass(fm *fieldmaskpb.FieldMask, prefix string) []string {
	if fm == nil {
		return []string{prefix + "nil"}
	}
	if len(fm.Paths) == 0 {
		return []string{prefix + "empty"}
	}
	seen := map[string]bool{}
	for i, a := range fm.Paths {
		for j, b := range fm.Paths {
			if i < j {
				switch vmsg.PathRelation(a, b) {
				case "equal":
					seen[prefix+"duplicate"] = true
				case "parent-child", "child-parent":
					seen[prefix+"parent+child"] = true
				case "siblings":
					seen[prefix+"siblings"] = true
				}
			}
		}
	}
	out := []string{prefix + fmt.Sprintf("paths:%d", min(len(fm.Paths), 4))}
	for k := range seen {
		out = append(out, k)
	}
	return out
}

// a path of msg's type that is populated in a or b when possible
func (g *c05) pathIn(a, b proto.Message) string {
	// half of the time insist on a nested path: that is where update, writable and reset masks interact
	if g.r.Bool() {
		for i := 0; i < 12; i++ {
			if p := g.pathIn1(a, b); strings.Contains(p, ".") {
				return p
			}
		}
	}
	return g.pathIn1(a, b)
}

func (g *c05) pathIn1(a, b proto.Message) string {
	r := g.r
	m := a
	if r.Bool() {
		m = b
	}
	if r.Chance(80) {
		if p, ok := populatedPath(r, m.ProtoReflect(), false); ok {
			// sometimes stop at a parent message
			if r.Chance(25) {
				if pp, ok := parentOf(p); ok {
					return pp
				}
			}
			return p
		}
	}
	return vmsg.ValidPath(r, a.ProtoReflect().Descriptor(), 40, 3)
}

func childOf(r *vcoq.Rand, md protoreflect.MessageDescriptor, p string) (string, bool) {
	for _, s := range splitPath(p) {
		fd := md.Fields().ByName(protoreflect.Name(s))
		if fd == nil || fd.Message() == nil || fd.IsList() || fd.IsMap() {
			return "", false
		}
		md = fd.Message()
	}
	if md.Fields().Len() == 0 {
		return "", false
	}
	return p + "." + string(md.Fields().Get(r.Intn(md.Fields().Len())).Name()), true
}

// updateMask: class-driven update mask; tag = 0 if valid by construction
func (g *c05) updateMask(stored, written proto.Message) (*fieldmaskpb.FieldMask, vmsg.PathKind) {
	r := g.r
	md := stored.ProtoReflect().Descriptor()
	switch r.Intn(13) {
	case 0:
		return nil, vmsg.PathValid
	case 1:
		return &fieldmaskpb.FieldMask{}, vmsg.PathValid
	case 2, 3, 4:
		return &fieldmaskpb.FieldMask{Paths: []string{g.pathIn(stored, written)}}, vmsg.PathValid
	case 5, 6:
		n := r.Range(2, 4)
		var ps []string
		for i := 0; i < n; i++ {
			ps = append(ps, g.pathIn(stored, written))
		}
		return &fieldmaskpb.FieldMask{Paths: ps}, vmsg.PathValid
	case 7: // duplicate
		p := g.pathIn(stored, written)
		ps := []string{p, p}
		if r.Bool() {
			ps = []string{p, g.pathIn(stored, written), p}
		}
		return &fieldmaskpb.FieldMask{Paths: ps}, vmsg.PathValid
	case 8, 9: // parent + child
		p := g.pathIn(stored, written)
		if c, ok := childOf(r, md, p); ok {
			if r.Bool() {
				return &fieldmaskpb.FieldMask{Paths: []string{p, c}}, vmsg.PathValid
			}
			return &fieldmaskpb.FieldMask{Paths: []string{c, p}}, vmsg.PathValid
		}
		if pp, ok := parentOf(p); ok {
			return &fieldmaskpb.FieldMask{Paths: []string{p, pp}}, vmsg.PathValid
		}
		return &fieldmaskpb.FieldMask{Paths: []string{p}}, vmsg.PathValid
	case 10: // sibling fields one of whose names is a string prefix of the other's
		if pairs := vmsg.PrefixNamedPairs(md, 1); len(pairs) > 0 {
			pr := pairs[r.Intn(len(pairs))]
			switch r.Intn(3) {
			case 0:
				return &fieldmaskpb.FieldMask{Paths: []string{pr[1]}}, vmsg.PathValid
			case 1:
				return &fieldmaskpb.FieldMask{Paths: []string{pr[0], pr[1]}}, vmsg.PathValid
			default:
				return &fieldmaskpb.FieldMask{Paths: []string{pr[1], pr[0]}}, vmsg.PathValid
			}
		}
		return &fieldmaskpb.FieldMask{Paths: []string{g.pathIn(stored, written)}}, vmsg.PathValid
	default: // corrupted
		kinds := []vmsg.PathKind{vmsg.PathUnknown, vmsg.PathThroughScalar, vmsg.PathThroughMap, vmsg.PathThroughRepScalar,
			vmsg.PathThroughRepMsg, vmsg.PathEmptySegment}
		kind := kinds[r.Intn(len(kinds))]
		bad, ok := vmsg.CorruptPath(r, md, kind)
		if !ok {
			return &fieldmaskpb.FieldMask{Paths: []string{g.pathIn(stored, written)}}, vmsg.PathValid
		}
		ps := []string{bad}
		if r.Bool() {
			ps = []string{g.pathIn(stored, written), bad}
		}
		return &fieldmaskpb.FieldMask{Paths: ps}, kind
	}
}

// writableMask: related to the update mask in every way (always valid for the type)
func (g *c05) writableMask(stored, written proto.Message, um *fieldmaskpb.FieldMask) *fieldmaskpb.FieldMask {
	r := g.r
	md := stored.ProtoReflect().Descriptor()
	valid := func(p string) bool {
		fm, err := fieldmaskpb.New(stored, p)
		return err == nil && len(fm.Paths) == 1
	}
	var ups []string
	if um != nil {
		for _, p := range um.Paths {
			if valid(p) {
				ups = append(ups, p)
			}
		}
	}
	switch c := r.Intn(12); {
	case c <= 2:
		return nil
	case c == 3:
		return &fieldmaskpb.FieldMask{}
	case c == 4 && len(ups) > 0: // equal
		return &fieldmaskpb.FieldMask{Paths: append([]string{}, ups...)}
	case c == 5 && len(ups) > 0: // parents of the update paths (update inside writable)
		var ps []string
		for _, p := range ups {
			if pp, ok := parentOf(p); ok && r.Chance(70) {
				ps = append(ps, pp)
			} else {
				ps = append(ps, p)
			}
		}
		return &fieldmaskpb.FieldMask{Paths: ps}
	case c == 6 && len(ups) > 0: // children of the update paths (update is a parent of a narrower writable path)
		var ps []string
		for _, p := range ups {
			if ch, ok := childOf(r, md, p); ok {
				ps = append(ps, ch)
				if r.Chance(30) {
					if ch2, ok := childOf(r, md, p); ok {
						ps = append(ps, ch2)
					}
				}
			} else {
				ps = append(ps, p)
			}
		}
		return &fieldmaskpb.FieldMask{Paths: ps}
	case c == 7 && len(ups) > 1: // all but one
		return &fieldmaskpb.FieldMask{Paths: append([]string{}, ups[1:]...)}
	case c == 8 && len(ups) > 0: // superset, with a parent+child pair
		ps := append([]string{}, ups...)
		ps = append(ps, g.pathIn(stored, written))
		if ch, ok := childOf(r, md, ups[0]); ok {
			ps = append(ps, ch)
		}
		return &fieldmaskpb.FieldMask{Paths: ps}
	case c == 9 && len(ups) > 0:
		// the writable path is a sibling whose NAME is a string prefix of the update path's name (or the
		// other way round): not writable, however similar the strings
		for _, pr := range vmsg.PrefixNamedPairs(md, 1) {
			for _, u := range ups {
				if u == pr[1] || strings.HasPrefix(u, pr[1]+".") {
					return &fieldmaskpb.FieldMask{Paths: []string{pr[0]}}
				}
				if u == pr[0] {
					return &fieldmaskpb.FieldMask{Paths: []string{pr[1]}}
				}
			}
		}
		return &fieldmaskpb.FieldMask{Paths: []string{g.pathIn(stored, written)}}
	default: // unrelated random
		n := r.Range(1, 3)
		var ps []string
		for i := 0; i < n; i++ {
			ps = append(ps, g.pathIn(stored, written))
		}
		return &fieldmaskpb.FieldMask{Paths: ps}
	}
}

func (g *c05) resetMask(stored, written proto.Message) (*fieldmaskpb.FieldMask, vmsg.PathKind) {
	r := g.r
	switch c := r.Intn(10); {
	case c <= 5:
		return nil, vmsg.PathValid
	case c == 6:
		return &fieldmaskpb.FieldMask{}, vmsg.PathValid
	case c == 7:
		return &fieldmaskpb.FieldMask{Paths: []string{g.pathIn(stored, written)}}, vmsg.PathValid
	case c == 8:
		p := g.pathIn(stored, written)
		if ch, ok := childOf(r, stored.ProtoReflect().Descriptor(), p); ok {
			return &fieldmaskpb.FieldMask{Paths: []string{p, ch}}, vmsg.PathValid
		}
		return &fieldmaskpb.FieldMask{Paths: []string{p, g.pathIn(stored, written)}}, vmsg.PathValid
	default:
		kinds := []vmsg.PathKind{vmsg.PathUnknown, vmsg.PathThroughScalar, vmsg.PathThroughMap, vmsg.PathThroughRepMsg}
		kind := kinds[r.Intn(len(kinds))]
		bad, ok := vmsg.CorruptPath(r, stored.ProtoReflect().Descriptor(), kind)
		if !ok {
			return nil, vmsg.PathValid
		}
		return &fieldmaskpb.FieldMask{Paths: []string{bad}}, kind
	}
}

func boolCoq(b bool) string { return vcoq.Bool(b) }

// invalidBelow builds an INVALID path that has the valid path p as a proper path-prefix: an unknown field
// of a message, or a continuation below a scalar / map / repeated field. Next to p itself in a mask (or
// in another mask that is united with it) a normalizing union drops it - validation must still see it.
func invalidBelow(r *vcoq.Rand, md protoreflect.MessageDescriptor, p string) (string, vmsg.PathKind, bool) {
	var fd protoreflect.FieldDescriptor
	for _, s := range splitPath(p) {
		if md == nil {
			return "", 0, false
		}
		fd = md.Fields().ByName(protoreflect.Name(s))
		if fd == nil {
			return "", 0, false
		}
		md = nil
		if fd.Message() != nil && !fd.IsMap() && !fd.IsList() {
			md = fd.Message()
		}
	}
	switch {
	case fd == nil:
		return "", 0, false
	case fd.IsMap():
		return p + "." + []string{"a", "key", "value"}[r.Intn(3)], vmsg.PathThroughMap, true
	case fd.IsList() && fd.Message() != nil:
		if fd.Message().Fields().Len() == 0 {
			return "", 0, false
		}
		return p + "." + string(fd.Message().Fields().Get(r.Intn(fd.Message().Fields().Len())).Name()), vmsg.PathThroughRepMsg, true
	case fd.IsList():
		return p + "." + []string{"0", "a", "value"}[r.Intn(3)], vmsg.PathThroughRepScalar, true
	case fd.Message() != nil:
		return p + "." + []string{"zzz", "nope", "value_"}[r.Intn(3)], vmsg.PathUnknown, true
	default:
		return p + "." + []string{"value", "a", "c"}[r.Intn(3)], vmsg.PathThroughScalar, true
	}
}

func withPaths(fm *fieldmaskpb.FieldMask, r *vcoq.Rand, ps ...string) *fieldmaskpb.FieldMask {
	out := &fieldmaskpb.FieldMask{}
	if fm != nil {
		out.Paths = append(out.Paths, fm.Paths...)
	}
	for _, p := range ps {
		// anywhere in the list: before or after what is already there
		i := r.Intn(len(out.Paths) + 1)
		out.Paths = append(out.Paths[:i], append([]string{p}, out.Paths[i:]...)...)
	}
	return out
}

// poison slots: which mask gets the valid parent path and which the invalid path below it
const (
	poisonUpdateUpdate = iota // both in the update mask
	poisonUpdateMore          // parent in the update mask, invalid child in the extra update paths
	poisonMoreUpdate          // invalid child in the update mask, parent in the extra update paths
	poisonMoreMore            // both in the extra update paths
	poisonWritable            // both in the resource's writable mask
	poisonMoreWritable        // both in the extra writable mask
	poisonWritableMoreW       // parent in the writable mask, child in the extra writable mask
	poisonMoreWWritable       // child in the writable mask, parent in the extra writable mask
	poisonReset               // both in the reset mask
	poisonSlots
)

var poisonNames = []string{"update+update", "update+more-update", "more-update+update", "more-update+more-update",
	"writable+writable", "more-writable+more-writable", "writable+more-writable", "more-writable+writable", "reset+reset"}

// oneFieldChanged returns a copy of m that differs from it in exactly one top-level field (cleared, or
// replaced by the field of a fresh random message), or ok=false if no such change was found.
func oneFieldChanged(r *vcoq.Rand, m proto.Message, cfg vmsg.RandCfg) (proto.Message, bool) {
	for try := 0; try < 8; try++ {
		c := proto.Clone(m)
		cr := c.ProtoReflect()
		fds := cr.Descriptor().Fields()
		fd := fds.Get(r.Intn(fds.Len()))
		if r.Bool() && cr.Has(fd) {
			cr.Clear(fd)
		} else {
			other := vmsg.RandMsg(r, m, cfg).ProtoReflect()
			if !other.Has(fd) {
				continue
			}
			cr.Set(fd, other.Get(fd))
		}
		if !proto.Equal(c, m) {
			return c, true
		}
	}
	return nil, false
}

// a populated repeated field of m (top level), if any
func populatedRepeated(r *vcoq.Rand, m proto.Message) (string, bool) {
	var out []string
	m.ProtoReflect().Range(func(fd protoreflect.FieldDescriptor, _ protoreflect.Value) bool {
		if fd.IsList() || fd.IsMap() {
			out = append(out, string(fd.Name()))
		}
		return true
	})
	if len(out) == 0 {
		return "", false
	}
	sort.Strings(out)
	return out[r.Intn(len(out))], true
}

func (g *c05) direct(stored, written proto.Message, um, wm, rm *fieldmaskpb.FieldMask, mtag, rtag vmsg.PathKind) {
	js := map[string]any{"op": "FieldUpdater", "type": string(stored.ProtoReflect().Descriptor().FullName()),
		"stored": vmsg.JSON(stored), "written": vmsg.JSON(written), "update_mask": vmsg.MaskJSON(um),
		"writable": vmsg.MaskJSON(wm), "reset_mask": vmsg.MaskJSON(rm)}
	umc, wmc, rmc := cloneMask(um), cloneMask(wm), cloneMask(rm)
	dst, src := proto.Clone(stored), proto.Clone(written)
	u := masks.NewFieldUpdater(masks.WithUpdateMask(umc), masks.WithWritableFields(wmc), masks.WithResetMask(rmc))
	code := int64(status.Code(u.Validate(src)))
	js["code"] = code
	obs := "None"
	tags := []string{"via:FieldUpdater", fmt.Sprintf("code:%d", code)}
	if !proto.Equal(src, written) || !proto.Equal(dst, stored) {
		g.o.Directs = append(g.o.Directs, vcoq.Direct{What: "FieldUpdater.Validate changed a message", Class: "validate-mutated", Replay: js})
	}
	if code == 0 {
		panicked := false
		func() {
			defer func() {
				if p := recover(); p != nil {
					panicked = true
					js["panic"] = fmt.Sprint(p)
				}
			}()
			u.Merge(dst, src)
		}()
		if panicked {
			obs = "(Some MPanic)"
			tags = append(tags, "result:panic")
		} else {
			obs = "(Some (MOk " + vmsg.Value(dst) + " " + vmsg.Value(src) + "))"
			js["post"] = vmsg.JSON(dst)
			js["written_after"] = vmsg.JSON(src)
			if !proto.Equal(src, written) {
				tags = append(tags, "src:filtered-in-place")
			} else {
				tags = append(tags, "src:unchanged")
			}
			if !proto.Equal(dst, stored) {
				tags = append(tags, "result:changed")
			} else {
				tags = append(tags, "result:unchanged")
			}
		}
	}
	if maskChanged(um, umc) || maskChanged(wm, wmc) || maskChanged(rm, rmc) {
		g.o.Directs = append(g.o.Directs, vcoq.Direct{What: "FieldUpdater changed a caller's field mask", Class: "mask-mutated:FieldUpdater", Replay: js})
	}
	tags = append(tags, relationClass(um, wm)...)
	tags = append(tags, selfClass(um, "update:")...)
	tags = append(tags, selfClass(rm, "reset:")...)
	tags = append(tags, "update-tag:"+mtag.String())
	tags = append(tags, g.classTags()...)
	tags = append(tags, mergeBranch(code, um, wm))
	term := vcoq.App("KMerge", vmsg.TypeName(stored), vmsg.Mask(um), vmsg.Mask(wm), vmsg.Mask(rm), vcoq.Int(int(mtag)), vcoq.Int(int(rtag)),
		vmsg.Value(stored), vmsg.Value(written), vcoq.Z(code), obs)
	g.o.Add(vcoq.Case{Coq: term, JSON: js, Key: term, NonTrivial: code == 0 && um != nil && len(um.Paths) > 0, Tags: tags})
}

func (g *c05) viaValue(stored, written proto.Message, allw bool, resw, more, um, moreu, rm *fieldmaskpb.FieldMask, mtag, rtag vmsg.PathKind) {
	js := map[string]any{"op": "Value.Set", "type": string(stored.ProtoReflect().Descriptor().FullName()),
		"stored": vmsg.JSON(stored), "written": vmsg.JSON(written), "update_mask": vmsg.MaskJSON(um),
		"writable": vmsg.MaskJSON(resw), "more_writable": vmsg.MaskJSON(more), "more_update": vmsg.MaskJSON(moreu), "all_writable": allw, "reset_mask": vmsg.MaskJSON(rm)}
	umc, reswc, morec, rmc, moreuc := cloneMask(um), cloneMask(resw), cloneMask(more), cloneMask(rm), cloneMask(moreu)
	init := proto.Clone(stored)
	src := proto.Clone(written)
	v := resource.NewValue(resource.WithInitialValue(init), resource.WithWritableFields(reswc))
	opts := []resource.WriteOption{resource.WithUpdateMask(umc)}
	if moreu != nil {
		// after WithUpdateMask: adds paths to a non-nil update mask, leaves a nil one ("all fields") alone
		opts = append(opts, resource.WithMoreUpdateMask(moreuc))
	}
	if rm != nil {
		opts = append(opts, resource.WithResetMask(rmc))
	}
	if more != nil {
		opts = append(opts, resource.WithMoreWritableFields(morec))
	}
	if allw {
		opts = append(opts, resource.WithAllFieldsWritable())
	}
	var ret proto.Message
	var err error
	panicked := false
	func() {
		defer func() {
			if p := recover(); p != nil {
				panicked = true
				js["panic"] = fmt.Sprint(p)
			}
		}()
		ret, err = v.Set(src, opts...)
	}()
	code := int64(status.Code(err))
	js["code"] = code
	tags := []string{"via:Value.Set", fmt.Sprintf("code:%d", code)}
	obs := "SPanic"
	if !panicked {
		next := v.Get()
		r := "None"
		if err == nil {
			r = "(Some " + vmsg.Value(ret) + ")"
			js["returned"] = vmsg.JSON(ret)
		}
		js["next_get"] = vmsg.JSON(next)
		obs = "(SRet " + r + " " + vmsg.Value(next) + ")"
		if !proto.Equal(init, stored) {
			// the message handed to WithInitialValue must not be written through
			g.o.Directs = append(g.o.Directs, vcoq.Direct{What: "Value.Set modified the previously stored message in place", Class: "stored-mutated:Value.Set", Replay: js})
		}
		if !proto.Equal(src, written) {
			tags = append(tags, "src:filtered-in-place")
		} else {
			tags = append(tags, "src:unchanged")
		}
	} else {
		tags = append(tags, "result:panic")
	}
	if maskChanged(um, umc) || maskChanged(resw, reswc) || maskChanged(more, morec) || maskChanged(rm, rmc) || maskChanged(moreu, moreuc) {
		g.o.Directs = append(g.o.Directs, vcoq.Direct{What: "Value.Set changed a caller's field mask", Class: "mask-mutated:Value.Set", Replay: js})
	}
	eff := resw
	if resw != nil && more != nil {
		eff = &fieldmaskpb.FieldMask{Paths: append(append([]string{}, resw.Paths...), more.Paths...)}
	}
	if allw {
		eff = nil
		tags = append(tags, "opt:all-writable")
	}
	if more != nil {
		tags = append(tags, "opt:more-writable")
	}
	if moreu != nil {
		if um == nil {
			tags = append(tags, "opt:more-update+nil-update")
		} else {
			tags = append(tags, "opt:more-update")
		}
	}
	umAll := um
	if um != nil && moreu != nil {
		umAll = &fieldmaskpb.FieldMask{Paths: append(append([]string{}, um.Paths...), moreu.Paths...)}
	}
	tags = append(tags, relationClass(umAll, eff)...)
	tags = append(tags, selfClass(umAll, "update:")...)
	tags = append(tags, selfClass(rm, "reset:")...)
	tags = append(tags, "update-tag:"+mtag.String())
	tags = append(tags, g.classTags()...)
	tags = append(tags, mergeBranch(code, umAll, eff))
	term := vcoq.App("KSet", vmsg.TypeName(stored), boolCoq(allw), vmsg.Mask(resw), vmsg.Mask(more), vmsg.Mask(um), vmsg.Mask(moreu), vmsg.Mask(rm),
		vcoq.Int(int(mtag)), vcoq.Int(int(rtag)), vmsg.Value(stored), vmsg.Value(written), vcoq.Z(code), obs)
	g.o.Add(vcoq.Case{Coq: term, JSON: js, Key: term, NonTrivial: code == 0 && um != nil && len(um.Paths) > 0, Tags: tags})
}

func genC05(o *vcoq.Out, r *vcoq.Rand, tier string) error {
	o.Header = vmsg.Header + "\nFrom SC Require Import Msg.FmUtils Msg.ProtoOps Masks.Get Masks.Update Masks.Options Masks.C05Judge."
	o.CaseType = "c05case"
	o.Judge = "judge"
	o.Shard = 100
	o.Rule = "random (stored, written) pairs of TestAllTypes and traits Brightness, AirTemperature, ElectricMode (reflection, tiny alphabets, oneofs / optional scalars / maps / lists / nested messages); update mask by class: nil, empty, 1 path, 2-4 paths, duplicate, parent+child (both orders), corrupted (unknown / through scalar, map, repeated / empty segment); writable mask related to the update mask in every way: nil, empty, equal, parents of the update paths, children of them (update is a parent of a narrower writable path), all-but-one, superset with a parent+child pair, unrelated; extra-writable mask (nil / the missing paths / random); all-writable flag; reset mask nil / empty / valid / parent+child / corrupted. 80% of paths walk fields populated in stored or written. 24% of the pairs have written = stored or differ from it in exactly one field (reset mask on a populated path / update mask naming a populated repeated field made frequent there). 16% of the tuples carry an INVALID path below a valid path of the same or of a united mask (update / extra-update / writable / extra-writable / reset, nine slot pairs; unknown field, continuation below scalar / map / repeated). 12% of the tuples run Value.Set with a random LIST of 0-6 mask options in order (Masks/Options.v); of the rest 60% go to masks.FieldUpdater Validate+Merge directly, 40% through resource.Value.Set + Get with single options (WithMoreUpdateMask in 35%). Fixed lists: the inputs of every repaired defect, written = stored with every mask kind. Non-trivial: accepted write with a non-empty update mask; distinct by the full case term."
	g := &c05{o: o, r: r}
	scale := 1
	if tier == "thorough" {
		scale = 12 // 15 took 13-14 min with the machine loaded by other checks; keep headroom under 15 min
	}
	cfgs := []vmsg.RandCfg{vmsg.DefaultCfg, {FieldPct: 45, Depth: 2, MaxList: 2}, {FieldPct: 15, Depth: 3, MaxList: 3}}
	for i := 0; i < 900*scale; i++ {
		proto0 := msgTypes[0]
		if r.Chance(35) {
			proto0 = msgTypes[1+r.Intn(len(msgTypes)-1)]
		}
		stored := vmsg.RandMsg(r, proto0, cfgs[r.Intn(len(cfgs))])
		written := vmsg.RandMsg(r, proto0, cfgs[r.Intn(len(cfgs))])
		// the written message EQUALS the stored one (a code path keyed on "nothing to do" must still append
		// to repeated fields and apply the reset mask), or differs from it in exactly one field
		pairClass := "pair:independent"
		switch c := r.Intn(100); {
		case c < 14:
			if c < 9 {
				stored = vmsg.RandMsg(r, proto0, vmsg.RandCfg{FieldPct: 55, Depth: 2, MaxList: 2})
			}
			written = proto.Clone(stored)
			pairClass = "pair:written=stored"
		case c < 24:
			if w, ok := oneFieldChanged(r, stored, cfgs[r.Intn(len(cfgs))]); ok {
				written = w
				pairClass = "pair:one-field-differs"
			}
		}
		um, mtag := g.updateMask(stored, written)
		rm, rtag := g.resetMask(stored, written)
		if pairClass != "pair:independent" {
			// every mask kind comes up through updateMask / resetMask / writableMask as usual; make the two
			// telling ones frequent: a reset mask on a populated field, an update mask naming a populated
			// repeated field or map
			switch r.Intn(4) {
			case 0:
				if p, ok := populatedPath(r, stored.ProtoReflect(), false); ok {
					rm, rtag = &fieldmaskpb.FieldMask{Paths: []string{p}}, vmsg.PathValid
				}
			case 1:
				if p, ok := populatedRepeated(r, stored); ok && mtag == vmsg.PathValid {
					um = withPaths(um, r, p)
				}
			}
		}
		wm := g.writableMask(stored, written, um)
		g.pairClass = pairClass
		g.poison = ""
		if r.Chance(15) {
			// a whole LIST of mask options, in order (Masks/Options.v)
			g.optList(stored, written, wm)
			continue
		}
		direct := r.Chance(60)
		var more, moreu *fieldmaskpb.FieldMask
		if !direct {
			switch r.Intn(5) {
			case 0: // what the update mask needs
				if um != nil && mtag == vmsg.PathValid {
					more = cloneMask(um)
				}
			case 1:
				more = &fieldmaskpb.FieldMask{Paths: []string{g.pathIn(stored, written), g.pathIn(stored, written)}}
			case 2:
				more = &fieldmaskpb.FieldMask{}
			}
			if r.Chance(35) {
				// extra update paths (valid by construction), with nil and non-nil update masks alike
				moreu = &fieldmaskpb.FieldMask{Paths: []string{g.pathIn(stored, written)}}
				if r.Chance(30) {
					moreu.Paths = append(moreu.Paths, g.pathIn(stored, written))
				}
				if r.Chance(40) {
					um = nil
					mtag = vmsg.PathValid
				}
			}
		}
		// an INVALID path below a valid path of the same (or of a united) mask: a normalizing union or
		// validation of a normalized copy swallows it; every request mask must still be rejected
		if r.Chance(16) {
			slot := r.Intn(poisonSlots)
			if direct {
				slot = []int{poisonUpdateUpdate, poisonWritable, poisonReset}[r.Intn(3)]
			}
			parent := g.pathIn(stored, written)
			if um != nil && len(um.Paths) > 0 && mtag == vmsg.PathValid && r.Chance(60) {
				parent = um.Paths[r.Intn(len(um.Paths))]
			}
			if bad, kind, ok := invalidBelow(r, stored.ProtoReflect().Descriptor(), parent); ok {
				g.poison = poisonNames[slot] + ":" + kind.String()
				// the write must be acceptable but for the invalid path: the parent is writable
				if wm != nil && slot < poisonWritable && r.Chance(75) {
					wm = withPaths(wm, r, parent)
				}
				switch slot {
				case poisonUpdateUpdate:
					um, mtag = withPaths(um, r, parent, bad), kind
				case poisonUpdateMore:
					um, moreu, mtag = withPaths(um, r, parent), withPaths(moreu, r, bad), kind
				case poisonMoreUpdate:
					um, moreu, mtag = withPaths(um, r, bad), withPaths(moreu, r, parent), kind
				case poisonMoreMore:
					um, moreu, mtag = withPaths(um, r), withPaths(moreu, r, parent, bad), kind
				case poisonWritable:
					wm = withPaths(wm, r, parent, bad)
				case poisonMoreWritable:
					more = withPaths(more, r, parent, bad)
				case poisonWritableMoreW:
					wm, more = withPaths(wm, r, parent), withPaths(more, r, bad)
				case poisonMoreWWritable:
					wm, more = withPaths(wm, r, bad), withPaths(more, r, parent)
				case poisonReset:
					rm, rtag = withPaths(rm, r, parent, bad), kind
				}
			}
		}
		if direct {
			g.direct(stored, written, um, wm, rm, mtag, rtag)
			continue
		}
		g.viaValue(stored, written, r.Chance(10), wm, more, um, moreu, rm, mtag, rtag)
	}
	// the inputs of the defects repaired in pkg/masks/update.go, always present
	fm := func(p ...string) *fieldmaskpb.FieldMask { return &fieldmaskpb.FieldMask{Paths: p} }
	st := &testproto.TestAllTypes{DefaultInt32: 7, DefaultForeignMessage: &testproto.ForeignMessage{C: 1, D: 2}}
	wr := &testproto.TestAllTypes{DefaultForeignMessage: &testproto.ForeignMessage{C: 5, D: 6}, DefaultInt32: 100}
	empty := &testproto.TestAllTypes{}
	dfm := "default_foreign_message"
	type fixed struct {
		um, wm, rm *fieldmaskpb.FieldMask
		w          proto.Message
	}
	for _, f := range []fixed{
		{fm("default_int32", "default_int32"), fm("default_int32"), nil, wr},    // duplicate path
		{fm(dfm), fm(dfm + ".c"), nil, empty},                                    // parent of a narrower writable path
		{fm(dfm, "default_int32"), fm(dfm+".c", dfm+".d"), nil, wr},              // count coincidence
		{fm(dfm + ".c"), nil, nil, empty},                                        // pruneEmpty ignores the sub-mask
		{fm(dfm, dfm+".c"), nil, nil, wr},                                        // parent+child update mask
		{fm(dfm + ".d"), fm(dfm, dfm+".c"), nil, wr},                             // parent+child writable mask
		{fm("default_int32"), nil, fm(dfm, dfm+".c"), wr},                        // parent+child reset mask
	} {
		g.direct(st, f.w, f.um, f.wm, f.rm, vmsg.PathValid, vmsg.PathValid)
		g.viaValue(st, f.w, false, f.wm, nil, f.um, nil, f.rm, vmsg.PathValid, vmsg.PathValid)
	}
	// nil update mask + extra update paths: still "all writable fields"
	g.viaValue(st, wr, false, nil, nil, nil, fm("default_int32"), nil, vmsg.PathValid, vmsg.PathValid)
	g.viaValue(st, wr, false, fm(dfm), nil, nil, fm(dfm+".c"), nil, vmsg.PathValid, vmsg.PathValid)
	g.viaValue(st, wr, false, nil, nil, fm(dfm+".c"), fm("default_int32", dfm+".c"), nil, vmsg.PathValid, vmsg.PathValid)
	// the input of the defect repaired in pkg/resource/opt.go (3a4e7e7): an unknown path below a path that
	// WithMoreUpdateMask adds (and the same shape in every other pair of masks)
	{
		h := float32(2.5)
		at := &traits.AirTemperature{AmbientHumidity: &h}
		atw := &traits.AirTemperature{}
		ah, bad := "ambient_humidity", "ambient_humidity.value"
		g.poison = "fixed-list"
		g.viaValue(at, atw, false, nil, nil, fm(bad), fm(ah), nil, vmsg.PathThroughScalar, vmsg.PathValid)
		g.viaValue(at, atw, false, nil, nil, fm(ah), fm(bad), nil, vmsg.PathThroughScalar, vmsg.PathValid)
		g.viaValue(at, atw, false, nil, nil, fm(ah, bad), nil, nil, vmsg.PathThroughScalar, vmsg.PathValid)
		g.viaValue(at, atw, false, nil, nil, fm(), fm(bad, ah), nil, vmsg.PathThroughScalar, vmsg.PathValid)
		g.viaValue(at, atw, false, fm(ah), nil, fm("temperature_set_point_delta", bad), fm(ah), nil, vmsg.PathThroughScalar, vmsg.PathValid)
		g.viaValue(at, atw, false, nil, nil, fm(ah), nil, fm(bad, ah), vmsg.PathValid, vmsg.PathThroughScalar)
		g.viaValue(at, atw, false, fm(ah, bad), nil, fm(ah), nil, nil, vmsg.PathValid, vmsg.PathValid)
		g.viaValue(at, atw, false, fm(bad), fm(ah), fm(ah), nil, nil, vmsg.PathValid, vmsg.PathValid)
		g.viaValue(at, atw, false, fm(ah), fm(bad), nil, nil, nil, vmsg.PathValid, vmsg.PathValid)
		g.direct(at, atw, fm(bad, ah), nil, nil, vmsg.PathThroughScalar, vmsg.PathValid)
		g.direct(at, atw, fm(ah), fm(bad, ah), nil, vmsg.PathValid, vmsg.PathValid)
		g.direct(at, atw, fm(ah), nil, fm(bad, ah), vmsg.PathValid, vmsg.PathThroughScalar)
		g.poison = ""
	}
	// the written message equals the stored one: repeated fields named by the update mask are still
	// appended, maps overlaid, the reset mask still applied (with every mask kind next to it)
	{
		g.pairClass = "pair:written=stored"
		eq := &testproto.TestAllTypes{DefaultInt32: 7, DefaultString: "s", RepeatedInt32: []int32{1, 2},
			DefaultForeignMessage:  &testproto.ForeignMessage{C: 1, D: 2},
			RepeatedForeignMessage: []*testproto.ForeignMessage{{C: 3}},
			MapStringString:        map[string]string{"a": "x"}}
		for _, f := range []fixed{
			{nil, nil, fm("default_int32"), eq},
			{nil, nil, fm(dfm + ".c"), eq},
			{fm("default_string"), nil, fm("default_int32"), eq},
			{fm("default_string"), fm("default_string"), fm(dfm), eq},
			{fm("repeated_int32"), nil, nil, eq},
			{fm("repeated_foreign_message", "map_string_string"), nil, nil, eq},
			{fm("repeated_int32"), fm("repeated_int32", dfm), fm(dfm + ".d"), eq},
			{nil, fm("repeated_int32"), fm("repeated_int32"), eq},
			{fm(), nil, fm("default_int32"), eq},
		} {
			g.direct(eq, f.w, f.um, f.wm, f.rm, vmsg.PathValid, vmsg.PathValid)
			g.viaValue(eq, f.w, false, f.wm, nil, f.um, nil, f.rm, vmsg.PathValid, vmsg.PathValid)
		}
		g.viaValue(eq, eq, false, nil, nil, fm("default_string"), fm("repeated_int32"), fm("default_int32"), vmsg.PathValid, vmsg.PathValid)
		g.viaValue(eq, eq, true, fm("default_string"), nil, nil, nil, fm(dfm+".c"), vmsg.PathValid, vmsg.PathValid)
		g.pairClass = ""
	}
	return nil
}
