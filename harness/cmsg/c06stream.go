package main

import (
	"context"
	"fmt"
	"time"

	"github.com/smart-core-os/sc-api/go/types"
	"github.com/smart-core-os/sc-golang/pkg/masks"
	"github.com/smart-core-os/sc-golang/pkg/resource"
	"github.com/smart-core-os/sc-golang/verifharness/vcoq"
	"github.com/smart-core-os/sc-golang/verifharness/vmsg"
	"google.golang.org/protobuf/proto"
	"google.golang.org/protobuf/reflect/protoreflect"
	"google.golang.org/protobuf/types/known/fieldmaskpb"
)

// Event path of C06: backpressured Collection.Pull / Value.Pull with a read mask over a few writes.
// Every value an event carries (new AND old) must be the projection of what was stored at that
// point; what was stored is known from the writes' results (deep-copied when they return).
// Each (stored, observed) pair becomes an ordinary KRead case (ops 5-8), so the same judge applies.

const (
	opCollPullNew = 5
	opCollPullOld = 6
	opValPull     = 7
	opCollPullID  = 8
)

func init() {
	opNames = append(opNames, "Collection.Pull.new", "Collection.Pull.old", "Value.Pull.event", "Collection.PullID.event")
}

func populatedCount(m proto.Message) int {
	n := 0
	m.ProtoReflect().Range(func(_ protoreflect.FieldDescriptor, _ protoreflect.Value) bool { n++; return true })
	return n
}

// survives: FilterClone does not panic on any of the messages (a panic on one of the library's Pull
// goroutines could not be recovered here; such a mask is caught by the direct reads instead)
func survives(fm *fieldmaskpb.FieldMask, msgs ...proto.Message) (ok bool) {
	defer func() {
		if recover() != nil {
			ok = false
		}
	}()
	for _, m := range msgs {
		masks.NewResponseFilter(masks.WithFieldMask(fm)).FilterClone(proto.Clone(m))
	}
	return true
}

// pair emits one (stored, observed) comparison
func (g *c06) pair(op int, stored, observed proto.Message, fm *fieldmaskpb.FieldMask, kind vmsg.PathKind, class, what string, js map[string]any) {
	cjs := map[string]any{"op": opNames[op], "event": what, "type": string(stored.ProtoReflect().Descriptor().FullName()),
		"message": vmsg.JSON(stored), "read_mask": vmsg.MaskJSON(fm), "mask_class": class, "result": vmsg.JSON(observed), "stream": js}
	term := vcoq.App("KRead", vcoq.Int(op), vmsg.TypeName(stored), vmsg.Mask(fm), vcoq.Int(int(kind)), vmsg.Value(stored), vcoq.Z(-1),
		"(Ok "+vmsg.Value(observed)+")")
	g.o.Add(vcoq.Case{Coq: term, JSON: cjs, Key: term, NonTrivial: fm != nil && len(fm.Paths) > 0,
		Tags: []string{"op:" + opNames[op], "mask:" + class, "result:ok", "validate:-1", "event:" + what}})
}

func (g *c06) shape(what string, js map[string]any) {
	g.o.Directs = append(g.o.Directs, vcoq.Direct{What: "masked Pull: " + what, Class: "pull-event-shape", Replay: js})
}

func (g *c06) collectionStream(proto0 proto.Message, fm *fieldmaskpb.FieldMask, kind vmsg.PathKind, class string, withInclude bool) {
	r := g.r
	nonEmpty := func() proto.Message {
		for {
			m := vmsg.RandMsg(r, proto0, vmsg.RandCfg{FieldPct: 40, Depth: 2, MaxList: 2})
			if populatedCount(m) > 0 {
				return m
			}
		}
	}
	m1, m2 := nonEmpty(), nonEmpty()
	if !survives(fm, m1, m2) {
		return
	}
	js := map[string]any{"op": "Collection.Pull", "read_mask": vmsg.MaskJSON(fm), "include_non_empty": withInclude,
		"writes": []any{"Add a m1", "Update a m2 (nil update mask)", "Update a {} (only with include)", "Delete a"},
		"m1": vmsg.JSON(m1), "m2": vmsg.JSON(m2)}
	c := resource.NewCollection()
	ctx, cancel := context.WithCancel(context.Background())
	defer cancel()
	opts := []resource.ReadOption{resource.WithReadMask(fm), resource.WithBackpressure(true)}
	if withInclude {
		opts = append(opts, resource.WithInclude(func(_ string, m proto.Message) bool { return m != nil && populatedCount(m) > 0 }))
	}
	ch := c.Pull(ctx, opts...)
	// (Collection.PullID is not used here: it opens its inner Pull on a goroutine, so writes issued
	// right after PullID returns may precede the subscription and the events cannot be aligned)
	var idch <-chan *resource.ValueChange
	var evs []*resource.CollectionChange
	var idevs []*resource.ValueChange
	done := make(chan struct{})
	go func() {
		defer close(done)
		for ch != nil || idch != nil {
			select {
			case e, ok := <-ch:
				if !ok {
					ch = nil
					continue
				}
				evs = append(evs, e)
			case e, ok := <-idch:
				if !ok {
					idch = nil
					continue
				}
				idevs = append(idevs, e)
			}
		}
	}()
	type exp struct {
		typ      types.ChangeType
		old, new proto.Message // deep copies of what was stored
	}
	var want []exp
	var stored []proto.Message // successive stored values of "a"
	fail := func(err error) bool {
		if err != nil {
			js["error"] = err.Error()
			g.shape("a write of the scenario failed: "+err.Error(), js)
			return true
		}
		return false
	}
	s1, err := c.Add("a", proto.Clone(m1))
	if fail(err) {
		return
	}
	c1 := proto.Clone(s1)
	want = append(want, exp{types.ChangeType_ADD, nil, c1})
	stored = append(stored, c1)
	s2, err := c.Update("a", proto.Clone(m2))
	if fail(err) {
		return
	}
	c2 := proto.Clone(s2)
	want = append(want, exp{types.ChangeType_UPDATE, c1, c2})
	stored = append(stored, c2)
	last := c2
	if withInclude {
		// an update after which the item no longer matches the include filter: REMOVE with the old value
		s3, err := c.Update("a", proto0.ProtoReflect().New().Interface())
		if fail(err) {
			return
		}
		c3 := proto.Clone(s3)
		want = append(want, exp{types.ChangeType_REMOVE, c2, nil})
		stored = append(stored, c3)
		last = c3
	}
	// the stored message must still be what the last write returned (Pull filters clones)
	if cur, ok := c.Get("a"); !ok || !proto.Equal(cur, last) {
		g.o.Directs = append(g.o.Directs, vcoq.Direct{What: "a masked Collection.Pull changed the stored item", Class: "read-mutated:Collection.Pull", Replay: js})
	}
	if _, err := c.Delete("a"); fail(err) {
		return
	}
	if !withInclude {
		want = append(want, exp{types.ChangeType_REMOVE, last, nil})
	}
	// backpressure: the writes above only returned once their events were taken; a short grace period
	// covers the last hop to the collector goroutine
	time.Sleep(50 * time.Millisecond)
	cancel()
	<-done
	if len(evs) != len(want) {
		js["events"] = len(evs)
		js["expected_events"] = len(want)
		g.shape(fmt.Sprintf("%d events delivered for %d writes with backpressure", len(evs), len(want)), js)
		return
	}
	for i, e := range evs {
		w := want[i]
		what := fmt.Sprintf("%d:%s", i, w.typ)
		if e.ChangeType != w.typ || (e.NewValue == nil) != (w.new == nil) || (e.OldValue == nil) != (w.old == nil) {
			js["event_index"] = i
			g.shape(fmt.Sprintf("event %d is %v (old %v, new %v), expected %v", i, e.ChangeType, e.OldValue != nil, e.NewValue != nil, w.typ), js)
			continue
		}
		if w.new != nil {
			g.pair(opCollPullNew, w.new, e.NewValue, fm, kind, class, what, js)
		}
		if w.old != nil {
			g.pair(opCollPullOld, w.old, e.OldValue, fm, kind, class, what, js)
		}
	}
	_, _ = idevs, stored
}

func (g *c06) valueStream(proto0 proto.Message, fm *fieldmaskpb.FieldMask, kind vmsg.PathKind, class string) {
	r := g.r
	m0 := vmsg.RandMsg(r, proto0, vmsg.RandCfg{FieldPct: 40, Depth: 2, MaxList: 2})
	m1 := vmsg.RandMsg(r, proto0, vmsg.RandCfg{FieldPct: 40, Depth: 2, MaxList: 2})
	m2 := vmsg.RandMsg(r, proto0, vmsg.RandCfg{FieldPct: 25, Depth: 2, MaxList: 2})
	if !survives(fm, m0, m1, m2) {
		return
	}
	js := map[string]any{"op": "Value.Pull", "read_mask": vmsg.MaskJSON(fm), "writes": []any{"initial m0", "Set m1", "Set m2"},
		"m0": vmsg.JSON(m0), "m1": vmsg.JSON(m1), "m2": vmsg.JSON(m2)}
	v := resource.NewValue(resource.WithInitialValue(proto.Clone(m0)))
	ctx, cancel := context.WithCancel(context.Background())
	defer cancel()
	ch := v.Pull(ctx, resource.WithReadMask(fm), resource.WithBackpressure(true))
	var evs []*resource.ValueChange
	done := make(chan struct{})
	go func() {
		defer close(done)
		for e := range ch {
			evs = append(evs, e)
		}
	}()
	want := []proto.Message{proto.Clone(m0)}
	for _, m := range []proto.Message{m1, m2} {
		s, err := v.Set(proto.Clone(m))
		if err != nil {
			g.shape("Value.Set failed: "+err.Error(), js)
			return
		}
		want = append(want, proto.Clone(s))
	}
	if !proto.Equal(v.Get(), want[len(want)-1]) {
		g.o.Directs = append(g.o.Directs, vcoq.Direct{What: "a masked Value.Pull changed the stored value", Class: "read-mutated:Value.Pull", Replay: js})
	}
	time.Sleep(50 * time.Millisecond)
	cancel()
	<-done
	if len(evs) != len(want) {
		js["events"] = len(evs)
		g.shape(fmt.Sprintf("%d events delivered for a seed and 2 writes with backpressure", len(evs)), js)
		return
	}
	for i, e := range evs {
		if e.Value == nil {
			g.shape(fmt.Sprintf("event %d has no value", i), js)
			continue
		}
		g.pair(opValPull, want[i], e.Value, fm, kind, class, fmt.Sprintf("%d", i), js)
	}
}

// streams: a few dozen event streams per run
func (g *c06) streams(n int) {
	r := g.r
	classes := []string{"single", "single", "multi", "parent+child", "child+parent", "through-repeated-message", "nil", "empty"}
	for i := 0; i < n; i++ {
		proto0 := msgTypes[r.Intn(len(msgTypes))]
		// the mask is built against a populated sample of the type
		sample := vmsg.RandMsg(r, proto0, vmsg.RandCfg{FieldPct: 60, Depth: 2, MaxList: 2})
		class := classes[r.Intn(len(classes))]
		fm, kind, ok := g.maskFor(sample, class)
		if !ok {
			continue
		}
		switch i % 3 {
		case 0:
			g.collectionStream(proto0, fm, kind, class, false)
		case 1:
			g.collectionStream(proto0, fm, kind, class, true)
		default:
			g.valueStream(proto0, fm, kind, class)
		}
	}
}
