package main

import (
	"context"
	"fmt"
	"time"

	"github.com/smart-core-os/sc-api/go/types"
	"github.com/smart-core-os/sc-golang/pkg/masks"
	"github.com/smart-core-os/sc-golang/pkg/resource"
	"github.com/smart-core-os/sc-golang/verifharness/vcoq"
	"github.com/smart-core-os/sc-golang/verifharness/vmsg"
	"google.golang.org/protobuf/proto"
	"google.golang.org/protobuf/reflect/protoreflect"
	"google.golang.org/protobuf/types/known/fieldmaskpb"
)

// Event path of C06: backpressured Collection.Pull / Value.Pull with a read mask over a few writes.
// Every value an event carries (new AND old) must be the projection of what was stored at that
// point; what was stored is known from the writes' results (deep-copied when they return).
// Each (stored, observed) pair becomes an ordinary KRead case (ops 5-8), so the same judge applies.

const (
	opCollPullNew = 5
	opCollPullOld = 6
	opValPull     = 7
	opCollPullID  = 8
)

func init() {
	registerOp(opCollPullNew, "Collection.Pull.new")
	registerOp(opCollPullOld, "Collection.Pull.old")
	registerOp(opValPull, "Value.Pull.event")
	registerOp(opCollPullID, "Collection.PullID.event")
}

func populatedCount(m proto.Message) int {
	n := 0
	m.ProtoReflect().Range(func(_ protoreflect.FieldDescriptor, _ protoreflect.Value) bool { n++; return true })
	return n
}

// survives: FilterClone does not panic on any of the messages (a panic on one of the library's Pull
// goroutines could not be recovered here; such a mask is caught by the direct reads instead)
func survives(fm *fieldmaskpb.FieldMask, msgs ...proto.Message) (ok bool) {
	defer func() {
		if recover() != nil {
			ok = false
		}
	}()
	for _, m := range msgs {
		masks.NewResponseFilter(masks.WithFieldMask(fm)).FilterClone(proto.Clone(m))
	}
	return true
}

// pair emits one (stored, observed) comparison
func (g *c06) pair(op int, stored, observed proto.Message, fm *fieldmaskpb.FieldMask, kind vmsg.PathKind, class, what string, js map[string]any) {
	cjs := map[string]any{"op": opNames[op], "event": what, "type": string(stored.ProtoReflect().Descriptor().FullName()),
		"message": vmsg.JSON(stored), "read_mask": vmsg.MaskJSON(fm), "mask_class": class, "result": vmsg.JSON(observed), "stream": js}
	term := vcoq.App("KRead", vcoq.Int(op), vmsg.TypeName(stored), vmsg.Mask(fm), vcoq.Int(int(kind)), vmsg.Value(stored), vcoq.Z(-1),
		"(Ok "+vmsg.Value(observed)+")")
	g.o.Add(vcoq.Case{Coq: term, JSON: cjs, Key: term, NonTrivial: fm != nil && len(fm.Paths) > 0,
		Tags: []string{"op:" + opNames[op], "mask:" + class, "result:ok", "validate:-1", "event:" + what}})
}

func (g *c06) shape(what string, js map[string]any) {
	g.o.Directs = append(g.o.Directs, vcoq.Direct{What: "masked Pull: " + what, Class: "pull-event-shape", Replay: js})
}

type sub struct {
	fm    *fieldmaskpb.FieldMask
	kind  vmsg.PathKind
	class string
}

func subsJSON(subs []sub) []any {
	out := make([]any, len(subs))
	for i, s := range subs {
		out[i] = vmsg.MaskJSON(s.fm)
	}
	return out
}

// collectionStream: several concurrent Collection.Pull subscriptions, each with its own read mask,
// opened before the writes; every subscriber's every event is judged against ITS mask.
func (g *c06) collectionStream(proto0 proto.Message, subs []sub, withInclude bool) {
	r := g.r
	nonEmpty := func() proto.Message {
		for {
			m := vmsg.RandMsg(r, proto0, vmsg.RandCfg{FieldPct: 40, Depth: 2, MaxList: 2})
			if populatedCount(m) > 0 {
				return m
			}
		}
	}
	m1, m2 := nonEmpty(), nonEmpty()
	for _, sb := range subs {
		if !survives(sb.fm, m1, m2) {
			return
		}
	}
	js := map[string]any{"op": "Collection.Pull", "read_masks": subsJSON(subs), "include_non_empty": withInclude,
		"writes": []any{"Add a m1", "Update a m2 (nil update mask)", "Update a {} (only with include)", "Delete a"},
		"m1": vmsg.JSON(m1), "m2": vmsg.JSON(m2)}
	c := resource.NewCollection()
	ctx, cancel := context.WithCancel(context.Background())
	defer cancel()
	evs := make([][]*resource.CollectionChange, len(subs))
	dones := make([]chan struct{}, len(subs))
	for i, sb := range subs {
		opts := []resource.ReadOption{resource.WithReadMask(sb.fm), resource.WithBackpressure(true)}
		if withInclude {
			opts = append(opts, resource.WithInclude(func(_ string, m proto.Message) bool { return m != nil && populatedCount(m) > 0 }))
		}
		// (Collection.PullID is not used: it opens its inner Pull on a goroutine, so writes issued right
		// after PullID returns may precede the subscription and the events cannot be aligned)
		ch := c.Pull(ctx, opts...)
		dones[i] = make(chan struct{})
		go func(i int) {
			defer close(dones[i])
			for e := range ch {
				evs[i] = append(evs[i], e)
			}
		}(i)
	}
	type exp struct {
		typ      types.ChangeType
		old, new proto.Message // deep copies of what was stored
	}
	var want []exp
	fail := func(err error) bool {
		if err != nil {
			js["error"] = err.Error()
			g.shape("a write of the scenario failed: "+err.Error(), js)
			return true
		}
		return false
	}
	s1, err := c.Add("a", proto.Clone(m1))
	if fail(err) {
		return
	}
	c1 := proto.Clone(s1)
	want = append(want, exp{types.ChangeType_ADD, nil, c1})
	s2, err := c.Update("a", proto.Clone(m2))
	if fail(err) {
		return
	}
	c2 := proto.Clone(s2)
	want = append(want, exp{types.ChangeType_UPDATE, c1, c2})
	last := c2
	if withInclude {
		// an update after which the item no longer matches the include filter: REMOVE with the old value
		s3, err := c.Update("a", proto0.ProtoReflect().New().Interface())
		if fail(err) {
			return
		}
		want = append(want, exp{types.ChangeType_REMOVE, c2, nil})
		last = proto.Clone(s3)
	}
	// the stored message must still be what the last write returned (Pull filters clones)
	if cur, ok := c.Get("a"); !ok || !proto.Equal(cur, last) {
		g.o.Directs = append(g.o.Directs, vcoq.Direct{What: "a masked Collection.Pull changed the stored item", Class: "read-mutated:Collection.Pull", Replay: js})
	}
	if _, err := c.Delete("a"); fail(err) {
		return
	}
	if !withInclude {
		want = append(want, exp{types.ChangeType_REMOVE, last, nil})
	}
	// backpressure: the writes above only returned once their events were taken; a short grace period
	// covers the last hop to the collector goroutines
	time.Sleep(50 * time.Millisecond)
	cancel()
	for _, d := range dones {
		<-d
	}
	for si, sb := range subs {
		if len(evs[si]) != len(want) {
			js["subscriber"] = si
			js["events"] = len(evs[si])
			js["expected_events"] = len(want)
			g.shape(fmt.Sprintf("subscriber %d: %d events delivered for %d writes with backpressure", si, len(evs[si]), len(want)), js)
			continue
		}
		for i, e := range evs[si] {
			w := want[i]
			what := fmt.Sprintf("sub%d/%d:%d:%s", si, len(subs), i, w.typ)
			if e.ChangeType != w.typ || (e.NewValue == nil) != (w.new == nil) || (e.OldValue == nil) != (w.old == nil) {
				js["event_index"] = i
				g.shape(fmt.Sprintf("subscriber %d event %d is %v (old %v, new %v), expected %v", si, i, e.ChangeType, e.OldValue != nil, e.NewValue != nil, w.typ), js)
				continue
			}
			if w.new != nil {
				g.pair(opCollPullNew, w.new, e.NewValue, sb.fm, sb.kind, sb.class, what, js)
			}
			if w.old != nil {
				g.pair(opCollPullOld, w.old, e.OldValue, sb.fm, sb.kind, sb.class, what, js)
			}
		}
	}
}

// valueStream: several concurrent Value.Pull subscriptions with different read masks on one Value
func (g *c06) valueStream(proto0 proto.Message, subs []sub) {
	r := g.r
	m0 := vmsg.RandMsg(r, proto0, vmsg.RandCfg{FieldPct: 40, Depth: 2, MaxList: 2})
	m1 := vmsg.RandMsg(r, proto0, vmsg.RandCfg{FieldPct: 40, Depth: 2, MaxList: 2})
	m2 := vmsg.RandMsg(r, proto0, vmsg.RandCfg{FieldPct: 25, Depth: 2, MaxList: 2})
	for _, sb := range subs {
		if !survives(sb.fm, m0, m1, m2) {
			return
		}
	}
	js := map[string]any{"op": "Value.Pull", "read_masks": subsJSON(subs), "writes": []any{"initial m0", "Set m1", "Set m2"},
		"m0": vmsg.JSON(m0), "m1": vmsg.JSON(m1), "m2": vmsg.JSON(m2)}
	v := resource.NewValue(resource.WithInitialValue(proto.Clone(m0)))
	ctx, cancel := context.WithCancel(context.Background())
	defer cancel()
	evs := make([][]*resource.ValueChange, len(subs))
	dones := make([]chan struct{}, len(subs))
	for i, sb := range subs {
		ch := v.Pull(ctx, resource.WithReadMask(sb.fm), resource.WithBackpressure(true))
		dones[i] = make(chan struct{})
		go func(i int) {
			defer close(dones[i])
			for e := range ch {
				evs[i] = append(evs[i], e)
			}
		}(i)
	}
	want := []proto.Message{proto.Clone(m0)}
	for _, m := range []proto.Message{m1, m2} {
		s, err := v.Set(proto.Clone(m))
		if err != nil {
			g.shape("Value.Set failed: "+err.Error(), js)
			return
		}
		want = append(want, proto.Clone(s))
	}
	if !proto.Equal(v.Get(), want[len(want)-1]) {
		g.o.Directs = append(g.o.Directs, vcoq.Direct{What: "a masked Value.Pull changed the stored value", Class: "read-mutated:Value.Pull", Replay: js})
	}
	time.Sleep(50 * time.Millisecond)
	cancel()
	for _, d := range dones {
		<-d
	}
	for si, sb := range subs {
		if len(evs[si]) != len(want) {
			js["subscriber"] = si
			js["events"] = len(evs[si])
			g.shape(fmt.Sprintf("subscriber %d: %d events delivered for a seed and 2 writes with backpressure", si, len(evs[si])), js)
			continue
		}
		for i, e := range evs[si] {
			if e.Value == nil {
				g.shape(fmt.Sprintf("subscriber %d event %d has no value", si, i), js)
				continue
			}
			g.pair(opValPull, want[i], e.Value, sb.fm, sb.kind, sb.class, fmt.Sprintf("sub%d/%d:%d", si, len(subs), i), js)
		}
	}
}

// streams: a few dozen event streams per run, each with 1-3 concurrent subscriptions (own masks)
func (g *c06) streams(n int) {
	r := g.r
	classes := []string{"single", "single", "multi", "parent+child", "child+parent", "through-repeated-message", "nil", "empty", "family", "family", "chain"}
	for i := 0; i < n; i++ {
		proto0 := msgTypes[r.Intn(len(msgTypes))]
		// the masks are built against a populated sample of the type
		sample := vmsg.RandMsg(r, proto0, vmsg.RandCfg{FieldPct: 60, Depth: 2, MaxList: 2})
		var subs []sub
		nsub := 1 + r.Intn(3)
		if i%3 == 2 && nsub < 2 {
			nsub = 2 // Value.Pull events are shared objects on the bus: always more than one subscriber
		}
		for j := 0; j < nsub; j++ {
			class := classes[r.Intn(len(classes))]
			if j == 1 && r.Bool() {
				class = "nil" // an unmasked subscriber next to a masked one
			}
			fm, kind, ok := g.maskFor(sample, class)
			if !ok {
				continue
			}
			subs = append(subs, sub{fm, kind, class})
		}
		if len(subs) == 0 {
			continue
		}
		switch i % 3 {
		case 0:
			g.collectionStream(proto0, subs, false)
		case 1:
			g.collectionStream(proto0, subs, true)
		default:
			g.valueStream(proto0, subs)
		}
	}
}
