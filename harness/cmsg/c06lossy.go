package main

import (
	"context"
	"fmt"
	"time"

	"github.com/smart-core-os/sc-api/go/types"
	"github.com/smart-core-os/sc-golang/pkg/resource"
	"github.com/smart-core-os/sc-golang/verifharness/vcoq"
	"github.com/smart-core-os/sc-golang/verifharness/vmsg"
	"google.golang.org/protobuf/proto"
	"google.golang.org/protobuf/types/known/fieldmaskpb"
)

// Event path of C06, second half: Pull WITHOUT backpressure (the default), where a merge stage
// (mergeCollectionExcess / DropExcess) sits between the bus and each subscription's filter, and where
// the change kinds a subscriber can be handed include REPLACE (REMOVE + later ADD of one id merged
// behind a reader that is not collecting).
//
// Driving: the driver itself is every subscription's reader, so a reader is "behind" exactly when
// the driver does not receive.  A phase is either
//   - stalled: a write to a plug id (the subscription's loop takes it and parks on its send), then a
//     script of writes over three ids - delete / re-add (REPLACE), delete, add, update runs, add +
//     delete (dropped) - that pile up in the merge stage, then a write to a barrier id; then every
//     subscription is drained up to the barrier;
//   - live: each write is followed by draining every subscription up to that write's own event, so
//     the change passes through the merge stage unmerged.
// No sleeps: Bus.Send hands over synchronously, so when write k+1 has returned write k sits in the
// merge stage; a timeout is only the give-up for a stream that stopped.
//
// Judging does not predict the merges.  Every write carries its own write time n (WithWriteTime),
// which a merged change keeps from the LAST write merged into it: the new value of an event with
// time n is the projection of what write n stored.  The old value is what the subscriber last saw
// stored for that id (its seed, or the new value of the previous event of that id): merging keeps
// the FIRST old value, and runs that were dropped (ADD .. REMOVE) begin and end absent.  Presence of
// old / new must fit the event kind.  Every value becomes a KEvent case judged in Coq against the
// model of (*CollectionChange).filter and against the projection of what was stored.
//
// Several subscriptions with DIFFERENT masks (an unmasked one among them half of the time) run on the
// same collection; everything is collected from all of them before anything is inspected, each
// event's values are deep-copied at receipt and compared again at the end (a delivered change must
// not change under the reader when another subscription filters its own copy).

const (
	opCollLossyNew = 9
	opCollLossyOld = 10
	opValLossy     = 11
)

func init() {
	// (op names are placed by index: the init order of the files of the package must not matter)
	registerOp(opCollLossyNew, "Collection.Pull.lossy.new")
	registerOp(opCollLossyOld, "Collection.Pull.lossy.old")
	registerOp(opValLossy, "Value.Pull.lossy.event")
}

func registerOp(i int, name string) {
	for len(opNames) <= i {
		opNames = append(opNames, "")
	}
	opNames[i] = name
}

type lwrite struct {
	n      int64  // write time, unique
	id     string // item
	what   string // add / update / delete
	before int64  // version stored before (0 = absent); a version is the n of the write that stored it
	after  int64  // version stored after (0 = absent)
}

type lrecv struct {
	ev       *resource.CollectionChange
	old, new proto.Message // deep copies taken at receipt
	phase    int
}

type lsub struct {
	sub
	ch   <-chan *resource.CollectionChange
	got  []lrecv
	late bool
}

func (s *lsub) recv(phase int) (*resource.CollectionChange, bool) {
	select {
	case e, ok := <-s.ch:
		if !ok || e == nil {
			return nil, false
		}
		r := lrecv{ev: e, phase: phase}
		if e.OldValue != nil {
			r.old = proto.Clone(e.OldValue)
		}
		if e.NewValue != nil {
			r.new = proto.Clone(e.NewValue)
		}
		s.got = append(s.got, r)
		return e, true
	case <-time.After(20 * time.Second):
		s.late = true
		return nil, false
	}
}

const lossyPlug, lossyBarrier = "pp", "zz"

var lossyIDs = []string{"a", "b", "c"}

func (g *c06) lossyCollection(proto0 proto.Message, subs []sub) {
	r := g.r
	nonEmpty := func() proto.Message {
		for {
			m := vmsg.RandMsg(r, proto0, vmsg.RandCfg{FieldPct: 45, Depth: 2, MaxList: 2})
			if populatedCount(m) > 0 {
				return m
			}
		}
	}
	// a small pool of messages; every mask must survive all of them (and their merges: Update with a nil
	// update mask replaces the item, so the pool is what gets stored)
	pool := []proto.Message{nonEmpty(), nonEmpty(), nonEmpty(), nonEmpty()}
	for _, sb := range subs {
		if !survives(sb.fm, pool...) {
			return
		}
	}
	c := resource.NewCollection()
	ctx, cancel := context.WithCancel(context.Background())
	defer cancel()

	versions := map[int64]proto.Message{} // n -> deep copy of what write n stored
	writes := map[int64]*lwrite{}
	cur := map[string]int64{}
	var n int64
	var log []any
	js := map[string]any{"op": "Collection.Pull WithBackpressure(false)", "read_masks": subsJSON(subs), "type": string(proto0.ProtoReflect().Descriptor().FullName())}
	failed := false
	do := func(what, id string, phase int) *lwrite {
		n++
		w := &lwrite{n: n, id: id, what: what, before: cur[id]}
		t := resource.WithWriteTime(time.Unix(0, n))
		var stored proto.Message
		var err error
		var msg proto.Message
		switch what {
		case "add":
			msg = pool[r.Intn(len(pool))]
			stored, err = c.Add(id, proto.Clone(msg), t)
		case "update":
			msg = pool[r.Intn(len(pool))]
			stored, err = c.Update(id, proto.Clone(msg), t, resource.WithCreateIfAbsent())
		default:
			_, err = c.Delete(id, t)
		}
		entry := map[string]any{"write": n, "phase": phase, "op": what, "id": id}
		if msg != nil {
			entry["message"] = vmsg.JSON(msg)
		}
		if err != nil {
			entry["error"] = err.Error()
			log = append(log, entry)
			js["writes"] = log
			g.shape("a write of the lossy scenario failed: "+err.Error(), js)
			failed = true
			return w
		}
		if stored != nil {
			versions[n] = proto.Clone(stored)
			w.after = n
			entry["stored"] = vmsg.JSON(stored)
		}
		cur[id] = w.after
		writes[n] = w
		log = append(log, entry)
		return w
	}
	script := func(k, phase int) {
		for i := 0; i < k && !failed; {
			id := lossyIDs[r.Intn(len(lossyIDs))]
			here := cur[id] != 0
			switch {
			case here && r.Chance(45): // delete and re-create: REPLACE for a reader that is behind
				do("delete", id, phase)
				if !failed {
					do("add", id, phase)
				}
				i += 2
			case here && r.Chance(30):
				do("delete", id, phase)
				i++
			case !here && r.Chance(25): // add and delete: dropped for a reader that is behind
				do("add", id, phase)
				if !failed {
					do("delete", id, phase)
				}
				i += 2
			case !here:
				do("add", id, phase)
				i++
			default:
				do("update", id, phase)
				i++
			}
		}
	}
	// items present before anyone subscribes (the seed)
	for i := r.Intn(3); i > 0 && !failed; i-- {
		id := lossyIDs[r.Intn(len(lossyIDs))]
		if cur[id] == 0 {
			do("add", id, 0)
		}
	}
	if failed {
		return
	}
	nseed := 0
	for _, id := range lossyIDs {
		if cur[id] != 0 {
			nseed++
		}
	}
	ls := make([]*lsub, len(subs))
	for i, sb := range subs {
		opts := []resource.ReadOption{resource.WithReadMask(sb.fm)}
		if r.Bool() {
			opts = append(opts, resource.WithBackpressure(false)) // explicit or by default
		}
		ls[i] = &lsub{sub: sb, ch: c.Pull(ctx, opts...)}
	}
	for _, s := range ls {
		for i := 0; i < nseed; i++ {
			if _, ok := s.recv(0); !ok {
				break
			}
		}
	}
	drainTo := func(w *lwrite, phase int) {
		for _, s := range ls {
			for {
				e, ok := s.recv(phase)
				if !ok || (e.Id == w.id && e.ChangeTime.UnixNano() == w.n) {
					break
				}
			}
		}
	}
	nphases := r.Range(2, 3)
	kinds := make([]string, 0, nphases)
	for p := 1; p <= nphases && !failed; p++ {
		if p == 1 || r.Chance(65) {
			kinds = append(kinds, "stalled")
			do("update", lossyPlug, p)
			script(r.Range(2, 6), p)
			if failed {
				break
			}
			drainTo(do("update", lossyBarrier, p), p)
		} else {
			kinds = append(kinds, "live")
			for i := r.Range(1, 3); i > 0 && !failed; i-- {
				before := n
				script(1, p)
				// every write of the step is awaited in turn; the last one of an add + delete pair is enough
				// for the pair (both are delivered: nothing is pending in front of them... unless they merged
				// into nothing, which drainTo cannot wait for): wait for the first write only when it is alone
				if n == before+1 && !failed {
					drainTo(writes[n], p)
				} else if !failed {
					// two writes went out back to back: flush with a barrier write instead
					drainTo(do("update", lossyBarrier, p), p)
				}
			}
		}
	}
	if failed {
		return
	}
	js["phases"] = kinds
	js["writes"] = log
	// the stored items are still what the last writes returned
	for id, v := range cur {
		got, ok := c.Get(id)
		if (v != 0) != ok || (ok && !proto.Equal(got, versions[v])) {
			g.o.Directs = append(g.o.Directs, vcoq.Direct{What: "a masked Collection.Pull without backpressure changed the stored item " + id,
				Class: "read-mutated:Collection.Pull.lossy", Replay: js})
		}
	}
	cancel()
	// ownership: a plug / barrier write is taken unmerged by every subscription; the structs they were
	// handed are compared by pointer and judged against the ownership model (Masks/ChangeAlias.v)
	if len(ls) >= 2 {
		for k := int64(1); k <= n; k++ {
			w := writes[k]
			if w == nil {
				continue
			}
			if (w.id != lossyPlug && w.id != lossyBarrier) || w.after == 0 {
				continue
			}
			var ptrs []*resource.CollectionChange
			for _, s := range ls {
				for _, rc := range s.got {
					if rc.ev.Id == w.id && rc.ev.ChangeTime.UnixNano() == w.n {
						ptrs = append(ptrs, rc.ev)
					}
				}
			}
			if len(ptrs) != len(ls) {
				continue
			}
			distinct := true
			for i := range ptrs {
				for j := i + 1; j < len(ptrs); j++ {
					if ptrs[i] == ptrs[j] {
						distinct = false
					}
				}
			}
			kind := types.ChangeType_UPDATE
			if w.before == 0 {
				kind = types.ChangeType_ADD
			}
			var ms []string
			for _, s := range ls {
				ms = append(ms, vmsg.Mask(s.fm))
			}
			term := vcoq.App("KFan", vmsg.TypeName(versions[w.after]), vcoq.List(ms), vcoq.Int(int(kind)), optValue(versions[w.before]), optValue(versions[w.after]), vcoq.Bool(distinct))
			g.o.Add(vcoq.Case{Coq: term, Key: term, NonTrivial: true, Tags: []string{"op:Collection.Pull.lossy.ownership", fmt.Sprintf("fan:distinct=%v", distinct), fmt.Sprintf("fan:subs=%d", len(ls))},
				JSON: map[string]any{"op": "Collection.Pull WithBackpressure(false): the structs handed to the subscriptions for one write", "read_masks": subsJSON(subs),
					"write": w.n, "id": w.id, "stored_old": jsonOrNil(versions[w.before]), "stored_new": jsonOrNil(versions[w.after]), "structs_pairwise_distinct": distinct}})
		}
	}
	// everything has been collected from every subscription: inspect
	for si, s := range ls {
		if s.late {
			js["subscriber"] = si
			g.shape(fmt.Sprintf("subscriber %d: the stream stopped before the barrier write arrived (waited 20 s)", si), js)
			continue
		}
		held := map[string]int64{}
		for ei, rc := range s.got {
			e := rc.ev
			evjs := func() map[string]any {
				out := map[string]any{}
				for k, v := range js {
					out[k] = v
				}
				out["subscriber"] = si
				out["event_index"] = ei
				out["event"] = map[string]any{"id": e.Id, "change_type": e.ChangeType.String(), "change_time": e.ChangeTime.UnixNano(),
					"old_at_receipt": jsonOrNil(rc.old), "new_at_receipt": jsonOrNil(rc.new), "seed": e.SeedValue}
				return out
			}
			// the change the reader holds must still be what it received
			if !sameOpt(rc.old, e.OldValue) || !sameOpt(rc.new, e.NewValue) {
				j := evjs()
				j["old_now"], j["new_now"] = jsonOrNil(e.OldValue), jsonOrNil(e.NewValue)
				g.o.Directs = append(g.o.Directs, vcoq.Direct{What: "a change delivered by Collection.Pull changed after the reader had received it (another subscription's filter wrote to it)",
					Class: "event-mutated-after-delivery:Collection.Pull", Replay: j})
			}
			w := writes[e.ChangeTime.UnixNano()]
			if w == nil || w.id != e.Id {
				g.shape(fmt.Sprintf("subscriber %d event %d: id %q with change time %d is not the time of a write to that id", si, ei, e.Id, e.ChangeTime.UnixNano()), evjs())
				continue
			}
			oldV := held[e.Id]
			if e.SeedValue {
				oldV = 0
			}
			held[e.Id] = w.after
			hasOld, hasNew := oldV != 0, w.after != 0
			wantKind := map[[2]bool][]types.ChangeType{
				{false, true}: {types.ChangeType_ADD},
				{true, false}: {types.ChangeType_REMOVE},
				{true, true}:  {types.ChangeType_UPDATE, types.ChangeType_REPLACE},
			}[[2]bool{hasOld, hasNew}]
			kindOK := false
			for _, k := range wantKind {
				kindOK = kindOK || k == e.ChangeType
			}
			if (e.OldValue != nil) != hasOld || (e.NewValue != nil) != hasNew || !kindOK {
				g.shape(fmt.Sprintf("subscriber %d event %d is %v (old %v, new %v); the subscriber last saw the item %s and the write with the event's time left it %s",
					si, ei, e.ChangeType, e.OldValue != nil, e.NewValue != nil, presence(hasOld), presence(hasNew)), evjs())
				continue
			}
			// plug and barrier events are ordinary unmerged updates: one in three is enough
			if (e.Id == lossyPlug || e.Id == lossyBarrier) && (ei+si)%3 != 0 {
				continue
			}
			what := fmt.Sprintf("sub%d/%d:%s:%s", si, len(ls), kinds2(kinds, rc.phase), e.ChangeType)
			g.event(e.ChangeType, versions[oldV], versions[w.after], e.OldValue, e.NewValue, s.fm, s.class, what, evjs())
		}
	}
}

func kinds2(kinds []string, phase int) string {
	if phase == 0 {
		return "seed"
	}
	if phase-1 < len(kinds) {
		return kinds[phase-1]
	}
	return "?"
}

func presence(b bool) string {
	if b {
		return "present"
	}
	return "absent"
}

func jsonOrNil(m proto.Message) any {
	if m == nil {
		return nil
	}
	return vmsg.JSON(m)
}

func sameOpt(a, b proto.Message) bool {
	if a == nil || b == nil {
		return a == nil && b == nil
	}
	return proto.Equal(a, b)
}

func optValue(m proto.Message) string {
	if m == nil {
		return "None"
	}
	return vcoq.Some(vmsg.Value(m))
}

// event emits one KEvent case: a change of kind `kind` whose stored old / new values are given, as it
// was delivered through the read mask (the whole change is one case: the model is (*CollectionChange).filter)
func (g *c06) event(kind types.ChangeType, storedOld, storedNew, obsOld, obsNew proto.Message, fm *fieldmaskpb.FieldMask, class, what string, js map[string]any) {
	ty := storedOld
	if ty == nil {
		ty = storedNew
	}
	js["stored_old"], js["stored_new"] = jsonOrNil(storedOld), jsonOrNil(storedNew)
	js["delivered_old"], js["delivered_new"] = jsonOrNil(obsOld), jsonOrNil(obsNew)
	js["read_mask"] = vmsg.MaskJSON(fm)
	js["mask_class"] = class
	term := vcoq.App("KEvent", vcoq.Int(int(kind)), vmsg.TypeName(ty), vmsg.Mask(fm), optValue(storedOld), optValue(storedNew), optValue(obsOld), optValue(obsNew))
	g.o.Add(vcoq.Case{Coq: term, JSON: js, Key: term, NonTrivial: fm != nil && len(fm.Paths) > 0,
		Tags: []string{"op:Collection.Pull.lossy", "mask:" + class, "result:ok", "event-kind:" + kind.String(), "event:" + what}})
}

// lossyValue: several Value.Pull subscriptions without backpressure (DropExcess), different masks,
// readers stalled over a run of Sets; every event is identified by its write time
func (g *c06) lossyValue(proto0 proto.Message, subs []sub) {
	r := g.r
	pool := []proto.Message{}
	for i := 0; i < 4; i++ {
		pool = append(pool, vmsg.RandMsg(r, proto0, vmsg.RandCfg{FieldPct: 40, Depth: 2, MaxList: 2}))
	}
	for _, sb := range subs {
		if !survives(sb.fm, pool...) {
			return
		}
	}
	js := map[string]any{"op": "Value.Pull WithBackpressure(false)", "read_masks": subsJSON(subs), "type": string(proto0.ProtoReflect().Descriptor().FullName())}
	v := resource.NewValue(resource.WithInitialValue(proto.Clone(pool[0])))
	ctx, cancel := context.WithCancel(context.Background())
	defer cancel()
	versions := map[int64]proto.Message{}
	var log []any
	var n int64
	set := func() (int64, bool) {
		n++
		m := pool[r.Intn(len(pool))]
		s, err := v.Set(proto.Clone(m), resource.WithWriteTime(time.Unix(0, n)))
		if err != nil {
			g.shape("Value.Set failed: "+err.Error(), js)
			return n, false
		}
		versions[n] = proto.Clone(s)
		log = append(log, map[string]any{"write": n, "set": vmsg.JSON(m), "stored": vmsg.JSON(s)})
		return n, true
	}
	if _, ok := set(); !ok { // so that the seed carries a known write time
		return
	}
	type vrecv struct {
		ev  *resource.ValueChange
		val proto.Message
	}
	chans := make([]<-chan *resource.ValueChange, len(subs))
	got := make([][]vrecv, len(subs))
	late := make([]bool, len(subs))
	for i, sb := range subs {
		chans[i] = v.Pull(ctx, resource.WithReadMask(sb.fm), resource.WithBackpressure(false))
	}
	recvTo := func(target int64) {
		for i := range subs {
			for !late[i] {
				select {
				case e, ok := <-chans[i]:
					if !ok || e == nil {
						late[i] = true
						break
					}
					rc := vrecv{ev: e}
					if e.Value != nil {
						rc.val = proto.Clone(e.Value)
					}
					got[i] = append(got[i], rc)
					if e.ChangeTime.UnixNano() == target {
						goto next
					}
				case <-time.After(20 * time.Second):
					late[i] = true
				}
			}
		next:
		}
	}
	recvTo(n) // seeds
	for p := r.Range(2, 3); p > 0; p-- {
		last := int64(0)
		for k := r.Range(1, 4); k > 0; k-- {
			var ok bool
			if last, ok = set(); !ok {
				return
			}
		}
		recvTo(last)
	}
	js["writes"] = log
	if !proto.Equal(v.Get(), versions[n]) {
		g.o.Directs = append(g.o.Directs, vcoq.Direct{What: "a masked Value.Pull without backpressure changed the stored value", Class: "read-mutated:Value.Pull.lossy", Replay: js})
	}
	cancel()
	for si, sb := range subs {
		if late[si] {
			js["subscriber"] = si
			g.shape(fmt.Sprintf("Value.Pull subscriber %d: the stream stopped before the last write arrived", si), js)
			continue
		}
		for ei, rc := range got[si] {
			if !sameOpt(rc.val, rc.ev.Value) {
				g.o.Directs = append(g.o.Directs, vcoq.Direct{What: "a change delivered by Value.Pull changed after the reader had received it",
					Class: "event-mutated-after-delivery:Value.Pull", Replay: js})
			}
			st := versions[rc.ev.ChangeTime.UnixNano()]
			if st == nil || rc.ev.Value == nil {
				js["event_index"] = ei
				g.shape(fmt.Sprintf("Value.Pull subscriber %d event %d: change time %d is not the time of a write, or no value", si, ei, rc.ev.ChangeTime.UnixNano()), js)
				continue
			}
			g.pair(opValLossy, st, rc.ev.Value, sb.fm, sb.kind, sb.class, fmt.Sprintf("sub%d/%d:%d", si, len(subs), ei), js)
		}
	}
}

// lossyStreams: n scenarios, two thirds on collections; always at least two subscriptions for every
// second scenario, an unmasked subscriber next to masked ones half of the time
func (g *c06) lossyStreams(n int) {
	r := g.r
	classes := []string{"single", "single", "multi", "parent+child", "child+parent", "through-repeated-message", "nil", "empty", "family", "chain"}
	for i := 0; i < n; i++ {
		proto0 := msgTypes[r.Intn(len(msgTypes))]
		sample := vmsg.RandMsg(r, proto0, vmsg.RandCfg{FieldPct: 60, Depth: 2, MaxList: 2})
		nsub := 1 + r.Intn(3)
		if i%2 == 0 && nsub < 2 {
			nsub = 2
		}
		var subs []sub
		for j := 0; j < nsub; j++ {
			class := classes[r.Intn(len(classes))]
			if j == 1 && r.Bool() {
				class = "nil"
			}
			fm, kind, ok := g.maskFor(sample, class)
			if !ok {
				continue
			}
			subs = append(subs, sub{fm, kind, class})
		}
		if len(subs) == 0 {
			continue
		}
		if i%3 == 2 {
			g.lossyValue(proto0, subs)
		} else {
			g.lossyCollection(proto0, subs)
		}
	}
}
