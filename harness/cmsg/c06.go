package main

import (
	"context"
	"fmt"
	"reflect"
	"sort"

	"github.com/smart-core-os/sc-api/go/traits"
	"github.com/smart-core-os/sc-golang/internal/testproto"
	"github.com/smart-core-os/sc-golang/pkg/masks"
	"github.com/smart-core-os/sc-golang/pkg/resource"
	"github.com/smart-core-os/sc-golang/verifharness/vcoq"
	"github.com/smart-core-os/sc-golang/verifharness/vmsg"
	"google.golang.org/grpc/status"
	"google.golang.org/protobuf/proto"
	"google.golang.org/protobuf/reflect/protoreflect"
	"google.golang.org/protobuf/types/known/fieldmaskpb"
)

// message types the mask properties are exercised on
var msgTypes = []proto.Message{
	&testproto.TestAllTypes{},
	&traits.Brightness{},
	&traits.AirTemperature{},
	&traits.ElectricMode{},
	&traits.Occupancy{},
	&traits.FanSpeed{},
}

type c06 struct {
	o *vcoq.Out
	r *vcoq.Rand
}

const (
	opFilterClone = 0
	opFilter      = 1
	opValueGet    = 2
	opList        = 3
	opPullSeed    = 4
)

var opNames = []string{"FilterClone", "Filter", "Value.Get", "Collection.List", "Value.Pull"}

func samePaths(a, b []string) bool {
	if len(a) != len(b) {
		return false
	}
	for i := range a {
		if a[i] != b[i] {
			return false
		}
	}
	return true
}

// read performs one read of kind op with mask fm on (a private copy of) msg and returns the Coq
// outcome literal, its JSON, and whether it panicked. Non-mutation of the message that was passed
// in / stored and of the caller's mask is checked here and reported as a Direct.
func (g *c06) read(op int, msg proto.Message, fm *fieldmaskpb.FieldMask, js map[string]any) (coq string, out any, panicked bool) {
	passed := proto.Clone(msg) // what the implementation gets
	var before []string
	if fm != nil {
		before = append([]string{}, fm.Paths...)
	}
	var res proto.Message
	func() {
		defer func() {
			if p := recover(); p != nil {
				panicked = true
				js["panic"] = fmt.Sprint(p)
			}
		}()
		switch op {
		case opFilterClone:
			res = masks.NewResponseFilter(masks.WithFieldMask(fm)).FilterClone(passed)
		case opFilter:
			// Filter is allowed to change its argument: give it a second copy, which is the result
			arg := proto.Clone(passed)
			masks.NewResponseFilter(masks.WithFieldMask(fm)).Filter(arg)
			res = arg
		case opValueGet:
			v := resource.NewValue(resource.WithInitialValue(passed))
			res = v.Get(resource.WithReadMask(fm))
		case opList:
			c := resource.NewCollection()
			if _, err := c.Add("a", passed); err != nil {
				panic(err)
			}
			passed = c.List()[0] // the stored message
			res = c.List(resource.WithReadMask(fm))[0]
		case opPullSeed:
			v := resource.NewValue(resource.WithInitialValue(passed))
			ctx, cancel := context.WithCancel(context.Background())
			ch := v.Pull(ctx, resource.WithReadMask(fm))
			ev := <-ch
			cancel()
			for range ch {
			}
			res = ev.Value
		}
	}()
	if !proto.Equal(passed, msg) {
		js["message_after_read"] = vmsg.JSON(passed) // the failing observation: what the message read has become
		g.o.Directs = append(g.o.Directs, vcoq.Direct{What: opNames[op] + " with a read mask changed the message it was reading",
			Class: "read-mutated:" + opNames[op], Replay: js})
	}
	if fm != nil && !samePaths(before, fm.Paths) {
		g.o.Directs = append(g.o.Directs, vcoq.Direct{What: opNames[op] + " changed the caller's read mask",
			Class: "mask-mutated:" + opNames[op], Replay: js})
	}
	if panicked {
		return "Panic", "panic", true
	}
	if op == opFilterClone && res != nil {
		// aliasing: which message structs of the result are structs of the message passed in
		src := map[uintptr]bool{}
		walkNodes(passed.ProtoReflect(), func(p uintptr) { src[p] = true })
		shared := 0
		walkNodes(res.ProtoReflect(), func(p uintptr) {
			if src[p] {
				shared++
			}
		})
		same := nodePtr(res.ProtoReflect()) == nodePtr(passed.ProtoReflect())
		term := vcoq.App("KAlias", vmsg.TypeName(msg), vmsg.Mask(fm), vmsg.Value(msg), vcoq.Int(shared), vcoq.Bool(same))
		ajs := map[string]any{"op": "FilterClone aliasing", "type": js["type"], "message": js["message"], "read_mask": js["read_mask"],
			"shared_structs": shared, "same_root": same}
		cls := "alias:none"
		if same {
			cls = "alias:same-object"
		} else if shared > 0 {
			cls = "alias:shares-structs"
		}
		g.o.Add(vcoq.Case{Coq: term, JSON: ajs, Key: term, NonTrivial: fm != nil, Tags: []string{"op:FilterClone.aliasing", cls}})
	}
	return "(Ok " + vmsg.Value(res) + ")", vmsg.JSON(res), false
}

func nodePtr(m protoreflect.Message) uintptr {
	return reflect.ValueOf(m.Interface()).Pointer()
}

// walkNodes visits every populated message struct reachable from m (m included), as vmsg.Value shows them
func walkNodes(m protoreflect.Message, f func(uintptr)) {
	f(nodePtr(m))
	m.Range(func(fd protoreflect.FieldDescriptor, v protoreflect.Value) bool {
		switch {
		case fd.IsMap():
			if fd.MapValue().Message() != nil {
				v.Map().Range(func(_ protoreflect.MapKey, e protoreflect.Value) bool { walkNodes(e.Message(), f); return true })
			}
		case fd.IsList():
			if fd.Message() != nil {
				for i := 0; i < v.List().Len(); i++ {
					walkNodes(v.List().Get(i).Message(), f)
				}
			}
		case fd.Message() != nil:
			walkNodes(v.Message(), f)
		}
		return true
	})
}

// one observation: Validate (for op FilterClone) and the read itself
func (g *c06) observe(op int, msg proto.Message, fm *fieldmaskpb.FieldMask, corrupt vmsg.PathKind, class string) (panicked bool) {
	js := map[string]any{"op": opNames[op], "type": string(msg.ProtoReflect().Descriptor().FullName()),
		"message": vmsg.JSON(msg), "read_mask": vmsg.MaskJSON(fm), "mask_class": class}
	code := int64(-1)
	if op == opFilterClone {
		func() {
			defer func() {
				if p := recover(); p != nil {
					g.o.Directs = append(g.o.Directs, vcoq.Direct{What: fmt.Sprintf("ResponseFilter.Validate panicked: %v", p), Class: "panic:Validate", Replay: js})
				}
			}()
			c := proto.Clone(msg)
			code = int64(status.Code(masks.NewResponseFilter(masks.WithFieldMask(fm)).Validate(c)))
		}()
		js["validate_code"] = code
	}
	coq, out, panicked := g.read(op, msg, fm, js)
	js["result"] = out
	res := "ok"
	if panicked {
		res = "panic"
	}
	term := vcoq.App("KRead", vcoq.Int(op), vmsg.TypeName(msg), vmsg.Mask(fm), vcoq.Int(int(corrupt)), vmsg.Value(msg), vcoq.Z(code), coq)
	nt := fm != nil && len(fm.Paths) > 0 && len(vmsg.Value(msg)) > len("(VM [])")
	g.o.Add(vcoq.Case{Coq: term, JSON: js, Key: term, NonTrivial: nt,
		Tags: []string{"op:" + opNames[op], "mask:" + class, "result:" + res, fmt.Sprintf("validate:%d", code)}})
	return panicked
}

// populated returns a valid path that names something present in msg when possible (so that
// projections are not all empty): a random walk over populated fields.
func populatedPath(r *vcoq.Rand, m protoreflect.Message, viaLists bool) (string, bool) {
	path := ""
	for depth := 0; depth < 4; depth++ {
		var fds []protoreflect.FieldDescriptor
		m.Range(func(fd protoreflect.FieldDescriptor, _ protoreflect.Value) bool { fds = append(fds, fd); return true })
		if len(fds) == 0 {
			break
		}
		sort.Slice(fds, func(i, j int) bool { return fds[i].Number() < fds[j].Number() })
		fd := fds[r.Intn(len(fds))]
		if path != "" {
			path += "."
		}
		path += string(fd.Name())
		switch {
		case fd.Message() != nil && !fd.IsMap() && !fd.IsList() && r.Chance(60):
			m = m.Get(fd).Message()
		case viaLists && fd.IsList() && fd.Message() != nil && r.Chance(80):
			m = m.Get(fd).List().Get(0).Message()
			// must continue below the list for the path to be "through" it
			md := fd.Message()
			if md.Fields().Len() == 0 {
				return path, true
			}
			var sub []protoreflect.FieldDescriptor
			m.Range(func(fd protoreflect.FieldDescriptor, _ protoreflect.Value) bool { sub = append(sub, fd); return true })
			if len(sub) == 0 {
				return path + "." + string(md.Fields().Get(r.Intn(md.Fields().Len())).Name()), true
			}
			sort.Slice(sub, func(i, j int) bool { return sub[i].Number() < sub[j].Number() })
			return path + "." + string(sub[r.Intn(len(sub))].Name()), true
		default:
			return path, true
		}
	}
	return path, path != ""
}

func parentOf(p string) (string, bool) {
	for i := len(p) - 1; i >= 0; i-- {
		if p[i] == '.' {
			return p[:i], true
		}
	}
	return "", false
}

// maskFor builds a read mask for msg of one of the structured classes; corrupt says whether the
// mask is valid for fieldmaskpb by construction (PathValid) or which corruption it carries.
func (g *c06) maskFor(msg proto.Message, class string) (*fieldmaskpb.FieldMask, vmsg.PathKind, bool) {
	r := g.r
	md := msg.ProtoReflect().Descriptor()
	some := func() string {
		if r.Chance(75) {
			if p, ok := populatedPath(r, msg.ProtoReflect(), false); ok {
				return p
			}
		}
		return vmsg.ValidPath(r, md, 40, 3)
	}
	nested := func() (string, bool) { // a path with at least two segments
		for i := 0; i < 20; i++ {
			p := some()
			if _, ok := parentOf(p); ok {
				return p, true
			}
		}
		return "", false
	}
	switch class {
	case "nil":
		return nil, vmsg.PathValid, true
	case "empty":
		if r.Bool() {
			return &fieldmaskpb.FieldMask{}, vmsg.PathValid, true
		}
		return &fieldmaskpb.FieldMask{Paths: []string{}}, vmsg.PathValid, true
	case "single":
		return &fieldmaskpb.FieldMask{Paths: []string{some()}}, vmsg.PathValid, true
	case "multi":
		n := r.Range(2, 5)
		var ps []string
		for i := 0; i < n; i++ {
			ps = append(ps, some())
		}
		return &fieldmaskpb.FieldMask{Paths: ps}, vmsg.PathValid, true
	case "duplicate":
		p := some()
		ps := []string{p, some(), p}
		return &fieldmaskpb.FieldMask{Paths: ps}, vmsg.PathValid, true
	case "parent+child", "child+parent":
		c, ok := nested()
		if !ok {
			return nil, 0, false
		}
		p, _ := parentOf(c)
		if r.Chance(30) {
			if pp, ok := parentOf(p); ok {
				p = pp // grandparent
			}
		}
		ps := []string{p, c}
		if class == "child+parent" {
			ps = []string{c, p}
		}
		if r.Chance(40) {
			ps = append(ps, some())
		}
		return &fieldmaskpb.FieldMask{Paths: ps}, vmsg.PathValid, true
	case "siblings":
		c, ok := nested()
		if !ok {
			return nil, 0, false
		}
		p, _ := parentOf(c)
		// another field of the same parent message
		pmd := md
		for _, s := range splitPath(p) {
			pmd = pmd.Fields().ByName(protoreflect.Name(s)).Message()
		}
		o := pmd.Fields().Get(r.Intn(pmd.Fields().Len()))
		return &fieldmaskpb.FieldMask{Paths: []string{c, p + "." + string(o.Name())}}, vmsg.PathValid, true
	case "prefix-named-siblings":
		// two sibling fields one of whose NAMES is a string prefix of the other's, in either order,
		// sometimes continued below the shorter-named one
		pairs := vmsg.PrefixNamedPairs(md, 1)
		if len(pairs) == 0 {
			return nil, 0, false
		}
		pr := pairs[r.Intn(len(pairs))]
		short, long := pr[0], pr[1]
		if c, ok := childOf(r, md, short); ok && r.Chance(40) {
			short = c
		}
		ps := []string{short, long}
		if r.Bool() {
			ps = []string{long, short}
		}
		if r.Chance(30) {
			ps = append(ps, some())
		}
		return &fieldmaskpb.FieldMask{Paths: ps}, vmsg.PathValid, true
	case "family", "chain":
		// a parent path together with k = 0..3 paths below it (any depth), or a chain p / p.a / p.a.b,
		// with duplicates and unrelated paths mixed in, in a random order
		ps, ok := familyPaths(r, msg, class == "chain")
		if !ok {
			return nil, 0, false
		}
		if r.Chance(30) {
			ps = append(ps, some())
		}
		shuffle(r, ps)
		return &fieldmaskpb.FieldMask{Paths: ps}, vmsg.PathValid, true
	case "through-repeated-message":
		p, ok := populatedPath(r, msg.ProtoReflect(), true)
		kind := vmsg.PathValid
		if ok && isThroughList(md, p) {
			kind = vmsg.PathThroughRepMsg
		} else {
			p, ok = vmsg.CorruptPath(r, md, vmsg.PathThroughRepMsg)
			kind = vmsg.PathThroughRepMsg
			if !ok {
				return nil, 0, false
			}
		}
		ps := []string{p}
		if r.Chance(40) {
			ps = append(ps, some())
		}
		return &fieldmaskpb.FieldMask{Paths: ps}, kind, true
	}
	panic("unknown class " + class)
}

// populatedMsgPaths lists the paths of the populated singular message fields of m (nested ones too)
func populatedMsgPaths(m protoreflect.Message, prefix string, depth int) []string {
	var out []string
	var fds []protoreflect.FieldDescriptor
	m.Range(func(fd protoreflect.FieldDescriptor, _ protoreflect.Value) bool { fds = append(fds, fd); return true })
	sort.Slice(fds, func(i, j int) bool { return fds[i].Number() < fds[j].Number() })
	for _, fd := range fds {
		if fd.Message() == nil || fd.IsList() || fd.IsMap() || fd.Message().Fields().Len() == 0 {
			continue
		}
		p := prefix + string(fd.Name())
		out = append(out, p)
		if depth > 0 {
			out = append(out, populatedMsgPaths(m.Get(fd).Message(), p+".", depth-1)...)
		}
	}
	return out
}

// descriptorMsgPaths is populatedMsgPaths over the descriptor (for messages with no populated sub-message)
func descriptorMsgPaths(md protoreflect.MessageDescriptor, prefix string, depth int) []string {
	var out []string
	for i := 0; i < md.Fields().Len(); i++ {
		fd := md.Fields().Get(i)
		if fd.Message() == nil || fd.IsList() || fd.IsMap() || fd.Message().Fields().Len() == 0 {
			continue
		}
		p := prefix + string(fd.Name())
		out = append(out, p)
		if depth > 0 {
			out = append(out, descriptorMsgPaths(fd.Message(), p+".", depth-1)...)
		}
	}
	return out
}

func descriptorAt(md protoreflect.MessageDescriptor, p string) protoreflect.MessageDescriptor {
	for _, s := range splitPath(p) {
		md = md.Fields().ByName(protoreflect.Name(s)).Message()
	}
	return md
}

// familyPaths: a parent path (a singular message field, populated when possible) with k = 0..3 valid
// paths below it at any depth - distinct children preferred so that "parent + two children" is frequent -
// or the chain parent / parent.a / parent.a.b as deep as the type goes; a duplicate now and then.
func familyPaths(r *vcoq.Rand, msg proto.Message, chain bool) ([]string, bool) {
	md := msg.ProtoReflect().Descriptor()
	parents := populatedMsgPaths(msg.ProtoReflect(), "", 2)
	if len(parents) == 0 || r.Chance(15) {
		parents = descriptorMsgPaths(md, "", 1)
	}
	if len(parents) == 0 {
		return nil, false
	}
	p := parents[r.Intn(len(parents))]
	ps := []string{p}
	if chain {
		cur := p
		for d := 0; d < 3; d++ {
			c, ok := childOf(r, md, cur)
			if !ok {
				break
			}
			ps = append(ps, c)
			cur = c
		}
	} else {
		sub := descriptorAt(md, p)
		k := r.Intn(4)
		seen := map[string]bool{}
		for i := 0; i < k; i++ {
			var c string
			for try := 0; try < 6; try++ {
				c = p + "." + vmsg.ValidPath(r, sub, 30, 2)
				if !seen[c] {
					break
				}
			}
			seen[c] = true
			ps = append(ps, c)
		}
	}
	if r.Chance(25) {
		ps = append(ps, ps[r.Intn(len(ps))]) // duplicate
	}
	return ps, true
}

// shuffle: Fisher-Yates driven by the run's seeded generator
func shuffle(r *vcoq.Rand, ps []string) {
	for i := len(ps) - 1; i > 0; i-- {
		j := r.Intn(i + 1)
		ps[i], ps[j] = ps[j], ps[i]
	}
}

func splitPath(p string) []string {
	var out []string
	cur := ""
	for i := 0; i < len(p); i++ {
		if p[i] == '.' {
			out = append(out, cur)
			cur = ""
		} else {
			cur += string(p[i])
		}
	}
	return append(out, cur)
}

// isThroughList: does the (known-good) path continue below a repeated message field?
func isThroughList(md protoreflect.MessageDescriptor, p string) bool {
	segs := splitPath(p)
	for i, s := range segs {
		fd := md.Fields().ByName(protoreflect.Name(s))
		if fd == nil {
			return false
		}
		if fd.IsList() && i < len(segs)-1 {
			return true
		}
		md = fd.Message()
		if md == nil {
			return false
		}
	}
	return false
}

func genC06(o *vcoq.Out, r *vcoq.Rand, tier string) error {
	o.Header = vmsg.Header + "\nFrom SC Require Import Msg.FmUtils Masks.Get Masks.C06Judge."
	o.CaseType = "c06case"
	o.Judge = "judge"
	o.Shard = 120
	o.Rule = "random messages of TestAllTypes (all field kinds, depth <= 2) and traits Brightness, AirTemperature, ElectricMode built by reflection from tiny value alphabets; read masks by class: nil, empty, single, multi (2-5 paths), duplicate, parent+child, child+parent, siblings, prefix-named siblings, through-repeated-message, family (a parent path + 0..3 paths below it at any depth, duplicates, shuffled), chain (p / p.a / p.a.b, shuffled) - the last two read by EVERY consumer (75% of paths walk POPULATED fields so projections are non-empty); a malformed stream with one corrupted path per mask (unknown segment, continuation through scalar / map / repeated scalar / repeated message, empty segment) alone or next to valid paths. Each (message, mask) is read by FilterClone (+Validate) and, for a third of them, also by Filter, Value.Get, Collection.List and the seed of Value.Pull. Event path: 45 backpressured streams per run (Collection.Pull + PullID over Add, Update, Delete, and with WithInclude an Update that stops matching; Value.Pull over seed + 2 Sets) with a read mask: the new AND old value of every event is judged against the projection of what the writes returned as stored. Lossy event path: 24 scenarios per run WITHOUT backpressure (Collection.Pull two thirds, Value.Pull one third), 1-3 concurrent subscriptions with different masks (an unmasked one among them half of the time), the driver is the reader: stalled phases (plug write, a script of delete / re-add, delete, add, add + delete, update over three ids, barrier write, then drain) and live phases (drain after every write); every delivered change is identified by its write time (new value = what that write stored) and by what the subscriber last saw for the id (old value), whatever the merge stage did, and judged as a KEvent case (kinds ADD, UPDATE, REMOVE, REPLACE) against the model of CollectionChange.filter and the projection; every delivered change is deep-copied at receipt and compared again after all subscriptions have been drained. Trait models: openclosepb (no presets / positions matching no preset / matching one / preset applied by a write; Model.GetPositions, ModelServer.GetPositions, first value of PullPositions), lightpb, fanspeedpb (Model and ModelServer), airtemperaturepb, electricpb demand, occupancysensorpb, energystoragepb: the masked read against the projection of the unmasked read made just before, under masks ENUMERATED from the response descriptor (every path into every message-typed field up to depth 3 alone, next to top-level fields, sibling pairs, parent + child, every top-level field, nil, empty). The same enumerated nested paths on the core resources (FilterClone, Value.Get / Collection.List, Collection.Get) for one populated message per generated type. Every FilterClone also yields an aliasing observation (message-struct pointers shared with the message passed in, same root) judged against the ownership model. Fixed: nil / typed-nil messages and messages with unknown fields (no panic, source untouched). Non-trivial: non-empty mask on a non-empty message; distinct by the full case term."
	g := &c06{o: o, r: r}
	scale := 1
	if tier == "thorough" {
		scale = 10 // 15 took 13-14 min with the machine loaded by other checks; keep headroom under 15 min
	}
	classes := []string{"nil", "empty", "single", "single", "multi", "multi", "duplicate", "parent+child", "parent+child",
		"child+parent", "child+parent", "siblings", "through-repeated-message", "prefix-named-siblings", "prefix-named-siblings",
		"family", "family", "family", "chain"}
	cfgs := []vmsg.RandCfg{vmsg.DefaultCfg, {FieldPct: 60, Depth: 2, MaxList: 2}, {FieldPct: 12, Depth: 3, MaxList: 3}}
	emit := func(msg proto.Message, fm *fieldmaskpb.FieldMask, kind vmsg.PathKind, class string) {
		panicked := g.observe(opFilterClone, msg, fm, kind, class)
		every := class == "family" || class == "chain" // overlapping paths: every mask consumer, every time
		if every || r.Chance(33) {
			for _, op := range []int{opFilter, opValueGet, opList, opPullSeed} {
				// Pull filters on a goroutine of the library: a panic there cannot be recovered by the
				// harness, so it is only exercised with inputs FilterClone survived
				if (every || r.Chance(50)) && !(panicked && op == opPullSeed) {
					g.observe(op, msg, fm, kind, class)
				}
			}
		}
	}
	// structured stream
	for i := 0; i < 420*scale; i++ {
		proto := msgTypes[0]
		if r.Chance(35) {
			proto = msgTypes[1+r.Intn(len(msgTypes)-1)]
		}
		class := classes[r.Intn(len(classes))]
		cfg := cfgs[r.Intn(len(cfgs))]
		if class == "prefix-named-siblings" {
			// only some trait messages have such fields; populate them
			for len(vmsg.PrefixNamedPairs(proto.ProtoReflect().Descriptor(), 1)) == 0 {
				proto = msgTypes[1+r.Intn(len(msgTypes)-1)]
			}
			cfg = vmsg.RandCfg{FieldPct: 70, Depth: 2, MaxList: 2}
		}
		msg := vmsg.RandMsg(r, proto, cfg)
		fm, kind, ok := g.maskFor(msg, class)
		if !ok {
			continue
		}
		emit(msg, fm, kind, class)
	}
	// malformed stream
	kinds := []vmsg.PathKind{vmsg.PathUnknown, vmsg.PathThroughScalar, vmsg.PathThroughMap, vmsg.PathThroughRepScalar,
		vmsg.PathThroughRepMsg, vmsg.PathEmptySegment}
	for i := 0; i < 260*scale; i++ {
		proto := msgTypes[0]
		if r.Chance(30) {
			proto = msgTypes[1+r.Intn(len(msgTypes)-1)]
		}
		// the corrupted field should usually be populated, otherwise nothing can go wrong
		msg := vmsg.RandMsg(r, proto, vmsg.RandCfg{FieldPct: 55, Depth: 2, MaxList: 2})
		kind := kinds[r.Intn(len(kinds))]
		bad, ok := vmsg.CorruptPath(r, msg.ProtoReflect().Descriptor(), kind)
		if !ok {
			continue
		}
		ps := []string{bad}
		md := msg.ProtoReflect().Descriptor()
		switch r.Intn(4) {
		case 0:
			ps = []string{vmsg.ValidPath(r, md, 40, 3), bad}
		case 1:
			ps = []string{bad, vmsg.ValidPath(r, md, 40, 3)}
		case 2:
			// the corrupted path next to its own valid prefix
			if p, ok := parentOf(bad); ok && p != "" {
				ps = []string{bad, p}
			}
		}
		emit(msg, &fieldmaskpb.FieldMask{Paths: ps}, kind, "corrupt:"+kind.String())
	}
	// event path: masked, backpressured Pulls over a few writes (new and old values of every event)
	g.streams(45 * scale)
	// the same without backpressure: merge stage in front of the filter, stalled and live readers, REPLACE
	xs := scale // the round-4 generators: x6 in the thorough tier, to stay inside its 15 minutes
	if xs > 6 {
		xs = 6
	}
	g.lossyStreams(24 * xs)
	// trait models (assembled / derived responses) and the core resources under enumerated nested masks
	g.traitModels(xs)
	g.nestedEachCore(xs)
	// the inputs of the two defects repaired in pkg/masks/get.go, always present
	st := &testproto.TestAllTypes{DefaultInt32: 7, DefaultForeignMessage: &testproto.ForeignMessage{C: 1, D: 2},
		MapStringNestedMessage: map[string]*testproto.TestAllTypes_NestedMessage{"a": {A: 1}}, RepeatedInt32: []int32{1, 2}}
	type fixedMask struct {
		paths []string
		kind  vmsg.PathKind
		class string
	}
	fixes := []fixedMask{}
	// a parent path with TWO paths below it, in all six orders, and the chain p / p.a / p.a.b
	{
		a, b, c := "default_foreign_message", "default_foreign_message.c", "default_foreign_message.d"
		for _, ps := range [][]string{{a, b, c}, {a, c, b}, {b, a, c}, {b, c, a}, {c, a, b}, {c, b, a}, {a, b, c, "default_int32"}, {b, a, a, c}} {
			fixes = append(fixes, fixedMask{ps, vmsg.PathValid, "family"})
		}
	}
	st2 := &testproto.TestAllTypes{DefaultInt32: 5, DefaultNestedMessage: &testproto.TestAllTypes_NestedMessage{A: 9,
		Corecursive: &testproto.TestAllTypes{DefaultInt32: 90, DefaultString: "x", DefaultForeignMessage: &testproto.ForeignMessage{C: 1, D: 2}}}}
	{
		n, co := "default_nested_message", "default_nested_message.corecursive"
		for _, ps := range [][]string{
			{n, n + ".a", co}, {co, n + ".a", n}, {n, co, co + ".default_int32"}, {co + ".default_int32", co, n},
			{n, co + ".default_int32", co + ".default_string"}, {co + ".default_string", n, co + ".default_int32", n + ".a"},
			{co + ".default_foreign_message", co + ".default_foreign_message.c", co + ".default_foreign_message.d"},
		} {
			for _, op := range []int{opFilterClone, opFilter, opValueGet, opList, opPullSeed} {
				g.observe(op, st2, &fieldmaskpb.FieldMask{Paths: ps}, vmsg.PathValid, "family")
			}
		}
	}
	for _, fix := range append(fixes, []fixedMask{
		{[]string{"default_foreign_message", "default_foreign_message.c"}, vmsg.PathValid, "parent+child"},
		{[]string{"map_string_nested_message.a"}, vmsg.PathThroughMap, "corrupt:through-map"},
		{[]string{"repeated_int32.x", "default_int32.y"}, vmsg.PathThroughRepScalar, "corrupt:through-repeated-scalar"},
	}...) {
		panicked := false
		for _, op := range []int{opFilterClone, opFilter, opValueGet, opList, opPullSeed} {
			if panicked && op == opPullSeed {
				continue
			}
			if g.observe(op, st, &fieldmaskpb.FieldMask{Paths: fix.paths}, fix.kind, fix.class) {
				panicked = true
			}
		}
	}
	g.nilAndUnknown()
	return nil
}

// nilAndUnknown: the inputs outside the tree model - a nil message (untyped and typed), and unknown fields.
// Observed directly: no read or validation panics on a nil message and a nil message stays nil; unknown
// fields are not addressed by any mask: a non-empty read mask keeps them, an empty one drops them, the
// source keeps them in every case.
func (g *c06) nilAndUnknown() {
	masksToTry := []*fieldmaskpb.FieldMask{nil, {}, {Paths: []string{"default_int32"}}, {Paths: []string{"default_foreign_message.c", "zzz"}}}
	var typedNil *testproto.TestAllTypes
	for _, fm := range masksToTry {
		for _, msg := range []proto.Message{nil, typedNil} {
			if msg != nil && fm != nil && len(fm.Paths) == 0 {
				// documented, outside the property's quantifier: proto.Reset dereferences a typed nil pointer,
				// so Filter / FilterClone of a typed nil message with an EMPTY mask panic (notes/C06.md)
				continue
			}
			js := map[string]any{"op": "nil-message", "typed": msg != nil, "read_mask": vmsg.MaskJSON(fm)}
			func() {
				defer func() {
					if p := recover(); p != nil {
						js["panic"] = fmt.Sprint(p)
						g.o.Directs = append(g.o.Directs, vcoq.Direct{What: "a read of a nil message panicked", Class: "panic:nil-message", Replay: js})
					}
				}()
				f := masks.NewResponseFilter(masks.WithFieldMask(fm))
				if msg != nil {
					_ = f.Validate(msg)
				}
				f.Filter(msg)
				res := f.FilterClone(msg)
				if res != nil && res.ProtoReflect().IsValid() {
					g.o.Directs = append(g.o.Directs, vcoq.Direct{What: "FilterClone of a nil message returned a message", Class: "nil-message-result", Replay: js})
				}
			}()
		}
		// unknown fields (field number 999, varint 7)
		unk := []byte{0xb8, 0x3e, 0x07}
		m := &testproto.TestAllTypes{DefaultInt32: 7, DefaultForeignMessage: &testproto.ForeignMessage{C: 1, D: 2}}
		m.ProtoReflect().SetUnknown(unk)
		m.DefaultForeignMessage.ProtoReflect().SetUnknown(unk)
		js := map[string]any{"op": "unknown-fields", "read_mask": vmsg.MaskJSON(fm)}
		func() {
			defer func() {
				if p := recover(); p != nil {
					js["panic"] = fmt.Sprint(p)
					g.o.Directs = append(g.o.Directs, vcoq.Direct{What: "a read of a message with unknown fields panicked", Class: "panic:unknown-fields", Replay: js})
				}
			}()
			res := masks.NewResponseFilter(masks.WithFieldMask(fm)).FilterClone(m)
			if len(m.ProtoReflect().GetUnknown()) != 3 || len(m.DefaultForeignMessage.ProtoReflect().GetUnknown()) != 3 {
				g.o.Directs = append(g.o.Directs, vcoq.Direct{What: "FilterClone dropped unknown fields of the message it was reading", Class: "read-mutated:FilterClone", Replay: js})
			}
			// the known fields are still exactly the projection
			known := proto.Clone(res)
			known.ProtoReflect().SetUnknown(nil)
			if fmsg := known.(*testproto.TestAllTypes).DefaultForeignMessage; fmsg != nil {
				fmsg.ProtoReflect().SetUnknown(nil)
			}
			g.observeGiven(opFilterClone, m, fm, known, js)
		}()
	}
}

// observeGiven adds a KRead case for a result computed by the caller (known fields only)
func (g *c06) observeGiven(op int, msg proto.Message, fm *fieldmaskpb.FieldMask, res proto.Message, js map[string]any) {
	corrupt := vmsg.PathValid
	if fm != nil {
		for _, p := range fm.Paths {
			if p == "zzz" {
				corrupt = vmsg.PathUnknown
			}
		}
	}
	code := int64(status.Code(masks.NewResponseFilter(masks.WithFieldMask(fm)).Validate(proto.Clone(msg))))
	js["type"] = string(msg.ProtoReflect().Descriptor().FullName())
	js["message"] = vmsg.JSON(msg)
	js["result"] = vmsg.JSON(res)
	term := vcoq.App("KRead", vcoq.Int(op), vmsg.TypeName(msg), vmsg.Mask(fm), vcoq.Int(int(corrupt)), vmsg.Value(msg), vcoq.Z(code), "(Ok "+vmsg.Value(res)+")")
	g.o.Add(vcoq.Case{Coq: term, JSON: js, Key: term, NonTrivial: true, Tags: []string{"op:" + opNames[op], "mask:unknown-fields-present", "result:ok", fmt.Sprintf("validate:%d", code)}})
}
