package main

import (
	"context"
	"fmt"
	"time"

	"github.com/smart-core-os/sc-api/go/traits"
	"github.com/smart-core-os/sc-golang/pkg/resource"
	"github.com/smart-core-os/sc-golang/pkg/trait/airtemperaturepb"
	"github.com/smart-core-os/sc-golang/pkg/trait/electricpb"
	"github.com/smart-core-os/sc-golang/pkg/trait/energystoragepb"
	"github.com/smart-core-os/sc-golang/pkg/trait/fanspeedpb"
	"github.com/smart-core-os/sc-golang/pkg/trait/lightpb"
	"github.com/smart-core-os/sc-golang/pkg/trait/occupancysensorpb"
	"github.com/smart-core-os/sc-golang/pkg/trait/openclosepb"
	"github.com/smart-core-os/sc-golang/verifharness/vcoq"
	"github.com/smart-core-os/sc-golang/verifharness/vmsg"
	"google.golang.org/protobuf/proto"
	"google.golang.org/protobuf/reflect/protoreflect"
	"google.golang.org/protobuf/types/known/fieldmaskpb"
)

// Reads of trait models, where the message read is not always a stored message: a model may ASSEMBLE
// its response (openclosepb: the positions of a collection plus the preset they amount to, found at
// read time) or keep fields that were DERIVED by a write (fanspeedpb: preset / preset_index /
// percentage follow each other; lightpb: the preset's title and level).  Whatever the model does to
// produce the unmasked response R = Get(), a read with mask M must return project(M, R): each masked
// read is a KRead case whose "message read" is the response of the unmasked read made just before
// (and compared with the one made just after: the read must not change the model).
//
// Masks are ENUMERATED from the response type's descriptor, not drawn: every path that reaches into a
// message-typed field (singular or repeated, any depth up to 3) - alone, next to each top-level field
// in turn, and in sibling pairs - so that a field selected only through a nested path (preset.name
// without preset) is always among them; plus nil, empty, every top-level field alone, parent + child.

const (
	opTraitGet    = 12
	opTraitServer = 13
	opTraitPull   = 14
	opNestedEach  = 15
)

func init() {
	registerOp(opTraitGet, "Trait.Model.Get")
	registerOp(opTraitServer, "Trait.ModelServer.Get")
	registerOp(opTraitPull, "Trait.Model.Pull.first")
	registerOp(opNestedEach, "Collection.Get")
}

// nestedPaths lists every path of md with at least two segments whose segments but the last are
// message-typed fields (singular or repeated message, no maps), up to `depth` segments
func nestedPaths(md protoreflect.MessageDescriptor, depth int) []string {
	var out []string
	var walk func(md protoreflect.MessageDescriptor, prefix string, d int, seen map[protoreflect.FullName]bool)
	walk = func(md protoreflect.MessageDescriptor, prefix string, d int, seen map[protoreflect.FullName]bool) {
		for i := 0; i < md.Fields().Len(); i++ {
			fd := md.Fields().Get(i)
			p := prefix + string(fd.Name())
			if prefix != "" {
				out = append(out, p)
			}
			if d > 1 && fd.Message() != nil && !fd.IsMap() && !seen[fd.Message().FullName()] {
				seen[fd.Message().FullName()] = true
				walk(fd.Message(), p+".", d-1, seen)
				delete(seen, fd.Message().FullName())
			}
		}
	}
	walk(md, "", depth, map[protoreflect.FullName]bool{md.FullName(): true})
	return out
}

func topPaths(md protoreflect.MessageDescriptor) []string {
	var out []string
	for i := 0; i < md.Fields().Len(); i++ {
		out = append(out, string(md.Fields().Get(i).Name()))
	}
	return out
}

// enumeratedMasks: see the comment at the top
func enumeratedMasks(r *vcoq.Rand, md protoreflect.MessageDescriptor, limit int) []*fieldmaskpb.FieldMask {
	nested := nestedPaths(md, 3)
	tops := topPaths(md)
	out := []*fieldmaskpb.FieldMask{nil, {}}
	for _, t := range tops {
		out = append(out, &fieldmaskpb.FieldMask{Paths: []string{t}})
	}
	var more []*fieldmaskpb.FieldMask
	for i, p := range nested {
		out = append(out, &fieldmaskpb.FieldMask{Paths: []string{p}})
		for _, t := range tops {
			if r.Bool() {
				more = append(more, &fieldmaskpb.FieldMask{Paths: []string{p, t}})
			} else {
				more = append(more, &fieldmaskpb.FieldMask{Paths: []string{t, p}})
			}
		}
		for j := i + 1; j < len(nested); j++ {
			pi, _ := parentOf(p)
			pj, _ := parentOf(nested[j])
			if pi == pj {
				more = append(more, &fieldmaskpb.FieldMask{Paths: []string{p, nested[j]}})
			}
		}
		if par, ok := parentOf(p); ok {
			more = append(more, &fieldmaskpb.FieldMask{Paths: []string{par, p}}, &fieldmaskpb.FieldMask{Paths: []string{p, par}})
		}
	}
	// the singles are always all there; of the combinations a seeded sample
	for i := len(more) - 1; i > 0; i-- {
		j := r.Intn(i + 1)
		more[i], more[j] = more[j], more[i]
	}
	if len(more) > limit {
		more = more[:limit]
	}
	return append(out, more...)
}

type traitRead struct {
	op int
	f  func(fm *fieldmaskpb.FieldMask) (proto.Message, error)
}

// traitReads: every mask, every way of reading, against the unmasked response
func (g *c06) traitReads(model string, full func() (proto.Message, error), reads []traitRead, limit int) {
	r0, err := full()
	if err != nil || r0 == nil {
		g.o.Directs = append(g.o.Directs, vcoq.Direct{What: fmt.Sprintf("%s: the unmasked read failed: %v", model, err), Class: "trait-read-failed", Replay: map[string]any{"model": model}})
		return
	}
	base := proto.Clone(r0)
	md := base.ProtoReflect().Descriptor()
	for _, fm := range enumeratedMasks(g.r, md, limit) {
		if !survives(fm, base) {
			continue
		}
		for _, rd := range reads {
			js := map[string]any{"op": opNames[rd.op], "model": model, "type": string(md.FullName()),
				"message": vmsg.JSON(base), "message_is": "the response of the same read without a mask", "read_mask": vmsg.MaskJSON(fm)}
			var before []string
			if fm != nil {
				before = append([]string{}, fm.Paths...)
			}
			res, err := rd.f(fm)
			if err != nil || res == nil {
				js["error"] = fmt.Sprint(err)
				g.o.Directs = append(g.o.Directs, vcoq.Direct{What: model + ": a read with a mask that the unmasked response survives failed", Class: "trait-read-failed", Replay: js})
				continue
			}
			if fm != nil && !samePaths(before, fm.Paths) {
				g.o.Directs = append(g.o.Directs, vcoq.Direct{What: model + ": the read changed the caller's read mask", Class: "mask-mutated:" + opNames[rd.op], Replay: js})
			}
			js["result"] = vmsg.JSON(res)
			class := "enumerated:nil-or-top"
			kind := vmsg.PathValid
			if fm != nil {
				for _, p := range fm.Paths {
					if _, ok := parentOf(p); ok {
						class = "enumerated:nested"
						if isThroughList(md, p) {
							kind = vmsg.PathThroughRepMsg
						}
					}
				}
			}
			js["mask_class"] = class
			term := vcoq.App("KRead", vcoq.Int(rd.op), vmsg.TypeName(base), vmsg.Mask(fm), vcoq.Int(int(kind)), vmsg.Value(base), vcoq.Z(-1), "(Ok "+vmsg.Value(res)+")")
			g.o.Add(vcoq.Case{Coq: term, JSON: js, Key: term, NonTrivial: fm != nil && len(fm.Paths) > 0 && populatedCount(base) > 0,
				Tags: []string{"op:" + opNames[rd.op], "mask:" + class, "result:ok", "validate:-1", "model:" + model}})
		}
		// the model still answers the unmasked read as before
		again, err := full()
		if err != nil || !proto.Equal(again, base) {
			g.o.Directs = append(g.o.Directs, vcoq.Direct{What: model + ": a masked read changed what the model reports", Class: "read-mutated:Trait.Model.Get",
				Replay: map[string]any{"model": model, "read_mask": vmsg.MaskJSON(fm), "before": vmsg.JSON(base), "after": jsonOrNil(again)}})
			return
		}
	}
}

func (g *c06) traitModels(scale int) {
	r := g.r
	limit := 14 * scale
	pct := func() float32 { return []float32{0, 25, 40, 100}[r.Intn(4)] }
	// ---- openclosepb: assembled response with a preset derived at read time ----
	pos := func(d traits.OpenClosePosition_Direction, open float32, more bool) *traits.OpenClosePosition {
		p := &traits.OpenClosePosition{Direction: d, OpenPercent: open}
		if more {
			p.Resistance = traits.OpenClosePosition_HELD
		}
		return p
	}
	open := []*traits.OpenClosePosition{pos(traits.OpenClosePosition_UP, 100, true), pos(traits.OpenClosePosition_LEFT, 100, false)}
	closed := []*traits.OpenClosePosition{pos(traits.OpenClosePosition_UP, 0, true), pos(traits.OpenClosePosition_LEFT, 0, false)}
	ajar := []*traits.OpenClosePosition{pos(traits.OpenClosePosition_UP, pct(), false), pos(traits.OpenClosePosition_LEFT, 35, r.Bool())}
	clones := func(ps []*traits.OpenClosePosition) []*traits.OpenClosePosition {
		out := make([]*traits.OpenClosePosition, len(ps))
		for i, p := range ps {
			out[i] = proto.Clone(p).(*traits.OpenClosePosition)
		}
		return out
	}
	presets := func() []resource.Option {
		return []resource.Option{
			openclosepb.WithPreset(&traits.OpenClosePositions_Preset{Name: "open", Title: "Fully open"}, clones(open)...),
			openclosepb.WithPreset(&traits.OpenClosePositions_Preset{Name: "closed", Title: "Fully closed"}, clones(closed)...),
		}
	}
	type ocm struct {
		name   string
		opts   []resource.Option
		preset string // applied by UpdatePositions after construction
	}
	for _, mt := range []ocm{
		{"openclosepb no presets", []resource.Option{openclosepb.WithInitialPositions(clones(open)...)}, ""},
		{"openclosepb no positions", nil, ""},
		{"openclosepb presets, positions match none", append([]resource.Option{openclosepb.WithInitialPositions(clones(ajar)...)}, presets()...), ""},
		{"openclosepb presets, initial positions match one", append([]resource.Option{openclosepb.WithInitialPositions(clones(closed)...)}, presets()...), ""},
		{"openclosepb presets, preset applied by a write", append([]resource.Option{openclosepb.WithInitialPositions(clones(ajar)...)}, presets()...), "open"},
	} {
		model := openclosepb.NewModel(mt.opts...)
		if mt.preset != "" {
			if _, err := model.UpdatePositions(&traits.OpenClosePositions{Preset: &traits.OpenClosePositions_Preset{Name: mt.preset}}); err != nil {
				g.o.Directs = append(g.o.Directs, vcoq.Direct{What: "openclosepb: applying a configured preset failed: " + err.Error(), Class: "trait-read-failed", Replay: map[string]any{"model": mt.name}})
				continue
			}
		}
		server := openclosepb.NewModelServer(model)
		g.traitReads(mt.name, func() (proto.Message, error) { return model.GetPositions() }, []traitRead{
			{opTraitGet, func(fm *fieldmaskpb.FieldMask) (proto.Message, error) {
				return model.GetPositions(resource.WithReadMask(fm))
			}},
			{opTraitServer, func(fm *fieldmaskpb.FieldMask) (proto.Message, error) {
				return server.GetPositions(context.Background(), &traits.GetOpenClosePositionsRequest{Name: "n", ReadMask: fm})
			}},
			{opTraitPull, func(fm *fieldmaskpb.FieldMask) (proto.Message, error) {
				ctx, cancel := context.WithCancel(context.Background())
				defer cancel()
				select {
				case ch, ok := <-model.PullPositions(ctx, resource.WithReadMask(fm)):
					if !ok {
						return nil, fmt.Errorf("PullPositions closed without a first value")
					}
					return ch.Positions, nil
				case <-time.After(20 * time.Second):
					return nil, fmt.Errorf("PullPositions sent no first value in 20 s")
				}
			}},
		}, limit)
	}
	// ---- lightpb: the preset (a message) is completed by the write ----
	{
		model := lightpb.NewModel(lightpb.WithPreset(40, &traits.LightPreset{Name: "dim", Title: "Dimmed"}), lightpb.WithPreset(100, &traits.LightPreset{Name: "full", Title: "Full"}))
		server := lightpb.NewModelServer(model)
		for _, b := range []*traits.Brightness{
			{LevelPercent: pct()},
			{Preset: &traits.LightPreset{Name: "dim"}},
		} {
			if _, err := model.UpdateBrightness(b); err != nil {
				g.o.Directs = append(g.o.Directs, vcoq.Direct{What: "lightpb: UpdateBrightness failed: " + err.Error(), Class: "trait-read-failed", Replay: map[string]any{"model": "lightpb"}})
				continue
			}
			g.traitReads("lightpb", func() (proto.Message, error) { return model.GetBrightness() }, []traitRead{
				{opTraitGet, func(fm *fieldmaskpb.FieldMask) (proto.Message, error) {
					return model.GetBrightness(resource.WithReadMask(fm))
				}},
				{opTraitServer, func(fm *fieldmaskpb.FieldMask) (proto.Message, error) {
					return server.GetBrightness(context.Background(), &traits.GetBrightnessRequest{Name: "n", ReadMask: fm})
				}},
			}, limit)
		}
	}
	// ---- fanspeedpb: preset, preset_index and percentage are derived from each other by the write ----
	{
		model := fanspeedpb.NewModel()
		server := fanspeedpb.NewModelServer(model)
		for _, fs := range []*traits.FanSpeed{{Preset: fanspeedpb.DefaultPresets[len(fanspeedpb.DefaultPresets)-1].Name}, {PresetIndex: 1}} {
			if _, err := model.UpdateFanSpeed(fs); err != nil {
				continue // an update the model refuses is not a read
			}
			g.traitReads("fanspeedpb", func() (proto.Message, error) { return model.FanSpeed(), nil }, []traitRead{
				{opTraitGet, func(fm *fieldmaskpb.FieldMask) (proto.Message, error) {
					return model.FanSpeed(resource.WithReadMask(fm)), nil
				}},
				{opTraitServer, func(fm *fieldmaskpb.FieldMask) (proto.Message, error) {
					return server.GetFanSpeed(context.Background(), &traits.GetFanSpeedRequest{Name: "n", ReadMask: fm})
				}},
			}, limit)
		}
	}
	// ---- plain stored values behind trait models: random populated messages ----
	cfg := vmsg.RandCfg{FieldPct: 75, Depth: 3, MaxList: 2}
	{
		at := vmsg.RandMsg(r, &traits.AirTemperature{}, cfg).(*traits.AirTemperature)
		model := airtemperaturepb.NewModel(airtemperaturepb.WithInitialAirTemperature(at))
		g.traitReads("airtemperaturepb", func() (proto.Message, error) { return model.GetAirTemperature() }, []traitRead{
			{opTraitGet, func(fm *fieldmaskpb.FieldMask) (proto.Message, error) {
				return model.GetAirTemperature(resource.WithReadMask(fm))
			}}}, limit)
	}
	{
		d := vmsg.RandMsg(r, &traits.ElectricDemand{}, cfg).(*traits.ElectricDemand)
		model := electricpb.NewModel(electricpb.WithInitialDemand(d))
		g.traitReads("electricpb demand", func() (proto.Message, error) { return model.Demand(), nil }, []traitRead{
			{opTraitGet, func(fm *fieldmaskpb.FieldMask) (proto.Message, error) {
				return model.Demand(resource.WithReadMask(fm)), nil
			}}}, limit)
	}
	{
		oc := vmsg.RandMsg(r, &traits.Occupancy{}, cfg).(*traits.Occupancy)
		model := occupancysensorpb.NewModel(occupancysensorpb.WithInitialOccupancy(oc))
		g.traitReads("occupancysensorpb", func() (proto.Message, error) { return model.GetOccupancy() }, []traitRead{
			{opTraitGet, func(fm *fieldmaskpb.FieldMask) (proto.Message, error) {
				return model.GetOccupancy(resource.WithReadMask(fm))
			}}}, limit)
	}
	{
		el := vmsg.RandMsg(r, &traits.EnergyLevel{}, cfg).(*traits.EnergyLevel)
		model := energystoragepb.NewModel(energystoragepb.WithInitialEnergyLevel(el))
		g.traitReads("energystoragepb", func() (proto.Message, error) { return model.GetEnergyLevel() }, []traitRead{
			{opTraitGet, func(fm *fieldmaskpb.FieldMask) (proto.Message, error) {
				return model.GetEnergyLevel(resource.WithReadMask(fm))
			}}}, limit)
	}
}

// nestedEachCore: the same enumerated class on the core resources - for a populated message of each
// generated type, every nested path into every message-typed field, by FilterClone, Value.Get,
// Collection.List and Collection.Get
func (g *c06) nestedEachCore(scale int) {
	r := g.r
	for _, proto0 := range msgTypes {
		msg := vmsg.RandMsg(r, proto0, vmsg.RandCfg{FieldPct: 75, Depth: 3, MaxList: 2})
		md := msg.ProtoReflect().Descriptor()
		var fms []*fieldmaskpb.FieldMask
		for _, p := range nestedPaths(md, 3) {
			fms = append(fms, &fieldmaskpb.FieldMask{Paths: []string{p}})
		}
		// TestAllTypes has hundreds of them: a seeded sample; the trait messages: all
		for i := len(fms) - 1; i > 0; i-- {
			j := r.Intn(i + 1)
			fms[i], fms[j] = fms[j], fms[i]
		}
		if lim := 30 * scale; len(fms) > lim {
			fms = fms[:lim]
		}
		for _, fm := range fms {
			kind := vmsg.PathValid
			if isThroughList(md, fm.Paths[0]) {
				kind = vmsg.PathThroughRepMsg
			} else if !validPath(md, fm.Paths[0]) {
				continue // below a map value or a oneof member the descriptor walk may leave valid ground: not this class
			}
			if !survives(fm, msg) {
				continue
			}
			if g.observe(opFilterClone, msg, fm, kind, "nested-each") {
				continue
			}
			ops := []int{opValueGet, opList}
			g.observe(ops[r.Intn(len(ops))], msg, fm, kind, "nested-each")
			// Collection.Get (single item)
			c := resource.NewCollection()
			if _, err := c.Add("a", proto.Clone(msg)); err != nil {
				continue
			}
			res, ok := c.Get("a", resource.WithReadMask(fm))
			if !ok || res == nil {
				continue
			}
			js := map[string]any{"op": "Collection.Get", "type": string(md.FullName()), "message": vmsg.JSON(msg), "read_mask": vmsg.MaskJSON(fm), "mask_class": "nested-each", "result": vmsg.JSON(res)}
			if st, _ := c.Get("a"); !proto.Equal(st, msg) {
				g.o.Directs = append(g.o.Directs, vcoq.Direct{What: "Collection.Get with a read mask changed the stored item", Class: "read-mutated:Collection.Get", Replay: js})
			}
			term := vcoq.App("KRead", vcoq.Int(opNestedEach), vmsg.TypeName(msg), vmsg.Mask(fm), vcoq.Int(int(kind)), vmsg.Value(msg), vcoq.Z(-1), "(Ok "+vmsg.Value(res)+")")
			g.o.Add(vcoq.Case{Coq: term, JSON: js, Key: term, NonTrivial: populatedCount(msg) > 0,
				Tags: []string{"op:Collection.Get", "mask:nested-each", "result:ok", "validate:-1"}})
		}
	}
}

// validPath: every segment but the last names a singular message field (fieldmaskpb's rule)
func validPath(md protoreflect.MessageDescriptor, p string) bool {
	segs := splitPath(p)
	for i, s := range segs {
		if md == nil {
			return false
		}
		fd := md.Fields().ByName(protoreflect.Name(s))
		if fd == nil {
			return false
		}
		if i < len(segs)-1 {
			if fd.Message() == nil || fd.IsList() || fd.IsMap() {
				return false
			}
			md = fd.Message()
		}
	}
	return true
}
