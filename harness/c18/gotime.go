package main

// Cases observed through Go's time.Time (Coq: Timeline/GoTimeMode.v): the standard-library calls modepb is built on
// (Timestamp.AsTime, Time.Compare / Sub / Before / After / Add, timestamppb.New) and the mode operations themselves,
// for start times over the WHOLE 64-bit range of seconds - in particular the top 62135596800 seconds, where
// time.Unix wraps.  Inside the band they are judged by the same oracles as the other kinds; outside it only
// agreement with the Go-representation model is required (tag go:out-of-band).

import (
	"math"
	"time"

	"github.com/smart-core-os/sc-api/go/traits"
	"github.com/smart-core-os/sc-golang/pkg/trait/electricpb/modepb"
	"github.com/smart-core-os/sc-golang/verifharness/vcoq"
	"google.golang.org/protobuf/proto"
	"google.golang.org/protobuf/types/known/timestamppb"
)

func inBand(t *timestamppb.Timestamp) bool {
	return t == nil || (t.Seconds <= math.MaxInt64-unixToInternal && t.Nanos >= 0 && t.Nanos <= 999999999)
}
func bandTag(ts ...*timestamppb.Timestamp) string {
	for _, t := range ts {
		if !inBand(t) {
			return "go:out-of-band"
		}
	}
	return "go:in-band"
}

func (g *c18) goCompare(a, b *timestamppb.Timestamp) {
	ta, tb := a.AsTime(), b.AsTime()
	c, s, bf, af := ta.Compare(tb), int64(ta.Sub(tb)), ta.Before(tb), ta.After(tb)
	js := map[string]any{"a": jsTs(a), "b": jsTs(b), "compare": c, "sub": s, "before": bf, "after": af}
	g.addT("go.AsTime.Compare/Sub", vcoq.App("KGoCompare", coqTs(a), coqTs(b),
		"("+vcoq.Int(c)+", "+vcoq.Z(s)+", "+vcoq.Bool(bf)+", "+vcoq.Bool(af)+")"), js, true, bandTag(a, b))
}

func (g *c18) goNew(a *timestamppb.Timestamp, d time.Duration) {
	r := timestamppb.New(a.AsTime().Add(d))
	js := map[string]any{"a": jsTs(a), "d": int64(d), "obs": jsTs(r)}
	g.addT("go.New(AsTime.Add)", vcoq.App("KGoNew", coqTs(a), vcoq.Z(int64(d)), coqTs(r)), js, d != 0, bandTag(a))
}

func coqCut3Mode(b, a *traits.ElectricMode, outside bool) string {
	return "(" + coqOptMode(b) + ", " + coqOptMode(a) + ", " + vcoq.Bool(outside) + ")"
}

func (g *c18) goMode(m *traits.ElectricMode, t int64) {
	orig := proto.Clone(m).(*traits.ElectricMode)
	js := map[string]any{"mode": jsMode(orig), "t": t}
	defer g.recoverPanic("modepb (far start time)", js)
	tt := timeOf(t)
	el, idx := modepb.ActiveAt(tt, m)
	lv, ok := modepb.MagnitudeAt(tt, m)
	mx := modepb.MaxSegmentAfter(tt, m)
	b, a, outside := modepb.Cut(tt, m)
	js["active"], js["magnitude"], js["max"] = []any{int64(el), idx}, []any{lv, ok}, mx
	js["before"], js["after"], js["outside"] = jsMode(b), jsMode(a), outside
	obs := "(" + vcoq.Pair(vcoq.Z(int64(el)), vcoq.Int(idx)) + ", " + vcoq.Pair(vcoq.Z(int64(lv)), vcoq.Bool(ok)) + ", " +
		vcoq.Int(mx) + ", " + coqCut3Mode(b, a, outside) + ")"
	if !proto.Equal(m, orig) {
		g.mutated("modepb (far start time)", js)
	}
	g.addT("go.mode.reads+Cut", vcoq.App("KGoMode", vcoq.Z(t), coqMode(orig), obs), js, len(m.Segments) > 0, bandTag(m.StartTime))
}

func (g *c18) goModeShift(m *traits.ElectricMode, d time.Duration) {
	orig := proto.Clone(m).(*traits.ElectricMode)
	js := map[string]any{"mode": jsMode(orig), "d": int64(d)}
	defer g.recoverPanic("modepb.Shift (far start time)", js)
	out := modepb.Shift(d, m)
	js["obs"] = jsMode(out)
	if !proto.Equal(m, orig) {
		g.mutated("modepb.Shift (far start time)", js)
	}
	g.addT("go.mode.Shift", vcoq.App("KGoModeShift", vcoq.Z(int64(d)), coqMode(orig), coqMode(out)), js, d != 0, bandTag(m.StartTime))
}

func (g *c18) goModeSum(ms []*traits.ElectricMode) {
	items := make([]string, len(ms))
	jl := make([]any, len(ms))
	var sts []*timestamppb.Timestamp
	for i, m := range ms {
		items[i] = coqMode(m)
		jl[i] = jsMode(m)
		sts = append(sts, m.StartTime)
	}
	js := map[string]any{"modes": jl}
	// start times further apart than 2^62 ns (as Go sees them) make st.Sub(earliest) saturate and the offsets inside
	// the inner segmentpb.Sum wrap: the result is garbage (negative lengths) and not modelled (notes: remaining gaps)
	for _, a := range sts {
		for _, b := range sts {
			if a != nil && b != nil {
				if d := a.AsTime().Sub(b.AsTime()); d >= 1<<62 || d <= -(1<<62) {
					return
				}
			}
		}
	}
	defer g.recoverPanic("modepb.Sum (far start time)", js)
	out := modepb.Sum(ms...)
	js["obs"] = jsMode(out)
	g.addT("go.mode.Sum", vcoq.App("KGoModeSum", vcoq.List(items), coqOptMode(out)), js, len(ms) > 1, bandTag(sts...))
}

var goDurs = []int64{0, 1, -1, 999999999, 1000000000, -1000000000, -999999999, 1 << 40, -(1 << 40),
	math.MaxInt64, math.MaxInt64 - 1, math.MinInt64, math.MinInt64 + 1}
var goTimes = []int64{0, 1, -1, 999999999, -999999999, 1000000000, -1000000001, 1 << 40, -(1 << 40),
	math.MaxInt64, math.MaxInt64 - 1, math.MinInt64, math.MinInt64 + 1}

func (g *c18) goTime(scale int) {
	r := g.r
	anyTs := func() *timestamppb.Timestamp {
		t := g.edgeTs()
		if r.Chance(8) {
			t.Nanos = badNanos[r.Intn(len(badNanos))]
		}
		return t
	}
	// the standard-library calls: every pair of boundary seconds once, then random pairs
	for _, sa := range edgeSecs {
		for _, sb := range edgeSecs {
			g.goCompare(&timestamppb.Timestamp{Seconds: sa, Nanos: edgeNanos[r.Intn(3)]}, &timestamppb.Timestamp{Seconds: sb, Nanos: edgeNanos[r.Intn(3)]})
		}
	}
	for i := 0; i < 150*scale; i++ {
		a := anyTs()
		b := anyTs()
		if r.Chance(40) { // close together: Sub is exact
			b = &timestamppb.Timestamp{Seconds: a.Seconds, Nanos: edgeNanos[r.Intn(3)]}
			if k := int64(r.Range(-3, 3)); (k > 0 && a.Seconds <= math.MaxInt64-k) || (k < 0 && a.Seconds >= math.MinInt64-k) {
				b.Seconds += k
			}
		}
		g.goCompare(a, b)
	}
	for _, s := range edgeSecs {
		for k := 0; k < 3; k++ {
			g.goNew(&timestamppb.Timestamp{Seconds: s, Nanos: edgeNanos[r.Intn(3)]}, time.Duration(goDurs[r.Intn(len(goDurs))]))
		}
	}
	for i := 0; i < 60*scale; i++ {
		g.goNew(anyTs(), time.Duration(r.Range(-2000000000, 2000000000)))
	}
	// the mode operations with start times anywhere in the 64-bit range
	for i := 0; i < 150*scale; i++ {
		m := g.mode(false)
		if r.Chance(90) {
			m.StartTime = anyTs()
		}
		var t int64
		switch {
		case r.Chance(40) && m.StartTime != nil && m.StartTime.Seconds > -9223372036 && m.StartTime.Seconds < 9223372036:
			t = tsNanos(m.StartTime) + int64(r.Range(-3, 14))
		default:
			t = goTimes[r.Intn(len(goTimes))]
		}
		g.goMode(m, t)
		ds := []int64{int64(r.Range(-8, 8)), goDurs[r.Intn(len(goDurs))]}
		g.goModeShift(m, time.Duration(ds[r.Intn(2)]))
	}
	for i := 0; i < 80*scale; i++ {
		n := r.Range(1, 3)
		ms := make([]*traits.ElectricMode, n)
		base := anyTs()
		for k := range ms {
			ms[k] = g.mode(false)
			switch r.Intn(4) {
			case 0:
			case 1:
				ms[k].StartTime = anyTs()
			default: // near the first one: the differences are small, the alignment is a real shift
				st := &timestamppb.Timestamp{Seconds: base.Seconds, Nanos: edgeNanos[r.Intn(3)]}
				if base.Seconds < math.MaxInt64 && r.Chance(30) {
					st.Seconds++
				}
				ms[k].StartTime = st
			}
		}
		g.goModeSum(ms)
	}
}
