package main

// Boundary bands of the 64-bit range of Timestamp.Seconds, systematically.
//
// "Random 64-bit-range timestamps" practically never land within a few units - or within 62135596800 s - of
// MaxInt64 / MinInt64, although that is where every representation change of a timestamp goes wrong: time.Time
// stores seconds + 62135596800 in an int64 (the top 6.2e10 seconds wrap negative and sort first), UnixNano() only
// holds +-9223372036 s, float64 holds integers up to 2^53, int32 2^31, a difference of seconds wraps at distance
// 2^63.  edgeSecs lists both sides of each of those limits; every pair of them is compared on every run, and the
// cut order, the period predicates, cutPeriod and the period constructors are run over the same values.

import (
	"math"

	typestime "github.com/smart-core-os/sc-api/go/types/time"
	sctime "github.com/smart-core-os/sc-golang/pkg/time"
	"google.golang.org/protobuf/types/known/timestamppb"
)

const unixToInternal = 62135596800 // seconds from 0001-01-01 to 1970-01-01: what time.Unix adds

var edgeSecs = []int64{
	math.MinInt64, math.MinInt64 + 1, math.MinInt64 + 2,
	math.MinInt64 + unixToInternal - 1, math.MinInt64 + unixToInternal, math.MinInt64 + unixToInternal + 1,
	-(1 << 62) - 1, -(1 << 62),
	-(1 << 53) - 1, -(1 << 53),
	-9223372037, -9223372036,
	-(1 << 32), -(1 << 31) - 1, -(1 << 31),
	-unixToInternal - 1, -unixToInternal, -unixToInternal + 1, // 0001-01-01T00:00:00Z, the smallest valid Timestamp
	-1, 0, 1,
	(1 << 31) - 1, 1 << 31, 1 << 32,
	253402300799, 253402300800, // 9999-12-31T23:59:59Z, the largest valid Timestamp
	9223372036, 9223372037, // UnixNano() limit
	1 << 53, (1 << 53) + 1,
	(1 << 62) - 1, 1 << 62,
	math.MaxInt64 - unixToInternal - 1, math.MaxInt64 - unixToInternal, math.MaxInt64 - unixToInternal + 1,
	math.MaxInt64 - 2, math.MaxInt64 - 1, math.MaxInt64,
}
var edgeNanos = []int32{0, 1, 999999999}

// nanos outside [0, 1e9): outside the validity guard; the model (field-wise comparison) must still agree
var badNanos = []int32{-1, 1000000000, 1000000001, -1000000000, math.MaxInt32, math.MinInt32}

func secBand(s int64) string {
	switch {
	case s < math.MinInt64+unixToInternal:
		return "bottom"
	case s < -unixToInternal:
		return "neg-far"
	case s <= 253402300799:
		return "valid"
	case s <= math.MaxInt64-unixToInternal:
		return "pos-far"
	}
	return "top"
}

var bandNames = []string{"bottom", "neg-far", "valid", "pos-far", "top"}

func tsBandTag(prefix string, a, b *timestamppb.Timestamp) string {
	return prefix + ":" + secBand(a.Seconds) + "/" + secBand(b.Seconds)
}
func tsGuardTag(ts ...*timestamppb.Timestamp) string {
	for _, t := range ts {
		if t != nil && (t.Nanos < 0 || t.Nanos > 999999999) {
			return "guard:out(invalid-nanos)"
		}
	}
	return "guard:in"
}

func (g *c18) edgeTs() *timestamppb.Timestamp {
	s := edgeSecs[g.r.Intn(len(edgeSecs))]
	if g.r.Chance(15) { // a few units inside a band, not only its rim
		k := int64(g.r.Range(0, 1000))
		if s > 0 && s <= math.MaxInt64-k {
			s += k
		} else if s < 0 && s >= math.MinInt64+k {
			s -= k
		}
		if g.r.Chance(50) && s >= math.MinInt64+2*k && s <= math.MaxInt64-2*k {
			s -= 2 * k
		}
	}
	return &timestamppb.Timestamp{Seconds: s, Nanos: edgeNanos[g.r.Intn(len(edgeNanos))]}
}

func tsLess(a, b *timestamppb.Timestamp) bool {
	return a.Seconds < b.Seconds || (a.Seconds == b.Seconds && a.Nanos < b.Nanos)
}

// a well-formed period with ends from the boundary values (an end is absent one time in five)
func (g *c18) edgePeriod() *typestime.Period {
	x, y := g.edgeTs(), g.edgeTs()
	if tsLess(y, x) {
		x, y = y, x
	}
	p := &typestime.Period{StartTime: x, EndTime: y}
	switch g.r.Intn(10) {
	case 0:
		p.StartTime = nil
	case 1:
		p.EndTime = nil
	case 2:
		p.EndTime = &timestamppb.Timestamp{Seconds: x.Seconds, Nanos: x.Nanos} // empty
	}
	return p
}

func (g *c18) edges(scale int) {
	r := g.r
	// CompareAscending: every pair of boundary seconds (nanos rotate through 0/1/999999999), and every pair of
	// nanos on equal seconds
	for i, sa := range edgeSecs {
		for j, sb := range edgeSecs {
			if scale > 1 {
				for _, na := range edgeNanos {
					for _, nb := range edgeNanos {
						g.compare(&timestamppb.Timestamp{Seconds: sa, Nanos: na}, &timestamppb.Timestamp{Seconds: sb, Nanos: nb})
					}
				}
				continue
			}
			if i == j {
				for _, na := range edgeNanos {
					for _, nb := range edgeNanos {
						g.compare(&timestamppb.Timestamp{Seconds: sa, Nanos: na}, &timestamppb.Timestamp{Seconds: sb, Nanos: nb})
					}
				}
				continue
			}
			a := &timestamppb.Timestamp{Seconds: sa, Nanos: edgeNanos[r.Intn(3)]}
			b := &timestamppb.Timestamp{Seconds: sb, Nanos: edgeNanos[r.Intn(3)]}
			g.compare(a, b)
			// the cut order over the same pair: one pair of kinds per pair of seconds (all 16 in the thorough tier below)
			g.cutCompare(cutKinds[r.Intn(4)], a, cutKinds[r.Intn(4)], b)
		}
	}
	for i := 0; i < 400*scale; i++ {
		a, b := g.edgeTs(), g.edgeTs()
		g.compare(a, b)
		k1, k2 := cutKinds[r.Intn(4)], cutKinds[r.Intn(4)]
		g.cutCompare(k1, a, k2, b)
		g.cutCompare(k2, b, k1, a)
	}
	// nanos outside [0, 1e9) (outside the guard; only agreement with the model is required)
	for i := 0; i < 60*scale; i++ {
		a, b := g.edgeTs(), g.edgeTs()
		if r.Chance(50) {
			b.Seconds = a.Seconds + int64(r.Range(-1, 1))
			if a.Seconds == math.MaxInt64 || a.Seconds == math.MinInt64 {
				b.Seconds = a.Seconds
			}
		}
		a.Nanos = badNanos[r.Intn(len(badNanos))]
		if r.Chance(50) {
			b.Nanos = badNanos[r.Intn(len(badNanos))]
		}
		if r.Chance(50) {
			a, b = b, a
		}
		g.compare(a, b)
	}
	// period predicates, cutPeriod, constructors over the boundary values
	for i := 0; i < 700*scale; i++ {
		p, q := g.edgePeriod(), g.edgePeriod()
		if r.Chance(20) { // q shares an end with p: touching / nested at a boundary value
			switch r.Intn(4) {
			case 0:
				q.StartTime = p.EndTime
				if q.EndTime != nil && q.StartTime != nil && tsLess(q.EndTime, q.StartTime) {
					q.EndTime = nil
				}
			case 1:
				q.EndTime = p.StartTime
				if q.EndTime != nil && q.StartTime != nil && tsLess(q.EndTime, q.StartTime) {
					q.StartTime = nil
				}
			case 2:
				q.StartTime = p.StartTime
				if q.EndTime != nil && q.StartTime != nil && tsLess(q.EndTime, q.StartTime) {
					q.EndTime = nil
				}
			default:
				q.EndTime = p.EndTime
				if q.EndTime != nil && q.StartTime != nil && tsLess(q.EndTime, q.StartTime) {
					q.StartTime = nil
				}
			}
		}
		g.periods(p, q)
		if i%4 == 0 {
			g.cutPeriod(p)
		}
	}
	for _, s := range edgeSecs {
		a := &timestamppb.Timestamp{Seconds: s, Nanos: edgeNanos[r.Intn(3)]}
		g.periodCtors(a, g.edgeTs())
	}
}

var _ = sctime.CompareAscending

// which bands of the seconds range the ends of the two periods lie in (one tag per band present)
func periodBands(p, q *typestime.Period) []string {
	seen := map[string]bool{}
	var out []string
	for _, x := range []*typestime.Period{p, q} {
		if x == nil {
			continue
		}
		for _, t := range []*timestamppb.Timestamp{x.StartTime, x.EndTime} {
			if t != nil && !seen[secBand(t.Seconds)] {
				seen[secBand(t.Seconds)] = true
				out = append(out, "pband:"+secBand(t.Seconds))
			}
		}
	}
	return out
}
