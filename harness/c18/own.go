package main

// Ownership observations: the arguments of the list- and mode-returning operations are built as
// sub-slices of a larger backing array (pre unused slots before, post slots of spare capacity
// after, every slot holding a sentinel segment), for every (pre, post) in {0,1,2}^2.  After the call
//   - the WHOLE backing array (pointers) and every segment object it held are compared with a
//     snapshot: a write into spare capacity or into a neighbour is a mutation just like a write
//     inside the argument's own window;
//   - for every element of the result the harness records whether it IS (pointer identity) one of
//     the argument's segment objects, and whether the result slice shares the backing array.
// The Coq side (Timeline/Own.v) runs the heap model on the same layout and must predict the same
// values and the same provenance; that the heap model never writes an old location is proved for
// all heaps (Props/C18.v C18_*_never_writes_args).

import (
	"time"

	"github.com/smart-core-os/sc-api/go/traits"
	"github.com/smart-core-os/sc-golang/pkg/trait/electricpb/modepb"
	"github.com/smart-core-os/sc-golang/pkg/trait/electricpb/segmentpb"
	"github.com/smart-core-os/sc-golang/verifharness/vcoq"
	"google.golang.org/protobuf/proto"
	"google.golang.org/protobuf/types/known/durationpb"
	"google.golang.org/protobuf/types/known/timestamppb"
)

type arena struct {
	base      int // global index of backing[0] among all segment objects of the case
	pre, post int
	backing   []*traits.ElectricMode_Segment
	arg       []*traits.ElectricMode_Segment
	ptrs      []*traits.ElectricMode_Segment // snapshot of backing (pointers)
	vals      []*traits.ElectricMode_Segment // snapshot of the objects (deep copies)
}

func sentinelSeg() *traits.ElectricMode_Segment {
	return &traits.ElectricMode_Segment{Magnitude: 77, Length: durationpb.New(77)}
}

func newArena(base, pre, post int, l []*traits.ElectricMode_Segment) *arena {
	a := &arena{base: base, pre: pre, post: post}
	for i := 0; i < pre; i++ {
		a.backing = append(a.backing, sentinelSeg())
	}
	for _, s := range l {
		a.backing = append(a.backing, proto.Clone(s).(*traits.ElectricMode_Segment))
	}
	for i := 0; i < post; i++ {
		a.backing = append(a.backing, sentinelSeg())
	}
	a.backing = a.backing[:len(a.backing):len(a.backing)]
	a.arg = a.backing[pre : pre+len(l) : pre+len(l)+post]
	a.ptrs = append([]*traits.ElectricMode_Segment(nil), a.backing...)
	a.vals = cloneSegs(a.backing)
	return a
}

func (a *arena) mutated() bool {
	for i := range a.backing {
		if a.backing[i] != a.ptrs[i] || !proto.Equal(a.ptrs[i], a.vals[i]) {
			return true
		}
	}
	return false
}

type arenas []*arena

func (as arenas) mutated() bool {
	for _, a := range as {
		if a.mutated() {
			return true
		}
	}
	return false
}
func (as arenas) prov(p *traits.ElectricMode_Segment) string {
	for _, a := range as {
		for i, q := range a.ptrs {
			if p == q {
				return vcoq.App("PArg", vcoq.Nat(a.base+i))
			}
		}
	}
	return "PFresh"
}
func (as arenas) sprov(out []*traits.ElectricMode_Segment) string {
	if len(out) == 0 {
		return "SEmpty"
	}
	for _, a := range as {
		for i := range a.backing {
			if &out[0] == &a.backing[i] {
				return vcoq.App("SArg", vcoq.Nat(i))
			}
		}
	}
	return "SFresh"
}
func (as arenas) view(out []*traits.ElectricMode_Segment) string {
	it := make([]string, len(out))
	for i, s := range out {
		it[i] = vcoq.Pair(as.prov(s), coqSeg(s))
	}
	return vcoq.Pair(as.sprov(out), vcoq.List(it))
}
func (a *arena) coqArg() string { // (pre, post, list)
	return "(" + vcoq.Nat(a.pre) + ", " + vcoq.Nat(a.post) + ", " + coqSegs(a.arg) + ")"
}
func (a *arena) js() map[string]any {
	return map[string]any{"pre": a.pre, "post": a.post, "segs": jsSegs(a.arg)}
}

var capGrid = [][2]int{{0, 0}, {0, 1}, {0, 2}, {1, 0}, {1, 1}, {1, 2}, {2, 0}, {2, 1}, {2, 2}}

func (g *c18) ownTag(kind string, a *arena) []string {
	t := []string{kind}
	if a != nil {
		t = append(t, "own:cap-"+[]string{"exact", "spare1", "spare2"}[a.post]+"/off-"+[]string{"0", "1", "2"}[a.pre])
	}
	return t
}

func (g *c18) addOwn(kind, coq string, js map[string]any, a *arena) {
	js["op"] = kind
	g.o.Add(vcoq.Case{Coq: coq, JSON: js, Key: coq, NonTrivial: true, Tags: g.ownTag(kind, a)})
}

// segmentpb.Shift / segmentpb.Cut on an argument with the given layout
func (g *c18) ownShift(l []*traits.ElectricMode_Segment, d time.Duration, pre, post int) {
	a := newArena(0, pre, post, l)
	as := arenas{a}
	js := map[string]any{"pre": pre, "post": post, "segs": jsSegs(a.arg), "d": int64(d)}
	defer g.recoverPanic("segmentpb.Shift", js)
	argc := coqSegs(a.arg)
	out := segmentpb.Shift(d, a.arg...)
	mut := as.mutated()
	js["obs"] = jsSegs(out)
	js["mutated"] = mut
	if mut {
		g.mutated("segmentpb.Shift", js)
	}
	g.addOwn("own.seg.Shift", vcoq.App("KOwnShift", vcoq.Nat(pre), vcoq.Nat(post), vcoq.Z(int64(d)), argc, vcoq.Bool(mut), as.view(out)), js, a)
}

func (g *c18) ownSum(ls [][]*traits.ElectricMode_Segment, shared bool) {
	var as arenas
	base := 0
	args := make([][]*traits.ElectricMode_Segment, len(ls))
	var items []string
	var jl []any
	for i, l := range ls {
		c := capGrid[g.r.Intn(len(capGrid))]
		a := newArena(base, c[0], c[1], l)
		base += len(a.backing)
		as = append(as, a)
		args[i] = a.arg
		items = append(items, a.coqArg())
		jl = append(jl, a.js())
	}
	js := map[string]any{"lists": jl}
	defer g.recoverPanic("segmentpb.Sum", js)
	out := segmentpb.Sum(args...)
	mut := as.mutated()
	js["obs"] = jsSegs(out)
	js["mutated"] = mut
	if mut {
		g.mutated("segmentpb.Sum", js)
	}
	var a0 *arena
	if len(as) > 0 {
		a0 = as[0]
	}
	g.addOwn("own.seg.Sum", vcoq.App("KOwnSum", vcoq.List(items), vcoq.Bool(mut), as.view(out)), js, a0)
}

// a mode whose Segments is the arena's argument window
func ownMode(a *arena, st *timestamppb.Timestamp) *traits.ElectricMode {
	return &traits.ElectricMode{Id: "m", Title: "T", Voltage: 240, StartTime: st, Segments: a.arg}
}

type modeSnap struct {
	m    *traits.ElectricMode
	copy *traits.ElectricMode
	seg0 []*traits.ElectricMode_Segment
}

func snapMode(m *traits.ElectricMode) modeSnap {
	return modeSnap{m: m, copy: proto.Clone(m).(*traits.ElectricMode), seg0: m.Segments}
}
func (s modeSnap) mutated() bool {
	if !proto.Equal(s.m, s.copy) || len(s.m.Segments) != len(s.seg0) || cap(s.m.Segments) != cap(s.seg0) {
		return true
	}
	return len(s.seg0) > 0 && &s.m.Segments[0] != &s.seg0[0]
}

// (is the argument itself, start, slice provenance, elements)
func (g *c18) mres(as arenas, args []*traits.ElectricMode, r *traits.ElectricMode) string {
	if r == nil {
		return "None"
	}
	which := "None"
	for i, m := range args {
		if m == r {
			which = vcoq.Some(vcoq.Nat(i))
		}
	}
	return vcoq.Some("(" + which + ", " + coqOptTs(r.StartTime) + ", " + as.view(r.Segments) + ")")
}

func coqOwnModeArg(a *arena, st *timestamppb.Timestamp) string {
	return "(" + vcoq.Nat(a.pre) + ", " + vcoq.Nat(a.post) + ", " + coqOptTs(st) + ", " + coqSegs(a.arg) + ")"
}

func (g *c18) ownModeOps(l []*traits.ElectricMode_Segment, st *timestamppb.Timestamp, t int64, d time.Duration, pre, post int) {
	func() {
		a := newArena(0, pre, post, l)
		as := arenas{a}
		m := ownMode(a, st)
		sn := snapMode(m)
		js := map[string]any{"pre": pre, "post": post, "mode": jsMode(m), "t": t}
		defer g.recoverPanic("modepb.Cut", js)
		argc := coqOwnModeArg(a, st)
		b, af, outside := modepb.Cut(timeOf(t), m)
		mut := as.mutated() || sn.mutated()
		js["before"], js["after"], js["outside"] = jsMode(b), jsMode(af), outside
		js["mutated"] = mut
		if mut {
			g.mutated("modepb.Cut", js)
		}
		ms := []*traits.ElectricMode{m}
		g.addOwn("own.mode.Cut", vcoq.App("KOwnModeCut", argc, vcoq.Z(t), vcoq.Bool(mut),
			"("+g.mres(as, ms, b)+", "+g.mres(as, ms, af)+", "+vcoq.Bool(outside)+")"), js, a)
	}()
	func() {
		a := newArena(0, pre, post, l)
		as := arenas{a}
		m := ownMode(a, st)
		sn := snapMode(m)
		js := map[string]any{"pre": pre, "post": post, "mode": jsMode(m), "d": int64(d)}
		defer g.recoverPanic("modepb.Shift", js)
		argc := coqOwnModeArg(a, st)
		out := modepb.Shift(d, m)
		mut := as.mutated() || sn.mutated()
		js["obs"] = jsMode(out)
		js["mutated"] = mut
		if mut {
			g.mutated("modepb.Shift", js)
		}
		g.addOwn("own.mode.Shift", vcoq.App("KOwnModeShift", argc, vcoq.Z(int64(d)), vcoq.Bool(mut),
			g.mres(as, []*traits.ElectricMode{m}, out)), js, a)
	}()
}

func (g *c18) ownModeSum(ms []*traits.ElectricMode) {
	var as arenas
	base := 0
	args := make([]*traits.ElectricMode, len(ms))
	snaps := make([]modeSnap, len(ms))
	var items []string
	var jl []any
	for i, m := range ms {
		c := capGrid[g.r.Intn(len(capGrid))]
		a := newArena(base, c[0], c[1], m.Segments)
		base += len(a.backing)
		as = append(as, a)
		args[i] = ownMode(a, m.StartTime)
		snaps[i] = snapMode(args[i])
		items = append(items, coqOwnModeArg(a, m.StartTime))
		jl = append(jl, map[string]any{"pre": c[0], "post": c[1], "mode": jsMode(args[i])})
	}
	js := map[string]any{"modes": jl}
	defer g.recoverPanic("modepb.Sum", js)
	out := modepb.Sum(args...)
	mut := as.mutated()
	for _, s := range snaps {
		mut = mut || s.mutated()
	}
	js["obs"] = jsMode(out)
	js["mutated"] = mut
	if mut {
		g.mutated("modepb.Sum", js)
	}
	var a0 *arena
	if len(as) > 0 {
		a0 = as[0]
	}
	g.addOwn("own.mode.Sum", vcoq.App("KOwnModeSum", vcoq.List(items), vcoq.Bool(mut), g.mres(as, args, out)), js, a0)
}
