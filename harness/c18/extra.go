package main

// Cases for the parts of the three packages that the first version of the check did not reach:
// the cut order and cutPeriod (through the verif hook of pkg/time), the period constructors,
// MaxMagnitude, SumMagnitude, modepb.MaxSegmentAfter, modepb.MinAt; plus outcome-class tags
// (which branch of the model an input takes) for the evidence histogram.

import (
	"fmt"
	"math"
	"time"

	"github.com/smart-core-os/sc-api/go/traits"
	typestime "github.com/smart-core-os/sc-api/go/types/time"
	sctime "github.com/smart-core-os/sc-golang/pkg/time"
	"github.com/smart-core-os/sc-golang/pkg/trait/electricpb/modepb"
	"github.com/smart-core-os/sc-golang/pkg/trait/electricpb/segmentpb"
	"github.com/smart-core-os/sc-golang/verifharness/vcoq"
	"google.golang.org/protobuf/proto"
	"google.golang.org/protobuf/types/known/durationpb"
	"google.golang.org/protobuf/types/known/timestamppb"
)

func (g *c18) addT(kind, coq string, js map[string]any, nontrivial bool, tags ...string) {
	js["op"] = kind
	g.o.Add(vcoq.Case{Coq: coq, JSON: js, Key: coq, NonTrivial: nontrivial, Tags: append([]string{kind}, tags...)})
}

func (g *c18) cutCompare(k1 sctime.VerifCutKind, a *timestamppb.Timestamp, k2 sctime.VerifCutKind, b *timestamppb.Timestamp) {
	js := map[string]any{"this": []any{int(k1), jsTs(a)}, "that": []any{int(k2), jsTs(b)}}
	defer g.recoverPanic("cut.CompareTo", js)
	obs := sctime.VerifCutCompare(k1, a, k2, b)
	js["obs"] = obs
	g.addT("cut.CompareTo", vcoq.App("KCutCompare", coqCut(k1, a), coqCut(k2, b), vcoq.Int(obs)), js, true,
		fmt.Sprintf("cut:%d-vs-%d", int(k1), int(k2)))
}

func (g *c18) cutPeriod(p *typestime.Period) {
	js := map[string]any{"p": jsPeriod(p)}
	defer g.recoverPanic("cutPeriod", js)
	lk, lt, uk, ut := sctime.VerifCutPeriod(p)
	g.addT("cutPeriod", vcoq.App("KCutPeriod", vcoq.App("mkPeriod", coqOptTs(p.StartTime), coqOptTs(p.EndTime)),
		vcoq.Pair(coqCut(lk, lt), coqCut(uk, ut))), js, true)
}

func (g *c18) periodCtors(a, b *timestamppb.Timestamp) {
	ac, bc := proto.Clone(a), proto.Clone(b)
	emit := func(k int, p *typestime.Period, x, y *timestamppb.Timestamp) {
		js := map[string]any{"ctor": k, "a": jsTs(x), "b": jsTs(y), "obs": jsPeriod(p)}
		// the constructors must keep the caller's timestamps (no copy is documented or needed), and not write them
		g.addT("period.ctor", vcoq.App("KPeriodCtor", vcoq.Int(k), coqOptTs(x), coqOptTs(y), coqPeriod(p)), js, k != 0)
	}
	emit(0, sctime.AllTime(), nil, nil)
	emit(1, sctime.PeriodBetween(a, b), a, b)
	emit(2, sctime.PeriodBefore(a), a, nil)
	emit(3, sctime.PeriodOnOrAfter(a), a, nil)
	if !proto.Equal(a, ac) || !proto.Equal(b, bc) {
		g.mutated("Period constructors", map[string]any{"a": jsTs(a), "b": jsTs(b)})
	}
}

func (g *c18) magOps(l []*traits.ElectricMode_Segment) {
	orig := cloneSegs(l)
	js := func() map[string]any { return map[string]any{"segs": jsSegs(orig)} }
	func() {
		defer g.recoverPanic("segmentpb.MaxMagnitude", js())
		m := segmentpb.MaxMagnitude(l...)
		g.addT("seg.MaxMagnitude", vcoq.App("KMaxMagnitude", coqSegs(orig), vcoq.Z(int64(m))), js(), len(l) > 0)
	}()
	func() {
		defer g.recoverPanic("segmentpb.SumMagnitude", js())
		m := segmentpb.SumMagnitude(l...)
		g.addT("seg.SumMagnitude", vcoq.App("KSumMagnitude", coqSegs(orig), vcoq.Z(int64(m))), js(), len(l) > 0)
	}()
	if !segsEqual(l, orig) {
		g.mutated("segmentpb.MaxMagnitude/SumMagnitude", js())
	}
}

func (g *c18) modeMaxAfter(m *traits.ElectricMode, t int64) {
	orig := proto.Clone(m).(*traits.ElectricMode)
	js := map[string]any{"mode": jsMode(orig), "t": t}
	defer g.recoverPanic("modepb.MaxSegmentAfter", js)
	i := modepb.MaxSegmentAfter(timeOf(t), m)
	if !proto.Equal(m, orig) {
		g.mutated("modepb.MaxSegmentAfter", js)
	}
	g.addT("mode.MaxSegmentAfter", vcoq.App("KModeMaxAfter", vcoq.Z(t), coqMode(orig), vcoq.Int(i)), js, len(m.Segments) > 1)
}

func (g *c18) minAt(ms []*traits.ElectricMode, t int64) {
	mp := map[string]*traits.ElectricMode{}
	items := make([]string, len(ms))
	jl := make([]any, len(ms))
	orig := make([]*traits.ElectricMode, len(ms))
	for i, m := range ms {
		mp[fmt.Sprintf("m%d", i)] = m
		items[i] = coqMode(m)
		jl[i] = jsMode(m)
		orig[i] = proto.Clone(m).(*traits.ElectricMode)
	}
	js := map[string]any{"modes": jl, "t": t}
	defer g.recoverPanic("modepb.MinAt", js)
	// the map iteration order is random: call several times, every answer must be admissible
	for rep := 0; rep < 3; rep++ {
		r, mag := modepb.MinAt(timeOf(t), mp)
		which := "None"
		for i, m := range ms {
			if m == r {
				which = vcoq.Some(vcoq.Int(i))
			}
		}
		if r != nil && which == "None" {
			g.o.Directs = append(g.o.Directs, vcoq.Direct{What: "modepb.MinAt returned a mode that is not one of its arguments", Class: "minat-foreign-mode", Replay: js})
		}
		g.addT("mode.MinAt", vcoq.App("KMinAt", vcoq.Z(t), vcoq.List(items), vcoq.Pair(which, vcoq.Z(int64(mag)))), js, len(ms) > 1)
	}
	for i := range ms {
		if !proto.Equal(ms[i], orig[i]) {
			g.mutated("modepb.MinAt", js)
		}
	}
}

// ---- outcome classes (branch of the model taken), from input and observation ----

func segTotal(l []*traits.ElectricMode_Segment) (tot int64, inf bool) {
	for _, s := range l {
		if s.Length == nil {
			return tot, true
		}
		tot += int64(s.Length.AsDuration())
	}
	return tot, false
}

func classActive(d int64, l []*traits.ElectricMode_Segment, idx int) string {
	switch {
	case d < 0:
		return "active:before-start"
	case len(l) == 0:
		return "active:no-segments"
	case idx == len(l):
		return "active:past-end"
	case l[idx].Length == nil:
		return "active:in-infinite-tail"
	case idx > 0 && l[idx-1].Length != nil && l[idx-1].Length.AsDuration() == 0:
		return "active:after-zero-length"
	default:
		return "active:in-finite"
	}
}

func classShift(d int64, l []*traits.ElectricMode_Segment, out []*traits.ElectricMode_Segment) string {
	switch {
	case d == 0:
		return "shift:zero"
	case len(l) == 0:
		return "shift:empty"
	case d > 0 && l[0].Magnitude == 0 && l[0].Length == nil:
		return "shift:first-zero-infinite"
	case d > 0 && l[0].Magnitude == 0:
		return "shift:extend-first"
	case d > 0:
		return "shift:prepend"
	}
	tot, inf := segTotal(l)
	switch {
	case !inf && -d >= tot:
		return "shift:neg-removes-all"
	case inf && -d >= tot:
		return "shift:neg-into-infinite"
	}
	var cur int64
	for _, s := range l {
		n := int64(s.Length.AsDuration())
		if cur+n > -d {
			if cur == -d {
				return "shift:neg-at-boundary"
			}
			return "shift:neg-cuts-segment"
		}
		cur += n
	}
	return "shift:neg-other"
}

func classCut(d int64, s *traits.ElectricMode_Segment) string {
	switch {
	case d < 0:
		return "cut:negative"
	case d == 0:
		return "cut:zero"
	case s.Length == nil:
		return "cut:infinite"
	case int64(s.Length.AsDuration()) <= d:
		return "cut:whole-before"
	}
	return "cut:proper"
}

func classSum(ls [][]*traits.ElectricMode_Segment, out []*traits.ElectricMode_Segment) []string {
	var tags []string
	at := map[int64]int{}
	anyInf := false
	for _, l := range ls {
		var cur int64
		for _, s := range l {
			if s.Magnitude != 0 {
				at[cur]++
			}
			if s.Length == nil {
				anyInf = anyInf || s.Magnitude != 0
				break
			}
			cur += int64(s.Length.AsDuration())
			if s.Magnitude != 0 {
				at[cur]++
			}
		}
	}
	ties := false
	for _, n := range at {
		if n > 1 {
			ties = true
		}
	}
	switch {
	case len(at) == 0:
		tags = append(tags, "sum:no-edges")
	case ties:
		tags = append(tags, "sum:coinciding-edges")
	default:
		tags = append(tags, "sum:distinct-edges")
	}
	if len(out) > 0 && out[len(out)-1].Length == nil {
		tags = append(tags, "sum:infinite-tail-kept")
	} else if len(at) > 0 {
		tags = append(tags, "sum:open-tail-dropped")
	}
	_ = anyInf
	return tags
}

func classModeCut(m *traits.ElectricMode, t int64, before, after *traits.ElectricMode, outside bool) string {
	switch {
	case len(m.Segments) == 0:
		return "mcut:no-segments"
	case m.StartTime == nil:
		return "mcut:no-start-time"
	case before == nil && outside:
		return "mcut:before-start"
	case before == nil:
		return "mcut:at-start"
	case after == nil:
		return "mcut:after-end"
	case len(before.Segments)+len(after.Segments) == len(m.Segments):
		return "mcut:at-boundary"
	}
	return "mcut:splits-segment"
}

// ---- boundary values ----

var bigLens = []int64{math.MaxInt64, math.MaxInt64 - 1, 1 << 62, 1<<62 - 1, 1 << 61, 1, 0, 2}
var bigDs = []int64{math.MaxInt64, math.MaxInt64 - 1, 1 << 62, 1<<62 + 1, math.MinInt64, math.MinInt64 + 1, -(1 << 62), -(1<<62 + 1), 0, 1, -1}

// lists whose total length is at, just under, or over the int64 limit
func (g *c18) bigSegs() []*traits.ElectricMode_Segment {
	n := g.r.Range(1, 3)
	var l []*traits.ElectricMode_Segment
	for i := 0; i < n; i++ {
		s := &traits.ElectricMode_Segment{Magnitude: float32(g.r.Range(0, 9))}
		if i == n-1 && g.r.Chance(25) {
			l = append(l, s)
			break
		}
		s.Length = durationpb.New(time.Duration(bigLens[g.r.Intn(len(bigLens))]))
		l = append(l, s)
	}
	return l
}
