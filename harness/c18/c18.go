package main

import (
	"fmt"
	"math"
	"math/big"
	"strings"
	"time"

	"github.com/smart-core-os/sc-api/go/traits"
	typestime "github.com/smart-core-os/sc-api/go/types/time"
	sctime "github.com/smart-core-os/sc-golang/pkg/time"
	"github.com/smart-core-os/sc-golang/pkg/trait/electricpb/modepb"
	"github.com/smart-core-os/sc-golang/pkg/trait/electricpb/segmentpb"
	"github.com/smart-core-os/sc-golang/verifharness/vcoq"
	"github.com/smart-core-os/sc-golang/verifharness/vh"
	"google.golang.org/protobuf/proto"
	"google.golang.org/protobuf/types/known/durationpb"
	"google.golang.org/protobuf/types/known/timestamppb"
)

func init() { vh.Register("C18", genC18) }

func main() { vh.Main() }

type c18 struct {
	o *vcoq.Out
	r *vcoq.Rand
}

func coqTs(t *timestamppb.Timestamp) string {
	return vcoq.App("mkTs", vcoq.Z(t.Seconds), vcoq.Z(int64(t.Nanos)))
}
func coqOptTs(t *timestamppb.Timestamp) string {
	if t == nil {
		return "None"
	}
	return vcoq.Some(coqTs(t))
}
func coqPeriod(p *typestime.Period) string {
	if p == nil {
		return "None"
	}
	return vcoq.Some(vcoq.App("mkPeriod", coqOptTs(p.StartTime), coqOptTs(p.EndTime)))
}
func coqSeg(s *traits.ElectricMode_Segment) string {
	l := "None"
	if s.Length != nil {
		l = vcoq.Some(vcoq.Z(int64(s.Length.AsDuration())))
	}
	return vcoq.App("mkSeg", vcoq.Z(int64(s.Magnitude)), l)
}
func coqOptSeg(s *traits.ElectricMode_Segment) string {
	if s == nil {
		return "None"
	}
	return vcoq.Some(coqSeg(s))
}
func coqSegs(l []*traits.ElectricMode_Segment) string {
	it := make([]string, len(l))
	for i, s := range l {
		it[i] = coqSeg(s)
	}
	return vcoq.List(it)
}
func coqMode(m *traits.ElectricMode) string {
	return vcoq.App("mkMode", coqOptTs(m.StartTime), coqSegs(m.Segments))
}
func coqOptMode(m *traits.ElectricMode) string {
	if m == nil {
		return "None"
	}
	return vcoq.Some(coqMode(m))
}

func jsSegs(l []*traits.ElectricMode_Segment) []any {
	out := make([]any, len(l))
	for i, s := range l {
		if s.Length == nil {
			out[i] = []any{s.Magnitude, nil}
		} else {
			out[i] = []any{s.Magnitude, int64(s.Length.AsDuration())}
		}
	}
	return out
}
func jsTs(t *timestamppb.Timestamp) any {
	if t == nil {
		return nil
	}
	return []int64{t.Seconds, int64(t.Nanos)}
}
func jsPeriod(p *typestime.Period) any {
	if p == nil {
		return nil
	}
	return map[string]any{"start": jsTs(p.StartTime), "end": jsTs(p.EndTime)}
}
func jsMode(m *traits.ElectricMode) any {
	if m == nil {
		return nil
	}
	return map[string]any{"start": jsTs(m.StartTime), "segs": jsSegs(m.Segments)}
}

// integer-valued magnitudes, integer nanosecond lengths (small so that breakpoints collide often)
func (g *c18) seg(allowInf bool) *traits.ElectricMode_Segment {
	s := &traits.ElectricMode_Segment{}
	switch g.r.Intn(6) {
	case 0:
		s.Magnitude = 0
	default:
		s.Magnitude = float32(g.r.Range(0, 9))
	}
	if allowInf && g.r.Chance(50) {
		return s // infinite
	}
	switch g.r.Intn(5) {
	case 0:
		s.Length = durationpb.New(0)
	default:
		s.Length = durationpb.New(time.Duration(g.r.Range(1, 6)))
	}
	return s
}
func (g *c18) segs() []*traits.ElectricMode_Segment {
	n := g.r.Range(0, 6)
	var l []*traits.ElectricMode_Segment
	for i := 0; i < n; i++ {
		l = append(l, g.seg(i == n-1))
	}
	return l
}

// like segs, magnitudes in -9..9 (Sum's law needs only the open tails to add up to >= 0)
func (g *c18) signedSegs() []*traits.ElectricMode_Segment {
	l := g.segs()
	for _, s := range l {
		if s.Magnitude != 0 && g.r.Chance(50) { // never -0: proto.Clone does not preserve it
			s.Magnitude = -s.Magnitude
		}
	}
	return l
}
func cloneSegs(l []*traits.ElectricMode_Segment) []*traits.ElectricMode_Segment {
	out := make([]*traits.ElectricMode_Segment, len(l))
	for i, s := range l {
		out[i] = proto.Clone(s).(*traits.ElectricMode_Segment)
	}
	return out
}
func segsEqual(a, b []*traits.ElectricMode_Segment) bool {
	if len(a) != len(b) {
		return false
	}
	for i := range a {
		if !proto.Equal(a[i], b[i]) {
			return false
		}
	}
	return true
}

func (g *c18) add(kind, coq string, js map[string]any, nontrivial bool) {
	js["op"] = kind
	g.o.Add(vcoq.Case{Coq: coq, JSON: js, Key: coq, NonTrivial: nontrivial, Tags: []string{kind}})
}
func (g *c18) mutated(kind string, js map[string]any) {
	g.o.Directs = append(g.o.Directs, vcoq.Direct{What: kind + " modified its argument", Class: "argument-mutated:" + kind, Replay: js})
}
func (g *c18) recoverPanic(kind string, js map[string]any) {
	if p := recover(); p != nil {
		g.o.Directs = append(g.o.Directs, vcoq.Direct{What: fmt.Sprintf("%s panicked: %v", kind, p), Class: "panic:" + kind, Replay: js})
	}
}

func (g *c18) compare(a, b *timestamppb.Timestamp) {
	obs := sctime.CompareAscending(a, b)
	g.addT("CompareAscending", vcoq.App("KCompare", coqTs(a), coqTs(b), vcoq.Int(obs)),
		map[string]any{"a": jsTs(a), "b": jsTs(b), "obs": obs}, true, tsBandTag("cmp", a, b), tsGuardTag(a, b))
}
func (g *c18) periods(p, q *typestime.Period) {
	pc, qc := proto.Clone(p), proto.Clone(q)
	oi := sctime.PeriodsIntersect(p, q)
	oc := sctime.PeriodsConnected(p, q)
	js := map[string]any{"p": jsPeriod(p), "q": jsPeriod(q), "intersect": oi, "connected": oc}
	if (p != nil && !proto.Equal(p, pc)) || (q != nil && !proto.Equal(q, qc)) {
		g.mutated("Periods", js)
	}
	nt := p != nil && q != nil
	gt := "guard:in"
	if inverted(p) || inverted(q) {
		gt = "guard:out(inverted-period)"
	}
	g.addT("PeriodsIntersect", vcoq.App("KIntersect", coqPeriod(p), coqPeriod(q), vcoq.Bool(oi)), js, nt, append(periodBands(p, q), gt, periodClass(p, q))...)
	js2 := map[string]any{"p": jsPeriod(p), "q": jsPeriod(q), "connected": oc}
	g.add("PeriodsConnected", vcoq.App("KConnected", coqPeriod(p), coqPeriod(q), vcoq.Bool(oc)), js2, nt)
}

func (g *c18) segOps(l []*traits.ElectricMode_Segment, d time.Duration) {
	orig := cloneSegs(l)
	base := func() map[string]any { return map[string]any{"segs": jsSegs(orig), "d": int64(d)} }
	check := func(kind string) {
		if !segsEqual(l, orig) {
			g.mutated(kind, base())
			l = cloneSegs(orig)
		}
	}
	func() {
		defer g.recoverPanic("segmentpb.ActiveAt", base())
		el, idx := segmentpb.ActiveAt(d, l...)
		check("segmentpb.ActiveAt")
		g.addT("seg.ActiveAt", vcoq.App("KActiveAt", vcoq.Z(int64(d)), coqSegs(orig), vcoq.Pair(vcoq.Z(int64(el)), vcoq.Int(idx))), base(), len(l) > 0, classActive(int64(d), orig, idx), guardTag(int64(d), orig))
	}()
	func() {
		defer g.recoverPanic("segmentpb.MagnitudeAt", base())
		lv, ok := segmentpb.MagnitudeAt(d, l...)
		check("segmentpb.MagnitudeAt")
		g.add("seg.MagnitudeAt", vcoq.App("KMagAt", vcoq.Z(int64(d)), coqSegs(orig), vcoq.Pair(vcoq.Z(int64(lv)), vcoq.Bool(ok))), base(), len(l) > 0)
	}()
	func() {
		defer g.recoverPanic("segmentpb.Duration", base())
		tot, inf := segmentpb.Duration(l...)
		check("segmentpb.Duration")
		g.add("seg.Duration", vcoq.App("KDuration", coqSegs(orig), vcoq.Pair(vcoq.Z(int64(tot)), vcoq.Bool(inf))), base(), len(l) > 0)
	}()
	func() {
		defer g.recoverPanic("segmentpb.Max", base())
		i := segmentpb.Max(l...)
		check("segmentpb.Max")
		g.add("seg.Max", vcoq.App("KMax", coqSegs(orig), vcoq.Int(i)), base(), len(l) > 1)
	}()
	func() {
		defer g.recoverPanic("segmentpb.MaxAfter", base())
		i := segmentpb.MaxAfter(d, l...)
		check("segmentpb.MaxAfter")
		g.add("seg.MaxAfter", vcoq.App("KMaxAfter", vcoq.Z(int64(d)), coqSegs(orig), vcoq.Int(i)), base(), len(l) > 1)
	}()
	func() {
		defer g.recoverPanic("segmentpb.Shift", base())
		out := segmentpb.Shift(d, l...)
		outc := coqSegs(out)
		outj := jsSegs(out)
		check("segmentpb.Shift")
		js := base()
		js["obs"] = outj
		g.addT("seg.Shift", vcoq.App("KShift", vcoq.Z(int64(d)), coqSegs(orig), outc), js, len(l) > 0 && d != 0, classShift(int64(d), orig, out), guardTag(int64(d), orig))
	}()
	if len(l) > 0 {
		func() {
			defer g.recoverPanic("segmentpb.Cut", base())
			i := g.r.Intn(len(l))
			s := l[i]
			sc := proto.Clone(s).(*traits.ElectricMode_Segment)
			b, a, outside := segmentpb.Cut(d, s)
			cb, ca := coqOptSeg(b), coqOptSeg(a)
			js := map[string]any{"seg": jsSegs([]*traits.ElectricMode_Segment{sc})[0], "d": int64(d), "outside": outside}
			if !proto.Equal(s, sc) {
				g.mutated("segmentpb.Cut", js)
			}
			g.addT("seg.Cut", vcoq.App("KCutSeg", vcoq.Z(int64(d)), coqSeg(sc), "("+cb+", "+ca+", "+vcoq.Bool(outside)+")"), js, d > 0, classCut(int64(d), sc))
		}()
	}
}

func (g *c18) sumOp(ls [][]*traits.ElectricMode_Segment) {
	orig := make([][]*traits.ElectricMode_Segment, len(ls))
	items := make([]string, len(ls))
	jl := make([]any, len(ls))
	for i, l := range ls {
		orig[i] = cloneSegs(l)
		items[i] = coqSegs(l)
		jl[i] = jsSegs(l)
	}
	js := map[string]any{"lists": jl}
	defer g.recoverPanic("segmentpb.Sum", js)
	out := segmentpb.Sum(ls...)
	js["obs"] = jsSegs(out)
	for i := range ls {
		if !segsEqual(ls[i], orig[i]) {
			g.mutated("segmentpb.Sum", js)
		}
	}
	g.addT("seg.Sum", vcoq.App("KSum", vcoq.List(items), coqSegs(out)), js, len(ls) > 1, append(classSum(orig, out), sumGuardTag(orig))...)
}

func (g *c18) mode(withStart bool) *traits.ElectricMode {
	m := &traits.ElectricMode{Segments: g.segs()}
	if withStart {
		m.StartTime = &timestamppb.Timestamp{Seconds: int64(g.r.Range(-1, 2)), Nanos: int32([]int{0, 1, 5, 999999995, 999999999}[g.r.Intn(5)])}
	}
	return m
}

func tsNanos(t *timestamppb.Timestamp) int64 { return t.Seconds*1000000000 + int64(t.Nanos) }
func timeOf(n int64) time.Time               { return time.Unix(0, n).UTC() }

func (g *c18) modeOps(m *traits.ElectricMode, t int64, d time.Duration) {
	orig := proto.Clone(m).(*traits.ElectricMode)
	tt := timeOf(t)
	base := func() map[string]any { return map[string]any{"mode": jsMode(orig), "t": t, "d": int64(d)} }
	check := func(kind string) {
		if !proto.Equal(m, orig) {
			g.mutated(kind, base())
			m = proto.Clone(orig).(*traits.ElectricMode)
		}
	}
	func() {
		defer g.recoverPanic("modepb.MagnitudeAt", base())
		lv, ok := modepb.MagnitudeAt(tt, m)
		check("modepb.MagnitudeAt")
		g.add("mode.MagnitudeAt", vcoq.App("KModeMagAt", vcoq.Z(t), coqMode(orig), vcoq.Pair(vcoq.Z(int64(lv)), vcoq.Bool(ok))), base(), len(m.Segments) > 0)
	}()
	func() {
		defer g.recoverPanic("modepb.ActiveAt", base())
		el, idx := modepb.ActiveAt(tt, m)
		check("modepb.ActiveAt")
		g.add("mode.ActiveAt", vcoq.App("KModeActiveAt", vcoq.Z(t), coqMode(orig), vcoq.Pair(vcoq.Z(int64(el)), vcoq.Int(idx))), base(), len(m.Segments) > 0)
	}()
	g.modeMaxAfter(m, t)
	func() {
		defer g.recoverPanic("modepb.Cut", base())
		b, a, outside := modepb.Cut(tt, m)
		cb, ca := coqOptMode(b), coqOptMode(a)
		js := base()
		js["before"], js["after"], js["outside"] = jsMode(b), jsMode(a), outside
		check("modepb.Cut")
		g.addT("mode.Cut", vcoq.App("KModeCut", vcoq.Z(t), coqMode(orig), "("+cb+", "+ca+", "+vcoq.Bool(outside)+")"), js, !outside, classModeCut(orig, t, b, a, outside))
	}()
	func() {
		defer g.recoverPanic("modepb.Shift", base())
		out := modepb.Shift(d, m)
		co := coqMode(out)
		js := base()
		js["obs"] = jsMode(out)
		check("modepb.Shift")
		g.add("mode.Shift", vcoq.App("KModeShift", vcoq.Z(int64(d)), coqMode(orig), co), js, d != 0)
	}()
}

func (g *c18) modeSum(ms []*traits.ElectricMode) {
	items := make([]string, len(ms))
	jl := make([]any, len(ms))
	orig := make([]*traits.ElectricMode, len(ms))
	for i, m := range ms {
		items[i] = coqMode(m)
		jl[i] = jsMode(m)
		orig[i] = proto.Clone(m).(*traits.ElectricMode)
	}
	js := map[string]any{"modes": jl}
	defer g.recoverPanic("modepb.Sum", js)
	out := modepb.Sum(ms...)
	js["obs"] = jsMode(out)
	for i := range ms {
		if !proto.Equal(ms[i], orig[i]) {
			g.mutated("modepb.Sum", js)
		}
	}
	lists := make([][]*traits.ElectricMode_Segment, len(orig))
	for i, m := range orig {
		lists[i] = m.Segments
	}
	g.addT("mode.Sum", vcoq.App("KModeSum", vcoq.List(items), coqOptMode(out)), js, len(ms) > 1, sumGuardTag(lists))
}

func genC18(o *vcoq.Out, r *vcoq.Rand, tier string) error {
	o.Header = "From SC Require Import Base.Prelude Timeline.Timestamp Timeline.Segment Timeline.Mode Timeline.Own Timeline.Wrap Timeline.GoTimeMode Timeline.C18Judge."
	o.CaseType = "c18case"
	o.Judge = "judge"
	o.Shard = 400
	o.Rule = "exhaustive: all period pairs with ends in {unbounded, 0..5 s} x nanos {0,1,999999999} subsampled to a full 2-end grid, all timestamp pairs of that grid; every pair of 38 boundary values of the 64-bit seconds range (both sides of MinInt64/MaxInt64, MaxInt64-62135596800, +-2^62, +-2^53, the UnixNano, 2^31/2^32 and valid-Timestamp limits; nanos 0/1/999999999, out-of-range nanos outside the guard) for CompareAscending, the cut order, periods with those ends, the standard-library time calls and the mode operations; random: 64-bit-range timestamps, segment lists of 0-6 integer segments (zero-length and final infinite included), 1-4 lists per Sum, shifts/cuts at and around breakpoints, modes with/without start. Non-trivial: both periods non-nil; segment op on a non-empty list (Sum/mode Sum: >= 2 lists; Shift: d != 0). Distinct by the full input+observation term."
	g := &c18{o: o, r: r}
	scale := 1
	if tier == "thorough" {
		scale = 12
	}

	// ---- periods and timestamps: exhaustive small grid ----
	var ends []*timestamppb.Timestamp
	ends = append(ends, nil)
	for s := int64(0); s <= 5; s++ {
		for _, n := range []int32{0, 1, 999999999} {
			ends = append(ends, &timestamppb.Timestamp{Seconds: s, Nanos: n})
		}
	}
	// all pairs of timestamps of the grid for CompareAscending
	for _, a := range ends[1:] {
		for _, b := range ends[1:] {
			g.compare(a, b)
		}
	}
	// periods: all (start,end) over a coarser grid so the pair count stays ~6k
	var coarse []*timestamppb.Timestamp
	coarse = append(coarse, nil)
	for s := int64(0); s <= 2; s++ {
		for _, n := range []int32{0, 1, 999999999} {
			coarse = append(coarse, &timestamppb.Timestamp{Seconds: s, Nanos: n})
		}
	}
	var periods []*typestime.Period
	periods = append(periods, nil)
	grid := coarse
	if tier == "thorough" {
		grid = ends
	}
	for _, s := range grid {
		for _, e := range grid {
			if s != nil && e != nil && tsNanos(s) > tsNanos(e) && !(tsNanos(s)-tsNanos(e) == 1) {
				continue // inverted periods are outside the guard; keep a few (distance 1) to watch the model
			}
			periods = append(periods, &typestime.Period{StartTime: s, EndTime: e})
		}
	}
	npairs := 0
	for _, p := range periods {
		for _, q := range periods {
			if tier != "thorough" && npairs%2 == 1 && p != nil && q != nil {
				npairs++
				continue
			}
			npairs++
			g.periods(p, q)
		}
	}
	// the cut order (verif hook): every pair of kinds x every pair of grid timestamps; cutPeriod; constructors
	for _, k1 := range cutKinds {
		for _, k2 := range cutKinds {
			for _, a := range coarse[1:] {
				for _, b := range coarse[1:] {
					g.cutCompare(k1, a, k2, b)
				}
			}
		}
	}
	for _, p := range periods[1:] {
		g.cutPeriod(p)
	}
	for _, a := range coarse[1:] {
		for _, b := range coarse[1:] {
			g.periodCtors(a, b)
		}
	}
	// both sides of every representation limit of the 64-bit range of seconds (edges.go)
	g.edges(scale)
	// Go's time.Time (AsTime / Compare / Sub / Add / New) and the mode operations over the same values (gotime.go)
	g.goTime(scale)
	// random 64-bit-range timestamps
	big := func() *timestamppb.Timestamp {
		var s int64
		switch r.Intn(4) {
		case 0:
			s = r.I64()
		case 1:
			s = int64(r.Range(-3, 3))
		case 2:
			s = (1 << 62) + int64(r.Range(-2, 2))
		default:
			s = -(1 << 62) + int64(r.Range(-2, 2))
		}
		return &timestamppb.Timestamp{Seconds: s, Nanos: int32(r.Intn(1000000000))}
	}
	for i := 0; i < 300*scale; i++ {
		a, b := big(), big()
		g.compare(a, b)
		g.cutCompare(cutKinds[r.Intn(4)], a, cutKinds[r.Intn(4)], b)
		if i%3 == 0 {
			mk := func() *typestime.Period {
				x, y := big(), big()
				if x.Seconds > y.Seconds || (x.Seconds == y.Seconds && x.Nanos > y.Nanos) {
					x, y = y, x
				}
				p := &typestime.Period{StartTime: x, EndTime: y}
				switch r.Intn(5) {
				case 0:
					p.StartTime = nil
				case 1:
					p.EndTime = nil
				}
				return p
			}
			g.periods(mk(), mk())
		}
	}

	// ---- segments ----
	for i := 0; i < 120*scale; i++ {
		l := g.segs()
		// d at and around every breakpoint, and negative
		var cur int64
		pts := []int64{-2, -1, 0, 1}
		for _, s := range l {
			if s.Length == nil {
				break
			}
			cur += int64(s.Length.AsDuration())
			pts = append(pts, cur-1, cur, cur+1)
		}
		pts = append(pts, cur+3, -cur, -cur-1, -cur+1)
		for k := 0; k < 3; k++ {
			g.segOps(l, time.Duration(pts[r.Intn(len(pts))]))
		}
		g.magOps(l)
		if i%3 == 0 {
			// every capacity / offset layout of the argument, a positive and a negative shift
			for _, c := range capGrid {
				g.ownShift(l, time.Duration(pts[r.Intn(len(pts))]), c[0], c[1])
				g.ownShift(l, time.Duration(r.Range(1, 4)), c[0], c[1])
			}
		}
	}
	// durations at and around the int64 limits (wrap-around of the running offset)
	for i := 0; i < 60*scale; i++ {
		l := g.bigSegs()
		tot, _ := segTotal(l) // wraps like the code does
		ds := append([]int64{tot, tot - 1, tot + 1, -tot, -tot + 1}, bigDs...)
		for k := 0; k < 3; k++ {
			g.segOps(l, time.Duration(ds[r.Intn(len(ds))]))
		}
	}
	for i := 0; i < 250*scale; i++ {
		n := r.Range(1, 4)
		if r.Chance(5) {
			n = 0
		}
		ls := make([][]*traits.ElectricMode_Segment, n)
		signed := r.Chance(35)
		for k := range ls {
			if signed {
				ls[k] = g.signedSegs()
			} else {
				ls[k] = g.segs()
			}
		}
		g.sumOp(ls)
		if i%2 == 0 {
			g.ownSum(ls, false)
		}
	}
	// Sum over lists whose running offset reaches the int64 limits
	for i := 0; i < 40*scale; i++ {
		n := r.Range(1, 3)
		ls := make([][]*traits.ElectricMode_Segment, n)
		for k := range ls {
			if r.Chance(60) {
				ls[k] = g.bigSegs()
			} else {
				ls[k] = g.segs()
			}
		}
		g.sumOp(ls)
	}
	// ---- modes ----
	for i := 0; i < 120*scale; i++ {
		m := g.mode(r.Chance(70))
		base := int64(0)
		if m.StartTime != nil {
			base = tsNanos(m.StartTime)
		}
		t := base + int64(r.Range(-3, 14))
		d := time.Duration(r.Range(-8, 8))
		g.modeOps(m, t, d)
		if i%3 == 0 {
			for _, c := range capGrid {
				g.ownModeOps(m.Segments, m.StartTime, base+int64(r.Range(-1, 14)), time.Duration(r.Range(-8, 8)), c[0], c[1])
			}
		}
	}
	// start times at the ends of the valid Timestamp range: t.Sub(start) saturates
	for i := 0; i < 40*scale; i++ {
		m := g.mode(false)
		m.StartTime = extremeStarts[r.Intn(len(extremeStarts))]
		ts := []int64{0, 1, -1, math.MaxInt64, math.MinInt64, int64(r.Range(-5, 5)) * 1000000000}
		g.modeOps(m, ts[r.Intn(len(ts))], time.Duration(r.Range(-8, 8)))
	}
	for i := 0; i < 80*scale; i++ {
		n := r.Range(0, 4)
		ms := make([]*traits.ElectricMode, n)
		var t int64
		for k := range ms {
			ms[k] = g.mode(r.Chance(70))
			if ms[k].StartTime != nil && r.Chance(50) {
				t = tsNanos(ms[k].StartTime) + int64(r.Range(-2, 10))
			}
		}
		g.minAt(ms, t)
	}
	for i := 0; i < 150*scale; i++ {
		n := r.Range(1, 4)
		if r.Chance(4) {
			n = 0
		}
		ms := make([]*traits.ElectricMode, n)
		anyStart := r.Chance(70)
		zeroEra := r.Chance(15)
		signed := r.Chance(30)
		for k := range ms {
			ms[k] = g.mode(anyStart && r.Chance(70))
			if signed {
				for _, sg := range ms[k].Segments {
					if sg.Magnitude != 0 && r.Chance(50) {
						sg.Magnitude = -sg.Magnitude
					}
				}
			}
			if ms[k].StartTime != nil && zeroEra {
				// around the smallest valid Timestamp, 0001-01-01T00:00:00Z, which is time.Time's zero value
				// (all start times of the call are moved there so that their differences stay small)
				ms[k].StartTime = &timestamppb.Timestamp{Seconds: -62135596800, Nanos: int32([]int{0, 0, 1, 5}[r.Intn(4)])}
			}
		}
		g.modeSum(ms)
		if i%2 == 0 {
			g.ownModeSum(ms)
		}
	}
	// guard-pass rate and outcome classes (which branch of the model an input takes) for the evidence
	in, out := 0, 0
	classes := map[string]int{}
	for _, c := range o.Cases {
		for _, t := range c.Tags {
			switch {
			case t == "guard:in":
				in++
			case strings.HasPrefix(t, "guard:out"):
				out++
				classes[t]++
			case strings.Contains(t, ":"):
				classes[t]++
			}
		}
	}
	never := []string{}
	for _, want := range expectedClasses {
		if classes[want] == 0 {
			never = append(never, want)
		}
	}
	o.Extra["coverage_extra"] = map[string]any{
		"guard_tagged_cases": in + out, "guard_in": in, "guard_out": out,
		"guard_note":         "cases of the kinds that have a range/validity guard (periods, segment ops with a duration, Sum); all other kinds are inside their guard by construction of the generator",
		"outcome_classes":    classes,
		"classes_never_hit":  never,
	}
	return nil
}

// every outcome class the generator is expected to reach in each run (checked: listed under classes_never_hit otherwise)
var expectedClasses = []string{
	"active:before-start", "active:no-segments", "active:past-end", "active:in-infinite-tail", "active:after-zero-length", "active:in-finite",
	"shift:zero", "shift:empty", "shift:first-zero-infinite", "shift:extend-first", "shift:prepend", "shift:neg-removes-all", "shift:neg-into-infinite", "shift:neg-at-boundary", "shift:neg-cuts-segment",
	"cut:negative", "cut:zero", "cut:infinite", "cut:whole-before", "cut:proper",
	"sum:no-edges", "sum:coinciding-edges", "sum:distinct-edges", "sum:infinite-tail-kept", "sum:open-tail-dropped",
	"mcut:no-segments", "mcut:no-start-time", "mcut:before-start", "mcut:at-start", "mcut:after-end", "mcut:at-boundary", "mcut:splits-segment",
	"guard:out(int64-overflow)", "guard:out(inverted-period)", "guard:out(negative-open-tail)", "guard:out(invalid-nanos)",
	"go:in-band", "go:out-of-band",
	"pband:bottom", "pband:neg-far", "pband:valid", "pband:pos-far", "pband:top",
}

func init() {
	for _, a := range bandNames {
		for _, b := range bandNames {
			expectedClasses = append(expectedClasses, "cmp:"+a+"/"+b)
		}
	}
}

var extremeStarts = []*timestamppb.Timestamp{
	{Seconds: -62135596800, Nanos: 0}, {Seconds: -62135596800, Nanos: 1}, {Seconds: 253402300799, Nanos: 999999999},
	{Seconds: 9223372036, Nanos: 854775807}, {Seconds: -9223372037, Nanos: 145224192}, {Seconds: 9223372037, Nanos: 0}, {Seconds: 0, Nanos: 0},
}

func inverted(p *typestime.Period) bool {
	return p != nil && p.StartTime != nil && p.EndTime != nil && sctimeAfter(p.StartTime, p.EndTime)
}
func sctimeAfter(a, b *timestamppb.Timestamp) bool {
	return a.Seconds > b.Seconds || (a.Seconds == b.Seconds && a.Nanos > b.Nanos)
}
func periodClass(p, q *typestime.Period) string {
	sh := func(p *typestime.Period) string {
		switch {
		case p == nil:
			return "nil"
		case p.StartTime == nil && p.EndTime == nil:
			return "all"
		case p.StartTime == nil:
			return "before"
		case p.EndTime == nil:
			return "from"
		case proto.Equal(p.StartTime, p.EndTime):
			return "empty"
		case inverted(p):
			return "inverted"
		}
		return "bounded"
	}
	return "periods:" + sh(p) + "/" + sh(q)
}

// dur_guard of Timeline/Wrap.v, for the histogram only
func guardTag(d int64, l []*traits.ElectricMode_Segment) string {
	tot := new(big.Int)
	for _, s := range l {
		if s.Length != nil {
			n := int64(s.Length.AsDuration())
			if n < 0 {
				return "guard:out(negative-length)"
			}
			tot.Add(tot, big.NewInt(n))
		}
	}
	ad := new(big.Int).Abs(big.NewInt(d))
	if tot.Add(tot, ad).Cmp(big.NewInt(math.MaxInt64)) > 0 {
		return "guard:out(int64-overflow)"
	}
	return "guard:in"
}
func sumGuardTag(ls [][]*traits.ElectricMode_Segment) string {
	for _, l := range ls {
		if guardTag(0, l) != "guard:in" {
			return "guard:out(int64-overflow)"
		}
	}
	var tail float32
	for _, l := range ls {
		for _, s := range l {
			if s.Length == nil {
				tail += s.Magnitude
				break
			}
		}
	}
	if tail < 0 {
		return "guard:out(negative-open-tail)"
	}
	return "guard:in"
}
