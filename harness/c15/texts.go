package main

import "strings"

// The modelled source text (see table.go for the normalisation).  A handler body equal to one of
// handlerTexts has the shape Pages/Pager.v models: [0] the Search(key > lastKey) handlers,
// [1] parentpb.ListChildren, [2] = [0] paging over slices.Clone of the listing (electricpb.ListModes).  Regenerate with C15_TABLE_DEBUG=1 after re-modelling a changed handler.

const handlerText0 = `{
	pageToken := &types.PageToken{}
	if err := decodePageToken(request.PageToken, pageToken); err != nil {
		return nil, err
	}
	if err := validatePageSize(request.GetPageSize()); err != nil {
		return nil, err
	}

	lastKey := pageToken.GetLastResourceName()
	pageSize := capPageSize(int(request.GetPageSize()))

	L := R.model.LIST()

	sort.Slice(L, func(i, j int) bool {
		return L[i].K < L[j].K
	})
	nextIndex := 0
	if lastKey != "" {
		nextIndex = sort.Search(len(L), func(i int) bool {
			return L[i].K > lastKey
		})
	}

	result := &traits.T{
		TotalSize: int32(len(L)),
	}
	upperBound := nextIndex + pageSize
	if upperBound > len(L) {
		upperBound = len(L)
		pageToken = nil
	} else {
		pageToken.PageStart = &types.PageToken_LastResourceName{
			LastResourceName: L[upperBound-1].K,
		}
	}

	var err error
	result.NextPageToken, err = encodePageToken(pageToken)
	if err != nil {
		return nil, err
	}
	result.ITEMS = L[nextIndex:upperBound]

	mask := masks.NewResponseFilter(masks.WithFieldMask(request.ReadMask))
	for i, item := range result.ITEMS {
		result.ITEMS[i] = mask.FilterClone(item).(*traits.T)
	}

	return result, nil
}`

var handlerTexts = []string{
	handlerText0,
	`{
	pageToken := &types.PageToken{}
	if err := decodePageToken(request.PageToken, pageToken); err != nil {
		return nil, err
	}
	if err := validatePageSize(request.GetPageSize()); err != nil {
		return nil, err
	}

	lastKey := pageToken.GetLastResourceName()
	pageSize := capPageSize(int(request.GetPageSize()))

	L := R.model.LIST()
	sort.Slice(L, func(i, j int) bool {
		return L[i].K < L[j].K
	})

	nextIndex := 0
	if lastKey != "" {
		nextIndex = sort.Search(len(L), func(i int) bool {
			return L[i].K >= lastKey
		})
		if nextIndex < len(L) && L[nextIndex].K == lastKey {
			nextIndex++
		}
	}

	result := &traits.T{
		TotalSize: int32(len(L)),
	}
	upperBound := nextIndex + pageSize
	if upperBound > len(L) {
		upperBound = len(L)
		pageToken = nil
	} else {
		pageToken.PageStart = &types.PageToken_LastResourceName{
			LastResourceName: L[upperBound-1].K,
		}
	}

	var err error
	result.NextPageToken, err = encodePageToken(pageToken)
	if err != nil {
		return nil, err
	}
	result.ITEMS = L[nextIndex:upperBound]

	mask := masks.NewResponseFilter(masks.WithFieldMask(request.ReadMask))
	for i, child := range result.ITEMS {
		result.ITEMS[i] = mask.FilterClone(child).(*traits.T)
	}

	return result, nil
}`,
	strings.Replace(handlerText0, "L := R.model.LIST()", "L := slices.Clone(R.model.LIST())", 1),
}

const wasteHandlerText = `{

	pageToken := req.GetPageToken()
	startIndex := m.model.GetWasteRecordCount()
	if pageToken != "" {
		index, err := strconv.Atoi(pageToken)
		if err != nil {
			return nil, status.Errorf(codes.InvalidArgument, "bad page token: %v", err)
		}
		if index < 0 || index > startIndex {
			return nil, status.Errorf(codes.InvalidArgument, "bad page token: index %d out of range", index)
		}
		startIndex = index
	}

	count := req.PageSize
	if count < 0 {
		return nil, status.Errorf(codes.InvalidArgument, "page size must not be negative: %d", count)
	}
	if count == 0 {
		count = 50
	} else if count > 1000 {
		count = 1000
	}

	resp := &traits.ListWasteRecordsResponse{}
	resp.WasteRecords = m.model.ListWasteRecords(startIndex, int(count))

	if int(count) == len(resp.WasteRecords) {
		npt := startIndex - int(count)
		if npt > 0 {
			resp.NextPageToken = strconv.Itoa(startIndex - int(count))
		}
	}
	resp.TotalSize = int32(m.model.GetWasteRecordCount())
	return resp, nil
}`

const wasteModelText = `{
	m.mu.Lock()
	defer m.mu.Unlock()
	var wasteRecords []*traits.WasteRecord

	for i := start - 1; i >= 0; i-- {
		wasteRecords = append(wasteRecords, m.allWasteRecords[i])
		if len(wasteRecords) >= count {
			break
		}
	}
	return wasteRecords
}`
