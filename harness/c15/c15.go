// C15: paged List RPCs enumerate every item exactly once.
//
// For each of the seven paged RPCs the real ModelServer is driven in-process: a collection is
// populated through the model API, held fixed, and a client loop follows next_page_token from a
// first token (empty, well-formed, corrupted) until the empty token comes back, an error status is
// returned, the handler panics (recovered here) or n+3 calls have been made.  Every chain is
// written out as one Coq case: listing, page size, first token (decoded), observed answers.
package main

import (
	"context"
	"encoding/base64"
	"fmt"
	"reflect"
	"sort"
	"strconv"
	"strings"
	"unsafe"

	"github.com/smart-core-os/sc-api/go/traits"
	"github.com/smart-core-os/sc-api/go/types"
	"github.com/smart-core-os/sc-golang/pkg/resource"
	"github.com/smart-core-os/sc-golang/pkg/trait/electricpb"
	"github.com/smart-core-os/sc-golang/pkg/trait/hailpb"
	"github.com/smart-core-os/sc-golang/pkg/trait/parentpb"
	"github.com/smart-core-os/sc-golang/pkg/trait/publicationpb"
	"github.com/smart-core-os/sc-golang/pkg/trait/vendingpb"
	"github.com/smart-core-os/sc-golang/pkg/trait/wastepb"
	"github.com/smart-core-os/sc-golang/verifharness/vcoq"
	"github.com/smart-core-os/sc-golang/verifharness/vh"
	"google.golang.org/grpc/status"
	"google.golang.org/protobuf/proto"
	"google.golang.org/protobuf/types/known/fieldmaskpb"
	"unicode/utf8"
)

func init() { vh.Register("C15", genC15) }

func main() { vh.Main() }

// ---- one paged RPC behind a uniform face ----

type page struct {
	keys  []string // identity of each returned item (from the key field, or from the shadow field when the read mask leaves the key out)
	next  string
	total int32
	bad   string // key field and shadow field of an item disagree
}

// Every item carries its id a second time in another field (the "shadow": title, parent, media_type,
// origin.name, used.amount), so that an item is still identified when the request's read mask
// leaves the key field out (the shadow value is "s:" + id, never the id itself, so that a handler that
// took the token key from the wrong field would be seen).  mask: 0 = no read mask, 1 = key + shadow field, 2 = shadow field only.
const (
	maskNone = iota
	maskWithKey
	maskDropKey
)

func readMask(mode int, keyPath, shadowPath string) *fieldmaskpb.FieldMask {
	switch mode {
	case maskWithKey:
		return &fieldmaskpb.FieldMask{Paths: []string{keyPath, shadowPath}}
	case maskDropKey:
		return &fieldmaskpb.FieldMask{Paths: []string{shadowPath}}
	}
	return nil
}

// item resolves the identity of one returned item.
func (p *page) item(mode int, key, shadowID string) {
	id := key
	if mode == maskDropKey && key == "" {
		id = shadowID
	} else if key != shadowID {
		p.bad = fmt.Sprintf("key field %q, shadow field names %q", key, shadowID)
	}
	p.keys = append(p.keys, id)
}

type inst struct {
	ic   string                                                // id interceptor the model was built with ("none", "" for waste)
	call func(size int32, tok string, mask int) (*page, error) // the paged RPC on the real ModelServer
	full func() []string                                       // model-level listing (not the paged RPC)
	del  func(id string) error
}

type rpc struct {
	name      string                                                                          // histogram tag / JSON
	coq       string                                                                          // constructor of Pager.server ("" for waste)
	chooseIDs bool                                                                            // false: ids are allocated by the model (hail)
	build     func(ids []string, n int, r *vcoq.Rand, opts ...resource.Option) (*inst, error) // opts: constructor options of the model (id interceptor)
}

var ctx = context.Background()

// idReader feeds resource.GenerateUniqueId; it sometimes repeats the previous 6 bytes so that the
// first candidate collides and the retry (one byte longer) yields an id extending an existing one.
type idReader struct {
	r    *vcoq.Rand
	last [6]byte
	have bool
}

func (d *idReader) Read(p []byte) (int, error) {
	repeat := d.have && (len(p) > 6 || d.r.Chance(25))
	for i := range p {
		if repeat && i < 6 {
			p[i] = d.last[i]
		} else {
			p[i] = byte(d.r.Intn(256))
		}
	}
	if len(p) >= 6 {
		copy(d.last[:], p[:6])
		d.have = true
	}
	return len(p), nil
}

func rpcs() []rpc {
	return []rpc{
		{name: "electric.ListModes", coq: "SElectric", chooseIDs: true, build: func(ids []string, n int, r *vcoq.Rand, opts ...resource.Option) (*inst, error) {
			m := electricpb.NewModel(opts...)
			for _, id := range ids {
				if err := m.AddMode(&traits.ElectricMode{Id: id, Title: "s:" + id}); err != nil {
					return nil, err
				}
			}
			s := electricpb.NewModelServer(m)
			return &inst{
				call: func(size int32, tok string, mask int) (*page, error) {
					res, err := s.ListModes(ctx, &traits.ListModesRequest{Name: "dev", PageSize: size, PageToken: tok, ReadMask: readMask(mask, "id", "title")})
					if err != nil {
						return nil, err
					}
					p := &page{next: res.NextPageToken, total: res.TotalSize}
					for _, it := range res.Modes {
						p.item(mask, it.Id, strings.TrimPrefix(it.Title, "s:"))
					}
					return p, nil
				},
				full: func() (out []string) {
					for _, it := range m.Modes() {
						out = append(out, it.Id)
					}
					return
				},
				del: func(id string) error { return m.DeleteMode(id) },
			}, nil
		}},
		{name: "hail.ListHails", coq: "SHail", chooseIDs: false, build: func(_ []string, n int, r *vcoq.Rand, opts ...resource.Option) (*inst, error) {
			m := hailpb.NewModel(append([]resource.Option{hailpb.WithKeepAlive(-1), resource.WithRNG(&idReader{r: r})}, opts...)...)
			for i := 0; i < n; i++ {
				if _, err := m.CreateHail(&traits.Hail{Origin: &traits.Hail_Location{Name: strconv.Itoa(i)}}); err != nil {
					return nil, err
				}
			}
			s := hailpb.NewModelServer(m)
			byOrigin := map[string]string{}
			for _, it := range m.ListHails() {
				byOrigin[it.GetOrigin().GetName()] = it.Id
			}
			return &inst{
				call: func(size int32, tok string, mask int) (*page, error) {
					res, err := s.ListHails(ctx, &traits.ListHailsRequest{Name: "dev", PageSize: size, PageToken: tok, ReadMask: readMask(mask, "id", "origin")})
					if err != nil {
						return nil, err
					}
					p := &page{next: res.NextPageToken, total: res.TotalSize}
					for _, it := range res.Hails {
						p.item(mask, it.Id, byOrigin[it.GetOrigin().GetName()])
					}
					return p, nil
				},
				full: func() (out []string) {
					for _, it := range m.ListHails() {
						out = append(out, it.Id)
					}
					return
				},
				del: func(id string) error { _, err := m.DeleteHail(id); return err },
			}, nil
		}},
		{name: "parent.ListChildren", coq: "SParent", chooseIDs: true, build: func(ids []string, n int, r *vcoq.Rand, opts ...resource.Option) (*inst, error) {
			m := parentpb.NewModel(opts...)
			for _, id := range ids {
				m.AddChild(&traits.Child{Name: id, Parent: "s:" + id})
			}
			s := parentpb.NewModelServer(m)
			return &inst{
				call: func(size int32, tok string, mask int) (*page, error) {
					res, err := s.ListChildren(ctx, &traits.ListChildrenRequest{Name: "dev", PageSize: size, PageToken: tok, ReadMask: readMask(mask, "name", "parent")})
					if err != nil {
						return nil, err
					}
					p := &page{next: res.NextPageToken, total: res.TotalSize}
					for _, it := range res.Children {
						p.item(mask, it.Name, strings.TrimPrefix(it.Parent, "s:"))
					}
					return p, nil
				},
				full: func() (out []string) {
					for _, it := range m.ListChildren() {
						out = append(out, it.Name)
					}
					return
				},
				del: func(id string) error { _, err := m.RemoveChildByName(id); return err },
			}, nil
		}},
		{name: "publication.ListPublications", coq: "SPublication", chooseIDs: true, build: func(ids []string, n int, r *vcoq.Rand, opts ...resource.Option) (*inst, error) {
			m := publicationpb.NewModel(opts...)
			for _, id := range ids {
				if _, err := m.CreatePublication(&traits.Publication{Id: id, MediaType: "s:" + id}); err != nil {
					return nil, err
				}
			}
			s := publicationpb.NewModelServer(m)
			return &inst{
				call: func(size int32, tok string, mask int) (*page, error) {
					res, err := s.ListPublications(ctx, &traits.ListPublicationsRequest{Name: "dev", PageSize: size, PageToken: tok, ReadMask: readMask(mask, "id", "media_type")})
					if err != nil {
						return nil, err
					}
					p := &page{next: res.NextPageToken, total: res.TotalSize}
					for _, it := range res.Publications {
						p.item(mask, it.Id, strings.TrimPrefix(it.MediaType, "s:"))
					}
					return p, nil
				},
				full: func() (out []string) {
					for _, it := range m.ListPublications() {
						out = append(out, it.Id)
					}
					return
				},
				del: func(id string) error { _, err := m.DeletePublication(id); return err },
			}, nil
		}},
		{name: "vending.ListConsumables", coq: "SConsumables", chooseIDs: true, build: func(ids []string, n int, r *vcoq.Rand, opts ...resource.Option) (*inst, error) {
			m := vendingpb.NewModel(opts...)
			for _, id := range ids {
				if _, err := m.CreateConsumable(&traits.Consumable{Name: id, Title: "s:" + id}); err != nil {
					return nil, err
				}
			}
			s := vendingpb.NewModelServer(m)
			return &inst{
				call: func(size int32, tok string, mask int) (*page, error) {
					res, err := s.ListConsumables(ctx, &traits.ListConsumablesRequest{Name: "dev", PageSize: size, PageToken: tok, ReadMask: readMask(mask, "name", "title")})
					if err != nil {
						return nil, err
					}
					p := &page{next: res.NextPageToken, total: res.TotalSize}
					for _, it := range res.Consumables {
						p.item(mask, it.Name, strings.TrimPrefix(it.Title, "s:"))
					}
					return p, nil
				},
				full: func() (out []string) {
					for _, it := range m.ListConsumables() {
						out = append(out, it.Name)
					}
					return
				},
				del: func(id string) error { _, err := m.DeleteConsumable(id); return err },
			}, nil
		}},
		{name: "vending.ListInventory", coq: "SInventory", chooseIDs: true, build: func(ids []string, n int, r *vcoq.Rand, opts ...resource.Option) (*inst, error) {
			m := vendingpb.NewModel(opts...)
			byUsed := map[float32]string{}
			for i, id := range ids {
				byUsed[float32(i+1)] = id
				if _, err := m.CreateStock(&traits.Consumable_Stock{Consumable: id, Used: &traits.Consumable_Quantity{Amount: float32(i + 1)}}); err != nil {
					return nil, err
				}
			}
			s := vendingpb.NewModelServer(m)
			return &inst{
				call: func(size int32, tok string, mask int) (*page, error) {
					res, err := s.ListInventory(ctx, &traits.ListInventoryRequest{Name: "dev", PageSize: size, PageToken: tok, ReadMask: readMask(mask, "consumable", "used")})
					if err != nil {
						return nil, err
					}
					p := &page{next: res.NextPageToken, total: res.TotalSize}
					for _, it := range res.Inventory {
						p.item(mask, it.Consumable, byUsed[it.GetUsed().GetAmount()])
					}
					return p, nil
				},
				full: func() (out []string) {
					for _, it := range m.ListInventory() {
						out = append(out, it.Consumable)
					}
					return
				},
				del: func(id string) error { _, err := m.DeleteStock(id); return err },
			}, nil
		}},
	}
}

// waste: NewModel always starts with 100 generated records; the harness empties the unexported
// slice (reflect + unsafe, harness only) so that every collection size can be exercised, and
// reads it back as the ground truth of what is stored.
func wasteRecords(m *wastepb.Model) *[]*traits.WasteRecord {
	f := reflect.ValueOf(m).Elem().FieldByName("allWasteRecords")
	return (*[]*traits.WasteRecord)(unsafe.Pointer(f.UnsafeAddr()))
}

func buildWaste(ids []string) (*inst, error) {
	m := wastepb.NewModel()
	*wasteRecords(m) = nil
	for _, id := range ids {
		if _, err := m.AddWasteRecord(&traits.WasteRecord{Id: id}); err != nil {
			return nil, err
		}
	}
	s := wastepb.NewModelServer(m)
	return &inst{
		call: func(size int32, tok string, mask int) (*page, error) {
			res, err := s.ListWasteRecords(ctx, &traits.ListWasteRecordsRequest{Name: "dev", PageSize: size, PageToken: tok})
			if err != nil {
				return nil, err
			}
			p := &page{next: res.NextPageToken, total: res.TotalSize}
			for _, it := range res.WasteRecords {
				p.keys = append(p.keys, it.Id)
			}
			return p, nil
		},
		full: func() (out []string) {
			for _, it := range *wasteRecords(m) {
				out = append(out, it.Id)
			}
			return
		},
	}, nil
}

// ---- constructor options: id interceptors ----
//
// resource.WithIDInterceptor is accepted by every trait model's NewModel and handed to its
// collection(s): the items are then stored under f(id) and Collection.List sorts by f(id), while the
// handlers page by the id field of the bodies.  "For example, this can be used to make a
// case-insensitive collection by mapping all IDs to lowercase" (pkg/resource/opt.go).
type icept struct {
	name string
	f    func(string) string
}

func reverseRunes(s string) string {
	rs := []rune(s)
	for i, j := 0, len(rs)-1; i < j; i, j = i+1, j-1 {
		rs[i], rs[j] = rs[j], rs[i]
	}
	return string(rs)
}

var icepts = []icept{
	{"none", nil},
	{"strings.ToLower", strings.ToLower},
	{"strings.ToUpper", strings.ToUpper},
	{"reverse", reverseRunes}, // order by the last character first
	{"length-prefix", func(s string) string { // shorter ids first ("" stays "": Collection.Add allocates an id only when the MAPPED id is empty)
		if s == "" {
			return ""
		}
		return fmt.Sprintf("%04d/%s", len(s), s)
	}},
	{"trim-prefix", func(s string) string { return strings.TrimLeft(s, "aA/") }}, // not injective: aab and b collide
}

func (ic icept) opts() []resource.Option {
	if ic.f == nil {
		return nil
	}
	return []resource.Option{resource.WithIDInterceptor(ic.f)}
}

func (ic icept) key(id string) string {
	if ic.f == nil {
		return id
	}
	return ic.f(id)
}

// ---- tokens ----

type tokClass struct {
	kind  string // "empty" | "key" | "malformed" ; waste: "empty" | "num" | "malformed"
	key   string
	num   int64
	extra []byte // unknown fields of the decoded PageToken (the server re-marshals them into its own tokens)
}

// classifyKeyToken decodes a token the way a client library would: base64, then types.PageToken.
func classifyKeyToken(tok string) tokClass {
	if tok == "" {
		return tokClass{kind: "empty"}
	}
	b, err := base64.StdEncoding.DecodeString(tok)
	if err != nil {
		return tokClass{kind: "malformed"}
	}
	pt := &types.PageToken{}
	if err := proto.Unmarshal(b, pt); err != nil {
		return tokClass{kind: "malformed"}
	}
	return tokClass{kind: "key", key: pt.GetLastResourceName(), extra: append([]byte(nil), pt.ProtoReflect().GetUnknown()...)}
}

func classifyWasteToken(tok string) tokClass {
	if tok == "" {
		return tokClass{kind: "empty"}
	}
	v, err := strconv.Atoi(tok)
	if err != nil {
		return tokClass{kind: "malformed"}
	}
	return tokClass{kind: "num", num: int64(v)}
}

func keyToken(k string) string {
	b, _ := proto.Marshal(&types.PageToken{PageStart: &types.PageToken_LastResourceName{LastResourceName: k}})
	return base64.StdEncoding.EncodeToString(b)
}

func printable(s string) bool {
	for i := 0; i < len(s); i++ {
		if s[i] < 32 || s[i] >= 127 {
			return false
		}
	}
	return true
}

func (c tokClass) coqKey() string {
	switch c.kind {
	case "empty":
		return "TokEmpty"
	case "key":
		return vcoq.App("TokKey", cstr(c.key))
	}
	return "TokMalformed"
}
func (c tokClass) coqWaste() string {
	switch c.kind {
	case "empty":
		return "WEmpty"
	case "num":
		return vcoq.App("WNum", vcoq.Z(c.num))
	}
	return "WMalformed"
}

// ---- chains ----

type c15 struct {
	o        *vcoq.Out
	r        *vcoq.Rand
	skipped  int
	minted   []string // raw next_page_tokens handed out by any key-token RPC (fed to other RPCs later)
	cases    int
	guardOK  int
	thorough bool
}

// cstr prints a Go string as a Coq string: a literal when printable ASCII, else by its bytes.
func cstr(s string) string {
	if printable(s) {
		return vcoq.Str(s)
	}
	it := make([]string, len(s))
	for i := 0; i < len(s); i++ {
		it[i] = strconv.Itoa(int(s[i]))
	}
	return "(bstr " + vcoq.List(it) + ")"
}

func coqStrs(l []string) string {
	it := make([]string, len(l))
	for i, s := range l {
		it[i] = cstr(s)
	}
	return vcoq.List(it)
}

func safeCall(in *inst, size int32, tok string, mask int) (p *page, err error, panicked any) {
	defer func() {
		if x := recover(); x != nil {
			panicked = x
		}
	}()
	p, err = in.call(size, tok, mask)
	return
}

func sameStrs(a, b []string) bool {
	if len(a) != len(b) {
		return false
	}
	for i := range a {
		if a[i] != b[i] {
			return false
		}
	}
	return true
}

func capOf(size int32) int {
	if size == 0 {
		return 50
	}
	if size > 1000 {
		return 1000
	}
	return int(size)
}

// chain runs one client loop and records it.  Request i asks for sizes[i mod len(sizes)] items;
// mask is the read mask mode of every request of the chain.  waste selects the numeric token flavour.
func (g *c15) chain(rp rpc, in *inst, sizes []int32, mask int, tok0 string, tokTag string) {
	ic := in.ic
	waste := rp.coq == ""
	keys := in.full()
	n := len(keys)
	var cls tokClass
	if waste {
		cls = classifyWasteToken(tok0)
	} else {
		cls = classifyKeyToken(tok0)
	}
	js := map[string]any{"rpc": rp.name, "model_constructor_option": "resource.WithIDInterceptor: " + ic, "keys": keys, "keys_note": "id fields in the order of the model-level listing (the order of the collection keys)", "page_sizes": sizes, "page_sizes_note": "request i sends page_sizes[i mod len]", "read_mask": []string{"none", "key+shadow field", "shadow field only (key left out)"}[mask], "page_token": tok0,
		"token_decoded": map[string]any{"kind": cls.kind, "key": cls.key, "num": cls.num, "unknown_field_bytes": cls.extra}}
	if cls.kind != "empty" {
		js["page_token_note"] = "the chain starts from a token supplied by the client, not minted in this chain; when it decodes and names a key (present or not), the items whose id is greater than that key are due, in ascending order of their ids"
	}
	guard := true
	ascending := true
	for i, k := range keys {
		if !utf8.ValidString(k) {
			g.skipped++
			return
		}
		if !waste && k == "" {
			guard = false
		}
		if i > 0 && keys[i-1] >= k {
			ascending = false
		}
	}
	if !waste {
		distinct := map[string]bool{}
		for _, k := range keys {
			if distinct[k] {
				guard = false
			}
			distinct[k] = true
		}
	}
	var obs []string
	var jobs []any
	tok := tok0
	outcome := "pages"
	first := ""
	calls := 0
	fuel := n + 3 // the client makes at most n + 3 calls (a chain that makes progress needs at most n + 1)
	// ... and gives up early once it has been handed more than 3n + 3000 items in total: a chain that
	// repeats pages is cut there (it has failed C15_ok long before: every page must hold the NEXT items)
	// instead of writing out a thousand copies of a thousand-item page
	received := 0
	negSeen := false
	for i := 0; i < fuel && received <= 3*n+3000; i++ {
		size := sizes[i%len(sizes)]
		p, err, pan := safeCall(in, size, tok, mask)
		calls++
		if pan != nil {
			obs = append(obs, "OPanic")
			jobs = append(jobs, map[string]any{"panic": fmt.Sprint(pan)})
			outcome = "panic"
			if first == "" {
				first = "panic"
			}
			break
		}
		if err != nil {
			code := int(status.Code(err))
			obs = append(obs, vcoq.App("OErr", vcoq.Int(code)))
			jobs = append(jobs, map[string]any{"error_code": code})
			outcome = "error"
			if size < 0 {
				negSeen = true
			}
			if first == "" {
				first = "error"
			}
			break
		}
		if p.bad != "" {
			g.o.Directs = append(g.o.Directs, vcoq.Direct{What: rp.name + " returned an item whose fields disagree: " + p.bad, Class: "item-fields-disagree:" + rp.name, Replay: js})
			return
		}
		next := "None"
		var jnext any
		if p.next != "" {
			if waste {
				c := classifyWasteToken(p.next)
				if c.kind != "num" {
					g.o.Directs = append(g.o.Directs, vcoq.Direct{What: rp.name + " returned a next_page_token it cannot parse itself", Class: "undecodable-next-token:" + rp.name, Replay: js})
					return
				}
				next = vcoq.Some(vcoq.Z(c.num))
				jnext = c.num
			} else {
				if !printable(p.next) {
					g.o.Directs = append(g.o.Directs, vcoq.Direct{What: rp.name + " returned a next_page_token that is not printable text", Class: "undecodable-next-token:" + rp.name, Replay: js})
					return
				}
				next = vcoq.Some(cstr(p.next))
				jnext = p.next
				if len(g.minted) < 4000 {
					g.minted = append(g.minted, p.next)
				}
			}
		}
		for _, k := range p.keys {
			if !utf8.ValidString(k) {
				g.skipped++
				return
			}
		}
		if first == "" {
			switch {
			case p.next != "":
				first = "full-page+token"
			case len(p.keys) == 0:
				first = "empty-last-page"
			default:
				first = "remainder-fits"
			}
		}
		received += len(p.keys)
		obs = append(obs, vcoq.App("OPage", coqStrs(p.keys), next, vcoq.Z(int64(p.total))))
		jobs = append(jobs, map[string]any{"keys": p.keys, "next": jnext, "total_size": p.total})
		if p.next == "" {
			break
		}
		tok = p.next
	}
	js["observed"] = jobs
	if after := in.full(); !sameStrs(after, keys) {
		g.o.Directs = append(g.o.Directs, vcoq.Direct{What: rp.name + " changed the collection while listing", Class: "list-mutates:" + rp.name, Replay: js})
	}
	pat := make([]string, len(sizes))
	for i, z := range sizes {
		pat[i] = vcoq.Z(int64(z))
	}
	coqSizes := "(cyc " + vcoq.List(pat) + " " + vcoq.Nat(fuel) + ")"
	var coq string
	if waste {
		coq = vcoq.App("KWaste", coqStrs(keys), coqSizes, cls.coqWaste(), vcoq.List(obs))
	} else {
		ex := make([]string, len(cls.extra))
		for i, b := range cls.extra {
			ex[i] = strconv.Itoa(int(b))
		}
		coq = vcoq.App("KKeys", rp.coq, coqStrs(keys), vcoq.Bool(mask == maskDropKey), coqSizes, cstr(tok0), cls.coqKey(), vcoq.List(ex), vcoq.List(obs))
	}
	g.cases++
	if guard {
		g.guardOK++
	}
	if len(cls.extra) > 0 {
		tokTag += "+unknown-fields"
	}
	tags := []string{rp.name, "token:" + tokTag, "outcome:" + outcome, "model-branch(first answer):" + first,
		"read_mask:" + []string{"none", "with-key", "key-left-out"}[mask], "C15_guard:" + map[bool]string{true: "holds", false: "fails (case not judged)"}[guard]}
	if !waste {
		tags = append(tags, "id-interceptor:"+ic)
		if !ascending {
			tags = append(tags, "model-level listing NOT ascending by id (handler's re-sort matters)")
		}
	}
	if len(sizes) == 1 {
		tags = append(tags, "sizes:constant")
	} else {
		neg := false
		for _, z := range sizes {
			if z < 0 {
				neg = true
			}
		}
		if neg {
			tags = append(tags, "sizes:varying-with-negative")
			if negSeen {
				tags = append(tags, "model-branch:negative-size-mid-chain")
			}
		} else {
			tags = append(tags, "sizes:varying")
		}
	}
	size := sizes[0]
	switch {
	case size < 0:
		tags = append(tags, "page_size:negative")
	case size == 0:
		tags = append(tags, "page_size:0(default)")
	case size > 1000:
		tags = append(tags, "page_size:>1000(capped)")
	default:
		tags = append(tags, "page_size:1..1000")
	}
	switch {
	case calls == 1:
		tags = append(tags, "calls:1")
	case calls <= 5:
		tags = append(tags, "calls:2-5")
	default:
		tags = append(tags, "calls:6+")
	}
	if len(sizes) == 1 && size >= 0 && n > 0 && n%capOf(size) == 0 && cls.kind == "empty" {
		tags = append(tags, "n-multiple-of-page")
	}
	switch {
	case n == 0:
		tags = append(tags, "n:0")
	case n <= 60:
		tags = append(tags, "n:1-60")
	default:
		tags = append(tags, "n:>60")
	}
	uni, b64s, long := false, false, false
	for _, k := range keys {
		if !printable(k) {
			uni = true
		}
		if len(k) >= 128 {
			long = true
		}
		for i := 0; i < len(k); i++ {
			if k[i] == '~' || k[i] == '>' || k[i] == '?' {
				b64s = true
			}
		}
	}
	if uni {
		tags = append(tags, "ids:non-ascii-utf8")
	}
	if b64s {
		tags = append(tags, "ids:bytes-giving-base64-62/63")
	}
	if long {
		tags = append(tags, "ids:>=128-bytes(2-byte-varint)")
	}
	g.o.Add(vcoq.Case{Coq: coq, JSON: js, Key: coq, NonTrivial: n > 0, Tags: tags})
}

// ---- generators ----

const alphabet = "ab0A_-~ ./"

// ids: n distinct non-empty printable ids; many extend another id (mutual prefixes) or differ in
// the last character only.
// specialIDs: bytes whose token contains base64 sextets 62/63 ('+' '/' in the standard alphabet, '-' '_'
// in the URL-safe one: '~' '>' '?' at byte offsets 0, 3, 6 ... of the id), non-ASCII UTF-8 of every
// length, a quote, ids of 127 / 128 / 200 bytes (the length varint of the token grows to two bytes at 128).
var specialIDs = []string{"~", "~~", ">", "?", "ab>", "ab?", "abc~", "a~", "~a", "o\u00bf", "\u00e9", "\u00e9a", "\u00ff", "\u07ff", "\u0800",
	"\u65e5\u672c", "\U0001F600", "\U0010FFFF", "a\"b", "\"", "\ufffd", "a\u0301"}
var longIDs = []string{strings.Repeat("k", 127), strings.Repeat("k", 128), strings.Repeat("~", 200)}

// mixedAlphabet: for collections built with an id interceptor: both cases of the same letters, so that
// the order of the mapped keys (lower-cased, upper-cased, reversed, by length) differs from the order of the ids.
const mixedAlphabet = "abzABZ0_~/"

func (g *c15) ids(n int, ic icept) []string {
	alphabet := alphabet
	if ic.f != nil {
		alphabet = mixedAlphabet
	}
	seen := map[string]bool{} // by the key the collection stores the id under: ids with equal keys cannot coexist
	var out []string
	maxLen := 3
	if n > 40 {
		maxLen = 6
	}
	special := 15
	if n > 60 {
		special = 2
	}
	for len(out) < n {
		var s string
		switch {
		case g.r.Chance(special):
			s = specialIDs[g.r.Intn(len(specialIDs))]
			if g.r.Chance(6) {
				s = longIDs[g.r.Intn(len(longIDs))]
			}
			if len(out) > 0 && g.r.Chance(30) && len(s) < 20 { // appended to an existing id
				s = out[g.r.Intn(len(out))] + s
			}
			if k := ic.key(s); k != "" && !seen[k] {
				seen[k] = true
				out = append(out, s)
			}
			continue
		case len(out) > 0 && g.r.Chance(40): // extend an existing id
			s = out[g.r.Intn(len(out))] + string(alphabet[g.r.Intn(len(alphabet))])
		case len(out) > 0 && g.r.Chance(20): // proper prefix of an existing id
			b := out[g.r.Intn(len(out))]
			s = b[:1+g.r.Intn(len(b))]
			if !utf8.ValidString(s) {
				continue
			}
		default:
			l := g.r.Range(1, maxLen)
			bs := make([]byte, l)
			for i := range bs {
				bs[i] = alphabet[g.r.Intn(len(alphabet))]
			}
			s = string(bs)
		}
		if s == "" || ic.key(s) == "" || seen[ic.key(s)] || len(s) > 12 {
			continue
		}
		seen[ic.key(s)] = true
		out = append(out, s)
	}
	return out
}

var pageSizes = []int32{-5, -4, -3, -2, -1, 0, 1, 2, 3, 7, 50, 1000, 5000}

func (g *c15) randomSize(n int) int32 {
	if g.r.Chance(6) {
		// the ends of the int32 range
		return []int32{2147483647, -2147483648, 2147483646, -2147483647}[g.r.Intn(4)]
	}
	switch g.r.Intn(4) {
	case 0:
		return int32(g.r.Range(1, n+2))
	case 1:
		return int32(g.r.Range(4, 70))
	case 2:
		return int32(g.r.Range(900, 1100))
	default:
		if n > 1 {
			// a divisor-ish size: exact multiples end with an empty trailing page in the key servers
			return int32(n / g.r.Range(1, 4))
		}
		return 1
	}
}

// sizesFor picks the page sizes paged over one collection.
func (g *c15) sizesFor(n int, all bool) []int32 {
	if n > 60 {
		// a thousand items: only page sizes that keep the chain short, around the cap
		out := []int32{0, 1000, 5000, int32(-1 - g.r.Intn(5)), int32(g.r.Range(300, 1100))}
		if n != 1001 {
			out = append(out, 999, 1001, 50)
		} else if g.thorough {
			out = append(out, 999, 50)
		}
		return out
	}
	if all {
		return append(append([]int32{}, pageSizes...), g.randomSize(n), g.randomSize(n))
	}
	out := []int32{
		int32(-1 - g.r.Intn(5)),
		[]int32{0, 50}[g.r.Intn(2)],
		int32(1 + g.r.Intn(3)),
		7,
		[]int32{1000, 5000}[g.r.Intn(2)],
		g.randomSize(n),
	}
	for i, s := range out {
		if s == 0 && i != 1 {
			out[i] = 1
		}
	}
	return out
}

// patternsFor picks the page-size sequences paged over one collection: the constant ones of
// sizesFor plus sequences that change from request to request (small then large, large then small,
// default in between, a negative size after the first page, random).
func (g *c15) patternsFor(n int, all bool) [][]int32 {
	var out [][]int32
	for _, z := range g.sizesFor(n, all) {
		out = append(out, []int32{z})
	}
	if n > 60 {
		out = append(out, []int32{400, 5000}, []int32{999, 1, 1, -1})
		if g.thorough {
			out = append(out, []int32{1000, 1}, []int32{int32(g.r.Range(1, 1000)), 0, 5000})
		}
		return out
	}
	small := int32(1 + g.r.Intn(3))
	big := []int32{1000, 5000, 0, 50, int32(n), int32(n + 1)}[g.r.Intn(6)]
	if big == 0 && n == 0 {
		big = 50
	}
	out = append(out,
		[]int32{small, big},                               // C15-r3-2: a first page smaller than the collection, then everything
		[]int32{int32(g.r.Range(1, n+1)), small},          // large then small
		[]int32{small, int32(-1 - g.r.Intn(5))},           // a negative size on the second request
		[]int32{g.posSize(n), g.posSize(n), g.posSize(n)}, // random
	)
	if all {
		out = append(out, []int32{1, 0}, []int32{2, 3, 7}, []int32{small, small, int32(n)}, []int32{7, 1, -2147483648})
	}
	return out
}

func (g *c15) posSize(n int) int32 {
	for {
		if z := g.randomSize(n); z >= 0 {
			return z
		}
	}
}

// tokenStreamSizes: page sizes used with a corrupted / unexpected first token; now and then negative
// (both inputs bad at once), now and then varying.
func (g *c15) tokenStreamSizes(n int) []int32 {
	if g.r.Chance(8) {
		return []int32{int32(-1 - g.r.Intn(5))}
	}
	if n > 60 {
		return []int32{[]int32{0, 1000, 5000, 400}[g.r.Intn(4)]}
	}
	z := g.sizesFor(n, false)[1+g.r.Intn(5)]
	if g.r.Chance(30) {
		return []int32{int32(1 + g.r.Intn(3)), z}
	}
	return []int32{z}
}

func (g *c15) maskMode() int {
	switch x := g.r.Intn(10); {
	case x < 5:
		return maskNone
	case x < 7:
		return maskWithKey
	}
	return maskDropKey
}

// badKeyTokens: the malformed / unexpected stream for the key-token servers.
func (g *c15) badKeyTokens(keys []string) [][2]string {
	var out [][2]string
	add := func(tag, tok string) { out = append(out, [2]string{tag, tok}) }
	// not base64 at all
	add("bad-base64", "!!!not-base64!!!")
	add("bad-base64", "abc")   // wrong length
	add("bad-base64", "Zm9v=") // wrong padding
	add("bad-base64", "Cg\nNh")
	// base64 of bytes that are not a PageToken
	add("garbage-proto", base64.StdEncoding.EncodeToString([]byte{0x12, 0x05, 'a', 'b'}))         // truncated string
	add("garbage-proto", base64.StdEncoding.EncodeToString([]byte{0x12, 0x02, 0xff, 0xfe}))       // invalid UTF-8
	add("garbage-proto", base64.StdEncoding.EncodeToString([]byte{0xff, 0xff, 0xff, 0xff, 0xff})) // bad tag
	add("garbage-proto", base64.StdEncoding.EncodeToString([]byte{0x0f}))                         // wire type 7
	for i := 0; i < 3; i++ {
		b := make([]byte, g.r.Range(1, 9))
		for k := range b {
			b[k] = byte(g.r.Intn(256))
		}
		add("random-bytes", base64.StdEncoding.EncodeToString(b))
	}
	// decodes, but carries no resource name
	add("other-field", base64.StdEncoding.EncodeToString([]byte{0x08, 0x05}))                  // last_offset = 5
	add("other-field", base64.StdEncoding.EncodeToString([]byte{0x1a, 0x01, 'x'}))             // unknown field 3
	add("other-field", base64.StdEncoding.EncodeToString([]byte{0x12, 0x00}))                  // last_resource_name = ""
	add("other-field", base64.StdEncoding.EncodeToString([]byte{0x12, 0x01, 'a', 0x18, 0x01})) // name + unknown field
	// well-formed tokens naming keys that are not in the collection
	absent := []string{" ", "~~~~~~~~~~~~~", "ab", "A"}
	for i := 0; i < 2 && len(keys) > 0; i++ {
		k := keys[g.r.Intn(len(keys))]
		absent = append(absent, k+" ", k+"~")
		if len(k) > 1 {
			absent = append(absent, k[:len(k)-1])
		}
	}
	have := map[string]bool{}
	for _, k := range keys {
		have[k] = true
	}
	for _, k := range absent {
		if !have[k] {
			add("absent-key", keyToken(k))
		}
	}
	// tokens minted earlier by this or another RPC's server (over another collection)
	for i := 0; i < 3 && len(g.minted) > 0; i++ {
		add("minted-elsewhere", g.minted[g.r.Intn(len(g.minted))])
	}
	// tokens naming special keys: non-ASCII, 128 bytes (two-byte length varint), '~'
	for _, k := range []string{"\u00e9", strings.Repeat("k", 128), "~", "ab?"} {
		if !have[k] {
			add("absent-key", keyToken(k))
		}
	}
	// well-formed tokens naming present keys (first, last, random)
	if len(keys) > 0 {
		add("present-key", keyToken(keys[0]))
		add("present-key", keyToken(keys[len(keys)-1]))
		add("present-key", keyToken(keys[g.r.Intn(len(keys))]))
	}
	return out
}

func (g *c15) badWasteTokens(n int) [][2]string {
	var out [][2]string
	add := func(tag, tok string) { out = append(out, [2]string{tag, tok}) }
	for _, t := range []string{"abc", "1.5", " 3", "3 ", "0x10", "99999999999999999999999", "-", "1e3", "Mw==", "٣"} {
		add("non-numeric", t)
	}
	for _, v := range []int{n + 1, n + 2, n + 50, 5000, 1 << 40} {
		add("above-count", strconv.Itoa(v))
	}
	for _, v := range []int{-1, -2, -50, -(1 << 40)} {
		add("negative", strconv.Itoa(v))
	}
	add("in-range", "0")
	add("in-range", strconv.Itoa(n))
	add("in-range", "+"+strconv.Itoa(n/2))
	add("in-range", "00"+strconv.Itoa(n/2))
	if n > 0 {
		add("in-range", strconv.Itoa(1+g.r.Intn(n)))
		add("in-range", strconv.Itoa(1+g.r.Intn(n)))
	}
	return out
}

func genC15(o *vcoq.Out, r *vcoq.Rand, tier string) error {
	o.Header = "From SC Require Import Base.Prelude Pages.Codec Pages.PagerCfg Pages.Pager Pages.Listing Pages.C15Judge."
	o.CaseType = "c15case"
	o.Judge = "judge"
	o.Shard = 150
	o.Rule = "one case = one client page chain against the real ModelServer (7 RPCs): collection sizes 0-60 + 1001 (thorough: +999,1000); every other collection (alternating per RPC) built with a constructor option resource.WithIDInterceptor (strings.ToLower, strings.ToUpper, reverse, length-prefix, a non-injective trim-prefix) and ids over both cases of the same letters, so that the model-level listing (ordered by the mapped keys) is not ascending by id; per collection the same page size on every request {-5..0,1,2,3,7,50,1000,5000,random incl. divisors of n and the ends of int32} (quick: 6 of them, thorough: all) and page sizes that change from request to request (small then everything, large then small, negative on the second request, random triples); read mask none / key+shadow field / shadow field only (key left out; items are identified by a second field carrying the id); ids random over a 10-letter alphabet with ~50% extending or truncating another id, ~15% special (bytes whose token has base64 sextets 62/63, non-ASCII UTF-8 of 2/3/4 bytes, quotes, 127/128/200 bytes) (hail: ids allocated by the model from a scripted RNG that forces prefix collisions); token stream per collection: bad base64, base64 of non-PageToken bytes, PageTokens without resource name or with unknown fields, absent keys (incl. a deleted key, non-ASCII, 128 bytes), present keys, tokens minted earlier by this or another RPC; waste: non-numeric, above count, negative, in-range numeric tokens. next_page_tokens are recorded as the raw text. Non-trivial: non-empty collection. Distinct by the full case term."
	thorough := tier == "thorough"
	g := &c15{o: o, r: r, thorough: thorough}

	var ns []int
	for n := 0; n <= 60; n++ {
		ns = append(ns, n)
	}
	if thorough {
		// four rounds over the small sizes (fresh random ids each time), then the boundary sizes
		for round := 0; round < 3; round++ {
			for n := 0; n <= 60; n++ {
				ns = append(ns, n)
			}
		}
		ns = append(ns, 999, 1000, 1001)
	} else {
		ns = append(ns, 1001) // the cap of 1000 is only visible on a collection larger than it
	}

	all := rpcs()
	for ri, rp := range all {
		for ni, n := range ns {
			// constructor options: every other collection is built with an id interceptor (which one
			// rotates), alternating per RPC so that every size is paged with and without one
			ic := icepts[0]
			if (ni+ri)%2 == 1 && n <= 60 || n == 1000 {
				ic = icepts[1+(ni/2+ri)%(len(icepts)-1)]
			}
			var ids []string
			if rp.chooseIDs {
				ids = g.ids(n, ic)
			}
			in, err := rp.build(ids, n, r, ic.opts()...)
			if err != nil {
				return fmt.Errorf("%s (id interceptor %s): populating %d items: %v", rp.name, ic.name, n, err)
			}
			in.ic = ic.name
			keys := in.full()
			if rp.chooseIDs {
				// Collection.List: the bodies in ascending order of the keys they are stored under
				want := append([]string{}, ids...)
				sort.Slice(want, func(i, j int) bool { return ic.key(want[i]) < ic.key(want[j]) })
				if !sameStrs(want, keys) {
					o.Directs = append(o.Directs, vcoq.Direct{What: rp.name + ": model-level listing is not the set of added ids in the order of their collection keys", Class: "listing-not-sorted:" + rp.name, Replay: map[string]any{"rpc": rp.name, "id_interceptor": ic.name, "added": ids, "listing": keys}})
					continue
				}
			} else {
				if len(keys) != n {
					return fmt.Errorf("%s: %d items created, %d listed", rp.name, n, len(keys))
				}
				if !sort.SliceIsSorted(keys, func(i, j int) bool { return ic.key(keys[i]) < ic.key(keys[j]) }) {
					o.Directs = append(o.Directs, vcoq.Direct{What: rp.name + ": model-level listing is not in the order of the collection keys", Class: "listing-not-sorted:" + rp.name, Replay: map[string]any{"rpc": rp.name, "id_interceptor": ic.name, "listing": keys}})
					continue
				}
			}
			// the model-level listing as a case of its own: (id, key) pairs as added, ids as listed
			// (small collections: the model looks the key of an id up in the pair list at every comparison)
			if n <= 60 {
				added := ids
				if !rp.chooseIDs {
					added = append([]string{}, keys...) // ids allocated by the model: any order will do
					sort.Strings(added)
				}
				kv := make([]string, len(added))
				jkv := make([][2]string, len(added))
				for i, id := range added {
					kv[i] = "(" + cstr(id) + ", " + cstr(ic.key(id)) + ")"
					jkv[i] = [2]string{id, ic.key(id)}
				}
				coq := vcoq.App("KListing", vcoq.List(kv), coqStrs(keys))
				g.cases++
				g.guardOK++
				o.Add(vcoq.Case{Coq: coq, JSON: map[string]any{"rpc": rp.name, "what": "model-level listing (resource.Collection.List)", "model_constructor_option": "resource.WithIDInterceptor: " + ic.name, "added_id_and_collection_key": jkv, "listing": keys},
					Key: coq, NonTrivial: n > 1, Tags: []string{rp.name, "model-level-listing", "id-interceptor:" + ic.name, "C15_guard:holds"}})
			}
			big := n > 60
			for i, pat := range g.patternsFor(n, thorough && !big) {
				mask := g.maskMode()
				if i == 0 {
					mask = maskNone
				}
				g.chain(rp, in, pat, mask, "", "empty")
			}
			// corrupted / unexpected first tokens: all collections in thorough; quick: every 3rd collection up to 30 items, 45, 49-51, 60, 1001
			if thorough && !big || n%3 == 0 && (n <= 30 || n == 45 || n == 60) || n >= 49 && n <= 51 || n == 1001 {
				for i, bt := range g.badKeyTokens(keys) {
					if big && i%5 != n%5 {
						continue // a thousand keys per case: a fifth of the stream is enough
					}
					g.chain(rp, in, g.tokenStreamSizes(n), g.maskMode(), bt[1], bt[0])
				}
				// a token naming a key that is deleted afterwards
				if n >= 2 && !big {
					victim := keys[g.r.Intn(n)]
					tok := keyToken(victim)
					if err := in.del(victim); err == nil {
						g.chain(rp, in, []int32{int32(1 + g.r.Intn(4))}, g.maskMode(), tok, "deleted-key")
					}
				}
			}
		}
	}

	// waste
	wrp := rpc{name: "waste.ListWasteRecords"}
	for _, n := range ns {
		ids := g.ids(n, icepts[0])
		in, err := buildWaste(ids)
		if err != nil {
			return fmt.Errorf("waste: populating %d records: %v", n, err)
		}
		if !sameStrs(in.full(), ids) {
			return fmt.Errorf("waste: stored records differ from the records added")
		}
		big := n > 60
		for _, pat := range g.patternsFor(n, thorough && !big) {
			g.chain(wrp, in, pat, maskNone, "", "empty")
		}
		if thorough && !big || n%3 == 0 && (n <= 30 || n == 45 || n == 60) || n >= 49 && n <= 51 || n == 1001 {
			for i, bt := range g.badWasteTokens(n) {
				if big && i%3 != n%3 {
					continue
				}
				g.chain(wrp, in, g.tokenStreamSizes(n), maskNone, bt[1], bt[0])
			}
		}
	}
	o.Extra["skipped_invalid_utf8"] = g.skipped
	o.Extra["guard_pass"] = fmt.Sprintf("%d of %d cases satisfy C15_guard (ids pairwise different, no empty id, valid UTF-8, n < 2^31, n + 3 calls allowed)", g.guardOK, g.cases)
	return nil
}
