// C15: paged List RPCs enumerate every item exactly once.
//
// For each of the seven paged RPCs the real ModelServer is driven in-process: a collection is
// populated through the model API, held fixed, and a client loop follows next_page_token from a
// first token (empty, well-formed, corrupted) until the empty token comes back, an error status is
// returned, the handler panics (recovered here) or n+3 calls have been made.  Every chain is
// written out as one Coq case: listing, page size, first token (decoded), observed answers.
package main

import (
	"context"
	"encoding/base64"
	"fmt"
	"reflect"
	"sort"
	"strconv"
	"unsafe"

	"github.com/smart-core-os/sc-api/go/traits"
	"github.com/smart-core-os/sc-api/go/types"
	"github.com/smart-core-os/sc-golang/pkg/resource"
	"github.com/smart-core-os/sc-golang/pkg/trait/electricpb"
	"github.com/smart-core-os/sc-golang/pkg/trait/hailpb"
	"github.com/smart-core-os/sc-golang/pkg/trait/parentpb"
	"github.com/smart-core-os/sc-golang/pkg/trait/publicationpb"
	"github.com/smart-core-os/sc-golang/pkg/trait/vendingpb"
	"github.com/smart-core-os/sc-golang/pkg/trait/wastepb"
	"github.com/smart-core-os/sc-golang/verifharness/vcoq"
	"github.com/smart-core-os/sc-golang/verifharness/vh"
	"google.golang.org/grpc/status"
	"google.golang.org/protobuf/proto"
)

func init() { vh.Register("C15", genC15) }

func main() { vh.Main() }

// ---- one paged RPC behind a uniform face ----

type page struct {
	keys  []string
	next  string
	total int32
}

type inst struct {
	call func(size int32, tok string) (*page, error) // the paged RPC on the real ModelServer
	full func() []string                             // model-level listing (not the paged RPC)
	del  func(id string) error
}

type rpc struct {
	name      string // histogram tag / JSON
	coq       string // constructor of Pager.server ("" for waste)
	chooseIDs bool   // false: ids are allocated by the model (hail)
	build     func(ids []string, n int, r *vcoq.Rand) (*inst, error)
}

var ctx = context.Background()

// idReader feeds resource.GenerateUniqueId; it sometimes repeats the previous 6 bytes so that the
// first candidate collides and the retry (one byte longer) yields an id extending an existing one.
type idReader struct {
	r    *vcoq.Rand
	last [6]byte
	have bool
}

func (d *idReader) Read(p []byte) (int, error) {
	repeat := d.have && (len(p) > 6 || d.r.Chance(25))
	for i := range p {
		if repeat && i < 6 {
			p[i] = d.last[i]
		} else {
			p[i] = byte(d.r.Intn(256))
		}
	}
	if len(p) >= 6 {
		copy(d.last[:], p[:6])
		d.have = true
	}
	return len(p), nil
}

func rpcs() []rpc {
	return []rpc{
		{name: "electric.ListModes", coq: "SElectric", chooseIDs: true, build: func(ids []string, n int, r *vcoq.Rand) (*inst, error) {
			m := electricpb.NewModel()
			for _, id := range ids {
				if err := m.AddMode(&traits.ElectricMode{Id: id, Title: "t" + id}); err != nil {
					return nil, err
				}
			}
			s := electricpb.NewModelServer(m)
			return &inst{
				call: func(size int32, tok string) (*page, error) {
					res, err := s.ListModes(ctx, &traits.ListModesRequest{Name: "dev", PageSize: size, PageToken: tok})
					if err != nil {
						return nil, err
					}
					p := &page{next: res.NextPageToken, total: res.TotalSize}
					for _, it := range res.Modes {
						p.keys = append(p.keys, it.Id)
					}
					return p, nil
				},
				full: func() (out []string) {
					for _, it := range m.Modes() {
						out = append(out, it.Id)
					}
					return
				},
				del: func(id string) error { return m.DeleteMode(id) },
			}, nil
		}},
		{name: "hail.ListHails", coq: "SHail", chooseIDs: false, build: func(_ []string, n int, r *vcoq.Rand) (*inst, error) {
			m := hailpb.NewModel(hailpb.WithKeepAlive(-1), resource.WithRNG(&idReader{r: r}))
			for i := 0; i < n; i++ {
				if _, err := m.CreateHail(&traits.Hail{Origin: &traits.Hail_Location{Name: strconv.Itoa(i)}}); err != nil {
					return nil, err
				}
			}
			s := hailpb.NewModelServer(m)
			return &inst{
				call: func(size int32, tok string) (*page, error) {
					res, err := s.ListHails(ctx, &traits.ListHailsRequest{Name: "dev", PageSize: size, PageToken: tok})
					if err != nil {
						return nil, err
					}
					p := &page{next: res.NextPageToken, total: res.TotalSize}
					for _, it := range res.Hails {
						p.keys = append(p.keys, it.Id)
					}
					return p, nil
				},
				full: func() (out []string) {
					for _, it := range m.ListHails() {
						out = append(out, it.Id)
					}
					return
				},
				del: func(id string) error { _, err := m.DeleteHail(id); return err },
			}, nil
		}},
		{name: "parent.ListChildren", coq: "SParent", chooseIDs: true, build: func(ids []string, n int, r *vcoq.Rand) (*inst, error) {
			m := parentpb.NewModel()
			for _, id := range ids {
				m.AddChild(&traits.Child{Name: id})
			}
			s := parentpb.NewModelServer(m)
			return &inst{
				call: func(size int32, tok string) (*page, error) {
					res, err := s.ListChildren(ctx, &traits.ListChildrenRequest{Name: "dev", PageSize: size, PageToken: tok})
					if err != nil {
						return nil, err
					}
					p := &page{next: res.NextPageToken, total: res.TotalSize}
					for _, it := range res.Children {
						p.keys = append(p.keys, it.Name)
					}
					return p, nil
				},
				full: func() (out []string) {
					for _, it := range m.ListChildren() {
						out = append(out, it.Name)
					}
					return
				},
				del: func(id string) error { _, err := m.RemoveChildByName(id); return err },
			}, nil
		}},
		{name: "publication.ListPublications", coq: "SPublication", chooseIDs: true, build: func(ids []string, n int, r *vcoq.Rand) (*inst, error) {
			m := publicationpb.NewModel()
			for _, id := range ids {
				if _, err := m.CreatePublication(&traits.Publication{Id: id}); err != nil {
					return nil, err
				}
			}
			s := publicationpb.NewModelServer(m)
			return &inst{
				call: func(size int32, tok string) (*page, error) {
					res, err := s.ListPublications(ctx, &traits.ListPublicationsRequest{Name: "dev", PageSize: size, PageToken: tok})
					if err != nil {
						return nil, err
					}
					p := &page{next: res.NextPageToken, total: res.TotalSize}
					for _, it := range res.Publications {
						p.keys = append(p.keys, it.Id)
					}
					return p, nil
				},
				full: func() (out []string) {
					for _, it := range m.ListPublications() {
						out = append(out, it.Id)
					}
					return
				},
				del: func(id string) error { _, err := m.DeletePublication(id); return err },
			}, nil
		}},
		{name: "vending.ListConsumables", coq: "SConsumables", chooseIDs: true, build: func(ids []string, n int, r *vcoq.Rand) (*inst, error) {
			m := vendingpb.NewModel()
			for _, id := range ids {
				if _, err := m.CreateConsumable(&traits.Consumable{Name: id}); err != nil {
					return nil, err
				}
			}
			s := vendingpb.NewModelServer(m)
			return &inst{
				call: func(size int32, tok string) (*page, error) {
					res, err := s.ListConsumables(ctx, &traits.ListConsumablesRequest{Name: "dev", PageSize: size, PageToken: tok})
					if err != nil {
						return nil, err
					}
					p := &page{next: res.NextPageToken, total: res.TotalSize}
					for _, it := range res.Consumables {
						p.keys = append(p.keys, it.Name)
					}
					return p, nil
				},
				full: func() (out []string) {
					for _, it := range m.ListConsumables() {
						out = append(out, it.Name)
					}
					return
				},
				del: func(id string) error { _, err := m.DeleteConsumable(id); return err },
			}, nil
		}},
		{name: "vending.ListInventory", coq: "SInventory", chooseIDs: true, build: func(ids []string, n int, r *vcoq.Rand) (*inst, error) {
			m := vendingpb.NewModel()
			for _, id := range ids {
				if _, err := m.CreateStock(&traits.Consumable_Stock{Consumable: id}); err != nil {
					return nil, err
				}
			}
			s := vendingpb.NewModelServer(m)
			return &inst{
				call: func(size int32, tok string) (*page, error) {
					res, err := s.ListInventory(ctx, &traits.ListInventoryRequest{Name: "dev", PageSize: size, PageToken: tok})
					if err != nil {
						return nil, err
					}
					p := &page{next: res.NextPageToken, total: res.TotalSize}
					for _, it := range res.Inventory {
						p.keys = append(p.keys, it.Consumable)
					}
					return p, nil
				},
				full: func() (out []string) {
					for _, it := range m.ListInventory() {
						out = append(out, it.Consumable)
					}
					return
				},
				del: func(id string) error { _, err := m.DeleteStock(id); return err },
			}, nil
		}},
	}
}

// waste: NewModel always starts with 100 generated records; the harness empties the unexported
// slice (reflect + unsafe, harness only) so that every collection size can be exercised, and
// reads it back as the ground truth of what is stored.
func wasteRecords(m *wastepb.Model) *[]*traits.WasteRecord {
	f := reflect.ValueOf(m).Elem().FieldByName("allWasteRecords")
	return (*[]*traits.WasteRecord)(unsafe.Pointer(f.UnsafeAddr()))
}

func buildWaste(ids []string) (*inst, error) {
	m := wastepb.NewModel()
	*wasteRecords(m) = nil
	for _, id := range ids {
		if _, err := m.AddWasteRecord(&traits.WasteRecord{Id: id}); err != nil {
			return nil, err
		}
	}
	s := wastepb.NewModelServer(m)
	return &inst{
		call: func(size int32, tok string) (*page, error) {
			res, err := s.ListWasteRecords(ctx, &traits.ListWasteRecordsRequest{Name: "dev", PageSize: size, PageToken: tok})
			if err != nil {
				return nil, err
			}
			p := &page{next: res.NextPageToken, total: res.TotalSize}
			for _, it := range res.WasteRecords {
				p.keys = append(p.keys, it.Id)
			}
			return p, nil
		},
		full: func() (out []string) {
			for _, it := range *wasteRecords(m) {
				out = append(out, it.Id)
			}
			return
		},
	}, nil
}

// ---- tokens ----

type tokClass struct {
	kind string // "empty" | "key" | "malformed" ; waste: "empty" | "num" | "malformed"
	key  string
	num  int64
}

// classifyKeyToken decodes a token the way a client library would: base64, then types.PageToken.
func classifyKeyToken(tok string) tokClass {
	if tok == "" {
		return tokClass{kind: "empty"}
	}
	b, err := base64.StdEncoding.DecodeString(tok)
	if err != nil {
		return tokClass{kind: "malformed"}
	}
	pt := &types.PageToken{}
	if err := proto.Unmarshal(b, pt); err != nil {
		return tokClass{kind: "malformed"}
	}
	return tokClass{kind: "key", key: pt.GetLastResourceName()}
}

func classifyWasteToken(tok string) tokClass {
	if tok == "" {
		return tokClass{kind: "empty"}
	}
	v, err := strconv.Atoi(tok)
	if err != nil {
		return tokClass{kind: "malformed"}
	}
	return tokClass{kind: "num", num: int64(v)}
}

func keyToken(k string) string {
	b, _ := proto.Marshal(&types.PageToken{PageStart: &types.PageToken_LastResourceName{LastResourceName: k}})
	return base64.StdEncoding.EncodeToString(b)
}

func printable(s string) bool {
	for i := 0; i < len(s); i++ {
		if s[i] < 32 || s[i] >= 127 {
			return false
		}
	}
	return true
}

func (c tokClass) coqKey() string {
	switch c.kind {
	case "empty":
		return "TokEmpty"
	case "key":
		return vcoq.App("TokKey", vcoq.Str(c.key))
	}
	return "TokMalformed"
}
func (c tokClass) coqWaste() string {
	switch c.kind {
	case "empty":
		return "WEmpty"
	case "num":
		return vcoq.App("WNum", vcoq.Z(c.num))
	}
	return "WMalformed"
}

// ---- chains ----

type c15 struct {
	o       *vcoq.Out
	r       *vcoq.Rand
	skipped int
}

func coqStrs(l []string) string {
	it := make([]string, len(l))
	for i, s := range l {
		it[i] = vcoq.Str(s)
	}
	return vcoq.List(it)
}

func safeCall(in *inst, size int32, tok string) (p *page, err error, panicked any) {
	defer func() {
		if x := recover(); x != nil {
			panicked = x
		}
	}()
	p, err = in.call(size, tok)
	return
}

func sameStrs(a, b []string) bool {
	if len(a) != len(b) {
		return false
	}
	for i := range a {
		if a[i] != b[i] {
			return false
		}
	}
	return true
}

// chain runs one client loop and records it.  waste selects the numeric token flavour.
func (g *c15) chain(rp rpc, in *inst, size int32, tok0 string, tokTag string) {
	waste := rp.coq == ""
	keys := in.full()
	n := len(keys)
	var cls tokClass
	if waste {
		cls = classifyWasteToken(tok0)
	} else {
		cls = classifyKeyToken(tok0)
	}
	js := map[string]any{"rpc": rp.name, "keys": keys, "page_size": size, "page_token": tok0,
		"token_decoded": map[string]any{"kind": cls.kind, "key": cls.key, "num": cls.num}}
	if !printable(cls.key) {
		g.skipped++
		return
	}
	for _, k := range keys {
		if !printable(k) {
			g.skipped++
			return
		}
	}
	var obs []string
	var jobs []any
	tok := tok0
	outcome := "pages"
	calls := 0
	for i := 0; i < n+3; i++ {
		p, err, pan := safeCall(in, size, tok)
		calls++
		if pan != nil {
			obs = append(obs, "OPanic")
			jobs = append(jobs, map[string]any{"panic": fmt.Sprint(pan)})
			outcome = "panic"
			break
		}
		if err != nil {
			code := int(status.Code(err))
			obs = append(obs, vcoq.App("OErr", vcoq.Int(code)))
			jobs = append(jobs, map[string]any{"error_code": code})
			outcome = "error"
			break
		}
		next := "None"
		var jnext any
		if p.next != "" {
			if waste {
				c := classifyWasteToken(p.next)
				if c.kind != "num" {
					g.o.Directs = append(g.o.Directs, vcoq.Direct{What: rp.name + " returned a next_page_token it cannot parse itself", Class: "undecodable-next-token:" + rp.name, Replay: js})
					return
				}
				next = vcoq.Some(vcoq.Z(c.num))
				jnext = c.num
			} else {
				c := classifyKeyToken(p.next)
				if c.kind != "key" || !printable(c.key) {
					g.o.Directs = append(g.o.Directs, vcoq.Direct{What: rp.name + " returned a next_page_token that does not decode to a PageToken", Class: "undecodable-next-token:" + rp.name, Replay: js})
					return
				}
				next = vcoq.Some(vcoq.Str(c.key))
				jnext = c.key
			}
		}
		for _, k := range p.keys {
			if !printable(k) {
				g.skipped++
				return
			}
		}
		obs = append(obs, vcoq.App("OPage", coqStrs(p.keys), next, vcoq.Z(int64(p.total))))
		jobs = append(jobs, map[string]any{"keys": p.keys, "next": jnext, "total_size": p.total})
		if p.next == "" {
			break
		}
		tok = p.next
	}
	js["observed"] = jobs
	if after := in.full(); !sameStrs(after, keys) {
		g.o.Directs = append(g.o.Directs, vcoq.Direct{What: rp.name + " changed the collection while listing", Class: "list-mutates:" + rp.name, Replay: js})
	}
	var coq string
	if waste {
		coq = vcoq.App("KWaste", coqStrs(keys), vcoq.Z(int64(size)), cls.coqWaste(), vcoq.List(obs))
	} else {
		coq = vcoq.App("KKeys", rp.coq, coqStrs(keys), vcoq.Z(int64(size)), cls.coqKey(), vcoq.List(obs))
	}
	tags := []string{rp.name, "token:" + tokTag, "outcome:" + outcome}
	switch {
	case size < 0:
		tags = append(tags, "page_size:negative")
	case size == 0:
		tags = append(tags, "page_size:0(default)")
	case size > 1000:
		tags = append(tags, "page_size:>1000(capped)")
	default:
		tags = append(tags, "page_size:1..1000")
	}
	switch {
	case calls == 1:
		tags = append(tags, "calls:1")
	case calls <= 5:
		tags = append(tags, "calls:2-5")
	default:
		tags = append(tags, "calls:6+")
	}
	capSize := int(size)
	if size == 0 {
		capSize = 50
	} else if size > 1000 {
		capSize = 1000
	}
	if size >= 0 && n > 0 && n%capSize == 0 && cls.kind == "empty" {
		tags = append(tags, "n-multiple-of-page")
	}
	switch {
	case n == 0:
		tags = append(tags, "n:0")
	case n <= 60:
		tags = append(tags, "n:1-60")
	default:
		tags = append(tags, "n:>60")
	}
	g.o.Add(vcoq.Case{Coq: coq, JSON: js, Key: coq, NonTrivial: n > 0, Tags: tags})
}

// ---- generators ----

const alphabet = "ab0A_-~ ./"

// ids: n distinct non-empty printable ids; many extend another id (mutual prefixes) or differ in
// the last character only.
func (g *c15) ids(n int) []string {
	seen := map[string]bool{}
	var out []string
	maxLen := 3
	if n > 40 {
		maxLen = 6
	}
	for len(out) < n {
		var s string
		switch {
		case len(out) > 0 && g.r.Chance(40): // extend an existing id
			s = out[g.r.Intn(len(out))] + string(alphabet[g.r.Intn(len(alphabet))])
		case len(out) > 0 && g.r.Chance(20): // proper prefix of an existing id
			b := out[g.r.Intn(len(out))]
			s = b[:1+g.r.Intn(len(b))]
		default:
			l := g.r.Range(1, maxLen)
			bs := make([]byte, l)
			for i := range bs {
				bs[i] = alphabet[g.r.Intn(len(alphabet))]
			}
			s = string(bs)
		}
		if s == "" || seen[s] || len(s) > 12 {
			continue
		}
		seen[s] = true
		out = append(out, s)
	}
	return out
}

var pageSizes = []int32{-5, -4, -3, -2, -1, 0, 1, 2, 3, 7, 50, 1000, 5000}

func (g *c15) randomSize(n int) int32 {
	if g.r.Chance(6) {
		// the ends of the int32 range
		return []int32{2147483647, -2147483648, 2147483646, -2147483647}[g.r.Intn(4)]
	}
	switch g.r.Intn(4) {
	case 0:
		return int32(g.r.Range(1, n+2))
	case 1:
		return int32(g.r.Range(4, 70))
	case 2:
		return int32(g.r.Range(900, 1100))
	default:
		if n > 1 {
			// a divisor-ish size: exact multiples end with an empty trailing page in the key servers
			return int32(n / g.r.Range(1, 4))
		}
		return 1
	}
}

// sizesFor picks the page sizes paged over one collection.
func (g *c15) sizesFor(n int, all bool) []int32 {
	if n > 60 {
		// a thousand items: only page sizes that keep the chain short, around the cap
		out := []int32{0, 1000, 5000, int32(-1 - g.r.Intn(5)), int32(g.r.Range(300, 1100))}
		if n != 1001 {
			out = append(out, 999, 1001, 50)
		}
		return out
	}
	if all {
		return append(append([]int32{}, pageSizes...), g.randomSize(n), g.randomSize(n))
	}
	out := []int32{
		int32(-1 - g.r.Intn(5)),
		[]int32{0, 50}[g.r.Intn(2)],
		int32(1 + g.r.Intn(3)),
		7,
		[]int32{1000, 5000}[g.r.Intn(2)],
		g.randomSize(n),
	}
	for i, s := range out {
		if s == 0 && i != 1 {
			out[i] = 1
		}
	}
	return out
}

// tokenStreamSize: page size used with a corrupted / unexpected first token; now and then negative
// (both inputs bad at once).
func (g *c15) tokenStreamSize(n int) int32 {
	if g.r.Chance(8) {
		return int32(-1 - g.r.Intn(5))
	}
	if n > 60 {
		return []int32{0, 1000, 5000, 400}[g.r.Intn(4)]
	}
	return g.sizesFor(n, false)[1+g.r.Intn(5)]
}

// badKeyTokens: the malformed / unexpected stream for the key-token servers.
func (g *c15) badKeyTokens(keys []string) [][2]string {
	var out [][2]string
	add := func(tag, tok string) { out = append(out, [2]string{tag, tok}) }
	// not base64 at all
	add("bad-base64", "!!!not-base64!!!")
	add("bad-base64", "abc")  // wrong length
	add("bad-base64", "Zm9v=") // wrong padding
	add("bad-base64", "Cg\nNh")
	// base64 of bytes that are not a PageToken
	add("garbage-proto", base64.StdEncoding.EncodeToString([]byte{0x12, 0x05, 'a', 'b'}))       // truncated string
	add("garbage-proto", base64.StdEncoding.EncodeToString([]byte{0x12, 0x02, 0xff, 0xfe}))      // invalid UTF-8
	add("garbage-proto", base64.StdEncoding.EncodeToString([]byte{0xff, 0xff, 0xff, 0xff, 0xff})) // bad tag
	add("garbage-proto", base64.StdEncoding.EncodeToString([]byte{0x0f}))                        // wire type 7
	for i := 0; i < 3; i++ {
		b := make([]byte, g.r.Range(1, 9))
		for k := range b {
			b[k] = byte(g.r.Intn(256))
		}
		add("random-bytes", base64.StdEncoding.EncodeToString(b))
	}
	// decodes, but carries no resource name
	add("other-field", base64.StdEncoding.EncodeToString([]byte{0x08, 0x05}))            // last_offset = 5
	add("other-field", base64.StdEncoding.EncodeToString([]byte{0x1a, 0x01, 'x'}))       // unknown field 3
	add("other-field", base64.StdEncoding.EncodeToString([]byte{0x12, 0x00}))            // last_resource_name = ""
	add("other-field", base64.StdEncoding.EncodeToString([]byte{0x12, 0x01, 'a', 0x18, 0x01})) // name + unknown field
	// well-formed tokens naming keys that are not in the collection
	absent := []string{" ", "~~~~~~~~~~~~~", "a", "ab", "b", "A", "0", "zzz"}
	for i := 0; i < 4 && len(keys) > 0; i++ {
		k := keys[g.r.Intn(len(keys))]
		absent = append(absent, k+" ", k+"~")
		if len(k) > 1 {
			absent = append(absent, k[:len(k)-1])
		}
	}
	have := map[string]bool{}
	for _, k := range keys {
		have[k] = true
	}
	for _, k := range absent {
		if !have[k] {
			add("absent-key", keyToken(k))
		}
	}
	// well-formed tokens naming present keys (first, last, random)
	if len(keys) > 0 {
		add("present-key", keyToken(keys[0]))
		add("present-key", keyToken(keys[len(keys)-1]))
		add("present-key", keyToken(keys[g.r.Intn(len(keys))]))
	}
	return out
}

func (g *c15) badWasteTokens(n int) [][2]string {
	var out [][2]string
	add := func(tag, tok string) { out = append(out, [2]string{tag, tok}) }
	for _, t := range []string{"abc", "1.5", " 3", "3 ", "0x10", "99999999999999999999999", "-", "1e3", "Mw==", "٣"} {
		add("non-numeric", t)
	}
	for _, v := range []int{n + 1, n + 2, n + 50, 5000, 1 << 40} {
		add("above-count", strconv.Itoa(v))
	}
	for _, v := range []int{-1, -2, -50, -(1 << 40)} {
		add("negative", strconv.Itoa(v))
	}
	add("in-range", "0")
	add("in-range", strconv.Itoa(n))
	add("in-range", "+"+strconv.Itoa(n/2))
	add("in-range", "00"+strconv.Itoa(n/2))
	if n > 0 {
		add("in-range", strconv.Itoa(1+g.r.Intn(n)))
		add("in-range", strconv.Itoa(1+g.r.Intn(n)))
	}
	return out
}

func genC15(o *vcoq.Out, r *vcoq.Rand, tier string) error {
	o.Header = "From SC Require Import Base.Prelude Pages.Pager Pages.C15Judge."
	o.CaseType = "c15case"
	o.Judge = "judge"
	o.Shard = 150
	o.Rule = "one case = one client page chain against the real ModelServer (7 RPCs): collection sizes 0-60 (thorough: +999,1000,1001), page sizes {-5..0,1,2,3,7,50,1000,5000,random incl. divisors of n} (quick: 6 of them per collection, thorough: all), ids random over a 10-letter alphabet with ~50% extending or truncating another id (hail: ids allocated by the model from a scripted RNG that forces prefix collisions); token stream per collection: bad base64, base64 of non-PageToken bytes, PageTokens without resource name, absent keys (incl. a deleted key), present keys; waste: non-numeric, above count, negative, in-range numeric tokens. Non-trivial: non-empty collection. Distinct by the full case term."
	g := &c15{o: o, r: r}
	thorough := tier == "thorough"

	var ns []int
	for n := 0; n <= 60; n++ {
		ns = append(ns, n)
	}
	if thorough {
		// four rounds over the small sizes (fresh random ids each time), then the boundary sizes
		for round := 0; round < 3; round++ {
			for n := 0; n <= 60; n++ {
				ns = append(ns, n)
			}
		}
		ns = append(ns, 999, 1000, 1001)
	} else {
		ns = append(ns, 1001) // the cap of 1000 is only visible on a collection larger than it
	}

	all := rpcs()
	for _, rp := range all {
		for _, n := range ns {
			var ids []string
			if rp.chooseIDs {
				ids = g.ids(n)
			}
			in, err := rp.build(ids, n, r)
			if err != nil {
				return fmt.Errorf("%s: populating %d items: %v", rp.name, n, err)
			}
			keys := in.full()
			if rp.chooseIDs {
				want := append([]string{}, ids...)
				sort.Strings(want)
				if !sameStrs(want, keys) {
					o.Directs = append(o.Directs, vcoq.Direct{What: rp.name + ": model-level listing is not the sorted set of added ids", Class: "listing-not-sorted:" + rp.name, Replay: map[string]any{"rpc": rp.name, "added": ids, "listing": keys}})
					continue
				}
			} else if len(keys) != n {
				return fmt.Errorf("%s: %d items created, %d listed", rp.name, n, len(keys))
			}
			big := n > 60
			for _, size := range g.sizesFor(n, thorough && !big) {
				g.chain(rp, in, size, "", "empty")
			}
			// corrupted / unexpected first tokens: every 3rd collection in quick, all in thorough
			if thorough && !big || n%3 == 0 || n >= 49 && n <= 51 || n == 1001 {
				for i, bt := range g.badKeyTokens(keys) {
					if big && i%5 != n%5 {
						continue // a thousand keys per case: a fifth of the stream is enough
					}
					g.chain(rp, in, g.tokenStreamSize(n), bt[1], bt[0])
				}
				// a token naming a key that is deleted afterwards
				if n >= 2 && !big {
					victim := keys[g.r.Intn(n)]
					tok := keyToken(victim)
					if err := in.del(victim); err == nil {
						g.chain(rp, in, int32(1+g.r.Intn(4)), tok, "deleted-key")
					}
				}
			}
		}
	}

	// waste
	wrp := rpc{name: "waste.ListWasteRecords"}
	for _, n := range ns {
		ids := g.ids(n)
		in, err := buildWaste(ids)
		if err != nil {
			return fmt.Errorf("waste: populating %d records: %v", n, err)
		}
		if !sameStrs(in.full(), ids) {
			return fmt.Errorf("waste: stored records differ from the records added")
		}
		big := n > 60
		for _, size := range g.sizesFor(n, thorough && !big) {
			g.chain(wrp, in, size, "", "empty")
		}
		if thorough && !big || n%3 == 0 || n >= 49 && n <= 51 || n == 1001 {
			for i, bt := range g.badWasteTokens(n) {
				if big && i%3 != n%3 {
					continue
				}
				g.chain(wrp, in, g.tokenStreamSize(n), bt[1], bt[0])
			}
		}
	}
	o.Extra["skipped_unprintable"] = g.skipped
	return nil
}
