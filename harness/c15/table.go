package main

// Translator "pagers": reads pages.go and the List handlers of the six key-token packages, and the
// waste handler + Model.ListWasteRecords, from the tree under check (go/parser) and writes
// coq/theories/Gen/Pagers.v.  The pager model (Pages/Pager.v) takes its parameters from that table
// (default / max page size, base64 alphabet of encodePageToken and of decodePageToken, search
// operator, whether the page size is validated, whether the paged listing was read through the
// read mask) and Pages/PagerTable.v proves that every row satisfies what the theorems need.
//
// What is read:
//   pages.go     const defaultPageSize / maxPageSize; the `base64.<X>` selector inside
//                encodePageToken and inside decodePageToken; the text of capPageSize,
//                validatePageSize, decodePageToken, encodePageToken (gofmt-printed, with the base64
//                selector replaced by ENC) compared with the modelled text below.
//   List handler the operator of the comparison returned by the sort.Search predicate and whether a
//                `nextIndex++` step follows; the order decodePageToken < validatePageSize <
//                capPageSize; whether the listing call carries resource.WithReadMask; whether the listing
//                is re-sorted (sort.Slice) by the field the search compares, before the search; the operator of
//                `upperBound <op> len(items)`; whether TotalSize is int32(len(items)); and the whole
//                body, printed and normalised (listing variable -> L, key field -> K, receiver -> R,
//                traits.<T> -> traits.T, model listing method -> LIST, response items field -> ITEMS),
//                compared with the modelled text below.
//   waste        ListWasteRecords (handler) and Model.ListWasteRecords, printed, compared as a whole.

import (
	"bytes"
	"fmt"
	"go/ast"
	"go/parser"
	"go/printer"
	"go/token"
	"os"
	"path/filepath"
	"regexp"
	"strings"

	"github.com/smart-core-os/sc-golang/verifharness/vcoq"
	"github.com/smart-core-os/sc-golang/verifharness/vh"
)

func init() { vh.RegisterTranslator("pagers", genPagers) }

func repoDir() string {
	if d := os.Getenv("VERIF_REPO"); d != "" {
		return d
	}
	return "/repo"
}

type handlerSrc struct {
	server, pkg, fn string
}

var handlerSrcs = []handlerSrc{
	{"SElectric", "electricpb", "ListModes"},
	{"SHail", "hailpb", "ListHails"},
	{"SParent", "parentpb", "ListChildren"},
	{"SPublication", "publicationpb", "ListPublications"},
	{"SConsumables", "vendingpb", "ListConsumables"},
	{"SInventory", "vendingpb", "ListInventory"},
}

func printNode(fset *token.FileSet, n ast.Node) string {
	var b bytes.Buffer
	cfg := printer.Config{Mode: printer.UseSpaces | printer.TabIndent, Tabwidth: 8}
	cfg.Fprint(&b, fset, n)
	return b.String()
}

// stripComments parses without comments, so the printed text has none.
func parseFile(path string) (*token.FileSet, *ast.File, error) {
	fset := token.NewFileSet()
	f, err := parser.ParseFile(fset, path, nil, 0)
	return fset, f, err
}

func findFunc(f *ast.File, name string, method bool) *ast.FuncDecl {
	for _, d := range f.Decls {
		if fd, ok := d.(*ast.FuncDecl); ok && fd.Name.Name == name && (fd.Recv != nil) == method {
			return fd
		}
	}
	return nil
}

var reB64 = regexp.MustCompile(`base64\.(\w+)`)

func b64Of(text string) string {
	m := reB64.FindAllStringSubmatch(text, -1)
	if len(m) != 1 {
		return "B64Other"
	}
	switch m[0][1] {
	case "StdEncoding":
		return "B64Std"
	case "URLEncoding":
		return "B64Url"
	}
	return "B64Other"
}

const pagesGoText = `func capPageSize(pageSize int) int {
	if pageSize == 0 {
		return defaultPageSize
	}
	if pageSize > maxPageSize {
		return maxPageSize
	}
	return pageSize
}
func validatePageSize(pageSize int32) error {
	if pageSize < 0 {
		return status.Errorf(codes.InvalidArgument, "page size must not be negative: %d", pageSize)
	}
	return nil
}
func decodePageToken(token string, pageToken *types.PageToken) error {
	if token != "" {
		tokenBytes, err := ENC.DecodeString(token)
		if err != nil {
			return status.Errorf(codes.InvalidArgument, "bad page token: %v", err)
		}
		if err := proto.Unmarshal(tokenBytes, pageToken); err != nil {
			return status.Errorf(codes.InvalidArgument, "bad page token: %v", err)
		}
	}
	return nil
}
func encodePageToken(pageToken *types.PageToken) (string, error) {
	if pageToken != nil {
		tokenBytes, err := proto.Marshal(pageToken)
		if err != nil {
			return "", status.Errorf(codes.Unknown, "unable to create page token: %v", err)
		}
		return ENC.EncodeToString(tokenBytes), nil
	}
	return "", nil
}
`

type pagesRow struct {
	pkg, dflt, max, enc, dec string
	shape                    bool
}

func readPagesGo(pkg string) (pagesRow, error) {
	row := pagesRow{pkg: pkg, dflt: "0", max: "0", enc: "B64Other", dec: "B64Other"}
	fset, f, err := parseFile(filepath.Join(repoDir(), "pkg/trait", pkg, "pages.go"))
	if err != nil {
		return row, err
	}
	for _, d := range f.Decls {
		gd, ok := d.(*ast.GenDecl)
		if !ok || gd.Tok != token.CONST {
			continue
		}
		for _, s := range gd.Specs {
			vs := s.(*ast.ValueSpec)
			for i, n := range vs.Names {
				if i < len(vs.Values) {
					if lit, ok := vs.Values[i].(*ast.BasicLit); ok && lit.Kind == token.INT {
						switch n.Name {
						case "defaultPageSize":
							row.dflt = lit.Value
						case "maxPageSize":
							row.max = lit.Value
						}
					}
				}
			}
		}
	}
	var text strings.Builder
	for _, name := range []string{"capPageSize", "validatePageSize", "decodePageToken", "encodePageToken"} {
		fd := findFunc(f, name, false)
		if fd == nil {
			return row, nil
		}
		t := printNode(fset, fd)
		switch name {
		case "decodePageToken":
			row.dec = b64Of(t)
		case "encodePageToken":
			row.enc = b64Of(t)
		}
		text.WriteString(reB64.ReplaceAllString(t, "ENC") + "\n")
	}
	row.shape = text.String() == pagesGoText
	if os.Getenv("C15_TABLE_DEBUG") != "" && !row.shape {
		fmt.Fprintf(os.Stderr, "---- %s pages.go normalised:\n%s\n", pkg, text.String())
	}
	return row, nil
}

type handlerRow struct {
	src                                                   handlerSrc
	variant                                               string
	validates, maskBefore, resort, ubStrict, total, shape bool
}

func callName(e ast.Expr) string {
	c, ok := e.(*ast.CallExpr)
	if !ok {
		return ""
	}
	switch f := c.Fun.(type) {
	case *ast.Ident:
		return f.Name
	case *ast.SelectorExpr:
		if x, ok := f.X.(*ast.Ident); ok {
			return x.Name + "." + f.Sel.Name
		}
		return "." + f.Sel.Name
	}
	return ""
}

func readHandler(h handlerSrc) (handlerRow, error) {
	row := handlerRow{src: h, variant: "None"}
	fset, f, err := parseFile(filepath.Join(repoDir(), "pkg/trait", h.pkg, "model_server.go"))
	if err != nil {
		return row, err
	}
	fd := findFunc(f, h.fn, true)
	if fd == nil || fd.Body == nil {
		return row, nil
	}
	recv := ""
	if len(fd.Recv.List) == 1 && len(fd.Recv.List[0].Names) == 1 {
		recv = fd.Recv.List[0].Names[0].Name
	}
	// the listing variable: LHS of `X := <recv>.model.<Method>(...)`
	listVar, listMethod := "", ""
	var order []string
	searchOp, keyField := "", ""
	hasSkip := false
	ubOp := ""
	sortVar, sortField := "", "" // sort.Slice(V, func(i, j int) bool { return V[i].F < V[j].F })
	ast.Inspect(fd.Body, func(n ast.Node) bool {
		switch x := n.(type) {
		case *ast.AssignStmt:
			if len(x.Lhs) == 1 && len(x.Rhs) == 1 && listVar == "" {
				if c, ok := x.Rhs[0].(*ast.CallExpr); ok {
					// slices.Clone(<listing call>): a copy of the slice with the same elements (electricpb, so that
					// the sort and the in-place read-mask loop never touch a slice the model may hand out again;
					// C07's write-site policy) - invisible to the model of the pager, kept in the compared text
					if callName(c) == "slices.Clone" && len(c.Args) == 1 {
						if in, ok := c.Args[0].(*ast.CallExpr); ok {
							c = in
						}
					}
					if sel, ok := c.Fun.(*ast.SelectorExpr); ok {
						if in, ok := sel.X.(*ast.SelectorExpr); ok && in.Sel.Name == "model" {
							if id, ok := x.Lhs[0].(*ast.Ident); ok {
								listVar, listMethod = id.Name, sel.Sel.Name
								for _, a := range c.Args {
									if callName(a) == "resource.WithReadMask" {
										row.maskBefore = true
									}
								}
							}
						}
					}
				}
			}
		case *ast.CallExpr:
			switch nm := callName(x); nm {
			case "decodePageToken", "validatePageSize", "capPageSize", "sort.Search", "encodePageToken", "sort.Slice":
				order = append(order, nm)
				if nm == "sort.Slice" && len(x.Args) == 2 && sortVar == "" {
					if v, ok := x.Args[0].(*ast.Ident); ok {
						if fl, ok := x.Args[1].(*ast.FuncLit); ok && len(fl.Body.List) == 1 {
							q := regexp.QuoteMeta(v.Name)
							want := regexp.MustCompile(`^return ` + q + `\[i\]\.(\w+) < ` + q + `\[j\]\.(\w+)$`)
							if m := want.FindStringSubmatch(printNode(fset, fl.Body.List[0])); m != nil && m[1] == m[2] {
								sortVar, sortField = v.Name, m[1]
							}
						}
					}
				}
				if nm == "sort.Search" && len(x.Args) == 2 {
					if fl, ok := x.Args[1].(*ast.FuncLit); ok && len(fl.Body.List) == 1 {
						if rs, ok := fl.Body.List[0].(*ast.ReturnStmt); ok && len(rs.Results) == 1 {
							if be, ok := rs.Results[0].(*ast.BinaryExpr); ok {
								if r, ok := be.Y.(*ast.Ident); ok && r.Name == "lastKey" {
									if l, ok := be.X.(*ast.SelectorExpr); ok {
										searchOp, keyField = be.Op.String(), l.Sel.Name
									}
								}
							}
						}
					}
				}
			}
		case *ast.IncDecStmt:
			if id, ok := x.X.(*ast.Ident); ok && id.Name == "nextIndex" && x.Tok == token.INC {
				hasSkip = true
			}
		case *ast.IfStmt:
			if be, ok := x.Cond.(*ast.BinaryExpr); ok {
				if l, ok := be.X.(*ast.Ident); ok && l.Name == "upperBound" && callName(be.Y) == "len" {
					ubOp = be.Op.String()
				}
			}
		case *ast.KeyValueExpr:
			if k, ok := x.Key.(*ast.Ident); ok && k.Name == "TotalSize" {
				row.total = printNode(fset, x.Value) == "int32(len("+listVar+"))"
			}
		}
		return true
	})
	switch {
	case searchOp == ">" && !hasSkip:
		row.variant = "(Some VGreater)"
	case searchOp == ">=" && hasSkip:
		row.variant = "(Some VGeSkip)"
	}
	idx := func(s string) int {
		for i, o := range order {
			if o == s {
				return i
			}
		}
		return -1
	}
	row.validates = idx("decodePageToken") >= 0 && idx("decodePageToken") < idx("validatePageSize") && idx("validatePageSize") < idx("capPageSize")
	row.ubStrict = ubOp == ">"
	// re-sorted by the very field the search compares, after the listing was read and before the search
	row.resort = sortVar != "" && sortVar == listVar && sortField == keyField && idx("sort.Slice") >= 0 && idx("sort.Slice") < idx("sort.Search")
	// normalised body
	body := printNode(fset, fd.Body)
	if listVar != "" {
		body = regexp.MustCompile(`\b`+regexp.QuoteMeta(listVar)+`\b`).ReplaceAllString(body, "L")
	}
	if keyField != "" {
		body = regexp.MustCompile(`\.`+regexp.QuoteMeta(keyField)+`\b`).ReplaceAllString(body, ".K")
	}
	if recv != "" {
		body = regexp.MustCompile(`\b`+regexp.QuoteMeta(recv)+`\.model\.`+regexp.QuoteMeta(listMethod)+`\(`).ReplaceAllString(body, "R.model.LIST(")
	}
	body = regexp.MustCompile(`traits\.\w+`).ReplaceAllString(body, "traits.T")
	body = regexp.MustCompile(`result\.\w+ = L\[nextIndex:upperBound\]`).ReplaceAllString(body, "result.ITEMS = L[nextIndex:upperBound]")
	body = regexp.MustCompile(`range result\.\w+ \{`).ReplaceAllString(body, "range result.ITEMS {")
	body = regexp.MustCompile(`result\.\w+\[i\] = `).ReplaceAllString(body, "result.ITEMS[i] = ")
	row.shape = false
	for _, t := range handlerTexts {
		if body == t {
			row.shape = true
		}
	}
	if os.Getenv("C15_TABLE_DEBUG") != "" && !row.shape {
		fmt.Fprintf(os.Stderr, "---- %s.%s normalised:\n%s\n", h.pkg, h.fn, body)
	}
	return row, nil
}

func readWaste() (handlerOK, modelOK bool, err error) {
	fset, f, err := parseFile(filepath.Join(repoDir(), "pkg/trait/wastepb/model_server.go"))
	if err != nil {
		return false, false, err
	}
	if fd := findFunc(f, "ListWasteRecords", true); fd != nil {
		t := printNode(fset, fd.Body)
		handlerOK = t == wasteHandlerText
		if os.Getenv("C15_TABLE_DEBUG") != "" && !handlerOK {
			fmt.Fprintf(os.Stderr, "---- waste handler:\n%s\n", t)
		}
	}
	fset, f, err = parseFile(filepath.Join(repoDir(), "pkg/trait/wastepb/model.go"))
	if err != nil {
		return handlerOK, false, err
	}
	if fd := findFunc(f, "ListWasteRecords", true); fd != nil {
		t := printNode(fset, fd.Body)
		modelOK = t == wasteModelText
		if os.Getenv("C15_TABLE_DEBUG") != "" && !modelOK {
			fmt.Fprintf(os.Stderr, "---- waste model:\n%s\n", t)
		}
	}
	return handlerOK, modelOK, nil
}

func genPagers(outDir string) error {
	var b strings.Builder
	b.WriteString("(* GENERATED by harness/c15 (translator \"pagers\") on every check run from pkg/trait/*/pages.go,\n")
	b.WriteString("   pkg/trait/*/model_server.go and pkg/trait/wastepb/model.go (go/parser).  Do not edit. *)\n")
	b.WriteString("From SC Require Import Base.Prelude Pages.Codec Pages.PagerCfg.\n\n")
	seen := map[string]bool{}
	var prow []string
	for _, h := range handlerSrcs {
		if seen[h.pkg] {
			continue
		}
		seen[h.pkg] = true
		r, err := readPagesGo(h.pkg)
		if err != nil {
			return err
		}
		prow = append(prow, fmt.Sprintf("  {| pg_pkg := %s; pg_default := %s; pg_max := %s; pg_enc := %s; pg_dec := %s; pg_shape := %s |}",
			vcoq.Str(r.pkg), r.dflt, r.max, r.enc, r.dec, vcoq.Bool(r.shape)))
	}
	b.WriteString("Definition pages_go_table : list pages_go := [\n" + strings.Join(prow, ";\n") + "\n].\n\n")
	var hrow []string
	for _, h := range handlerSrcs {
		r, err := readHandler(h)
		if err != nil {
			return err
		}
		hrow = append(hrow, fmt.Sprintf("  {| h_server := %s; h_pkg := %s; h_variant := %s; h_validates := %s; h_mask_before := %s; h_resort := %s; h_ub_strict := %s; h_total_full := %s; h_shape := %s |}",
			h.server, vcoq.Str(h.pkg), r.variant, vcoq.Bool(r.validates), vcoq.Bool(r.maskBefore), vcoq.Bool(r.resort), vcoq.Bool(r.ubStrict), vcoq.Bool(r.total), vcoq.Bool(r.shape)))
	}
	b.WriteString("Definition handler_table : list handler_row := [\n" + strings.Join(hrow, ";\n") + "\n].\n\n")
	hok, mok, err := readWaste()
	if err != nil {
		return err
	}
	b.WriteString(fmt.Sprintf("Definition waste_source : waste_src := {| w_handler_shape := %s; w_model_shape := %s |}.\n", vcoq.Bool(hok), vcoq.Bool(mok)))
	return os.WriteFile(filepath.Join(outDir, "Pagers.v"), []byte(b.String()), 0o644)
}
