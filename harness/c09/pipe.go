package main

import (
	"context"
	"fmt"
	"runtime"
	"strconv"
	"strings"
	"sync"
	"time"

	"github.com/smart-core-os/sc-golang/internal/verifhook"
	"github.com/smart-core-os/sc-golang/pkg/resource"
	"github.com/smart-core-os/sc-golang/verifharness/vcoq"
)

// The assembled pipeline behind Collection.Pull, driven through the public API:
//   - writers are goroutines of the harness; every Update/Add writer is parked at the yield point
//     "coll.publish" (after its commit, before it takes its turn to publish) and released in commit
//     order: since /repo 3d54e87 publications leave in commit order (turnstile), so what the store
//     can produce is: several commits pending publication at once (overlapping writers, also of one
//     id), a subscription opening while commits its seed already shows are still unpublished (they
//     arrive later, in order, numbered <= seeded, before anything newer), never a crossing;
//   - the consumer is the driver itself: it receives when the schedule says so;
//   - "nothing to receive" and the final drain are read from the wait states of the pipeline's
//     goroutines in ONE runtime.Stack snapshot (Pull loop parked on its input, merge stage parked
//     on its input, changesAfter parked on its input), never from a timeout.
// The observation is the external trace (publications in the order the writes returned, deliveries);
// the model (Excess/Pipeline.v) is nondeterministic in its internal hand-overs and the case is
// compared with the set of traces it can produce (pipe_agrees_drained / b_explore).

const writeGuard = 5 * time.Second

type pwriter struct {
	ev      cchange
	id      int64
	commit  int64
	parked  chan struct{}
	release chan struct{}
	done    chan error
}

var parkMap sync.Map // goroutine id -> *pwriter

func pipeHook(point string) {
	if point != "coll.publish" {
		return
	}
	gid := goID()
	if v, ok := parkMap.LoadAndDelete(gid); ok {
		w := v.(*pwriter)
		close(w.parked)
		<-w.release
	}
}

// states of the goroutines created by `creator` through one of the functions, from one snapshot
type multiProbe struct {
	creator int64
	buf     []byte
}

func (m *multiProbe) states(fnsets ...[]string) []string {
	var dump []byte
	for {
		n := runtime.Stack(m.buf, true)
		if n < len(m.buf) {
			dump = m.buf[:n]
			break
		}
		m.buf = make([]byte, 2*len(m.buf))
	}
	out := make([]string, len(fnsets))
	suffix := " in goroutine " + strconv.FormatInt(m.creator, 10)
	for _, blk := range strings.Split(string(dump), "\n\n") {
		i := strings.LastIndex(blk, "created by ")
		if i < 0 {
			continue
		}
		line := blk[i:]
		if j := strings.IndexByte(line, '\n'); j >= 0 {
			line = line[:j]
		}
		line = strings.TrimSpace(line)
		if !strings.HasSuffix(line, suffix) {
			continue
		}
		for k, fns := range fnsets {
			for _, fn := range fns {
				if strings.Contains(line, fn+" in goroutine") {
					a, b := strings.IndexByte(blk, '['), strings.IndexByte(blk, ']')
					if a >= 0 && b > a {
						st := blk[a+1 : b]
						if c := strings.IndexByte(st, ','); c >= 0 {
							st = st[:c]
						}
						out[k] = st
					}
				}
			}
		}
	}
	return out
}

// waitGone waits until no goroutine of the given kinds created by this driver is left (those of the
// previous scenario end asynchronously after its context is cancelled; under load that takes a while,
// and a left-over would be mistaken for the new pipeline's goroutine)
func (m *multiProbe) waitGone(fnsets ...[]string) bool {
	deadline := time.Now().Add(10 * time.Second)
	for spin := 0; ; spin++ {
		gone := true
		for _, st := range m.states(fnsets...) {
			if st != "" {
				gone = false
			}
		}
		if gone {
			return true
		}
		if time.Now().After(deadline) {
			return false
		}
		if spin > 2 {
			time.Sleep(50 * time.Microsecond)
		} else {
			runtime.Gosched()
		}
	}
}

type pipeRun struct {
	bp      bool
	seeded  int64
	nseed   int
	hist    []pub
	trace   []string // Coq ext terms
	jtrace  []any
	blocked bool
	crossed bool
	overlap bool
	stale   bool
	why     string
	nrecv   int
}

var (
	fnPull  = []string{"resource.(*Collection).Pull"}
	fnMerge = []string{"resource.mergeCollectionExcess"}
	fnCA    = []string{"resource.changesAfter"}
)

// ok=false: the scenario could not be set up (yield point not reached, goroutines not visible)
func runPipe(r *vcoq.Rand, bp bool) (run pipeRun, ok bool, err error) {
	run.bp = bp
	c := resource.NewCollection()
	s := newSState()
	n := int64(0)
	var parked []*pwriter
	var live []*pwriter // every writer goroutine started, to release on the way out
	defer func() {
		for _, w := range live {
			select {
			case <-w.release:
			default:
				close(w.release)
			}
		}
	}()

	startWrite := func(id int64, w byte, park bool) *pwriter {
		ev := s.emit(id, w).C
		ev.Time = 0
		pw := &pwriter{ev: ev, id: id, parked: make(chan struct{}), release: make(chan struct{}), done: make(chan error, 1)}
		live = append(live, pw)
		go func() {
			if park {
				parkMap.Store(goID(), pw)
			}
			var e error
			switch w {
			case 'a':
				_, e = c.Add(idName(id), tok(*ev.New))
			case 'u':
				_, e = c.Update(idName(id), tok(*ev.New))
			default:
				_, e = c.Delete(idName(id))
			}
			pw.done <- e
		}()
		return pw
	}
	commit := func(pw *pwriter) {
		n++
		pw.commit = n
		run.hist = append(run.hist, pub{C: pw.ev, Commit: n})
	}
	lastPub := int64(0)
	published := func(pw *pwriter) {
		p := pub{C: pw.ev, Commit: pw.commit}
		run.trace = append(run.trace, fmt.Sprintf("EP %s %d", p.C.coq(), p.Commit))
		run.jtrace = append(run.jtrace, map[string]any{"published": p.js()})
		if p.Commit <= run.seeded {
			run.stale = true
		} else {
			if p.Commit < lastPub {
				run.crossed = true
			}
			lastPub = p.Commit
		}
	}
	waitDone := func(pw *pwriter) (bool, error) {
		t := time.NewTimer(writeGuard)
		defer t.Stop()
		select {
		case e := <-pw.done:
			return true, e
		case <-t.C:
			return false, nil
		}
	}
	waitParked := func(pw *pwriter) bool {
		t := time.NewTimer(writeGuard)
		defer t.Stop()
		select {
		case <-pw.parked:
			return true
		case <-pw.done:
			return false
		case <-t.C:
			return false
		}
	}
	// the collection before the subscription
	pre := r.Range(0, 3)
	for id := int64(0); id < int64(pre); id++ {
		pw := startWrite(id, 'a', false)
		if okd, e := waitDone(pw); !okd || e != nil {
			return run, false, fmt.Errorf("collection write failed: %v", e)
		}
		commit(pw)
	}
	nids := int64(pre) + int64(r.Range(1, 2))
	// writers that have committed and not yet published when the subscription opens
	for k := r.Intn(3); k > 0; k-- {
		id := int64(r.Intn(int(nids)))
		w := s.options(id)[0] // 'a' or 'u': a Delete publishes under the lock
		pw := startWrite(id, w, true)
		if !waitParked(pw) {
			return run, false, nil
		}
		commit(pw)
		parked = append(parked, pw)
	}
	ctx, cancel := context.WithCancel(context.Background())
	defer cancel()
	mp := &multiProbe{creator: goID(), buf: make([]byte, 1<<16)}
	if !mp.waitGone(fnPull, fnMerge, fnCA) {
		return run, false, nil
	}
	ch := c.Pull(ctx, resource.WithBackpressure(bp))
	run.seeded = n
	for _, v := range s.cur {
		if v != nil {
			run.nseed++
		}
	}
	// the goroutines are started before Pull returns: one snapshot tells whether they can be seen
	st0 := mp.states(fnPull, fnMerge, fnCA)
	if st0[0] == "" {
		return run, false, nil
	}
	// restructured code (stages started elsewhere / later): fall back to a timed look at the Pull loop
	mcVisible := st0[1] != "" && st0[2] != ""
	seedsLeft := run.nseed
	holding := false // backpressure: the Pull loop holds an event the consumer has not taken

	// tryRecv: a delivery, or the certainty that nothing is on its way
	tryRecv := func() (got bool, stuck bool) {
		deadline := time.Now().Add(writeGuard)
		for spin := 0; ; spin++ {
			select {
			case e, okc := <-ch:
				if !okc {
					return false, true
				}
				run.nrecv++
				if e.SeedValue {
					run.trace = append(run.trace, "ES")
					run.jtrace = append(run.jtrace, "seed received")
					seedsLeft--
				} else {
					cc := canonAPI(e)
					run.trace = append(run.trace, "ER "+cc.coq())
					run.jtrace = append(run.jtrace, map[string]any{"received": cc.js()})
					holding = false
				}
				return true, false
			default:
			}
			st := mp.states(fnPull, fnMerge, fnCA)
			switch {
			case st[0] == "select":
				// offering: the receive completes
				t := time.NewTimer(writeGuard)
				select {
				case e, okc := <-ch:
					t.Stop()
					if !okc {
						return false, true
					}
					run.nrecv++
					if e.SeedValue {
						run.trace = append(run.trace, "ES")
						run.jtrace = append(run.jtrace, "seed received")
						seedsLeft--
					} else {
						cc := canonAPI(e)
						run.trace = append(run.trace, "ER "+cc.coq())
						run.jtrace = append(run.jtrace, map[string]any{"received": cc.js()})
						holding = false
					}
					return true, false
				case <-t.C:
					return false, true
				}
			case st[0] == "chan receive" && (bp || (st[1] == "chan receive" && st[2] == "chan receive")):
				return false, false
			case st[0] == "chan receive" && !bp && !mcVisible:
				idle := true
				for k := 0; k < 3 && idle; k++ {
					time.Sleep(10 * time.Millisecond)
					if mp.states(fnPull)[0] != "chan receive" {
						idle = false
					}
				}
				if idle {
					return false, false
				}
			}
			if time.Now().After(deadline) {
				return false, true
			}
			if spin > 2 {
				time.Sleep(20 * time.Microsecond)
			} else {
				runtime.Gosched()
			}
		}
	}
	fail := func(why string) (pipeRun, bool, error) {
		run.blocked = true
		run.why = why
		cancel() // releases a writer stuck in bus.Send
		return run, true, nil
	}
	free := func() bool { return !bp || (seedsLeft == 0 && !holding) }
	notePublished := func(pw *pwriter) {
		published(pw)
		if bp && pw.commit > run.seeded {
			holding = true
		}
	}

	// parked is FIFO in commit order; only its head can publish
	publishNext := func() (pipeRun, bool, error, bool) {
		pw := parked[0]
		parked = parked[1:]
		close(pw.release)
		okd, e := waitDone(pw)
		if !okd {
			r, o, er := fail(fmt.Sprintf("the publication of commit %d did not complete within %v", pw.commit, writeGuard))
			return r, o, er, true
		}
		if e != nil {
			return run, false, fmt.Errorf("collection write failed: %v", e), true
		}
		notePublished(pw)
		return run, true, nil, false
	}
	steps := r.Range(3, 12)
	for i := 0; i < steps; i++ {
		k := r.Intn(100)
		switch {
		case k < 30 && len(parked) < 3: // a writer commits; its publication is pending
			id := int64(r.Intn(int(nids)))
			w := s.options(id)[0]
			pw := startWrite(id, w, true)
			if !waitParked(pw) {
				return run, false, nil
			}
			commit(pw)
			if len(parked) > 0 {
				run.overlap = true
			}
			parked = append(parked, pw)
		case k < 60 && len(parked) > 0 && free(): // the oldest pending commit publishes
			if rr, o, e, stop := publishNext(); stop {
				return rr, o, e
			}
		case k < 75 && len(parked) == 0 && free(): // a write that runs to completion (Delete included)
			id := int64(r.Intn(int(nids)))
			opts := s.options(id)
			w := opts[r.Intn(len(opts))]
			pw := startWrite(id, w, false)
			okd, e := waitDone(pw)
			if !okd {
				commit(pw)
				return fail(fmt.Sprintf("write %d (%c on k%d) did not return within %v", n, w, id, writeGuard))
			}
			if e != nil {
				return run, false, fmt.Errorf("collection write failed: %v", e)
			}
			commit(pw)
			notePublished(pw)
		default:
			if _, stuck := tryRecv(); stuck {
				return fail("an offered event could not be received")
			}
		}
	}
	// the end: everything pending publishes, in commit order, and the consumer drains
	for len(parked) > 0 {
		if !free() {
			if _, stuck := tryRecv(); stuck {
				return fail("an offered event could not be received")
			}
			continue
		}
		if rr, o, e, stop := publishNext(); stop {
			return rr, o, e
		}
	}
	for {
		got, stuck := tryRecv()
		if stuck {
			return fail("an offered event could not be received")
		}
		if !got {
			break
		}
	}
	return run, true, nil
}

func pipeCase(run pipeRun) vcoq.Case {
	ch := make([]string, len(run.hist))
	jh := make([]any, len(run.hist))
	for i, p := range run.hist {
		ch[i] = p.coq()
		jh[i] = p.js()
	}
	tags := []string{"pipe:lossy"}
	if run.bp {
		tags = []string{"pipe:backpressure"}
	}
	if run.crossed {
		tags = append(tags, "pipe:publications-crossed")
	}
	if run.stale {
		tags = append(tags, "pipe:stale-publication-arrives")
	}
	if run.overlap {
		tags = append(tags, "pipe:several-commits-pending-publication")
	}
	if run.nseed > 0 {
		tags = append(tags, "pipe:seeded")
	}
	js := map[string]any{"kind": "Collection.Pull pipeline", "backpressure": run.bp, "seeded_at_commit": run.seeded,
		"seed_events": run.nseed, "committed": jh, "trace": run.jtrace, "write_blocked": run.blocked}
	if run.why != "" {
		js["blocked_because"] = run.why
	}
	return vcoq.Case{
		Coq: fmt.Sprintf("KPipe %s %d %d%%nat 4%%nat [%s] [%s] %s", blit(run.bp), run.seeded, run.nseed,
			strings.Join(ch, "; "), strings.Join(run.trace, "; "), blit(run.blocked)),
		JSON:       js,
		Key:        fmt.Sprintf("p:%v:%d:%d:%s", run.bp, run.seeded, run.nseed, strings.Join(run.trace, ";")),
		NonTrivial: len(run.hist) >= 2,
		Tags:       tags,
	}
}

// runs alone: the yield hook is process-wide
func genPipe(o *vcoq.Out, r *vcoq.Rand, thorough bool) error {
	verifhook.Set(pipeHook)
	defer verifhook.Set(nil)
	np := 300
	if thorough {
		np = 2500
	}
	skipped, nblocked := 0, 0
	for i := 0; i < np && !tooMuchTrouble() && nblocked < 3; i++ {
		bp := i%4 == 3
		seed := r.U64()
		run, ok, err := runPipe(vcoq.NewRand(seed), bp)
		if err != nil {
			return err
		}
		if ok && run.blocked {
			// measured twice before it is reported
			run, ok, err = runPipe(vcoq.NewRand(seed), bp)
			if err != nil {
				return err
			}
			if ok && run.blocked {
				trouble.Add(1)
				nblocked++
			}
		}
		if !ok {
			skipped++
			continue
		}
		o.Add(pipeCase(run))
	}
	if skipped > 0 {
		o.Extra["pipe_scenarios_skipped"] = skipped
	}
	return nil
}
