package main

import (
	"context"
	"fmt"
	"sync"
	"time"

	"github.com/smart-core-os/sc-api/go/types"
	"github.com/smart-core-os/sc-golang/pkg/resource"
	"github.com/smart-core-os/sc-golang/verifharness/vcoq"
	"google.golang.org/protobuf/proto"
)

// Public-API part: resource.Collection / resource.Value with one subscriber.
// Wall-clock quantities (write latency, convergence within a budget, the five second send timeout)
// are measured here and reported as booleans / milliseconds; they are not part of any theorem.

const (
	writeBudget    = 250 * time.Millisecond // a write with an idle lossy subscriber must return within this
	convergeBudget = 3 * time.Second
	quiet          = 50 * time.Millisecond
)

// timed runs one write; blocked = it did not return within 2 s (it is abandoned: the caller
// cancels the subscription, which releases it)
func timed(f func() error) (dt time.Duration, err error, blocked bool) {
	done := make(chan error, 1)
	t0 := time.Now()
	go func() { done <- f() }()
	t := time.NewTimer(2 * time.Second)
	defer t.Stop()
	select {
	case err = <-done:
		return time.Since(t0), err, false
	case <-t.C:
		return time.Since(t0), nil, true
	}
}

func listZ(v []int64) string { return vcoq.ListZ(v) }

func coqChanges(l []cchange) string {
	it := make([]string, len(l))
	for i, c := range l {
		it[i] = c.coq()
	}
	return vcoq.List(it)
}
func jsChanges(l []cchange) []any {
	out := make([]any, len(l))
	for i, c := range l {
		out[i] = c.js()
	}
	return out
}

type collRun struct {
	bp        bool
	sent, got []cchange
	converged bool
	slow      bool
	maxWrite  time.Duration
	rounds    int
}

// one random valid write on the collection; returns the event the store must have published
func collWrite(c *resource.Collection, s *sstate, r *vcoq.Rand, nids int64) (cchange, time.Duration, error) {
	id := int64(r.Intn(int(nids)))
	opts := s.options(id)
	w := opts[r.Intn(len(opts))]
	if w == 'd' && r.Chance(40) {
		w = 'u'
	}
	ev := s.emit(id, w).C
	ev.Time = 0
	dt, err, blocked := timed(func() error {
		var err error
		switch w {
		case 'a':
			_, err = c.Add(idName(id), tok(*ev.New))
		case 'u':
			_, err = c.Update(idName(id), tok(*ev.New))
		default:
			_, err = c.Delete(idName(id))
		}
		return err
	})
	if blocked {
		err = errBlocked
	}
	return ev, dt, err
}

var errBlocked = fmt.Errorf("write did not return within 2 s")

func foldGo(view map[int64]int64, c cchange) {
	if c.Kind == int64(types.ChangeType_REMOVE) || c.New == nil {
		delete(view, c.ID)
		return
	}
	view[c.ID] = *c.New
}
func sameView(a, b map[int64]int64) bool {
	if len(a) != len(b) {
		return false
	}
	for k, v := range a {
		if w, ok := b[k]; !ok || w != v {
			return false
		}
	}
	return true
}

func canonAPI(c *resource.CollectionChange) cchange {
	cc := canonChange(c)
	cc.Time = 0
	return cc
}

// lossy: the subscriber sleeps during each burst, then reads until its folded view equals the
// committed view (or the budget runs out)
func runCollLossy(r *vcoq.Rand, rounds, burst int, nids int64) (collRun, error) {
	run := collRun{converged: true, rounds: rounds}
	c := resource.NewCollection()
	ctx, cancel := context.WithCancel(context.Background())
	defer cancel()
	ch := c.Pull(ctx)
	s := newSState()
	committed, seen := map[int64]int64{}, map[int64]int64{}
	for round := 0; round < rounds; round++ {
		n := r.Range(1, burst)
		for i := 0; i < n; i++ {
			ev, dt, err := collWrite(c, s, r, nids)
			if err == errBlocked {
				// the writer waited for the idle subscriber: recorded, not a harness error
				run.sent = append(run.sent, ev)
				run.slow, run.converged = true, false
				return run, nil
			}
			if err != nil {
				return run, fmt.Errorf("collection write failed: %v", err)
			}
			run.sent = append(run.sent, ev)
			foldGo(committed, ev)
			if dt > run.maxWrite {
				run.maxWrite = dt
			}
		}
		// catch up: read until the folded view equals the committed one; then, because equal
		// views do not prove that nothing is in flight (an ADD held by the Pull goroutine and
		// its REMOVE still pending cancel out in the view), wait a little for stragglers and
		// go back to reading if one shows up
		q := time.Millisecond
		if round == rounds-1 {
			q = quiet
		}
		deadline := time.NewTimer(convergeBudget)
		for {
			for !sameView(committed, seen) {
				select {
				case e, ok := <-ch:
					if !ok {
						run.converged = false
						deadline.Stop()
						return run, nil
					}
					cc := canonAPI(e)
					run.got = append(run.got, cc)
					foldGo(seen, cc)
				case <-deadline.C:
					run.converged = false
					return run, nil
				}
			}
			t := time.NewTimer(q)
			straggler := false
			select {
			case e, ok := <-ch:
				if ok {
					cc := canonAPI(e)
					run.got = append(run.got, cc)
					foldGo(seen, cc)
					straggler = true
				}
			case <-t.C:
			}
			t.Stop()
			if !straggler {
				break
			}
		}
		deadline.Stop()
	}
	run.slow = run.maxWrite > writeBudget
	return run, nil
}

// backpressure: a subscriber that keeps receiving gets every event
func runCollBackpressure(r *vcoq.Rand, n int, nids int64) (collRun, error) {
	run := collRun{bp: true, converged: true}
	c := resource.NewCollection()
	ctx, cancel := context.WithCancel(context.Background())
	defer cancel()
	ch := c.Pull(ctx, resource.WithBackpressure(true))
	var mu sync.Mutex
	var got []cchange
	done := make(chan struct{})
	go func() {
		defer close(done)
		for e := range ch {
			mu.Lock()
			got = append(got, canonAPI(e))
			mu.Unlock()
			if r := len(got); r%7 == 3 {
				time.Sleep(50 * time.Microsecond) // an uneven reader
			}
		}
	}()
	s := newSState()
	for i := 0; i < n; i++ {
		ev, dt, err := collWrite(c, s, r, nids)
		if err == errBlocked {
			run.sent = append(run.sent, ev)
			run.converged = false
			break
		}
		if err != nil {
			return run, fmt.Errorf("collection write failed: %v", err)
		}
		run.sent = append(run.sent, ev)
		if dt > run.maxWrite {
			run.maxWrite = dt
		}
	}
	deadline := time.Now().Add(convergeBudget)
	for {
		mu.Lock()
		k := len(got)
		mu.Unlock()
		if k >= n {
			break
		}
		if time.Now().After(deadline) {
			run.converged = false
			break
		}
		time.Sleep(100 * time.Microsecond)
	}
	time.Sleep(time.Millisecond)
	cancel()
	<-done
	run.got = got
	return run, nil
}

type valRun struct {
	bp        bool
	sent, got []int64
	converged bool
	slow      bool
}

func runValueLossy(r *vcoq.Rand, rounds, burst int) (valRun, error) {
	run := valRun{converged: true}
	v := resource.NewValue(resource.WithInitialValue(tok(0)))
	ctx, cancel := context.WithCancel(context.Background())
	defer cancel()
	ch := v.Pull(ctx)
	select { // the seed
	case <-ch:
	case <-time.After(convergeBudget):
		return run, fmt.Errorf("no seed value from Value.Pull")
	}
	next := int64(1)
	var maxWrite time.Duration
	for round := 0; round < rounds; round++ {
		n := r.Range(1, burst)
		var last int64
		for i := 0; i < n; i++ {
			var res proto.Message
			tk := tok(next)
			dt, err, blocked := timed(func() error { var e error; res, e = v.Set(tk); return e })
			if blocked || err != nil {
				// the writer waited for the idle subscriber (and possibly ran into the send timeout)
				run.sent = append(run.sent, next)
				run.slow, run.converged = true, false
				return run, nil
			}
			last = *canonValue(res)
			run.sent = append(run.sent, last)
			next++
			if dt > maxWrite {
				maxWrite = dt
			}
		}
		deadline := time.NewTimer(convergeBudget)
		for len(run.got) == 0 || run.got[len(run.got)-1] != last {
			select {
			case e, ok := <-ch:
				if !ok {
					run.converged = false
					return run, nil
				}
				run.got = append(run.got, *canonValue(e.Value))
			case <-deadline.C:
				run.converged = false
				return run, nil
			}
		}
		deadline.Stop()
	}
	t := time.NewTimer(quiet)
	select {
	case e, ok := <-ch:
		if ok {
			run.got = append(run.got, *canonValue(e.Value))
		}
	case <-t.C:
	}
	t.Stop()
	run.slow = maxWrite > writeBudget
	return run, nil
}

func runValueBackpressure(n int) (valRun, error) {
	run := valRun{bp: true, converged: true}
	v := resource.NewValue(resource.WithInitialValue(tok(0)))
	ctx, cancel := context.WithCancel(context.Background())
	defer cancel()
	ch := v.Pull(ctx, resource.WithBackpressure(true), resource.WithUpdatesOnly(true))
	var mu sync.Mutex
	var got []int64
	done := make(chan struct{})
	go func() {
		defer close(done)
		for e := range ch {
			mu.Lock()
			got = append(got, *canonValue(e.Value))
			mu.Unlock()
		}
	}()
	for i := 1; i <= n; i++ {
		res, err := v.Set(tok(int64(i)))
		if err != nil {
			return run, fmt.Errorf("Value.Set failed: %v", err)
		}
		run.sent = append(run.sent, *canonValue(res))
	}
	deadline := time.Now().Add(convergeBudget)
	for {
		mu.Lock()
		k := len(got)
		mu.Unlock()
		if k >= n {
			break
		}
		if time.Now().After(deadline) {
			run.converged = false
			break
		}
		time.Sleep(100 * time.Microsecond)
	}
	time.Sleep(time.Millisecond)
	cancel()
	<-done
	run.got = got
	return run, nil
}

// with backpressure and a subscriber that does not receive, the first write returns (the Pull
// goroutine holds one event), the second waits, and completes once the subscriber receives
func runWaits(useValue bool) (first, early, after bool) {
	ctx, cancel := context.WithCancel(context.Background())
	defer cancel()
	var write func(i int64) error
	var recv func()
	if useValue {
		v := resource.NewValue(resource.WithInitialValue(tok(0)))
		ch := v.Pull(ctx, resource.WithBackpressure(true), resource.WithUpdatesOnly(true))
		write = func(i int64) error { _, err := v.Set(tok(i)); return err }
		recv = func() { <-ch }
	} else {
		c := resource.NewCollection()
		ch := c.Pull(ctx, resource.WithBackpressure(true))
		write = func(i int64) error { _, err := c.Update("k0", tok(i), resource.WithCreateIfAbsent()); return err }
		recv = func() { <-ch }
	}
	d1 := make(chan error, 1)
	go func() { d1 <- write(1) }()
	select {
	case err := <-d1:
		first = err == nil
	case <-time.After(time.Second):
		return false, false, false
	}
	d2 := make(chan error, 1)
	go func() { d2 <- write(2) }()
	select {
	case <-d2:
		early = true
	case <-time.After(150 * time.Millisecond):
	}
	recv()
	select {
	case err := <-d2:
		after = err == nil
	case <-time.After(2 * time.Second):
	}
	go func() { // let everything unwind
		defer func() { recover() }()
		recv()
	}()
	return
}

// Value.Set with a backpressured subscriber that never receives: the second write must come
// back with an error after the five second send timeout (thorough tier only: takes 5 s)
func runTimeout() (errored bool, ms int64) {
	ctx, cancel := context.WithCancel(context.Background())
	defer cancel()
	v := resource.NewValue(resource.WithInitialValue(tok(0)))
	_ = v.Pull(ctx, resource.WithBackpressure(true), resource.WithUpdatesOnly(true))
	if _, err := v.Set(tok(1)); err != nil {
		return false, 0
	}
	done := make(chan error, 1)
	t0 := time.Now()
	go func() { _, err := v.Set(tok(2)); done <- err }()
	select {
	case err := <-done:
		return err != nil, time.Since(t0).Milliseconds()
	case <-time.After(12 * time.Second):
		return false, 12000
	}
}

func genAPI(o *vcoq.Out, r *vcoq.Rand, thorough bool) error {
	nl, nb := 40, 12
	if thorough {
		nl, nb = 600, 150
	}
	// runs are independent; execute them concurrently (they mostly wait), generate inputs serially
	type job struct {
		kind string
		seed uint64
		a, b int
		ids  int64
	}
	var jobs []job
	for i := 0; i < nl; i++ {
		jobs = append(jobs, job{"coll-lossy", r.U64(), r.Range(1, 6), []int{3, 8, 30}[r.Intn(3)], int64(r.Range(1, 4))})
		jobs = append(jobs, job{"value-lossy", r.U64(), r.Range(1, 6), []int{3, 8, 30}[r.Intn(3)], 0})
	}
	for i := 0; i < nb; i++ {
		jobs = append(jobs, job{"coll-bp", r.U64(), r.Range(1, 60), 0, int64(r.Range(1, 4))})
		jobs = append(jobs, job{"value-bp", r.U64(), r.Range(1, 60), 0, 0})
	}
	cases := make([]*vcoq.Case, len(jobs))
	errs := make([]error, len(jobs))
	trouble.Store(0)
	parallel(len(jobs), func(i int) {
		j := jobs[i]
		if tooMuchTrouble() {
			return
		}
		switch j.kind {
		case "coll-lossy", "coll-bp":
			var run collRun
			var err error
			// a wall-clock observation that fails is measured a second time before it is
			// reported: a blocked writer repeats, a scheduling hiccup of the host does not
			for attempt := 0; attempt < 2; attempt++ {
				if j.kind == "coll-lossy" {
					run, err = runCollLossy(vcoq.NewRand(j.seed), j.a, j.b, j.ids)
				} else {
					run, err = runCollBackpressure(vcoq.NewRand(j.seed), j.a, j.ids)
				}
				if err != nil || (run.converged && !run.slow) {
					break
				}
			}
			if err != nil {
				errs[i] = err
				return
			}
			if !run.converged || run.slow {
				trouble.Add(1)
			}
			tags := []string{"api:" + j.kind}
			if len(run.got) < len(run.sent) {
				tags = append(tags, "api:events-merged")
			}
			cases[i] = &vcoq.Case{
				Coq: fmt.Sprintf("KApiColl %s %s %s %s %s", blit(run.bp), coqChanges(run.sent), coqChanges(run.got), blit(run.converged), blit(run.slow)),
				JSON: map[string]any{"kind": "Collection.Pull", "backpressure": run.bp, "committed": jsChanges(run.sent), "received": jsChanges(run.got),
					"converged": run.converged, "write_over_budget": run.slow},
				Key:        fmt.Sprintf("api:%s:%d:%d", j.kind, len(run.sent), len(run.got)),
				NonTrivial: len(run.sent) >= 2,
				Tags:       tags,
			}
		default:
			var run valRun
			var err error
			for attempt := 0; attempt < 2; attempt++ {
				if j.kind == "value-lossy" {
					run, err = runValueLossy(vcoq.NewRand(j.seed), j.a, j.b)
				} else {
					run, err = runValueBackpressure(j.a)
				}
				if err != nil || (run.converged && !run.slow) {
					break
				}
			}
			if err != nil {
				errs[i] = err
				return
			}
			if !run.converged || run.slow {
				trouble.Add(1)
			}
			tags := []string{"api:" + j.kind}
			if len(run.got) < len(run.sent) {
				tags = append(tags, "api:values-dropped")
			}
			cases[i] = &vcoq.Case{
				Coq: fmt.Sprintf("KApiValue %s %s %s %s %s", blit(run.bp), listZ(run.sent), listZ(run.got), blit(run.converged), blit(run.slow)),
				JSON: map[string]any{"kind": "Value.Pull", "backpressure": run.bp, "written": run.sent, "received": run.got,
					"converged": run.converged, "write_over_budget": run.slow},
				Key:        fmt.Sprintf("api:%s:%d:%d", j.kind, len(run.sent), len(run.got)),
				NonTrivial: len(run.sent) >= 2,
				Tags:       tags,
			}
		}
	})
	for i, c := range cases {
		if errs[i] != nil {
			return errs[i]
		}
		if c != nil {
			o.Add(*c)
		}
	}
	for _, useValue := range []bool{false, true} {
		first, early, after := runWaits(useValue)
		if !(first && !early && after) {
			first, early, after = runWaits(useValue) // measured twice before it is reported
		}
		name := "Collection"
		if useValue {
			name = "Value"
		}
		o.Add(vcoq.Case{
			Coq:        fmt.Sprintf("KApiWaits %s %s %s", blit(first), blit(early), blit(after)),
			JSON:       map[string]any{"kind": name + " backpressure, subscriber not receiving", "first_write_returned": first, "second_returned_before_receive": early, "second_returned_after_receive": after},
			Key:        "api:waits:" + name,
			NonTrivial: true,
			Tags:       []string{"api:writer-waits"},
		})
	}
	if thorough {
		errored, ms := runTimeout()
		o.Add(vcoq.Case{
			Coq:        fmt.Sprintf("KApiTimeout %s %s", blit(errored), zlit(ms)),
			JSON:       map[string]any{"kind": "Value.Set send timeout", "errored": errored, "elapsed_ms": ms},
			Key:        "api:timeout",
			NonTrivial: true,
			Tags:       []string{"api:send-timeout"},
		})
	}
	return nil
}
