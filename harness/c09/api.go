package main

import (
	"context"
	"fmt"
	"sync"
	"sync/atomic"
	"time"

	"github.com/smart-core-os/sc-api/go/types"
	"github.com/smart-core-os/sc-golang/internal/verifhook"
	"github.com/smart-core-os/sc-golang/pkg/resource"
	"github.com/smart-core-os/sc-golang/verifharness/vcoq"
	"google.golang.org/protobuf/proto"
)

// Public-API part: resource.Collection / resource.Value with one subscriber.
// Wall-clock quantities (write latency, convergence within a budget, the five second send timeout)
// are measured here and reported as booleans / milliseconds; they are not part of any theorem.

const (
	writeBudget    = 250 * time.Millisecond // a write with an idle lossy subscriber must return within this
	convergeBudget = 3 * time.Second
	quiet          = 50 * time.Millisecond
)

// timed runs one write; blocked = it did not return within 2 s (it is abandoned: the caller
// cancels the subscription, which releases it)
func timed(f func() error) (dt time.Duration, err error, blocked bool) {
	done := make(chan error, 1)
	t0 := time.Now()
	go func() { done <- f() }()
	t := time.NewTimer(2 * time.Second)
	defer t.Stop()
	select {
	case err = <-done:
		return time.Since(t0), err, false
	case <-t.C:
		return time.Since(t0), nil, true
	}
}

func listZ(v []int64) string { return vcoq.ListZ(v) }

func coqChanges(l []cchange) string {
	it := make([]string, len(l))
	for i, c := range l {
		it[i] = c.coq()
	}
	return vcoq.List(it)
}
func jsChanges(l []cchange) []any {
	out := make([]any, len(l))
	for i, c := range l {
		out[i] = c.js()
	}
	return out
}

// wclock gives the writes of a run explicit write times (resource.WithWriteTime) that jump forwards
// and backwards: delivery must not depend on change times being monotonic (a back-dated write, a
// clock that steps back).  Off for half of the runs (default clock).
type wclock struct {
	r  *vcoq.Rand
	on bool
}

func newWClock(r *vcoq.Rand) *wclock { return &wclock{r: r, on: r.Chance(50)} }

func (w *wclock) opts() []resource.WriteOption {
	if w == nil || !w.on {
		return nil
	}
	return []resource.WriteOption{resource.WithWriteTime(time.Unix(1_700_000_000+int64(w.r.Range(-5000, 5000)), 0))}
}

type collRun struct {
	pre         int  // items in the collection when the subscription opened
	seedsTaken  int  // seed events the consumer had received before the first write
	writeTimes  bool // explicit non-monotonic write times
	updatesOnly bool
	scenario    string // "" single subscriber; otherwise the multi-subscriber scenario and this subscriber's role
	bp          bool
	sent, got   []cchange
	converged   bool
	slow        bool
	maxWrite    time.Duration
	rounds      int
	blockedAt   int // 1-based index of the write that did not return within 2 s (0: none)
}

// one random valid write on the collection; returns the event the store must have published
func collWrite(c *resource.Collection, s *sstate, r *vcoq.Rand, nids int64, wc *wclock) (cchange, time.Duration, error) {
	id := int64(r.Intn(int(nids)))
	opts := s.options(id)
	w := opts[r.Intn(len(opts))]
	if w == 'd' && r.Chance(40) {
		w = 'u'
	}
	return collWriteAt(c, s, id, w, wc)
}

// the write `w` ('a' add, 'u' update, 'd' delete; must be valid in state s) on id
func collWriteAt(c *resource.Collection, s *sstate, id int64, w byte, wc *wclock) (cchange, time.Duration, error) {
	ev := s.emit(id, w).C
	ev.Time = 0
	wo := wc.opts()
	dt, err, blocked := timed(func() error {
		var err error
		switch w {
		case 'a':
			_, err = c.Add(idName(id), tok(*ev.New), wo...)
		case 'u':
			_, err = c.Update(idName(id), tok(*ev.New), wo...)
		default:
			_, err = c.Delete(idName(id), wo...)
		}
		return err
	})
	if blocked {
		err = errBlocked
	}
	return ev, dt, err
}

var errBlocked = fmt.Errorf("write did not return within 2 s")

func foldGo(view map[int64]int64, c cchange) {
	if c.Kind == int64(types.ChangeType_REMOVE) || c.New == nil {
		delete(view, c.ID)
		return
	}
	view[c.ID] = *c.New
}
func sameView(a, b map[int64]int64) bool {
	if len(a) != len(b) {
		return false
	}
	for k, v := range a {
		if w, ok := b[k]; !ok || w != v {
			return false
		}
	}
	return true
}

func canonAPI(c *resource.CollectionChange) cchange {
	cc := canonChange(c)
	// change times and seed flags are not C09's subject (C04 / C03); a seed event counts as the ADD it is
	cc.Time, cc.Seed, cc.Last = 0, false, false
	return cc
}

// lossy: the subscriber sleeps during each burst, then reads until its folded view equals the
// committed view (or the budget runs out)
//
// pre > 0: the collection holds items 0..pre-1 when the subscription opens.  A seeded subscriber
// takes only some (0..pre-1) of its seed events before the writes start: writes must not wait for
// the rest of the seed to be consumed.  The items are the head of the committed script; a seeded
// subscriber receives them as its seed, an updates-only one is taken to know them already (they
// are put at the head of its received list: that is its start view).
func runCollLossy(r *vcoq.Rand, rounds, burst int, nids int64, updatesOnly bool, pre int) (collRun, error) {
	run := collRun{converged: true, rounds: rounds, updatesOnly: updatesOnly, pre: pre}
	wc := newWClock(r)
	run.writeTimes = wc.on
	c := resource.NewCollection()
	s := newSState()
	committed, seen := map[int64]int64{}, map[int64]int64{}
	for id := int64(0); id < int64(pre); id++ {
		ev, _, err := collWriteAt(c, s, id, 'a', wc)
		if err != nil {
			return run, fmt.Errorf("collection write failed: %v", err)
		}
		run.sent = append(run.sent, ev)
		foldGo(committed, ev)
		if updatesOnly {
			run.got = append(run.got, ev)
			foldGo(seen, ev)
		}
	}
	ctx, cancel := context.WithCancel(context.Background())
	defer cancel()
	ch := c.Pull(ctx, resource.WithUpdatesOnly(updatesOnly))
	if !updatesOnly && pre > 0 {
		run.seedsTaken = r.Intn(pre)
		for i := 0; i < run.seedsTaken; i++ {
			select {
			case e := <-ch:
				cc := canonAPI(e)
				run.got = append(run.got, cc)
				foldGo(seen, cc)
			case <-time.After(convergeBudget):
				run.converged = false
				return run, nil
			}
		}
	}
	for round := 0; round < rounds; round++ {
		n := burstSize(r, burst)
		for i := 0; i < n; i++ {
			ev, dt, err := collWrite(c, s, r, nids, wc)
			if err == errBlocked {
				// the writer waited for the idle subscriber: recorded, not a harness error
				run.sent = append(run.sent, ev)
				run.slow, run.converged = true, false
				return run, nil
			}
			if err != nil {
				return run, fmt.Errorf("collection write failed: %v", err)
			}
			run.sent = append(run.sent, ev)
			foldGo(committed, ev)
			if dt > run.maxWrite {
				run.maxWrite = dt
			}
		}
		// catch up: read until the folded view equals the committed one; then, because equal
		// views do not prove that nothing is in flight (an ADD held by the Pull goroutine and
		// its REMOVE still pending cancel out in the view), wait a little for stragglers and
		// go back to reading if one shows up
		q := time.Millisecond
		if round == rounds-1 {
			q = quiet
		}
		deadline := time.NewTimer(convergeBudget)
		for {
			for !sameView(committed, seen) {
				select {
				case e, ok := <-ch:
					if !ok {
						run.converged = false
						deadline.Stop()
						return run, nil
					}
					cc := canonAPI(e)
					run.got = append(run.got, cc)
					foldGo(seen, cc)
				case <-deadline.C:
					run.converged = false
					return run, nil
				}
			}
			t := time.NewTimer(q)
			straggler := false
			select {
			case e, ok := <-ch:
				if ok {
					cc := canonAPI(e)
					run.got = append(run.got, cc)
					foldGo(seen, cc)
					straggler = true
				}
			case <-t.C:
			}
			t.Stop()
			if !straggler {
				break
			}
		}
		deadline.Stop()
	}
	run.slow = run.maxWrite > writeBudget
	return run, nil
}

// The size dimension through the public API: ONE burst that leaves n different ids changed while
// the lossy subscriber takes nothing (it may have taken a few of its seed events), then the drain.
// A stage with a capacity (bounded map / queue, "hand over the oldest first") makes some write of
// the burst wait for the reader; every write is timed (2 s guard = blocked).  The first `pre`
// writes of the script happen before the subscription opens (a seeded subscriber gets their fold
// as its seed, an updates-only one is taken to know them, see runCollLossy).
func runCollBig(r *vcoq.Rand, n int, updatesOnly bool, pre int) (collRun, error) {
	run := collRun{converged: true, rounds: 1, updatesOnly: updatesOnly, scenario: fmt.Sprintf("one burst over %d different ids (+%d that are added and removed) while the subscriber takes nothing, then it drains", n, n/5)}
	wc := newWClock(r)
	run.writeTimes = wc.on
	var plan []act
	for _, a := range bigBurst(r, n, 0) {
		if a.Kind == 'S' {
			plan = append(plan, a)
		}
	}
	if pre > len(plan) {
		pre = len(plan)
	}
	c := resource.NewCollection()
	s := newSState()
	committed, seen := map[int64]int64{}, map[int64]int64{}
	write := func(a act) (cchange, time.Duration, error) {
		return collWriteAt(c, s, a.C.ID, "?aud"[a.C.Kind], wc)
	}
	for _, a := range plan[:pre] {
		ev, _, err := write(a)
		if err != nil {
			return run, fmt.Errorf("collection write failed: %v", err)
		}
		run.sent = append(run.sent, ev)
		foldGo(committed, ev)
		if updatesOnly {
			run.got = append(run.got, ev)
			foldGo(seen, ev)
		}
	}
	run.pre = len(committed)
	ctx, cancel := context.WithCancel(context.Background())
	defer cancel()
	ch := c.Pull(ctx, resource.WithUpdatesOnly(updatesOnly))
	take := func() bool {
		select {
		case e, ok := <-ch:
			if !ok {
				return false
			}
			cc := canonAPI(e)
			run.got = append(run.got, cc)
			foldGo(seen, cc)
			return true
		case <-time.After(convergeBudget):
			return false
		}
	}
	if !updatesOnly && run.pre > 0 {
		run.seedsTaken = r.Intn(min(run.pre, 4))
		for i := 0; i < run.seedsTaken; i++ {
			if !take() {
				run.converged = false
				return run, nil
			}
		}
	}
	for _, a := range plan[pre:] {
		ev, dt, err := write(a)
		if err == errBlocked {
			run.sent = append(run.sent, ev)
			run.slow, run.converged, run.blockedAt = true, false, len(run.sent)
			return run, nil
		}
		if err != nil {
			return run, fmt.Errorf("collection write failed: %v", err)
		}
		run.sent = append(run.sent, ev)
		foldGo(committed, ev)
		if dt > run.maxWrite {
			run.maxWrite = dt
		}
	}
	// drain: at most one event per id ever touched (+ seed), then a quiet period
	for budget := len(plan) + run.pre + 2; budget > 0 && !(len(seen) == len(committed) && sameView(committed, seen)); budget-- {
		if !take() {
			run.converged = false
			return run, nil
		}
	}
	if !sameView(committed, seen) {
		run.converged = false
		return run, nil
	}
	for {
		t := time.NewTimer(quiet)
		select {
		case e, ok := <-ch:
			t.Stop()
			if ok {
				cc := canonAPI(e)
				run.got = append(run.got, cc)
				foldGo(seen, cc)
				continue
			}
		case <-t.C:
		}
		break
	}
	// over thousands of writes on a loaded host one scheduling hiccup above the 250 ms budget is
	// likely; what the size dimension looks for is a writer WAITING (blocked above), so the
	// latency budget is four times the usual one here
	run.slow = run.maxWrite > 4*writeBudget
	return run, nil
}

// backpressure: a subscriber that keeps receiving gets every event
func runCollBackpressure(r *vcoq.Rand, n int, nids int64, updatesOnly bool, pre int) (collRun, error) {
	run := collRun{bp: true, converged: true, updatesOnly: updatesOnly, pre: pre}
	wc := newWClock(r)
	run.writeTimes = wc.on
	c := resource.NewCollection()
	s := newSState()
	var mu sync.Mutex
	var got []cchange
	for id := int64(0); id < int64(pre); id++ {
		ev, _, err := collWriteAt(c, s, id, 'a', wc)
		if err != nil {
			return run, fmt.Errorf("collection write failed: %v", err)
		}
		run.sent = append(run.sent, ev)
		if updatesOnly {
			got = append(got, ev) // the start view, see runCollLossy
		}
	}
	n += pre
	ctx, cancel := context.WithCancel(context.Background())
	defer cancel()
	ch := c.Pull(ctx, resource.WithBackpressure(true), resource.WithUpdatesOnly(updatesOnly))
	done := make(chan struct{})
	go func() {
		defer close(done)
		for e := range ch {
			mu.Lock()
			got = append(got, canonAPI(e))
			mu.Unlock()
			if r := len(got); r%7 == 3 {
				time.Sleep(50 * time.Microsecond) // an uneven reader
			}
		}
	}()
	for i := pre; i < n; i++ {
		ev, dt, err := collWrite(c, s, r, nids, wc)
		if err == errBlocked {
			run.sent = append(run.sent, ev)
			run.converged = false
			break
		}
		if err != nil {
			return run, fmt.Errorf("collection write failed: %v", err)
		}
		run.sent = append(run.sent, ev)
		if dt > run.maxWrite {
			run.maxWrite = dt
		}
	}
	deadline := time.Now().Add(convergeBudget)
	for {
		mu.Lock()
		k := len(got)
		mu.Unlock()
		if k >= n {
			break
		}
		if time.Now().After(deadline) {
			run.converged = false
			break
		}
		time.Sleep(100 * time.Microsecond)
	}
	time.Sleep(time.Millisecond)
	cancel()
	<-done
	run.got = got
	return run, nil
}

// several writes while the subscriber is stalled (the Pull goroutine absorbs the first one, so a
// blocking path only shows from the second write on); sometimes a single one
func burstSize(r *vcoq.Rand, burst int) int {
	if r.Chance(15) {
		return 1
	}
	return r.Range(2, burst+1)
}

type valRun struct {
	writeTimes  bool
	updatesOnly bool
	scenario    string
	bp          bool
	sent, got   []int64
	converged   bool
	slow        bool
}

func runValueLossy(r *vcoq.Rand, rounds, burst int, updatesOnly bool) (valRun, error) {
	run := valRun{converged: true, updatesOnly: updatesOnly}
	wc := newWClock(r)
	run.writeTimes = wc.on
	v := resource.NewValue(resource.WithInitialValue(tok(0)))
	ctx, cancel := context.WithCancel(context.Background())
	defer cancel()
	ch := v.Pull(ctx, resource.WithUpdatesOnly(updatesOnly))
	if !updatesOnly {
		select { // the seed
		case <-ch:
		case <-time.After(convergeBudget):
			return run, fmt.Errorf("no seed value from Value.Pull")
		}
	}
	next := int64(1)
	var maxWrite time.Duration
	for round := 0; round < rounds; round++ {
		n := burstSize(r, burst)
		var last int64
		for i := 0; i < n; i++ {
			var res proto.Message
			tk := tok(next)
			wo := wc.opts()
			dt, err, blocked := timed(func() error { var e error; res, e = v.Set(tk, wo...); return e })
			if blocked || err != nil {
				// the writer waited for the idle subscriber (and possibly ran into the send timeout)
				run.sent = append(run.sent, next)
				run.slow, run.converged = true, false
				return run, nil
			}
			last = *canonValue(res)
			run.sent = append(run.sent, last)
			next++
			if dt > maxWrite {
				maxWrite = dt
			}
		}
		deadline := time.NewTimer(convergeBudget)
		for len(run.got) == 0 || run.got[len(run.got)-1] != last {
			select {
			case e, ok := <-ch:
				if !ok {
					run.converged = false
					return run, nil
				}
				run.got = append(run.got, *canonValue(e.Value))
			case <-deadline.C:
				run.converged = false
				return run, nil
			}
		}
		deadline.Stop()
	}
	t := time.NewTimer(quiet)
	select {
	case e, ok := <-ch:
		if ok {
			run.got = append(run.got, *canonValue(e.Value))
		}
	case <-t.C:
	}
	t.Stop()
	run.slow = maxWrite > writeBudget
	return run, nil
}

func runValueBackpressure(r *vcoq.Rand, n int, updatesOnly bool) (valRun, error) {
	run := valRun{bp: true, converged: true, updatesOnly: updatesOnly}
	wc := newWClock(r)
	run.writeTimes = wc.on
	v := resource.NewValue(resource.WithInitialValue(tok(0)))
	ctx, cancel := context.WithCancel(context.Background())
	defer cancel()
	ch := v.Pull(ctx, resource.WithBackpressure(true), resource.WithUpdatesOnly(updatesOnly))
	if !updatesOnly {
		select { // the seed
		case <-ch:
		case <-time.After(convergeBudget):
			return run, fmt.Errorf("no seed value from Value.Pull")
		}
	}
	var mu sync.Mutex
	var got []int64
	done := make(chan struct{})
	go func() {
		defer close(done)
		for e := range ch {
			mu.Lock()
			got = append(got, *canonValue(e.Value))
			mu.Unlock()
		}
	}()
	for i := 1; i <= n; i++ {
		var res proto.Message
		tk := tok(int64(i))
		wo := wc.opts()
		_, err, blocked := timed(func() error { var e error; res, e = v.Set(tk, wo...); return e })
		if blocked || err != nil {
			run.sent = append(run.sent, int64(i))
			run.converged = false
			break
		}
		run.sent = append(run.sent, *canonValue(res))
	}
	deadline := time.Now().Add(convergeBudget)
	for {
		mu.Lock()
		k := len(got)
		mu.Unlock()
		if k >= n {
			break
		}
		if time.Now().After(deadline) {
			run.converged = false
			break
		}
		time.Sleep(100 * time.Microsecond)
	}
	time.Sleep(time.Millisecond)
	cancel()
	<-done
	run.got = got
	return run, nil
}

// with backpressure and a subscriber that does not receive, the first write returns (the Pull
// goroutine holds one event), the second waits, and completes once the subscriber receives
func runWaits(useValue bool) (first, early, after bool) {
	ctx, cancel := context.WithCancel(context.Background())
	defer cancel()
	var write func(i int64) error
	var recv func()
	if useValue {
		v := resource.NewValue(resource.WithInitialValue(tok(0)))
		ch := v.Pull(ctx, resource.WithBackpressure(true), resource.WithUpdatesOnly(true))
		write = func(i int64) error { _, err := v.Set(tok(i)); return err }
		recv = func() { <-ch }
	} else {
		c := resource.NewCollection()
		ch := c.Pull(ctx, resource.WithBackpressure(true))
		write = func(i int64) error { _, err := c.Update("k0", tok(i), resource.WithCreateIfAbsent()); return err }
		recv = func() { <-ch }
	}
	d1 := make(chan error, 1)
	go func() { d1 <- write(1) }()
	select {
	case err := <-d1:
		first = err == nil
	case <-time.After(time.Second):
		return false, false, false
	}
	d2 := make(chan error, 1)
	go func() { d2 <- write(2) }()
	select {
	case <-d2:
		early = true
	case <-time.After(150 * time.Millisecond):
	}
	recv()
	select {
	case err := <-d2:
		after = err == nil
	case <-time.After(2 * time.Second):
	}
	go func() { // let everything unwind
		defer func() { recover() }()
		recv()
	}()
	return
}

// Value.Set with a backpressured subscriber that has stopped receiving: the write whose event cannot
// be handed over must come back with an ERROR after the five second send timeout -- not hang, and
// not report success for an event nobody was sent -- and the resource must be usable afterwards: once
// the subscriber resumes (or cancels) the next write proceeds and is delivered.  One measurement
// takes ~5 s of waiting (no CPU); it runs beside the other public-API runs, in both tiers.
//
//	resume = true : updates-only subscriber; write 1 is absorbed by the Pull goroutine, write 2 times
//	                out; the subscriber then receives (gets 1), write 3 must return and be delivered;
//	                then it cancels and write 4 must return
//	resume = false: seeded subscriber that never takes its seed (its Pull goroutine never reads the
//	                bus): write 1 times out; the subscriber cancels; write 2 must return
type timeoutRun struct {
	resume      bool
	errored     bool
	ms          int64
	laterOK     bool
	laterDetail string
	written     []int64 // every value passed to Set while the subscription was open, in order
	got         []int64 // what the subscriber received (resume only)
}

func (t timeoutRun) good() bool { return t.errored && t.ms >= 4000 && t.ms <= 9000 && t.laterOK }

func runTimeout(resume bool) (run timeoutRun) {
	run.resume = resume
	ctx, cancel := context.WithCancel(context.Background())
	defer cancel()
	v := resource.NewValue(resource.WithInitialValue(tok(0)))
	ch := v.Pull(ctx, resource.WithBackpressure(true), resource.WithUpdatesOnly(resume))
	next := int64(1)
	set := func() (time.Duration, error, bool) {
		tk := tok(next)
		run.written = append(run.written, next)
		next++
		return timed(func() error { _, e := v.Set(tk); return e })
	}
	if resume {
		if _, err, blocked := set(); err != nil || blocked {
			run.laterDetail = "the first write (absorbed by the Pull goroutine) did not return"
			return
		}
	}
	// the write that cannot be delivered
	done := make(chan error, 1)
	t0 := time.Now()
	tk := tok(next)
	run.written = append(run.written, next)
	next++
	go func() { _, err := v.Set(tk); done <- err }()
	select {
	case err := <-done:
		run.errored, run.ms = err != nil, time.Since(t0).Milliseconds()
	case <-time.After(12 * time.Second):
		run.errored, run.ms = false, 12000
		run.laterDetail = "the undeliverable write was still blocked after 12 s"
		return
	}
	recv := func() bool {
		select {
		case e, ok := <-ch:
			if !ok {
				return false
			}
			run.got = append(run.got, *canonValue(e.Value))
			return true
		case <-time.After(2 * time.Second):
			return false
		}
	}
	if resume {
		if !recv() {
			run.laterDetail = "the resumed subscriber received nothing within 2 s"
			return
		}
		if _, err, blocked := set(); err != nil || blocked {
			run.laterDetail = fmt.Sprintf("the write after the subscriber resumed did not return within 2 s or failed (blocked=%v err=%v)", blocked, err)
			return
		}
		if !recv() {
			run.laterDetail = "the write after the subscriber resumed was not delivered within 2 s"
			return
		}
	}
	cancel()
	open := len(run.written) // `written` lists the writes made while the subscription was open
	_, err, blocked := set()
	run.written = run.written[:open]
	if err != nil || blocked {
		run.laterDetail = fmt.Sprintf("the write after the subscriber cancelled did not return within 2 s or failed (blocked=%v err=%v)", blocked, err)
		return
	}
	run.laterOK = true
	return
}

func timeoutCase(t timeoutRun) vcoq.Case {
	what := "seeded backpressured subscriber never takes its seed; write 1 cannot be handed over; then the subscriber cancels and write 2 runs"
	if t.resume {
		what = "updates-only backpressured subscriber stops receiving; write 1 is absorbed by the Pull goroutine, write 2 cannot be handed over; then the subscriber receives, write 3 runs and is received; it cancels, write 4 runs"
	}
	return vcoq.Case{
		Coq: fmt.Sprintf("KApiTimeout %s %s %s %s %s %s", blit(t.resume), blit(t.errored), zlit(t.ms), blit(t.laterOK), listZ(t.written), listZ(t.got)),
		JSON: map[string]any{"kind": "Value.Set send timeout", "scenario": what, "undeliverable_write_returned_error": t.errored, "elapsed_ms": t.ms,
			"later_writes_ok": t.laterOK, "later_detail": t.laterDetail, "written": t.written, "received": t.got},
		Key:        fmt.Sprintf("api:timeout:%v", t.resume),
		NonTrivial: true,
		Tags:       []string{"api:send-timeout"},
	}
}

// ---- several subscribers on one resource ----
//
// minibus.Bus hands ONE event object to every listener.  A stalled lossy subscriber L (its merge
// stage has pending changes and merges every later event into them) must not disturb a prompt
// backpressured subscriber B on the same collection: B's stream must be the exact committed edit
// script (one event per write, kinds, per-id old/new chain), whichever of the two registered
// first; L's fold, once drained, must equal the final List.  B keeps the event pointers and they
// are read only after L has drained, i.e. after every merge that could have touched them.
func runMultiColl(r *vcoq.Rand, lossyFirst bool, nids int64, updatesOnly bool) (b, l collRun, err error) {
	order := "backpressured subscriber registered first, stalled lossy one second"
	if lossyFirst {
		order = "stalled lossy subscriber registered first, prompt backpressured one second"
	}
	b = collRun{bp: true, converged: true, updatesOnly: updatesOnly, scenario: order + "; this is the backpressured subscriber"}
	l = collRun{converged: true, updatesOnly: updatesOnly, scenario: order + "; this is the lossy subscriber (drained after all writes)"}
	wc := newWClock(r)
	b.writeTimes, l.writeTimes = wc.on, wc.on
	c := resource.NewCollection()
	ctx, cancel := context.WithCancel(context.Background())
	defer cancel()
	var chL, chB <-chan *resource.CollectionChange
	if lossyFirst {
		chL = c.Pull(ctx, resource.WithUpdatesOnly(updatesOnly))
		chB = c.Pull(ctx, resource.WithBackpressure(true), resource.WithUpdatesOnly(updatesOnly))
	} else {
		chB = c.Pull(ctx, resource.WithBackpressure(true), resource.WithUpdatesOnly(updatesOnly))
		chL = c.Pull(ctx, resource.WithUpdatesOnly(updatesOnly))
	}
	var mu sync.Mutex
	var gotB []*resource.CollectionChange
	done := make(chan struct{})
	go func() {
		defer close(done)
		for e := range chB {
			mu.Lock()
			gotB = append(gotB, e)
			mu.Unlock()
		}
	}()
	// writes: id 0 goes through add, update, update, remove, re-add, update; every other id through
	// add, update, update; then random valid writes
	s := newSState()
	type wr struct {
		id int64
		w  byte
	}
	plan := []wr{{0, 'a'}, {0, 'u'}, {0, 'u'}, {0, 'd'}, {0, 'a'}, {0, 'u'}}
	for id := int64(1); id < nids; id++ {
		plan = append(plan, wr{id, 'a'}, wr{id, 'u'}, wr{id, 'u'})
	}
	// interleave the per-id plans a little: rotate by a random amount per id boundary is not valid
	// (order within an id matters), so shuffle by merging the per-id queues randomly
	queues := map[int64][]wr{}
	for _, w := range plan {
		queues[w.id] = append(queues[w.id], w)
	}
	var maxWrite time.Duration
	committed := map[int64]int64{}
	write := func(ev cchange, dt time.Duration, werr error) bool {
		if werr == errBlocked {
			b.sent, l.sent = append(b.sent, ev), append(l.sent, ev)
			b.converged, l.converged, l.slow = false, false, true
			return false
		}
		if werr != nil {
			err = fmt.Errorf("collection write failed: %v", werr)
			return false
		}
		b.sent, l.sent = append(b.sent, ev), append(l.sent, ev)
		foldGo(committed, ev)
		if dt > maxWrite {
			maxWrite = dt
		}
		return true
	}
	ok := true
	for ok && len(queues) > 0 {
		ids := make([]int64, 0, len(queues))
		for id := int64(0); id < nids; id++ {
			if len(queues[id]) > 0 {
				ids = append(ids, id)
			}
		}
		if len(ids) == 0 {
			break
		}
		id := ids[r.Intn(len(ids))]
		w := queues[id][0]
		queues[id] = queues[id][1:]
		ok = write(collWriteAt(c, s, w.id, w.w, wc))
	}
	for i := int64(0); ok && i < 2*nids; i++ {
		ok = write(collWrite(c, s, r, nids, wc))
	}
	if err != nil {
		return
	}
	n := len(b.sent)
	if ok {
		deadline := time.Now().Add(convergeBudget)
		for {
			mu.Lock()
			k := len(gotB)
			mu.Unlock()
			if k >= n {
				break
			}
			if time.Now().After(deadline) {
				b.converged = false
				break
			}
			time.Sleep(100 * time.Microsecond)
		}
		// now drain L: read until its fold is the committed view, then a quiet period
		seen := map[int64]int64{}
		deadlineT := time.NewTimer(convergeBudget)
	drain:
		for {
			for !sameView(committed, seen) {
				select {
				case e, okc := <-chL:
					if !okc {
						l.converged = false
						break drain
					}
					cc := canonAPI(e)
					l.got = append(l.got, cc)
					foldGo(seen, cc)
				case <-deadlineT.C:
					l.converged = false
					break drain
				}
			}
			t := time.NewTimer(quiet)
			select {
			case e, okc := <-chL:
				t.Stop()
				if okc {
					cc := canonAPI(e)
					l.got = append(l.got, cc)
					foldGo(seen, cc)
					continue
				}
			case <-t.C:
			}
			break
		}
		deadlineT.Stop()
		// the final List must be the committed view (and hence L's fold)
		vals := map[int64]int{}
		for _, m := range c.List() {
			vals[*canonValue(m)]++
		}
		for _, v := range committed {
			vals[v]--
		}
		for _, k := range vals {
			if k != 0 {
				l.converged = false
			}
		}
	}
	l.slow = l.slow || maxWrite > writeBudget
	cancel()
	<-done
	for _, e := range gotB {
		b.got = append(b.got, canonAPI(e))
	}
	return
}

func runMultiValue(r *vcoq.Rand, lossyFirst bool, n int, updatesOnly bool) (b, l valRun, err error) {
	wc := newWClock(r)
	order := "backpressured subscriber registered first, stalled lossy one second"
	if lossyFirst {
		order = "stalled lossy subscriber registered first, prompt backpressured one second"
	}
	b = valRun{bp: true, converged: true, updatesOnly: true, writeTimes: wc.on, scenario: order + "; this is the backpressured subscriber"}
	l = valRun{converged: true, updatesOnly: updatesOnly, writeTimes: wc.on, scenario: order + "; this is the lossy subscriber (drained after all writes)"}
	v := resource.NewValue(resource.WithInitialValue(tok(0)))
	ctx, cancel := context.WithCancel(context.Background())
	defer cancel()
	var chL, chB <-chan *resource.ValueChange
	if lossyFirst {
		chL = v.Pull(ctx, resource.WithUpdatesOnly(updatesOnly))
		chB = v.Pull(ctx, resource.WithBackpressure(true), resource.WithUpdatesOnly(true))
	} else {
		chB = v.Pull(ctx, resource.WithBackpressure(true), resource.WithUpdatesOnly(true))
		chL = v.Pull(ctx, resource.WithUpdatesOnly(updatesOnly))
	}
	if !updatesOnly {
		select { // L's seed
		case <-chL:
		case <-time.After(convergeBudget):
			return b, l, fmt.Errorf("no seed value from Value.Pull")
		}
	}
	var mu sync.Mutex
	var gotB []*resource.ValueChange
	done := make(chan struct{})
	go func() {
		defer close(done)
		for e := range chB {
			mu.Lock()
			gotB = append(gotB, e)
			mu.Unlock()
		}
	}()
	var maxWrite time.Duration
	var last int64
	ok := true
	for i := 1; i <= n; i++ {
		var res proto.Message
		tk := tok(int64(i))
		wo := wc.opts()
		dt, werr, blocked := timed(func() error { var e error; res, e = v.Set(tk, wo...); return e })
		if blocked || werr != nil {
			b.sent, l.sent = append(b.sent, int64(i)), append(l.sent, int64(i))
			b.converged, l.converged, l.slow = false, false, true
			ok = false
			break
		}
		last = *canonValue(res)
		b.sent, l.sent = append(b.sent, last), append(l.sent, last)
		if dt > maxWrite {
			maxWrite = dt
		}
	}
	if ok {
		deadline := time.Now().Add(convergeBudget)
		for {
			mu.Lock()
			k := len(gotB)
			mu.Unlock()
			if k >= n {
				break
			}
			if time.Now().After(deadline) {
				b.converged = false
				break
			}
			time.Sleep(100 * time.Microsecond)
		}
		deadlineT := time.NewTimer(convergeBudget)
		for len(l.got) == 0 || l.got[len(l.got)-1] != last {
			select {
			case e, okc := <-chL:
				if !okc {
					l.converged = false
				} else {
					l.got = append(l.got, *canonValue(e.Value))
					continue
				}
			case <-deadlineT.C:
				l.converged = false
			}
			break
		}
		deadlineT.Stop()
	}
	l.slow = l.slow || maxWrite > writeBudget
	cancel()
	<-done
	for _, e := range gotB {
		b.got = append(b.got, *canonValue(e.Value))
	}
	return
}

// A writer held between commit and publish (yield point "coll.publish") while a lossy, seeded
// subscription opens and another write publishes first: the held ADD is already in the seed, so
// when it finally reaches the bus it must not be delivered again -- merged with a later REMOVE in
// the lossy stage it would cancel the REMOVE and the stalled subscriber would keep the item for
// ever.  Runs alone (the hook is process-wide).  ok=false: the yield point was never reached
// (hook removed or renamed), the scenario is then skipped.
func runStalePublish() (run collRun, ok bool, err error) {
	run = collRun{converged: true, pre: 1, scenario: "writer of ADD k0 parked at coll.publish; lossy seeded Pull opens; ADD k1 commits (its publication waits its turn); k0 is released: ADD k0 (stale) then ADD k1 publish; Delete k0; then the subscriber starts receiving"}
	c := resource.NewCollection()
	var armed atomic.Bool
	armed.Store(true)
	parked, release := make(chan struct{}), make(chan struct{})
	second := make(chan struct{})
	var secondOnce sync.Once
	verifhook.Set(func(point string) {
		if point != "coll.publish" {
			return
		}
		if armed.CompareAndSwap(true, false) {
			close(parked)
			<-release
			return
		}
		secondOnce.Do(func() { close(second) })
	})
	defer verifhook.Set(nil)
	aDone := make(chan error, 1)
	go func() { _, e := c.Add("k0", tok(1)); aDone <- e }()
	select {
	case <-parked:
	case e := <-aDone:
		close(release)
		return run, false, e
	case <-time.After(2 * time.Second):
		close(release)
		return run, false, nil
	}
	ctx, cancel := context.WithCancel(context.Background())
	defer cancel()
	ch := c.Pull(ctx) // seed shows k0
	one, two := int64(1), int64(2)
	evs := []cchange{{ID: 0, Kind: 1, New: &one}, {ID: 1, Kind: 1, New: &two}, {ID: 0, Kind: 3, Old: &one}}
	var maxWrite time.Duration
	step := func(f func() error) bool {
		dt, e, blocked := timed(f)
		if blocked {
			run.slow, run.converged = true, false
			return false
		}
		if e != nil {
			err = e
			return false
		}
		if dt > maxWrite {
			maxWrite = dt
		}
		return true
	}
	// Add k1 commits while k0's publication is pending: since /repo 3d54e87 it waits its turn (publications
	// leave in commit order), so it runs on its own goroutine; both must return once k0 is released
	bDone := make(chan error, 1)
	go func() { _, e := c.Add("k1", tok(2)); bDone <- e }()
	okw := true
	select {
	case <-second: // k1 has committed
	case e := <-bDone: // (a version without the turnstile publishes at once)
		bDone <- e
	case <-time.After(5 * time.Second):
		okw = false
	}
	t0 := time.Now()
	close(release)
	for _, d := range []chan error{aDone, bDone} {
		select {
		case e := <-d:
			if e != nil && err == nil {
				err = e
			}
		case <-time.After(5 * time.Second):
			run.slow, run.converged, okw = true, false, false
			cancel() // a writer stuck in bus.Send is released when the listener's context ends
		}
	}
	if dt := time.Since(t0); dt > maxWrite {
		maxWrite = dt
	}
	if okw && err == nil {
		okw = step(func() error { _, e := c.Delete("k0"); return e })
	}
	run.sent = evs
	if err != nil {
		return run, true, err
	}
	if okw {
		committed, seen := map[int64]int64{1: 2}, map[int64]int64{}
		deadline := time.NewTimer(convergeBudget)
		defer deadline.Stop()
	drain:
		for {
			for !sameView(committed, seen) || len(run.got) == 0 {
				select {
				case e, okc := <-ch:
					if !okc {
						run.converged = false
						break drain
					}
					cc := canonAPI(e)
					run.got = append(run.got, cc)
					foldGo(seen, cc)
				case <-deadline.C:
					run.converged = false
					break drain
				}
			}
			t := time.NewTimer(quiet)
			select {
			case e, okc := <-ch:
				t.Stop()
				if okc {
					cc := canonAPI(e)
					run.got = append(run.got, cc)
					foldGo(seen, cc)
					continue
				}
			case <-t.C:
			}
			break
		}
	}
	run.slow = run.slow || maxWrite > writeBudget
	return run, true, nil
}

func collCase(kind string, run collRun) vcoq.Case {
	tags := []string{"api:" + kind}
	if run.updatesOnly {
		tags = append(tags, "api:updates-only")
	}
	if len(run.got) < len(run.sent) {
		tags = append(tags, "api:events-merged")
	}
	if run.pre > 0 {
		tags = append(tags, "api:non-empty-at-subscribe")
		if !run.updatesOnly && !run.bp {
			tags = append(tags, "api:seed-partly-taken-before-writes")
		}
	}
	if run.writeTimes {
		tags = append(tags, "api:non-monotonic-write-times")
	}
	js := map[string]any{"kind": "Collection.Pull", "backpressure": run.bp, "updates_only": run.updatesOnly,
		"items_at_subscribe": run.pre, "seed_events_taken_before_first_write": run.seedsTaken, "non_monotonic_write_times": run.writeTimes,
		"committed": jsChanges(run.sent), "received": jsChanges(run.got),
		"converged": run.converged, "write_over_budget": run.slow}
	if run.scenario != "" {
		js["subscribers"] = run.scenario
	}
	if run.blockedAt > 0 {
		js["write_that_did_not_return_within_2s"] = fmt.Sprintf("write #%d (the last of `committed`)", run.blockedAt)
	}
	return vcoq.Case{
		Coq:        fmt.Sprintf("KApiColl %s %s %s %s %s", blit(run.bp), coqChanges(run.sent), coqChanges(run.got), blit(run.converged), blit(run.slow)),
		JSON:       js,
		Key:        fmt.Sprintf("api:%s:%v:%v:%d:%d", kind, run.bp, run.updatesOnly, len(run.sent), len(run.got)),
		NonTrivial: len(run.sent) >= 2,
		Tags:       tags,
	}
}

func valCase(kind string, run valRun) vcoq.Case {
	tags := []string{"api:" + kind}
	if run.updatesOnly {
		tags = append(tags, "api:updates-only")
	}
	if len(run.got) < len(run.sent) {
		tags = append(tags, "api:values-dropped")
	}
	if run.writeTimes {
		tags = append(tags, "api:non-monotonic-write-times")
	}
	js := map[string]any{"kind": "Value.Pull", "backpressure": run.bp, "updates_only": run.updatesOnly, "non_monotonic_write_times": run.writeTimes,
		"written": run.sent, "received": run.got, "converged": run.converged, "write_over_budget": run.slow}
	if run.scenario != "" {
		js["subscribers"] = run.scenario
	}
	return vcoq.Case{
		Coq:        fmt.Sprintf("KApiValue %s %s %s %s %s", blit(run.bp), listZ(run.sent), listZ(run.got), blit(run.converged), blit(run.slow)),
		JSON:       js,
		Key:        fmt.Sprintf("api:%s:%v:%v:%d:%d", kind, run.bp, run.updatesOnly, len(run.sent), len(run.got)),
		NonTrivial: len(run.sent) >= 2,
		Tags:       tags,
	}
}

func genAPI(o *vcoq.Out, r *vcoq.Rand, thorough bool) error {
	nl, nb, nm := 40, 12, 12
	if thorough {
		nl, nb, nm = 600, 150, 200
	}
	// the send-timeout measurements wait 5 s each: they run beside everything else of this stage
	// (both scenarios at once; a failing measurement is taken a second time before it is reported)
	timeouts := make(chan timeoutRun, 2)
	for _, resume := range []bool{true, false} {
		go func(resume bool) {
			t := runTimeout(resume)
			if !t.good() {
				t = runTimeout(resume)
			}
			timeouts <- t
		}(resume)
	}
	// runs are independent; execute them concurrently (they mostly wait), generate inputs serially
	type job struct {
		kind        string
		seed        uint64
		a, b        int
		ids         int64
		updatesOnly bool
		lossyFirst  bool
		pre         int
	}
	var jobs []job
	for i := 0; i < nl; i++ {
		uo := i%2 == 1 // every scenario with and without WithUpdatesOnly(true)
		// two of three collection runs start from a collection holding 1..5 items
		pre := 0
		if i%3 != 0 {
			pre = r.Range(1, 5)
		}
		ids := int64(r.Range(1, 4))
		if int64(pre) > ids {
			ids = int64(pre)
		}
		jobs = append(jobs, job{"coll-lossy", r.U64(), r.Range(1, 6), []int{3, 8, 30}[r.Intn(3)], ids, uo, false, pre})
		jobs = append(jobs, job{"value-lossy", r.U64(), r.Range(1, 6), []int{3, 8, 30}[r.Intn(3)], 0, uo, false, 0})
	}
	for i := 0; i < nb; i++ {
		uo := i%2 == 1
		pre := 0
		if i%3 != 0 {
			pre = r.Range(1, 5)
		}
		ids := int64(r.Range(1, 4))
		if int64(pre) > ids {
			ids = int64(pre)
		}
		jobs = append(jobs, job{"coll-bp", r.U64(), r.Range(1, 60), 0, ids, uo, false, pre})
		jobs = append(jobs, job{"value-bp", r.U64(), r.Range(1, 60), 0, 0, uo, false, 0})
	}
	// the size dimension: 600..2000 different ids behind
	nbig := [][3]int{{r.Range(600, 700), 0, 0}, {r.Range(1000, 1300), 1, r.Range(1, 40)}, {r.Range(1800, 2100), 0, r.Range(300, 900)}}
	if thorough {
		nbig = append(nbig, [3]int{r.Range(600, 2000), 1, 0}, [3]int{r.Range(2500, 4000), 0, r.Range(0, 5)}, [3]int{r.Range(600, 1200), 0, r.Range(400, 700)},
			[3]int{r.Range(1200, 2000), 1, r.Range(400, 900)})
	}
	for _, b := range nbig {
		jobs = append(jobs, job{"coll-big", r.U64(), b[0], 0, 0, b[1] == 1, false, b[2]})
	}
	for i := 0; i < nm; i++ {
		jobs = append(jobs, job{"multi-coll", r.U64(), 0, 0, int64(r.Range(1, 3)), i%4 >= 2, i%2 == 0, 0})
		jobs = append(jobs, job{"multi-value", r.U64(), r.Range(3, 20), 0, 0, i%4 >= 2, i%2 == 0, 0})
	}
	cases := make([][]vcoq.Case, len(jobs))
	errs := make([]error, len(jobs))
	trouble.Store(0)
	parallel(len(jobs), func(i int) {
		j := jobs[i]
		if tooMuchTrouble() {
			return
		}
		bad := false
		// a wall-clock observation that fails is measured a second time before it is
		// reported: a blocked writer repeats, a scheduling hiccup of the host does not
		for attempt := 0; attempt < 2; attempt++ {
			var cs []vcoq.Case
			var err error
			bad = false
			switch j.kind {
			case "coll-lossy":
				var run collRun
				run, err = runCollLossy(vcoq.NewRand(j.seed), j.a, j.b, j.ids, j.updatesOnly, j.pre)
				bad = !run.converged || run.slow
				cs = []vcoq.Case{collCase(j.kind, run)}
			case "coll-big":
				var run collRun
				run, err = runCollBig(vcoq.NewRand(j.seed), j.a, j.updatesOnly, j.pre)
				bad = !run.converged || run.slow
				cs = []vcoq.Case{collCase(j.kind, run)}
			case "coll-bp":
				var run collRun
				run, err = runCollBackpressure(vcoq.NewRand(j.seed), j.a, j.ids, j.updatesOnly, j.pre)
				bad = !run.converged
				cs = []vcoq.Case{collCase(j.kind, run)}
			case "value-lossy":
				var run valRun
				run, err = runValueLossy(vcoq.NewRand(j.seed), j.a, j.b, j.updatesOnly)
				bad = !run.converged || run.slow
				cs = []vcoq.Case{valCase(j.kind, run)}
			case "value-bp":
				var run valRun
				run, err = runValueBackpressure(vcoq.NewRand(j.seed), j.a, j.updatesOnly)
				bad = !run.converged
				cs = []vcoq.Case{valCase(j.kind, run)}
			case "multi-coll":
				var b, l collRun
				b, l, err = runMultiColl(vcoq.NewRand(j.seed), j.lossyFirst, j.ids, j.updatesOnly)
				bad = !b.converged || !l.converged || l.slow
				cs = []vcoq.Case{collCase("multi-coll-bp", b), collCase("multi-coll-lossy", l)}
			case "multi-value":
				var b, l valRun
				b, l, err = runMultiValue(vcoq.NewRand(j.seed), j.lossyFirst, j.a, j.updatesOnly)
				bad = !b.converged || !l.converged || l.slow
				cs = []vcoq.Case{valCase("multi-value-bp", b), valCase("multi-value-lossy", l)}
			}
			if err != nil {
				errs[i] = err
				return
			}
			cases[i] = cs
			if !bad {
				break
			}
		}
		if bad {
			trouble.Add(1)
		}
	})
	for i, cs := range cases {
		if errs[i] != nil {
			return errs[i]
		}
		for _, c := range cs {
			o.Add(c)
		}
	}
	// the publish-reordering scenario needs the process-wide yield hook: it runs alone
	nstale := 3
	if thorough {
		nstale = 20
	}
	for i := 0; i < nstale; i++ {
		run, ok, err := runStalePublish()
		if err != nil {
			return err
		}
		if !ok {
			o.Extra["stale_publish_scenario"] = "skipped: yield point coll.publish not reached"
			break
		}
		o.Add(collCase("stale-publish", run))
		if !run.converged {
			break
		}
	}
	for _, useValue := range []bool{false, true} {
		first, early, after := runWaits(useValue)
		if !(first && !early && after) {
			first, early, after = runWaits(useValue) // measured twice before it is reported
		}
		name := "Collection"
		if useValue {
			name = "Value"
		}
		o.Add(vcoq.Case{
			Coq:        fmt.Sprintf("KApiWaits %s %s %s", blit(first), blit(early), blit(after)),
			JSON:       map[string]any{"kind": name + " backpressure, subscriber not receiving", "first_write_returned": first, "second_returned_before_receive": early, "second_returned_after_receive": after},
			Key:        "api:waits:" + name,
			NonTrivial: true,
			Tags:       []string{"api:writer-waits"},
		})
	}
	tr := []timeoutRun{<-timeouts, <-timeouts}
	if tr[0].resume != true {
		tr[0], tr[1] = tr[1], tr[0]
	}
	for _, t := range tr {
		o.Add(timeoutCase(t))
	}
	return nil
}
