package main

import (
	"fmt"
	"os"
	"path/filepath"
	"strconv"
	"strings"
	"time"

	"github.com/smart-core-os/sc-api/go/types"
	"github.com/smart-core-os/sc-golang/pkg/resource"
	"github.com/smart-core-os/sc-golang/verifharness/vh"
	"google.golang.org/protobuf/proto"
	"google.golang.org/protobuf/types/known/wrapperspb"
)

func init() { vh.RegisterTranslator("mergetable", genMergeTable) }

// ---- canonical form of a CollectionChange: what the Coq record `change` holds ----

type cchange struct {
	ID   int64  // "k<n>" -> n, "" -> -1, anything else -> -2
	Kind int64  // ChangeType as a number
	Old  *int64 // marker value of OldValue, nil = Go nil
	New  *int64
	Time int64 // UnixNano, 0 for the zero time
	Seed bool
	Last bool
}

func tok(v int64) proto.Message { return wrapperspb.Int64(v) }

func canonValue(m proto.Message) *int64 {
	if m == nil {
		return nil
	}
	v := int64(-999)
	if w, ok := m.(*wrapperspb.Int64Value); ok && w != nil {
		v = w.Value
	}
	return &v
}

func canonID(s string) int64 {
	if s == "" {
		return -1
	}
	if strings.HasPrefix(s, "k") {
		if n, err := strconv.ParseInt(s[1:], 10, 64); err == nil && n >= 0 {
			return n
		}
	}
	return -2
}

func idName(n int64) string { return "k" + strconv.FormatInt(n, 10) }

func canonTime(t time.Time) int64 {
	if t.IsZero() {
		return 0
	}
	return t.UnixNano()
}

func canonChange(c *resource.CollectionChange) cchange {
	return cchange{
		ID: canonID(c.Id), Kind: int64(c.ChangeType), Old: canonValue(c.OldValue), New: canonValue(c.NewValue),
		Time: canonTime(c.ChangeTime), Seed: c.SeedValue, Last: c.LastSeedValue,
	}
}

func (c cchange) real() resource.CollectionChange {
	out := resource.CollectionChange{Id: idName(c.ID), ChangeType: types.ChangeType(c.Kind), SeedValue: c.Seed, LastSeedValue: c.Last}
	if c.ID == -1 {
		out.Id = ""
	}
	if c.Time != 0 {
		out.ChangeTime = time.Unix(0, c.Time)
	}
	if c.Old != nil {
		out.OldValue = tok(*c.Old)
	}
	if c.New != nil {
		out.NewValue = tok(*c.New)
	}
	return out
}

func optZ(p *int64) string {
	if p == nil {
		return "N"
	}
	return "(S " + zlit(*p) + ")"
}
func zlit(v int64) string {
	if v < 0 {
		return "(" + strconv.FormatInt(v, 10) + ")"
	}
	return strconv.FormatInt(v, 10)
}
func blit(b bool) string {
	if b {
		return "T"
	}
	return "F"
}

// compact Coq term using the local notations c/N/S/T/F
func (c cchange) coq() string {
	return fmt.Sprintf("(c %s %s %s %s %s %s %s)", zlit(c.ID), zlit(c.Kind), optZ(c.Old), optZ(c.New), zlit(c.Time), blit(c.Seed), blit(c.Last))
}

func (c cchange) equal(d cchange) bool {
	eq := func(a, b *int64) bool {
		if a == nil || b == nil {
			return a == nil && b == nil
		}
		return *a == *b
	}
	return c.ID == d.ID && c.Kind == d.Kind && eq(c.Old, d.Old) && eq(c.New, d.New) && c.Time == d.Time && c.Seed == d.Seed && c.Last == d.Last
}

func (c cchange) js() map[string]any {
	m := map[string]any{"id": c.ID, "kind": c.Kind, "time": c.Time}
	if c.Old != nil {
		m["old"] = *c.Old
	}
	if c.New != nil {
		m["new"] = *c.New
	}
	if c.Seed {
		m["seed"] = true
	}
	if c.Last {
		m["last"] = true
	}
	return m
}

type tableRow struct {
	A, B, Out cchange
	Send      bool
}

// mergeTable runs the real mergeChanges over its complete abstract domain:
// kinds 0..5 (unspecified, the four proper kinds, one out-of-range representative) for both
// arguments x which of a.Old a.New b.New are nil (distinct marker values otherwise) x b.Old nil /
// equal to a.New / different
// x the SeedValue / LastSeedValue flags of both.  Ids and change times differ between a and b so
// the row shows whose were kept.
func mergeTable() []tableRow {
	var rows []tableRow
	p := func(v int64, set bool) *int64 {
		if !set {
			return nil
		}
		return &v
	}
	for ka := int64(0); ka <= 5; ka++ {
		for kb := int64(0); kb <= 5; kb++ {
			for mask := 0; mask < 8; mask++ {
				// b.Old: nil, the same marker as a.New (b follows a in a valid script), or a different one
				for _, bold := range []*int64{nil, p(2, true), p(3, true)} {
					for fl := 0; fl < 16; fl++ {
						a := cchange{ID: 7, Kind: ka, Old: p(1, mask&1 != 0), New: p(2, mask&2 != 0), Time: 10, Seed: fl&1 != 0, Last: fl&2 != 0}
						b := cchange{ID: 8, Kind: kb, Old: bold, New: p(4, mask&4 != 0), Time: 11, Seed: fl&4 != 0, Last: fl&8 != 0}
						out, send := resource.VerifMergeChanges(a.real(), b.real())
						rows = append(rows, tableRow{A: a, B: b, Out: canonChange(&out), Send: send})
					}
				}
			}
		}
	}
	return rows
}

func genMergeTable(outDir string) error {
	rows := mergeTable()
	var b strings.Builder
	b.WriteString("(* GENERATED on every run of bin/check by /verif/harness/c09 (translator \"mergetable\"):\n")
	b.WriteString("   resource.mergeChanges of the working tree evaluated on its whole abstract domain\n")
	b.WriteString("   (6x6 kinds x nil-patterns of the four values x seed flags).  Row = (a, b, result, send).\n")
	b.WriteString("   Do not edit. *)\n")
	b.WriteString("From SC Require Import Base.Prelude Excess.Change.\nLocal Open Scope Z_scope.\n")
	b.WriteString("Local Notation c := mkChange.\nLocal Notation N := None.\nLocal Notation S := Some.\nLocal Notation T := true.\nLocal Notation F := false.\n")
	b.WriteString("Definition table : list (change * change * change * bool) := [\n")
	for i, r := range rows {
		sep := ";"
		if i == len(rows)-1 {
			sep = ""
		}
		fmt.Fprintf(&b, "(%s,%s,%s,%s)%s\n", r.A.coq(), r.B.coq(), r.Out.coq(), blit(r.Send), sep)
	}
	b.WriteString("].\n")
	return os.WriteFile(filepath.Join(outDir, "MergeTable.v"), []byte(b.String()), 0o644)
}
