package main

import (
	"context"
	"fmt"
	"runtime"
	"strings"
	"time"

	"github.com/smart-core-os/sc-golang/pkg/resource"
	"github.com/smart-core-os/sc-golang/verifharness/vcoq"
	"google.golang.org/protobuf/types/known/wrapperspb"
)

// The assembled pipeline behind Value.Pull (writer -> DropExcess -> Pull loop -> subscriber, or
// without DropExcess under backpressure), driven through the public API by one sequential writer
// and a controllable consumer; "nothing to receive" is read from the goroutines' wait states.
// Model: Excess/Pipeline.v Section ValuePipe, case KVPipe.

var (
	fnVPull = []string{"resource.(*Value).Pull"}
	fnDrop  = []string{"minibus.DropExcess"}
)

type vpipeRun struct {
	bp      bool
	seed    *int64
	trace   []string
	jtrace  []any
	blocked bool
	why     string
}

func runVPipe(r *vcoq.Rand, bp bool) (run vpipeRun, ok bool, err error) {
	run.bp = bp
	next := int64(1)
	var v *resource.Value
	if r.Chance(70) {
		s := next
		next++
		run.seed = &s
		v = resource.NewValue(resource.WithInitialValue(tok(s)))
	} else {
		v = resource.NewValue(resource.WithInitialValue(tok(0)))
		// an updates-only subscription: no seed
	}
	ctx, cancel := context.WithCancel(context.Background())
	defer cancel()
	mp := &multiProbe{creator: goID(), buf: make([]byte, 1<<16)}
	if !mp.waitGone(fnVPull, fnDrop) {
		return run, false, nil
	}
	ch := v.Pull(ctx, resource.WithBackpressure(bp), resource.WithUpdatesOnly(run.seed == nil))
	st0 := mp.states(fnVPull, fnDrop)
	if st0[0] == "" {
		return run, false, nil
	}
	dropVisible := st0[1] != ""
	seedLeft := run.seed != nil
	holding := false

	tryRecv := func() (got bool, stuck bool) {
		take := func(e *resource.ValueChange) {
			m := int64(-999)
			if w, okw := e.Value.(*wrapperspb.Int64Value); okw && w != nil {
				m = w.Value
			}
			run.trace = append(run.trace, fmt.Sprintf("VR %d", m))
			run.jtrace = append(run.jtrace, map[string]any{"received": m})
			if e.SeedValue {
				seedLeft = false
			} else {
				holding = false
			}
		}
		deadline := time.Now().Add(writeGuard)
		for spin := 0; ; spin++ {
			select {
			case e, okc := <-ch:
				if !okc {
					return false, true
				}
				take(e)
				return true, false
			default:
			}
			st := mp.states(fnVPull, fnDrop)
			switch {
			case st[0] == "select":
				t := time.NewTimer(writeGuard)
				select {
				case e, okc := <-ch:
					t.Stop()
					if !okc {
						return false, true
					}
					take(e)
					return true, false
				case <-t.C:
					return false, true
				}
			case st[0] == "chan receive" && (bp || st[1] == "chan receive"):
				return false, false
			case st[0] == "chan receive" && !bp && !dropVisible:
				idle := true
				for k := 0; k < 3 && idle; k++ {
					time.Sleep(10 * time.Millisecond)
					if mp.states(fnVPull)[0] != "chan receive" {
						idle = false
					}
				}
				if idle {
					return false, false
				}
			}
			if time.Now().After(deadline) {
				return false, true
			}
			if spin > 2 {
				time.Sleep(20 * time.Microsecond)
			} else {
				runtime.Gosched()
			}
		}
	}
	fail := func(why string) (vpipeRun, bool, error) {
		run.blocked, run.why = true, why
		cancel()
		return run, true, nil
	}
	free := func() bool { return !bp || (!seedLeft && !holding) }
	steps := r.Range(2, 14)
	for i := 0; i < steps; i++ {
		if r.Chance(60) && free() {
			m := next
			next++
			done := make(chan error, 1)
			go func() { _, e := v.Set(tok(m)); done <- e }()
			t := time.NewTimer(3 * time.Second) // well below the 5 s send timeout of Value.set
			select {
			case e := <-done:
				t.Stop()
				if e != nil {
					return run, false, fmt.Errorf("value write failed: %v", e)
				}
			case <-t.C:
				return fail(fmt.Sprintf("Set(%d) did not return within 3 s", m))
			}
			run.trace = append(run.trace, fmt.Sprintf("VP %d", m))
			run.jtrace = append(run.jtrace, map[string]any{"written": m})
			if bp {
				holding = true
			}
		} else {
			if _, stuck := tryRecv(); stuck {
				return fail("an offered value could not be received")
			}
		}
	}
	for {
		got, stuck := tryRecv()
		if stuck {
			return fail("an offered value could not be received")
		}
		if !got {
			break
		}
	}
	return run, true, nil
}

func vpipeCase(run vpipeRun) vcoq.Case {
	seed := "N"
	var jseed any
	if run.seed != nil {
		seed = fmt.Sprintf("(S %d)", *run.seed)
		jseed = *run.seed
	}
	tag := "vpipe:lossy"
	if run.bp {
		tag = "vpipe:backpressure"
	}
	js := map[string]any{"kind": "Value.Pull pipeline", "backpressure": run.bp, "seed": jseed, "trace": run.jtrace, "write_blocked": run.blocked}
	if run.why != "" {
		js["blocked_because"] = run.why
	}
	return vcoq.Case{
		Coq:        fmt.Sprintf("KVPipe %s %s [%s] %s", blit(run.bp), seed, strings.Join(run.trace, "; "), blit(run.blocked)),
		JSON:       js,
		Key:        fmt.Sprintf("vp:%v:%s:%s", run.bp, seed, strings.Join(run.trace, ";")),
		NonTrivial: len(run.trace) >= 3,
		Tags:       []string{tag},
	}
}

func genVPipe(o *vcoq.Out, r *vcoq.Rand, thorough bool) error {
	np := 300
	if thorough {
		np = 2500
	}
	seeds := make([]uint64, np)
	for i := range seeds {
		seeds[i] = r.U64()
	}
	runs := make([]*vpipeRun, np)
	errs := make([]error, np)
	parallel(np, func(i int) {
		if tooMuchTrouble() {
			return
		}
		bp := i%4 == 3
		run, ok, err := runVPipe(vcoq.NewRand(seeds[i]), bp)
		if err == nil && ok && run.blocked {
			run, ok, err = runVPipe(vcoq.NewRand(seeds[i]), bp) // measured twice
			if err == nil && ok && run.blocked {
				trouble.Add(1)
			}
		}
		if err != nil {
			errs[i] = err
			return
		}
		if ok {
			runs[i] = &run
		}
	})
	for i := range runs {
		if errs[i] != nil {
			return errs[i]
		}
		if runs[i] != nil {
			o.Add(vpipeCase(*runs[i]))
		}
	}
	return nil
}
