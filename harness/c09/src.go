package main

// KSrc: one structural fact per lossy stage, read from the SOURCE of the tree under test on every
// run (go/ast): where the goroutine of mergeCollectionExcess / DropExcess can block.
//
// The models (Excess/MergeExcess.v, DropExcess.v) say: in every open state the stage accepts a Send
// (C09_send_always_enabled / C09_drop_send_always_enabled, for EVERY backlog length).  That is a
// faithful reading of the code exactly when every point at which the goroutine parks also receives
// from its input:
//   sel   sends on `out` that are a case of a select which also has a `<-in` case      (>= 1)
//   bare  sends anywhere else (a plain `out <- x`, or a select without a `<-in` case)  (= 0)
//   other receives from anything but the input parameter                                (= 0)
// A bare send is how a capacity limit ("hand over the oldest before taking more") looks in the
// source; the size stage finds the failing input for it, this fact says which model element broke.

import (
	"fmt"
	"go/ast"
	"go/parser"
	"go/token"
	"os"
	"path/filepath"

	"github.com/smart-core-os/sc-golang/verifharness/vcoq"
)

func repoDir() string {
	if d := os.Getenv("VERIF_REPO"); d != "" {
		return d
	}
	return "/repo"
}

type stageShape struct {
	sel, bare, other int
}

// goroutineBody returns the body of the first `go func() {...}()` in fd and the name of fd's
// first parameter (the input channel)
func goroutineBody(fd *ast.FuncDecl) (*ast.BlockStmt, string) {
	var body *ast.BlockStmt
	ast.Inspect(fd.Body, func(n ast.Node) bool {
		if body != nil {
			return false
		}
		if g, ok := n.(*ast.GoStmt); ok {
			if fl, ok := g.Call.Fun.(*ast.FuncLit); ok {
				body = fl.Body
				return false
			}
		}
		return true
	})
	in := ""
	if fd.Type.Params != nil && len(fd.Type.Params.List) > 0 && len(fd.Type.Params.List[0].Names) > 0 {
		in = fd.Type.Params.List[0].Names[0].Name
	}
	return body, in
}

func recvFrom(e ast.Expr) (string, bool) {
	for {
		p, ok := e.(*ast.ParenExpr)
		if !ok {
			break
		}
		e = p.X
	}
	u, ok := e.(*ast.UnaryExpr)
	if !ok || u.Op != token.ARROW {
		return "", false
	}
	if id, ok := u.X.(*ast.Ident); ok {
		return id.Name, true
	}
	return "?", true
}

func commRecvFrom(c *ast.CommClause) (string, bool) {
	switch x := c.Comm.(type) {
	case *ast.ExprStmt:
		return recvFrom(x.X)
	case *ast.AssignStmt:
		if len(x.Rhs) == 1 {
			return recvFrom(x.Rhs[0])
		}
	}
	return "", false
}

func shapeOf(rel, fn string) (stageShape, error) {
	var sh stageShape
	fset := token.NewFileSet()
	f, err := parser.ParseFile(fset, filepath.Join(repoDir(), rel), nil, 0)
	if err != nil {
		return sh, err
	}
	var fd *ast.FuncDecl
	for _, d := range f.Decls {
		if x, ok := d.(*ast.FuncDecl); ok && x.Recv == nil && x.Name.Name == fn {
			fd = x
		}
	}
	if fd == nil {
		return sh, fmt.Errorf("%s: function %s not found", rel, fn)
	}
	body, in := goroutineBody(fd)
	if body == nil || in == "" {
		return sh, fmt.Errorf("%s: %s has no goroutine literal / input parameter", rel, fn)
	}
	inSelect := map[ast.Node]bool{} // sends and receives that are select cases
	ast.Inspect(body, func(n ast.Node) bool {
		sel, ok := n.(*ast.SelectStmt)
		if !ok {
			return true
		}
		hasIn := false
		var sends []*ast.SendStmt
		for _, cc := range sel.Body.List {
			c := cc.(*ast.CommClause)
			if c.Comm == nil {
				continue // default
			}
			if snd, ok := c.Comm.(*ast.SendStmt); ok {
				sends = append(sends, snd)
				continue
			}
			if from, ok := commRecvFrom(c); ok {
				ast.Inspect(c.Comm, func(m ast.Node) bool {
					if u, ok := m.(*ast.UnaryExpr); ok && u.Op == token.ARROW {
						inSelect[u] = true
					}
					return true
				})
				if from == in {
					hasIn = true
				} else {
					sh.other++
				}
			}
		}
		for _, snd := range sends {
			inSelect[snd] = true
			if hasIn {
				sh.sel++
			} else {
				sh.bare++
			}
		}
		return true
	})
	ast.Inspect(body, func(n ast.Node) bool {
		switch x := n.(type) {
		case *ast.SendStmt:
			if !inSelect[x] {
				sh.bare++
			}
		case *ast.UnaryExpr:
			if x.Op == token.ARROW && !inSelect[x] {
				if from, _ := recvFrom(x); from != in {
					sh.other++
				}
			}
		}
		return true
	})
	return sh, nil
}

func genSrc(o *vcoq.Out) error {
	for i, st := range []struct{ rel, fn string }{
		{"pkg/resource/backpressure.go", "mergeCollectionExcess"},
		{"internal/minibus/util.go", "DropExcess"},
	} {
		sh, err := shapeOf(st.rel, st.fn)
		if err != nil {
			return err
		}
		o.Add(vcoq.Case{
			Coq: fmt.Sprintf("KSrc %d %d %d %d", i, sh.sel, sh.bare, sh.other),
			JSON: map[string]any{"kind": "source shape", "function": st.fn, "file": st.rel,
				"sends_in_a_select_that_also_receives_from_in": sh.sel, "sends_elsewhere": sh.bare, "receives_from_other_channels": sh.other},
			Key:        "src:" + st.fn,
			NonTrivial: true,
			Tags:       []string{"src:stage-shape"},
		})
	}
	return nil
}
