package main

import (
	"fmt"
	"runtime"
	"strings"
	"time"

	"github.com/smart-core-os/sc-golang/pkg/resource"
	"github.com/smart-core-os/sc-golang/verifharness/vcoq"
)

// The lossy front exactly as Collection.onUpdate assembles it,
//     mergeCollectionExcess(changesAfter(bus.Listen(ctx), seeded)),
// driven one action at a time: a publication `published{change, commit}` is handed to the input
// and the driver waits until the changesAfter goroutine is parked on its input again (it has
// dropped the publication or handed the change to the merge stage); a Recv is observed as in
// drive.go.  Model: Excess/ChangesAfter.v (l_proj), case KLossy.

type pub struct {
	C      cchange
	Commit int64
}

type lact struct {
	Recv bool
	P    pub
}

func (p pub) coq() string { return fmt.Sprintf("pb %s %d", p.C.coq(), p.Commit) }
func (p pub) js() any     { return map[string]any{"commit": p.Commit, "change": p.C.js()} }
func (a lact) coq() string {
	if a.Recv {
		return "LR"
	}
	return fmt.Sprintf("P %s %d", a.P.C.coq(), a.P.Commit)
}
func (a lact) js() any {
	if a.Recv {
		return "recv"
	}
	return map[string]any{"publish": a.P.js()}
}

func runLossy(seeded int64, acts []lact) []ob {
	in := make(chan any)
	ca := newProbe("changesAfter", "VerifChangesAfter")
	p := &pipe{in: in, pr: newProbe("mergeCollectionExcess", "VerifMergeCollectionExcess")}
	p.out = resource.VerifMergeCollectionExcess(resource.VerifChangesAfter(in, uint64(seeded)))
	p.probeOK = p.pr.state() != ""
	caOK := ca.state() != ""
	obs := make([]ob, 0, len(acts))
	for _, a := range acts {
		if n := len(obs); n > 0 && (obs[n-1].Kind == 'b' || obs[n-1].Kind == 'k') {
			break
		}
		if a.Recv {
			v, k := p.recv()
			switch k {
			case rGot:
				c, ok := v.(*resource.CollectionChange)
				if !ok || c == nil {
					obs = append(obs, ob{Kind: 'g', C: cchange{ID: -2, Kind: -1}})
				} else {
					obs = append(obs, ob{Kind: 'g', C: canonChange(c)})
				}
			case rNothing:
				obs = append(obs, ob{Kind: 'n'})
			case rClosed:
				obs = append(obs, ob{Kind: 'x'})
			default:
				trouble.Add(1)
				obs = append(obs, ob{Kind: 'k'})
			}
			continue
		}
		ch := a.P.C.real()
		if !p.send(resource.VerifPublished(&ch, uint64(a.P.Commit))) {
			trouble.Add(1)
			obs = append(obs, ob{Kind: 'b'})
			continue
		}
		// quiescence of the first stage: parked on `range in` again
		okq := true
		if caOK {
			deadline := time.Now().Add(stuckBudget)
			for spin := 0; ca.state() != "chan receive"; spin++ {
				if time.Now().After(deadline) {
					okq = false
					break
				}
				if spin > 2 {
					time.Sleep(20 * time.Microsecond)
				} else {
					runtime.Gosched()
				}
			}
		} else {
			time.Sleep(2 * time.Millisecond)
		}
		if okq {
			obs = append(obs, ob{Kind: 's'})
		} else {
			trouble.Add(1)
			obs = append(obs, ob{Kind: 'b'}) // the change could not be handed to the merge stage
		}
	}
	p.closeIn()
	return obs
}

// ---- arrival orders the store can produce ----
// Update publishes after releasing the lock, Delete while holding it: the publications of one id
// arrive in commit order (writes to one id do not overlap), a Delete arrives before every
// higher-numbered publication, anything else may cross.
func mayPrecede(later, earlier pub) bool {
	// may `later` (higher commit) arrive before `earlier` (lower commit)?
	if later.C.ID == earlier.C.ID {
		return false
	}
	if earlier.C.Kind == 3 {
		return false
	}
	return true
}

// all arrival orders of pubs (given in commit order)
func legalOrders(pubs []pub, limit int) [][]pub {
	var out [][]pub
	used := make([]bool, len(pubs))
	var cur []pub
	var rec func()
	rec = func() {
		if len(out) >= limit {
			return
		}
		if len(cur) == len(pubs) {
			out = append(out, append([]pub(nil), cur...))
			return
		}
		for i := range pubs {
			if used[i] {
				continue
			}
			ok := true
			for j := 0; j < i; j++ {
				if !used[j] && !mayPrecede(pubs[i], pubs[j]) {
					ok = false
					break
				}
			}
			if !ok {
				continue
			}
			used[i] = true
			cur = append(cur, pubs[i])
			rec()
			cur = cur[:len(cur)-1]
			used[i] = false
		}
	}
	rec()
	return out
}

func randomLegal(r *vcoq.Rand, pubs []pub) []pub {
	used := make([]bool, len(pubs))
	var out []pub
	for len(out) < len(pubs) {
		var avail []int
		for i := range pubs {
			if used[i] {
				continue
			}
			ok := true
			for j := 0; j < i; j++ {
				if !used[j] && !mayPrecede(pubs[i], pubs[j]) {
					ok = false
					break
				}
			}
			if ok {
				avail = append(avail, i)
			}
		}
		k := avail[r.Intn(len(avail))]
		if r.Chance(50) { // bias towards the commit order so that long crossings stay plausible
			k = avail[0]
		}
		used[k] = true
		out = append(out, pubs[k])
	}
	return out
}

// hist in commit order (1..n); the arriving subset: everything above seeded, of the rest only
// Updates/Adds chosen by keep
func arriving(hist []pub, seeded int64, keep func(p pub) bool) []pub {
	var out []pub
	for _, p := range hist {
		if p.Commit > seeded || (p.C.Kind != 3 && keep(p)) {
			out = append(out, p)
		}
	}
	return out
}

func lossyCase(seeded int64, hist []pub, acts []lact, obs []ob, tag string) vcoq.Case {
	ch := make([]string, len(hist))
	jh := make([]any, len(hist))
	for i, p := range hist {
		ch[i] = p.coq()
		jh[i] = p.js()
	}
	ca := make([]string, len(acts))
	ja := make([]any, len(acts))
	var key strings.Builder
	crossed, stale := false, false
	last := int64(0)
	for i, a := range acts {
		ca[i] = a.coq()
		ja[i] = a.js()
		if a.Recv {
			key.WriteByte('R')
			continue
		}
		fmt.Fprintf(&key, "%c%d.%d", "?AUDP"[min64(a.P.C.Kind, 4)], a.P.C.ID, a.P.Commit)
		if a.P.Commit <= seeded {
			stale = true
		} else {
			if a.P.Commit < last {
				crossed = true
			}
			last = a.P.Commit
		}
	}
	jo := make([]any, len(obs))
	for i, o := range obs {
		jo[i] = o.js()
	}
	tags := []string{tag}
	if crossed {
		tags = append(tags, "lossy:publications-crossed")
	}
	if stale {
		tags = append(tags, "lossy:stale-publication-arrives")
	}
	return vcoq.Case{
		Coq:        fmt.Sprintf("KLossy %d [%s] [%s] %s", seeded, strings.Join(ch, "; "), strings.Join(ca, "; "), coqObs(obs)),
		JSON:       map[string]any{"kind": "mergeCollectionExcess(changesAfter(in, seeded))", "seeded": seeded, "committed": jh, "actions": ja, "observed": jo},
		Key:        fmt.Sprintf("l:%d:%s", seeded, key.String()),
		NonTrivial: len(hist) >= 2,
		Tags:       tags,
	}
}

// a valid script of n publications in commit order over nids ids (commit = position)
func histScript(r *vcoq.Rand, n int, nids int64) []pub {
	s := newSState()
	var out []pub
	for len(out) < n {
		id := int64(r.Intn(int(nids)))
		opts := s.options(id)
		w := opts[r.Intn(len(opts))]
		ev := s.emit(id, w).C
		ev.Time = 0
		out = append(out, pub{C: ev, Commit: int64(len(out) + 1)})
	}
	return out
}

func interleave(r *vcoq.Rand, arr []pub, recvPct int, nids int64) []lact {
	var acts []lact
	for _, p := range arr {
		acts = append(acts, lact{P: p})
		for k := 0; k < 3 && r.Chance(recvPct); k++ {
			acts = append(acts, lact{Recv: true})
		}
	}
	for i := int64(0); i <= nids; i++ {
		acts = append(acts, lact{Recv: true})
	}
	return acts
}

func genLossy(o *vcoq.Out, r *vcoq.Rand, thorough bool) {
	type job struct {
		seeded int64
		hist   []pub
		acts   []lact
		tag    string
	}
	var jobs []job
	// (a) two items in the seed (commits 1, 2), every valid script of three more publications over
	// three ids, every arrival order the store can produce, stale publications arriving or not,
	// consumer draining at the end / receiving after every publication
	base := newSState()
	h0 := []pub{}
	for id := int64(0); id < 2; id++ {
		ev := base.emit(id, 'a').C
		ev.Time = 0
		h0 = append(h0, pub{C: ev, Commit: id + 1})
	}
	var scripts [][]pub
	var rec func(s *sstate, cur []pub)
	rec = func(s *sstate, cur []pub) {
		if len(cur) == 3 {
			scripts = append(scripts, append([]pub(nil), cur...))
			return
		}
		for id := int64(0); id < 3; id++ {
			for _, w := range s.options(id) {
				s2 := s.clone()
				ev := s2.emit(id, w).C
				ev.Time = 0
				rec(s2, append(cur, pub{C: ev, Commit: int64(3 + len(cur))}))
			}
		}
	}
	rec(base, nil)
	for si, sc := range scripts {
		hist := append(append([]pub(nil), h0...), sc...)
		for oi, ord := range legalOrders(sc, 6) {
			for pat := 0; pat < 2; pat++ {
				if !thorough && (si+oi+pat+int(o.Seed))%2 == 1 && oi == 0 {
					continue // commit order is what KMerge already covers: half of those
				}
				// stale arrivals: the seed's own ADDs published late, in front of / between the others
				var arr []pub
				mask := r.Intn(4)
				for k, p := range h0 {
					if mask&(1<<k) != 0 {
						arr = append(arr, p)
					}
				}
				arr = append(arr, ord...)
				if len(arr) > len(ord) && r.Chance(50) { // move the last stale one behind the first live one of another id
					st := arr[len(arr)-len(ord)-1]
					if ord[0].C.ID != st.C.ID {
						arr[len(arr)-len(ord)-1], arr[len(arr)-len(ord)] = arr[len(arr)-len(ord)], st
					}
				}
				pct := 0
				if pat == 1 {
					pct = 100
				}
				var acts []lact
				for _, p := range arr {
					acts = append(acts, lact{P: p})
					if pct == 100 {
						acts = append(acts, lact{Recv: true})
					}
				}
				for i := 0; i < 4; i++ {
					acts = append(acts, lact{Recv: true})
				}
				jobs = append(jobs, job{2, hist, acts, "lossy:exhaustive-3-publications"})
			}
		}
	}
	// (b) random longer histories
	nr := 500
	if thorough {
		nr = 4000
	}
	for i := 0; i < nr; i++ {
		n := r.Range(3, 12)
		nids := int64(r.Range(2, 4))
		hist := histScript(r, n, nids)
		seeded := int64(r.Intn(n/2 + 1))
		arr := randomLegal(r, arriving(hist, seeded, func(pub) bool { return r.Chance(50) }))
		jobs = append(jobs, job{seeded, hist, interleave(r, arr, []int{0, 20, 50}[r.Intn(3)], nids), "lossy:random"})
	}
	// (c) what the store produces since /repo 3d54e87: arrival in commit order; the commits still
	// pending publication when the subscription opened (a contiguous run up to seeded, no Delete in
	// it: a Delete publishes under the lock the subscription needs) arrive first
	nio := 400
	if thorough {
		nio = 4000
	}
	for i := 0; i < nio; i++ {
		n := r.Range(3, 12)
		nids := int64(r.Range(1, 4))
		hist := histScript(r, n, nids)
		seeded := int64(r.Intn(n))
		from := seeded - int64(r.Intn(4))
		if from < 0 {
			from = 0
		}
		for k := from; k < seeded; k++ {
			if hist[k].C.Kind == 3 {
				from = k + 1
			}
		}
		arr := append([]pub(nil), hist[from:]...)
		jobs = append(jobs, job{seeded, hist, interleave(r, arr, []int{0, 20, 50, 100}[r.Intn(4)], nids), "lossy:in-commit-order"})
	}
	results := make([][]ob, len(jobs))
	parallel(len(jobs), func(i int) {
		if !tooMuchTrouble() {
			results[i] = runLossy(jobs[i].seeded, jobs[i].acts)
		}
	})
	for i, j := range jobs {
		if results[i] == nil {
			continue
		}
		for k, ob := range results[i] {
			if ob.Kind == 'b' || ob.Kind == 'k' {
				ja := make([]any, len(j.acts))
				for q, a := range j.acts {
					ja[q] = a.js()
				}
				o.Directs = append(o.Directs, vcoq.Direct{
					What:   "mergeCollectionExcess(changesAfter(in, seeded)) did not complete an action within 2 s",
					Class:  "c09:pipeline-stuck",
					Replay: map[string]any{"pipeline": "lossy front", "seeded": j.seeded, "actions": ja, "stuck_at": k},
				})
			}
		}
		o.Add(lossyCase(j.seeded, j.hist, j.acts, results[i], j.tag))
	}
}
