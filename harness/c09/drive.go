package main

import (
	"bytes"
	"runtime"
	"strconv"
	"strings"
	"time"
)

// Single-action driving of a pipeline goroutine (DESIGN 4.6): each action completes before the
// next one starts.  "Completes" needs care for a Recv that finds nothing: instead of a wall-clock
// guess the driver looks at the goroutine's wait state in a runtime.Stack dump --
//   [chan receive]  the goroutine is parked in its plain `<-in` (nothing buffered, not offering),
//   [select]        it is parked in the select that also offers `out`,
//   anything else   it has not reached its next blocking point yet: look again.
// Both states are stable until the driver's next action, so the observation is deterministic.
// Wall-clock bounds are used only as a guard (a Send that is not taken within sendBudget is the
// observation "blocked"; the property says writers never wait).

const (
	sendBudget  = 2 * time.Second
	stuckBudget = 2 * time.Second
)

func goID() int64 {
	var buf [64]byte
	n := runtime.Stack(buf[:], false)
	// "goroutine 123 [running]:"
	f := bytes.Fields(buf[:n])
	if len(f) < 2 {
		return -1
	}
	id, _ := strconv.ParseInt(string(f[1]), 10, 64)
	return id
}

// probe finds the goroutine started by one of the functions `fns` called from goroutine `creator`.
type probe struct {
	creator int64
	fns     []string
	buf     []byte
}

func newProbe(fns ...string) *probe {
	return &probe{creator: goID(), fns: fns, buf: make([]byte, 1<<16)}
}

// state returns the wait state of the pipeline goroutine, "" when there is none (it has exited).
func (p *probe) state() string {
	for {
		n := runtime.Stack(p.buf, true)
		if n < len(p.buf) {
			return p.find(p.buf[:n])
		}
		p.buf = make([]byte, 2*len(p.buf))
	}
}

func (p *probe) find(dump []byte) string {
	suffix := " in goroutine " + strconv.FormatInt(p.creator, 10)
	for _, blk := range strings.Split(string(dump), "\n\n") {
		i := strings.LastIndex(blk, "created by ")
		if i < 0 {
			continue
		}
		line := blk[i:]
		if j := strings.IndexByte(line, '\n'); j >= 0 {
			line = line[:j]
		}
		if !strings.HasSuffix(strings.TrimSpace(line), suffix) {
			continue
		}
		ok := false
		for _, fn := range p.fns {
			if strings.Contains(line, fn) {
				ok = true
			}
		}
		if !ok {
			continue
		}
		// header: goroutine 12 [select, 2 minutes]:
		a, b := strings.IndexByte(blk, '['), strings.IndexByte(blk, ']')
		if a < 0 || b < a {
			return "?"
		}
		st := blk[a+1 : b]
		if k := strings.IndexByte(st, ','); k >= 0 {
			st = st[:k]
		}
		return st
	}
	return ""
}

// pipe is one running pipeline goroutine under single-action control.
type pipe struct {
	in      chan any
	out     <-chan any
	pr      *probe
	probeOK bool // the probe found the goroutine right after start
	closed  bool
}

// startPipe must be called on the goroutine that will drive the pipe (the probe keys on it).
func startPipe(wrap func(<-chan any) <-chan any, fns ...string) *pipe {
	p := &pipe{in: make(chan any), pr: newProbe(fns...)}
	p.out = wrap(p.in)
	p.probeOK = p.pr.state() != ""
	return p
}

// send hands v to the goroutine; false = not taken within the budget.
func (p *pipe) send(v any) bool {
	select {
	case p.in <- v:
		return true
	default:
	}
	t := time.NewTimer(sendBudget)
	defer t.Stop()
	select {
	case p.in <- v:
		return true
	case <-t.C:
		return false
	}
}

type recvKind int

const (
	rNothing recvKind = iota
	rGot
	rClosed
	rStuck // the goroutine offers `out` (state select) yet nothing could be received
)

func (p *pipe) recv() (any, recvKind) {
	deadline := time.Now().Add(stuckBudget)
	for spin := 0; ; spin++ {
		select {
		case v, ok := <-p.out:
			if !ok {
				return nil, rClosed
			}
			return v, rGot
		default:
		}
		if !p.probeOK {
			// cannot see the goroutine (renamed / restructured code): fall back to a timed wait
			t := time.NewTimer(100 * time.Millisecond)
			select {
			case v, ok := <-p.out:
				t.Stop()
				if !ok {
					return nil, rClosed
				}
				return v, rGot
			case <-t.C:
				return nil, rNothing
			}
		}
		switch p.pr.state() {
		case "chan receive":
			// parked on `<-in`; one more look at out in case it was closed or offered meanwhile
			select {
			case v, ok := <-p.out:
				if !ok {
					return nil, rClosed
				}
				return v, rGot
			default:
			}
			return nil, rNothing
		case "select":
			t := time.NewTimer(stuckBudget)
			select {
			case v, ok := <-p.out:
				t.Stop()
				if !ok {
					return nil, rClosed
				}
				return v, rGot
			case <-t.C:
				return nil, rStuck
			}
		case "":
			// exited: out must be closed
			t := time.NewTimer(stuckBudget)
			select {
			case v, ok := <-p.out:
				t.Stop()
				if !ok {
					return nil, rClosed
				}
				return v, rGot
			case <-t.C:
				return nil, rStuck
			}
		}
		if time.Now().After(deadline) {
			return nil, rStuck
		}
		if spin > 2 {
			time.Sleep(20 * time.Microsecond)
		} else {
			runtime.Gosched()
		}
	}
}

// closeIn closes the input and waits until the goroutine has returned (so that a later Recv
// cannot race the close against a pending delivery).  false = it did not return in time.
func (p *pipe) closeIn() bool {
	if p.closed {
		return true
	}
	p.closed = true
	close(p.in)
	if !p.probeOK {
		time.Sleep(20 * time.Millisecond)
		return true
	}
	deadline := time.Now().Add(stuckBudget)
	for p.pr.state() != "" {
		if time.Now().After(deadline) {
			return false
		}
		runtime.Gosched()
	}
	return true
}
