// Correspondence harness for C09 (lossy delivery preserves the folded view; slow readers never
// block writers).  See /verif/notes/C09.md.
package main

import (
	"fmt"
	"hash/fnv"
	"runtime"
	"strings"
	"sync"
	"sync/atomic"

	"github.com/smart-core-os/sc-golang/internal/minibus"
	"github.com/smart-core-os/sc-golang/pkg/resource"
	"github.com/smart-core-os/sc-golang/verifharness/vcoq"
	"github.com/smart-core-os/sc-golang/verifharness/vh"
)

func init() { vh.Register("C09", genC09) }

func main() { vh.Main() }

// ---- actions and observations on mergeCollectionExcess ----

type act struct {
	Kind byte // 'S' send, 'R' recv, 'C' close; 'Z' (driver only) = Recv until one finds nothing, at most C.ID times
	C    cchange
}

type ob struct {
	Kind byte // 's' sent, 'b' blocked, 'n' nothing, 'g' got, 'x' closed, 'k' stuck (offering yet nothing received)
	C    cchange
}

func (a act) coq() string {
	switch a.Kind {
	case 'R':
		return "R"
	case 'C':
		return "Cl"
	}
	c := a.C
	plain := !c.Seed && !c.Last
	switch {
	case plain && c.Kind == 1 && c.Old == nil && c.New != nil:
		return fmt.Sprintf("A %s %s %s", zlit(c.ID), zlit(*c.New), zlit(c.Time))
	case plain && c.Kind == 2 && c.Old != nil && c.New != nil:
		return fmt.Sprintf("U %s %s %s %s", zlit(c.ID), zlit(*c.Old), zlit(*c.New), zlit(c.Time))
	case plain && c.Kind == 3 && c.Old != nil && c.New == nil:
		return fmt.Sprintf("D %s %s %s", zlit(c.ID), zlit(*c.Old), zlit(c.Time))
	}
	return "X " + c.coq()
}

func (o ob) coq() string {
	switch o.Kind {
	case 's':
		return "s"
	case 'n':
		return "n"
	case 'x':
		return "x"
	case 'g':
		return "g " + o.C.coq()
	}
	return "b" // blocked / stuck: never produced by the model
}

func (a act) js() any {
	switch a.Kind {
	case 'R':
		return "recv"
	case 'C':
		return "close"
	}
	return map[string]any{"send": a.C.js()}
}
func (o ob) js() any {
	switch o.Kind {
	case 's':
		return "sent"
	case 'n':
		return "nothing"
	case 'x':
		return "closed"
	case 'g':
		return map[string]any{"got": o.C.js()}
	case 'k':
		return "stuck"
	}
	return "blocked"
}

// runMerge drives the real mergeCollectionExcess goroutine with the actions, one at a time.
// Must run on a goroutine that drives one pipe at a time (the probe keys on the creator).
//
// The second result is the index of the first Send whose *CollectionChange object was modified by
// the goroutine (-1: none).  The bus hands one object to every listener, so the merge stage must
// work on its own copy (`newMessage := *(newAny.(*CollectionChange))`); the model cannot even
// express the aliasing (its Send takes a value), so this is observed directly.
func runMerge(acts []act) ([]act, []ob, int) {
	// expand the pseudo-action 'Z' (drain) as it is executed: the returned action list has one
	// Recv per observation
	done := make([]act, 0, len(acts))
	queue := append([]act(nil), acts...)
	p := startPipe(resource.VerifMergeCollectionExcess, "mergeCollectionExcess", "VerifMergeCollectionExcess")
	obs := make([]ob, 0, len(acts))
	type sentObj struct {
		idx  int
		ptr  *resource.CollectionChange
		want cchange
	}
	var sentObjs []sentObj
	for len(queue) > 0 {
		a := queue[0]
		queue = queue[1:]
		if n := len(obs); n > 0 && (obs[n-1].Kind == 'b' || obs[n-1].Kind == 'k') {
			// stuck: every further action would only wait again; the shorter observation list is judged as a failure
			for _, r := range append([]act{a}, queue...) {
				if r.Kind != 'Z' {
					done = append(done, r)
				}
			}
			break
		}
		if a.Kind == 'Z' {
			if n := len(obs); a.C.ID <= 0 || (n > 0 && len(done) > 0 && done[len(done)-1].Kind == 'R' && obs[n-1].Kind != 'g') {
				continue // the previous Recv of this drain found nothing (or the channel closed): drained
			}
			queue = append([]act{{Kind: 'R'}, {Kind: 'Z', C: cchange{ID: a.C.ID - 1}}}, queue...)
			continue
		}
		ai := len(done)
		done = append(done, a)
		switch a.Kind {
		case 'S':
			if p.closed {
				obs = append(obs, ob{Kind: 'x'}) // never generated: a send on a closed channel panics
				continue
			}
			ch := a.C.real()
			sentObjs = append(sentObjs, sentObj{idx: ai, ptr: &ch, want: canonChange(&ch)})
			if p.send(&ch) {
				obs = append(obs, ob{Kind: 's'})
			} else {
				trouble.Add(1)
				obs = append(obs, ob{Kind: 'b'})
			}
		case 'R':
			v, k := p.recv()
			switch k {
			case rGot:
				c, ok := v.(*resource.CollectionChange)
				if !ok || c == nil {
					obs = append(obs, ob{Kind: 'g', C: cchange{ID: -2, Kind: -1}})
				} else {
					obs = append(obs, ob{Kind: 'g', C: canonChange(c)})
				}
			case rNothing:
				obs = append(obs, ob{Kind: 'n'})
			case rClosed:
				obs = append(obs, ob{Kind: 'x'})
			default:
				trouble.Add(1)
				obs = append(obs, ob{Kind: 'k'})
			}
		case 'C':
			p.closeIn()
			obs = append(obs, ob{Kind: 'x'})
		}
	}
	p.closeIn()
	mutated := -1
	for _, so := range sentObjs {
		if !canonChange(so.ptr).equal(so.want) {
			mutated = so.idx
			break
		}
	}
	return done, obs, mutated
}

// ---- DropExcess ----

type dact struct {
	Kind byte // 'S','R','C'
	M    int64
}

func runDrop(acts []dact) []ob {
	p := startPipe(minibus.DropExcess, "minibus.DropExcess")
	obs := make([]ob, 0, len(acts))
	for _, a := range acts {
		if n := len(obs); n > 0 && (obs[n-1].Kind == 'b' || obs[n-1].Kind == 'k') {
			break
		}
		switch a.Kind {
		case 'S':
			if p.closed {
				obs = append(obs, ob{Kind: 'x'})
				continue
			}
			if p.send(a.M) {
				obs = append(obs, ob{Kind: 's'})
			} else {
				trouble.Add(1)
				obs = append(obs, ob{Kind: 'b'})
			}
		case 'R':
			v, k := p.recv()
			switch k {
			case rGot:
				m, ok := v.(int64)
				if !ok {
					m = -999
				}
				obs = append(obs, ob{Kind: 'g', C: cchange{ID: m}})
			case rNothing:
				obs = append(obs, ob{Kind: 'n'})
			case rClosed:
				obs = append(obs, ob{Kind: 'x'})
			default:
				trouble.Add(1)
				obs = append(obs, ob{Kind: 'k'})
			}
		case 'C':
			p.closeIn()
			obs = append(obs, ob{Kind: 'x'})
		}
	}
	p.closeIn()
	return obs
}

func (a dact) coq() string {
	switch a.Kind {
	case 'R':
		return "DRecv"
	case 'C':
		return "DClose"
	}
	return "DSend " + zlit(a.M)
}
func dobCoq(o ob) string {
	switch o.Kind {
	case 's':
		return "DSent"
	case 'n':
		return "DNothing"
	case 'x':
		return "DClosed"
	case 'g':
		return "DGot " + zlit(o.C.ID)
	}
	return "DBlocked"
}

// trouble counts observations that cost a wall-clock budget (a Send not taken, an offered change
// not receivable, a public-API run that did not converge).  Each is reported; once there are
// many, the remaining runs of that stage are skipped: the verdict is already decided and a broken
// pipeline would otherwise cost thousands of timeouts.
var trouble atomic.Int64

const troubleLimit = 12

func tooMuchTrouble() bool { return trouble.Load() >= troubleLimit }

// ---- parallel execution: each worker drives one pipe at a time ----

func parallel(n int, job func(i int)) {
	w := runtime.GOMAXPROCS(0)
	if w > 12 {
		w = 12
	}
	var wg sync.WaitGroup
	next := make(chan int)
	for k := 0; k < w; k++ {
		wg.Add(1)
		go func() {
			defer wg.Done()
			for i := range next {
				job(i)
			}
		}()
	}
	for i := 0; i < n; i++ {
		next <- i
	}
	close(next)
	wg.Wait()
}

// ---- generators ----

// script state while generating a valid edit script
type sstate struct {
	cur  map[int64]*int64 // id -> current value (nil = absent)
	next int64            // next fresh value token
	step int64
}

func newSState() *sstate { return &sstate{cur: map[int64]*int64{}, next: 1} }

func (s *sstate) clone() *sstate {
	c := &sstate{cur: map[int64]*int64{}, next: s.next, step: s.step}
	for k, v := range s.cur {
		c.cur[k] = v
	}
	return c
}

// the valid next events for id: ADD when absent; UPDATE, REMOVE when present
func (s *sstate) options(id int64) []byte {
	if s.cur[id] == nil {
		return []byte{'a'}
	}
	return []byte{'u', 'd'}
}

func (s *sstate) emit(id int64, what byte) act {
	s.step++
	t := 100 + s.step
	old := s.cur[id]
	switch what {
	case 'a':
		v := s.next
		s.next++
		s.cur[id] = &v
		return act{Kind: 'S', C: cchange{ID: id, Kind: 1, New: &v, Time: t}}
	case 'u':
		v := s.next
		s.next++
		s.cur[id] = &v
		return act{Kind: 'S', C: cchange{ID: id, Kind: 2, Old: old, New: &v, Time: t}}
	default:
		s.cur[id] = nil
		return act{Kind: 'S', C: cchange{ID: id, Kind: 3, Old: old, Time: t}}
	}
}

// all action sequences of exactly `length` Send/Recv actions over ids 0..nids-1 whose sends form
// a valid edit script (shorter sequences are their prefixes; every prefix is judged).
// Pruned: at most nids+1 consecutive Recv (further ones observe "nothing" again); the first send
// goes to id 0 (ids are symmetric).
func exhaustive(length int, nids int64) [][]act {
	var out [][]act
	var rec func(prefix []act, s *sstate, recvRun int, usedIDs int64)
	rec = func(prefix []act, s *sstate, recvRun int, usedIDs int64) {
		if len(prefix) == length {
			out = append(out, append([]act(nil), prefix...))
			return
		}
		if recvRun < int(nids)+1 {
			rec(append(prefix, act{Kind: 'R'}), s, recvRun+1, usedIDs)
		}
		for id := int64(0); id < nids && id <= usedIDs; id++ {
			for _, w := range s.options(id) {
				s2 := s.clone()
				a := s2.emit(id, w)
				u := usedIDs
				if id == usedIDs {
					u++
				}
				rec(append(prefix, a), s2, 0, u)
			}
		}
	}
	rec(nil, newSState(), 0, 0)
	return out
}

// a random valid script over nids ids with the given probability (percent) of a Recv per step
func randomValid(r *vcoq.Rand, length int, nids int64, recvPct int) []act {
	s := newSState()
	var out []act
	for len(out) < length {
		if r.Chance(recvPct) {
			out = append(out, act{Kind: 'R'})
			continue
		}
		id := int64(r.Intn(int(nids)))
		opts := s.options(id)
		w := opts[r.Intn(len(opts))]
		if w == 'd' && r.Chance(40) { // removals a bit rarer so that ids stay alive
			w = 'u'
		}
		out = append(out, s.emit(id, w))
	}
	return out
}

// arbitrary (mostly invalid) scripts: any kind incl. REPLACE / unspecified / out of range, random
// old/new/nil, seed flags, optional Close in the middle.  Outside the theorems' guard: they watch
// the model's fidelity only.
func randomWild(r *vcoq.Rand, length int) []act {
	var out []act
	closed := false
	step := int64(0)
	val := func() *int64 {
		if r.Chance(25) {
			return nil
		}
		v := int64(r.Range(1, 5))
		return &v
	}
	for len(out) < length {
		switch {
		case r.Chance(30):
			out = append(out, act{Kind: 'R'})
		case !closed && r.Chance(4):
			out = append(out, act{Kind: 'C'})
			closed = true
		case !closed:
			step++
			out = append(out, act{Kind: 'S', C: cchange{
				ID: int64(r.Intn(3)), Kind: int64(r.Intn(6)), Old: val(), New: val(), Time: 100 + step,
				Seed: r.Chance(15), Last: r.Chance(15),
			}})
		default:
			out = append(out, act{Kind: 'R'})
		}
	}
	return out
}

// withDrain appends Recv until everything possibly pending has been taken plus one more
func withDrain(acts []act, nids int64) []act {
	out := append([]act(nil), acts...)
	for i := int64(0); i <= nids; i++ {
		out = append(out, act{Kind: 'R'})
	}
	return out
}

func coqActs(acts []act) string {
	it := make([]string, len(acts))
	for i, a := range acts {
		it[i] = a.coq()
	}
	return "[" + strings.Join(it, "; ") + "]"
}
func coqObs(obs []ob) string {
	it := make([]string, len(obs))
	for i, o := range obs {
		it[i] = o.coq()
	}
	return "[" + strings.Join(it, "; ") + "]"
}

func shape(acts []act) string {
	var b strings.Builder
	for _, a := range acts {
		if a.Kind == 'S' {
			b.WriteByte("?AUDP"[min64(a.C.Kind, 4)])
			b.WriteByte(byte('0' + a.C.ID%10))
		} else {
			b.WriteByte(a.Kind)
		}
	}
	return b.String()
}
func min64(a, b int64) int64 {
	if a < 0 {
		return 0
	}
	if a < b {
		return a
	}
	return b
}

func addMergeCases(o *vcoq.Out, seqs [][]act, tag string) {
	results := make([][]ob, len(seqs))
	mutated := make([]int, len(seqs))
	seqs = append([][]act(nil), seqs...)
	parallel(len(seqs), func(i int) {
		if !tooMuchTrouble() {
			seqs[i], results[i], mutated[i] = runMerge(seqs[i])
		}
	})
	nmut := 0
	for i, acts := range seqs {
		obs := results[i]
		if obs == nil {
			continue // skipped, see tooMuchTrouble
		}
		if mutated[i] >= 0 && nmut < 3 {
			nmut++
			ja := make([]any, len(acts))
			for k, a := range acts {
				ja[k] = a.js()
			}
			o.Directs = append(o.Directs, vcoq.Direct{
				What:   "mergeCollectionExcess modified a *CollectionChange object it was sent; the bus hands the same object to every other listener, whose events are thereby rewritten (kinds / old values no longer the committed edit script)",
				Class:  "c09:sent-object-modified",
				Replay: map[string]any{"pipeline": "mergeCollectionExcess", "actions": ja, "modified_send_at": mutated[i]},
			})
		}
		ja := make([]any, len(acts))
		for k, a := range acts {
			ja[k] = a.js()
		}
		jo := make([]any, len(obs))
		tags := []string{tag}
		merged := 0
		nsent, ngot := 0, 0
		for k, ob := range obs {
			jo[k] = ob.js()
			switch ob.Kind {
			case 's':
				nsent++
			case 'g':
				ngot++
				if ob.C.Kind == 4 {
					tags = append(tags, "got:REPLACE")
				}
			case 'b', 'k':
				o.Directs = append(o.Directs, vcoq.Direct{
					What:   "mergeCollectionExcess did not complete an action within 2 s (a Send was not taken, or an offered change could not be received)",
					Class:  "c09:pipeline-stuck",
					Replay: map[string]any{"pipeline": "mergeCollectionExcess", "actions": ja, "stuck_at": k},
				})
			}
		}
		if ngot < nsent {
			merged = nsent - ngot
			tags = append(tags, fmt.Sprintf("merged:%d", min64(int64(merged), 5)))
		}
		o.Add(vcoq.Case{
			Coq:        "KMerge " + coqActs(acts) + " " + coqObs(obs),
			JSON:       map[string]any{"kind": "mergeCollectionExcess", "actions": ja, "observed": jo},
			Key:        "m:" + shapeKey(acts),
			NonTrivial: nsent >= 2,
			Tags:       tags,
		})
	}
}

// the shape of a long sequence is abbreviated (length + hash): the key only counts distinct cases
func shapeKey(acts []act) string {
	sh := shape(acts)
	if len(sh) <= 200 {
		return sh
	}
	h := fnv.New64a()
	h.Write([]byte(sh))
	return fmt.Sprintf("%s..len%d:%x", sh[:40], len(acts), h.Sum64())
}

// ---- the size dimension ----
//
// A capacity limit inside the stage (a bounded map, a bounded queue, "hand over the oldest before
// taking more") is invisible over a small id alphabet: changes to the same ids merge and never grow
// the backlog.  bigBurst builds a valid script that leaves exactly n DIFFERENT ids with a pending
// change while the consumer takes nothing (or very little): ids 0..n-1 are added, a fifth of them
// also updated (merges into the pending ADD), a twentieth removed and added again; n/5 further ids
// are added and removed (cancels: they take no room at the end but do in between); the per-id
// scripts are interleaved uniformly at random.  recvPct > 0 sprinkles a few receives in between
// (a reader that is slow, not dead).  The sequence ends with a drain.
func bigBurst(r *vcoq.Rand, n int, recvPct int) []act {
	type idq struct {
		id  int64
		ops []byte
	}
	var qs []idq
	for id := 0; id < n; id++ {
		ops := []byte{'a'}
		switch {
		case r.Chance(20):
			ops = append(ops, 'u')
		case r.Chance(6):
			ops = append(ops, 'd', 'a')
		}
		qs = append(qs, idq{int64(id), ops})
	}
	for id := n; id < n+n/5; id++ {
		qs = append(qs, idq{int64(id), []byte{'a', 'd'}})
	}
	var tokens []int
	for k, q := range qs {
		for range q.ops {
			tokens = append(tokens, k)
		}
	}
	for i := len(tokens) - 1; i > 0; i-- { // Fisher-Yates
		j := r.Intn(i + 1)
		tokens[i], tokens[j] = tokens[j], tokens[i]
	}
	s := newSState()
	var out []act
	for _, k := range tokens {
		q := &qs[k]
		out = append(out, s.emit(q.id, q.ops[0]))
		q.ops = q.ops[1:]
		if recvPct > 0 && r.Chance(recvPct) {
			out = append(out, act{Kind: 'R'})
		}
	}
	// drain: Recv until one finds nothing (at most one per id ever touched, plus one)
	out = append(out, act{Kind: 'Z', C: cchange{ID: int64(len(qs) + 1)}})
	return out
}

func addDropCases(o *vcoq.Out, seqs [][]dact, tag string) {
	results := make([][]ob, len(seqs))
	parallel(len(seqs), func(i int) {
		if !tooMuchTrouble() {
			results[i] = runDrop(seqs[i])
		}
	})
	for i, acts := range seqs {
		obs := results[i]
		if obs == nil {
			continue
		}
		ca := make([]string, len(acts))
		ja := make([]any, len(acts))
		var key strings.Builder
		for k, a := range acts {
			ca[k] = a.coq()
			key.WriteByte(a.Kind)
			switch a.Kind {
			case 'S':
				ja[k] = map[string]any{"send": a.M}
			case 'R':
				ja[k] = "recv"
			default:
				ja[k] = "close"
			}
		}
		co := make([]string, len(obs))
		jo := make([]any, len(obs))
		for k, ob := range obs {
			co[k] = dobCoq(ob)
			if ob.Kind == 'g' {
				jo[k] = map[string]any{"got": ob.C.ID}
			} else {
				jo[k] = ob.js()
			}
			if ob.Kind == 'b' || ob.Kind == 'k' {
				o.Directs = append(o.Directs, vcoq.Direct{
					What:   "DropExcess did not complete an action within 2 s",
					Class:  "c09:pipeline-stuck",
					Replay: map[string]any{"pipeline": "DropExcess", "actions": ja, "stuck_at": k},
				})
			}
		}
		o.Add(vcoq.Case{
			Coq:        "KDrop [" + strings.Join(ca, "; ") + "] [" + strings.Join(co, "; ") + "]",
			JSON:       map[string]any{"kind": "DropExcess", "actions": ja, "observed": jo},
			Key:        "d:" + key.String(),
			NonTrivial: len(acts) >= 3,
			Tags:       []string{tag},
		})
	}
}

// all DropExcess action sequences of exactly `length` over Send/Recv (+ optionally one Close)
func dropExhaustive(length int) [][]dact {
	var out [][]dact
	var rec func(prefix []dact, closed bool, next int64)
	rec = func(prefix []dact, closed bool, next int64) {
		if len(prefix) == length {
			out = append(out, append([]dact(nil), prefix...))
			return
		}
		rec(append(prefix, dact{Kind: 'R'}), closed, next)
		if !closed {
			rec(append(prefix, dact{Kind: 'S', M: next}), closed, next+1)
			if len(prefix) >= length-3 { // a Close only near the end, else almost everything is "closed"
				rec(append(prefix, dact{Kind: 'C'}), true, next)
			}
		}
	}
	rec(nil, false, 1)
	return out
}

func validPair(a, b cchange) bool {
	// is there a current value x such that a is valid on x and b on the result?  (mirrors valid_at)
	validAt := func(c cchange, x *int64) bool {
		eq := func(p, q *int64) bool { return p != nil && q != nil && *p == *q }
		switch c.Kind {
		case 1:
			return x == nil && c.Old == nil && c.New != nil
		case 2, 4:
			return x != nil && c.New != nil && eq(c.Old, x)
		case 3:
			return x != nil && c.New == nil && eq(c.Old, x)
		}
		return false
	}
	result := func(c cchange, x *int64) *int64 {
		if c.Kind == 3 {
			return nil
		}
		return c.New
	}
	for _, x := range []*int64{nil, a.Old} {
		if validAt(a, x) && validAt(b, result(a, x)) {
			return true
		}
	}
	return false
}

func genC09(o *vcoq.Out, r *vcoq.Rand, tier string) error {
	o.Header = "From SC Require Import Base.Prelude Excess.Change Excess.MergeExcess Excess.DropExcess Excess.ChangesAfter Excess.Pipeline Excess.C09Judge.\nImport Short."
	o.CaseType = "c09case"
	o.Judge = "judge"
	o.Shard = 400
	o.Rule = "a case is one action sequence (actions + values) driven through the real goroutine, one table row, or one public-API run; distinct = distinct action/kind/id shape; non-trivial = at least two sends (merge), three actions (drop), a valid consecutive pair (row)"
	thorough := tier == "thorough"

	// ---- 1. the mergeChanges table: every row whose two changes can follow each other in a
	// valid script carries the fold-preservation law; a sample of the others watches the model ----
	rows := mergeTable()
	nrow := 0
	for i, row := range rows {
		vp := validPair(row.A, row.B)
		if !vp && !(thorough || (i*7+int(o.Seed))%23 == 0) {
			continue
		}
		nrow++
		tags := []string{"row"}
		if vp {
			tags = append(tags, "row:valid-pair")
		}
		o.Add(vcoq.Case{
			Coq:        fmt.Sprintf("KRow %s %s %s %s", row.A.coq(), row.B.coq(), row.Out.coq(), blit(row.Send)),
			JSON:       map[string]any{"kind": "mergeChanges", "a": row.A.js(), "b": row.B.js(), "result": row.Out.js(), "send": row.Send},
			Key:        fmt.Sprintf("row:%d", i),
			NonTrivial: vp,
			Tags:       tags,
		})
	}

	// ---- 2. mergeCollectionExcess, bounded-exhaustive over 2 ids ----
	length := 7
	if thorough {
		length = 9
	}
	var seqs [][]act
	for _, s := range exhaustive(length, 2) {
		seqs = append(seqs, withDrain(s, 2))
	}
	addMergeCases(o, seqs, fmt.Sprintf("merge:exhaustive-len%d", length))

	// ---- 3. random longer valid scripts over 4 ids, and over 2 ids just beyond the exhaustive length ----
	nrand := 1500
	if thorough {
		nrand = 20000
	}
	seqs = nil
	for i := 0; i < nrand; i++ {
		pct := []int{5, 15, 30, 50, 70}[r.Intn(5)]
		if i%3 == 0 {
			seqs = append(seqs, withDrain(randomValid(r, r.Range(length+1, length+4), 2, pct), 2))
		} else {
			seqs = append(seqs, withDrain(randomValid(r, r.Range(8, 40), 4, pct), 4))
		}
	}
	addMergeCases(o, seqs, "merge:random-valid")

	// ---- 3b. the size dimension: 600..2000 different ids pending at once ----
	seqs = nil
	sizes := []int{r.Range(600, 700), r.Range(1000, 1300), r.Range(1800, 2100)}
	if thorough {
		sizes = append(sizes, r.Range(600, 2000), r.Range(2500, 4200), r.Range(700, 1100), r.Range(1300, 1800))
	}
	for _, n := range sizes {
		seqs = append(seqs, bigBurst(r, n, 0), bigBurst(r, n, []int{1, 3, 10}[r.Intn(3)]))
	}
	addMergeCases(o, seqs, "merge:size")

	// ---- 4. wild scripts (outside the guard) ----
	nwild := 600
	if thorough {
		nwild = 8000
	}
	seqs = nil
	for i := 0; i < nwild; i++ {
		seqs = append(seqs, withDrain(randomWild(r, r.Range(2, 14)), 3))
	}
	addMergeCases(o, seqs, "merge:wild")

	// ---- 5. DropExcess ----
	dl := 8
	if thorough {
		dl = 11
	}
	addDropCases(o, dropExhaustive(dl), fmt.Sprintf("drop:exhaustive-len%d", dl))
	var dseqs [][]dact
	ndrop := 200
	if thorough {
		ndrop = 4000
	}
	for i := 0; i < ndrop; i++ {
		n := r.Range(10, 60)
		pct := []int{10, 30, 60}[r.Intn(3)]
		var s []dact
		next := int64(1)
		for len(s) < n {
			if r.Chance(pct) {
				s = append(s, dact{Kind: 'R'})
			} else {
				s = append(s, dact{Kind: 'S', M: next})
				next++
			}
		}
		s = append(s, dact{Kind: 'R'}, dact{Kind: 'R'})
		dseqs = append(dseqs, s)
	}
	addDropCases(o, dseqs, "drop:random")

	// ---- 6. the lossy front as onUpdate assembles it, every arrival order ----
	genLossy(o, r, thorough)

	// ---- 7. the assembled pipeline through Collection.Pull, parked writers ----
	if err := genPipe(o, r, thorough); err != nil {
		return err
	}

	if err := genVPipe(o, r, thorough); err != nil {
		return err
	}

	// ---- 8. public API ----
	if err := genAPI(o, r, thorough); err != nil {
		return err
	}

	// ---- 9. where the stages can block, read from the source ----
	if err := genSrc(o); err != nil {
		return err
	}
	o.Extra["coverage_extra"] = map[string]any{
		"merge_table_rows":        len(rows),
		"merge_table_rows_judged": nrow,
		"exhaustive_length":       length,
	}
	return nil
}
