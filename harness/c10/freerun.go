package main

import (
	"context"
	"fmt"
	"runtime"
	"sync"
	"sync/atomic"
	"time"

	"github.com/smart-core-os/sc-golang/internal/minibus"
	"github.com/smart-core-os/sc-golang/internal/verifhook"
	"github.com/smart-core-os/sc-golang/pkg/resource"
	"github.com/smart-core-os/sc-golang/verifharness/vcoq"
	"google.golang.org/protobuf/types/known/wrapperspb"
)

// a subscriber of a free-running case
type freeSub struct {
	ctx      context.Context
	cancel   context.CancelFunc
	recv     func() (event, bool, bool) // event, is an event to log, channel still open
	stopAt   int                        // stop receiving after this many events (-1: never stop)
	lossy    bool
	resource bool // behind forwarding goroutines: an event in flight may be dropped by a cancel
	early    bool // cancelled before the end of the run
	desc     string
	mu       sync.Mutex
	reg      int64
	cancelAt int64
	log      []event
	closed   bool
	done     chan struct{}
}

const closeBound = 3 * time.Second

func (g *gen) freeRun(idx int) error {
	if idx%2 == 0 {
		return g.freeBus(idx)
	}
	return g.freeResource(idx)
}

type freeCase struct {
	tick   atomic.Int64
	subs   []*freeSub
	smu    sync.Mutex
	calls  []callRec
	cmu    sync.Mutex
	panics atomic.Int64
}

func (fc *freeCase) cancelSub(s *freeSub) {
	s.mu.Lock()
	if s.cancelAt == 0 {
		s.cancelAt = fc.tick.Add(1)
	}
	s.mu.Unlock()
	s.cancel()
}

// consume: receive until stopAt events, then idle for a while and cancel; in any case keep
// receiving after the cancel until the close is seen (bounded)
func (fc *freeCase) consume(s *freeSub, idleFor time.Duration) {
	defer close(s.done)
	n := 0
	for {
		if s.stopAt >= 0 && n >= s.stopAt && s.ctx.Err() == nil {
			// stop receiving without cancelling, then cancel
			time.Sleep(idleFor)
			fc.cancelSub(s)
		}
		ev, isEv, open := s.recv()
		if !open {
			s.mu.Lock()
			s.closed = true
			s.mu.Unlock()
			return
		}
		if isEv {
			s.mu.Lock()
			s.log = append(s.log, ev)
			s.mu.Unlock()
			n++
		}
	}
}

func (fc *freeCase) finish(g *gen, kind string, base int, tags []string, extra map[string]any) {
	// let everything in flight arrive (consumers that still receive end up blocked receiving),
	// then every subscription gets cancelled at the latest now
	_, _ = settle()
	for _, s := range fc.snapshotSubs() {
		s.mu.Lock()
		s.early = s.cancelAt != 0
		s.mu.Unlock()
		fc.cancelSub(s)
	}
	deadline := time.Now().Add(closeBound)
	for _, s := range fc.snapshotSubs() {
		select {
		case <-s.done:
		case <-time.After(time.Until(deadline)):
		}
	}
	leaks := waitLibGone(2*time.Second) - base
	if leaks < 0 {
		leaks = 0
	}
	final := int(fc.tick.Add(1))
	fc.cmu.Lock()
	calls := append([]callRec(nil), fc.calls...)
	fc.cmu.Unlock()
	for i := range calls {
		if !calls[i].ret {
			calls[i].end = final
		}
	}
	var ls []lisRec
	var descs []string
	for _, s := range fc.snapshotSubs() {
		s.mu.Lock()
		r := lisRec{reg: int(s.reg), cancel: int(s.cancelAt), closed: s.closed}
		if s.lossy || s.reg == 0 || (s.resource && s.early) {
			r.reg = final // no delivery obligation for lossy subscriptions
		}
		for _, e := range s.log {
			r.log = append(r.log, [2]int{e.s, e.n})
		}
		s.mu.Unlock()
		ls = append(ls, r)
		descs = append(descs, fmt.Sprintf("%s stopAt=%d early=%v", s.desc, s.stopAt, s.early))
	}
	extra["subs"] = descs
	panics := int(fc.panics.Load())
	if leaks > 0 {
		g.hard++
	} else {
		for _, c := range calls {
			if !c.ret {
				g.hard++
				break
			}
		}
	}
	coq := vcoq.App("KFree", coqFin(calls, ls, panics, leaks))
	js := jsFin(calls, ls, panics, leaks)
	js["kind"] = kind
	for k, v := range extra {
		js[k] = v
	}
	g.o.Add(vcoq.Case{Coq: coq, Key: coq, NonTrivial: len(ls) > 0 && len(calls) > 0, Tags: append(tags, kind), JSON: js})
	if panics > 0 {
		g.o.Directs = append(g.o.Directs, vcoq.Direct{What: "a writer panicked in a free-running case", Class: "panic", Replay: js})
	}
}

func (fc *freeCase) snapshotSubs() []*freeSub {
	fc.smu.Lock()
	defer fc.smu.Unlock()
	return append([]*freeSub(nil), fc.subs...)
}

func (fc *freeCase) call(s, n int, f func() bool) {
	start := int(fc.tick.Add(1))
	fc.cmu.Lock()
	fc.calls = append(fc.calls, callRec{s: s, n: n, start: start, end: -1})
	ci := len(fc.calls) - 1
	fc.cmu.Unlock()
	defer func() {
		if r := recover(); r != nil {
			fc.panics.Add(1)
		}
	}()
	ok := f()
	end := int(fc.tick.Add(1))
	fc.cmu.Lock()
	fc.calls[ci].end, fc.calls[ci].ok, fc.calls[ci].ret = end, ok, true
	fc.cmu.Unlock()
}

// freeBus: a bus with 0-8 listeners and 1-3 senders running free; cancels are injected at chosen
// occurrences of the yield points of bus.go (so they land inside the windows) and at random instants.
func (g *gen) freeBus(idx int) error {
	r := g.r
	base := libCount(dump())
	fc := &freeCase{}
	bus := &minibus.Bus{}
	nL := r.Range(0, 8)
	nS := r.Range(1, 3)
	perSender := r.Range(3, 12)

	addListener := func(stopAt int) *freeSub {
		s := &freeSub{stopAt: stopAt, done: make(chan struct{})}
		s.ctx, s.cancel = context.WithCancel(context.Background())
		ch := bus.Listen(s.ctx)
		s.reg = fc.tick.Add(1)
		s.recv = func() (event, bool, bool) {
			v, ok := <-ch
			if !ok {
				return event{}, false, false
			}
			return v.(event), true, true
		}
		fc.smu.Lock()
		fc.subs = append(fc.subs, s)
		fc.smu.Unlock()
		return s
	}
	// cancel injection at yield points: the k-th time any goroutine passes point p, cancel listener j
	type inj struct {
		point string
		nth   int64
		sub   int
	}
	points := []string{"bus.send.snapshot", "bus.send.listener", "bus.send.collect", "bus.listen.register", "bus.stop.lock"}
	var injs []inj
	for i := 0; i < nL; i++ {
		if r.Chance(60) {
			injs = append(injs, inj{points[r.Intn(len(points))], int64(r.Range(1, perSender*nS)), i})
		}
	}
	counts := map[string]*atomic.Int64{}
	for _, p := range points {
		counts[p] = &atomic.Int64{}
	}
	gs := &gates{byGID: map[int64]*gate{}}
	gs.onPoint = func(point string) {
		c := counts[point]
		if c == nil {
			return
		}
		k := c.Add(1)
		for _, in := range injs {
			if in.point == point && in.nth == k {
				subs := fc.snapshotSubs()
				if in.sub < len(subs) {
					fc.cancelSub(subs[in.sub])
				}
			}
		}
	}
	verifhook.Set(gs.hook)
	defer verifhook.Set(nil)

	idle := time.Duration(r.Range(100, 1500)) * time.Microsecond
	for i := 0; i < nL; i++ {
		stopAt := -1
		if r.Chance(35) {
			stopAt = r.Range(0, perSender)
		}
		s := addListener(stopAt)
		go fc.consume(s, idle)
	}
	var wg sync.WaitGroup
	for si := 0; si < nS; si++ {
		si := si
		wg.Add(1)
		go func() {
			defer wg.Done()
			for n := 1; n <= perSender; n++ {
				n := n
				fc.call(si, n, func() bool { return bus.Send(context.Background(), event{si, n}) })
			}
		}()
	}
	// random-instant cancels and late joiners
	lateJoin := r.Chance(40)
	randomCancels := r.Range(0, 2)
	delays := []time.Duration{}
	for i := 0; i < randomCancels+1; i++ {
		delays = append(delays, time.Duration(r.Range(5, 400))*time.Microsecond)
	}
	cancelIdx := []int{}
	for i := 0; i < randomCancels; i++ {
		cancelIdx = append(cancelIdx, r.Intn(nL+1))
	}
	for i, ci := range cancelIdx {
		time.Sleep(delays[i])
		subs := fc.snapshotSubs()
		if ci < len(subs) {
			fc.cancelSub(subs[ci])
		}
	}
	if lateJoin {
		time.Sleep(delays[len(delays)-1])
		s := addListener(-1)
		go fc.consume(s, idle)
	}
	// wait for the senders; a sender may be held by a consumer that stopped receiving until that
	// consumer cancels (idle), never longer
	doneCh := make(chan struct{})
	go func() { wg.Wait(); close(doneCh) }()
	select {
	case <-doneCh:
	case <-time.After(closeBound):
	}
	fc.finish(g, "free-bus", base, []string{fmt.Sprintf("free-listeners-%d", nL)}, map[string]any{"senders": nS, "injected": fmt.Sprint(injs)})
	return nil
}

// freeResource: a Value and a Collection with subscribers of mixed options, concurrent writers,
// consumers that stop receiving and then cancel, cancels at random instants.
func (g *gen) freeResource(idx int) error {
	r := g.r
	verifhook.Set(nil)
	base := libCount(dump())
	fc := &freeCase{}
	val := resource.NewValue(resource.WithInitialValue(&wrapperspb.Int64Value{Value: 0}))
	col := resource.NewCollection(resource.WithInitialRecord("a", &wrapperspb.Int64Value{Value: 0}))
	nSub := r.Range(0, 8)
	nW := r.Range(1, 3)
	perWriter := r.Range(3, 10)
	useCol := r.Chance(50)
	idle := time.Duration(r.Range(100, 1500)) * time.Microsecond
	dec := func(v int) event { return event{v / 100000, v % 100000} }
	nbp := 0
	for i := 0; i < nSub; i++ {
		bp := r.Chance(50)
		uo := r.Chance(30)
		s := &freeSub{stopAt: -1, lossy: !bp, resource: true, done: make(chan struct{})}
		if bp {
			nbp++
		}
		if r.Chance(35) {
			s.stopAt = r.Range(0, perWriter)
		}
		s.ctx, s.cancel = context.WithCancel(context.Background())
		opts := []resource.ReadOption{resource.WithBackpressure(bp), resource.WithUpdatesOnly(uo)}
		s.desc = fmt.Sprintf("bp=%v uo=%v", bp, uo)
		switch {
		case !useCol:
			ch := val.Pull(s.ctx, opts...)
			s.recv = func() (event, bool, bool) {
				c, ok := <-ch
				if !ok {
					return event{}, false, false
				}
				return dec(ival(c.Value)), !c.SeedValue, true
			}
		case r.Chance(50):
			ch := col.Pull(s.ctx, opts...)
			s.recv = func() (event, bool, bool) {
				c, ok := <-ch
				if !ok {
					return event{}, false, false
				}
				return dec(ival(c.NewValue)), !c.SeedValue, true
			}
		default:
			s.desc += " pullid"
			ch := col.PullID(s.ctx, "a", opts...)
			s.recv = func() (event, bool, bool) {
				c, ok := <-ch
				if !ok {
					return event{}, false, false
				}
				return dec(ival(c.Value)), !c.SeedValue, true
			}
		}
		fc.subs = append(fc.subs, s)
	}
	// PullID subscribes from inside its goroutine: the subscription exists once nothing can run
	if _, err := settle(); err != nil {
		return err
	}
	for _, s := range fc.subs {
		s.reg = fc.tick.Add(1)
		go fc.consume(s, idle)
	}
	var wg sync.WaitGroup
	for wi := 0; wi < nW; wi++ {
		wi := wi
		wg.Add(1)
		go func() {
			defer wg.Done()
			for n := 1; n <= perWriter; n++ {
				v := &wrapperspb.Int64Value{Value: int64(wi*100000 + n)}
				fc.call(wi, n, func() bool {
					var err error
					if useCol {
						_, err = col.Update("a", v)
					} else {
						_, err = val.Set(v)
					}
					return err == nil
				})
			}
		}()
	}
	for i := 0; i < r.Range(0, 2); i++ {
		time.Sleep(time.Duration(r.Range(5, 400)) * time.Microsecond)
		if nSub > 0 {
			fc.cancelSub(fc.subs[r.Intn(nSub)])
		}
	}
	doneCh := make(chan struct{})
	go func() { wg.Wait(); close(doneCh) }()
	select {
	case <-doneCh:
	case <-time.After(closeBound):
	}
	kind := "free-value"
	if useCol {
		kind = "free-collection"
	}
	fc.finish(g, kind, base, []string{fmt.Sprintf("free-subs-%d", nSub), fmt.Sprintf("free-backpressure-%d", nbp)},
		map[string]any{"writers": nW})
	return nil
}

// gcRace: a Send that has to garbage-collect a large set of cancelled, not yet collected
// listeners while other goroutines call Listen.  The joiners are started by the yield point in
// front of Bus.collect (they spin on a flag the hook sets, then start after staggered delays), so
// their registrations land while collect runs.  A later Send must reach every joiner: they are
// registered before it starts and stay live until it has returned.
func (g *gen) gcRace(idx int) error {
	r := g.r
	base := libCount(dump())
	fc := &freeCase{}
	bus := &minibus.Bus{}
	dead := r.Range(200, 900)
	joiners := r.Range(2, 6)
	step := r.Range(50, 600)

	deadCtx, deadCancel := context.WithCancel(context.Background())
	deadCancel()
	for i := 0; i < dead; i++ {
		bus.Listen(deadCtx) // registered, not alive: the next Send collects
	}
	if _, err := settle(); err != nil { // the watchers of the dead listeners have ended
		return err
	}

	var flag atomic.Int32
	gs := &gates{byGID: map[int64]*gate{}}
	gs.onPoint = func(point string) {
		if point == "bus.send.collect" {
			flag.Store(1)
		}
	}
	verifhook.Set(gs.hook)
	defer verifhook.Set(nil)

	var jwg sync.WaitGroup
	for j := 0; j < joiners; j++ {
		j := j
		s := &freeSub{stopAt: -1, done: make(chan struct{})}
		s.ctx, s.cancel = context.WithCancel(context.Background())
		s.desc = "joiner"
		fc.smu.Lock()
		fc.subs = append(fc.subs, s)
		fc.smu.Unlock()
		jwg.Add(1)
		go func() {
			defer jwg.Done()
			for i := 0; flag.Load() == 0 && i < 50_000_000; i++ {
			}
			for i := 0; i < j*step; i++ {
				_ = flag.Load()
			}
			ch := bus.Listen(s.ctx)
			s.mu.Lock()
			s.reg = fc.tick.Add(1)
			s.mu.Unlock()
			s.recv = func() (event, bool, bool) {
				v, ok := <-ch
				if !ok {
					return event{}, false, false
				}
				return v.(event), true, true
			}
			fc.consume(s, 0)
		}()
	}
	// the Send that collects (it meets only dead listeners, so it never blocks)
	fc.call(0, 1, func() bool { return bus.Send(context.Background(), event{0, 1}) })
	flag.Store(1) // in case nothing had to be collected
	// all joiners registered
	deadline := time.Now().Add(closeBound)
	for time.Now().Before(deadline) {
		n := 0
		for _, s := range fc.snapshotSubs() {
			s.mu.Lock()
			if s.reg != 0 {
				n++
			}
			s.mu.Unlock()
		}
		if n == joiners {
			break
		}
		runtime.Gosched()
	}
	// the later Send: every joiner is registered and live
	sent := make(chan struct{})
	go func() {
		fc.call(0, 2, func() bool { return bus.Send(context.Background(), event{0, 2}) })
		close(sent)
	}()
	select {
	case <-sent:
	case <-time.After(closeBound):
	}
	fc.finish(g, "gc-race", base, []string{"gc-race"}, map[string]any{"dead_listeners": dead, "joiners": joiners})
	return nil
}
