package main

func (g *gen) freeRun(i int) error { return nil }
