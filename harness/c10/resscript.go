package main

// KRes: writers, readers and subscribers of ONE resource.Collection driven one action at a time
// (model: coq/theories/Bus/Res.v, judge: Bus/ResJudge.v).  The writers park at the verif yield
// points of pkg/resource (gau.read: after GetAndUpdate's first read; coll.publish: after the
// commit, before bus.Send; del.read: after Delete's first read), so that the script can build the
// situations "Delete blocked in bus.Send while holding c.mu", "Update waiting for c.mu",
// "committed Update waiting to publish", "Get blocked".

import (
	"context"
	"fmt"
	"reflect"
	"sync"
	"time"

	"github.com/smart-core-os/sc-api/go/types"
	"github.com/smart-core-os/sc-golang/internal/verifhook"
	"github.com/smart-core-os/sc-golang/pkg/resource"
	"github.com/smart-core-os/sc-golang/verifharness/vcoq"
	"google.golang.org/protobuf/types/known/wrapperspb"
)

// hasTurnstile reads from the tree under test whether resource.Collection publishes in commit
// order (field `publishing`); the model is run with ts accordingly.
func hasTurnstile() bool {
	_, ok := reflect.TypeOf(resource.Collection{}).FieldByName("publishing")
	return ok
}

var resParking = map[string]bool{"gau.read": true, "coll.publish": true, "del.read": true}

type resWriter struct {
	gid    int64
	isDel  bool
	g      *gate
	mu     sync.Mutex
	incall bool
	calls  int
	panics int
}

type resSub struct {
	ctx       context.Context
	cancel    context.CancelFunc
	ch        <-chan *resource.CollectionChange
	rcmd      chan struct{}
	mu        sync.Mutex
	pending   bool
	sawclose  bool
	cancelled bool
	got       [][2]int
}

type qact struct {
	kind     string // start step get recv cancel
	i        int
	del      bool
	id       string
	conflict int // 1 + writer whose parked Delete has the same id
}

func (a qact) coq() string {
	switch a.kind {
	case "start":
		return vcoq.App("QStart", vcoq.Nat(a.i), vcoq.Bool(a.del))
	case "step":
		return vcoq.App("QStep", vcoq.Nat(a.i))
	case "get":
		return "QGet"
	case "recv":
		return vcoq.App("QRecv", vcoq.Nat(a.i))
	}
	return vcoq.App("QCancel", vcoq.Nat(a.i))
}

func (g *gen) resScript(idx int) error {
	r := g.r
	ts := hasTurnstile()
	verifhook.Set(nil)
	base := libCount(dump())

	ids := []string{"a", "b", "c", "d", "e"}
	val := map[string]int{} // committed or in-flight value of each existing id
	var copts []resource.Option
	for _, id := range ids[:r.Range(2, 5)] {
		v := r.Range(1, 9)
		val[id] = v
		copts = append(copts, resource.WithInitialRecord(id, &wrapperspb.Int64Value{Value: int64(v)}))
	}
	col := resource.NewCollection(copts...)

	nW := r.Range(1, 3)
	nSub := r.Range(1, 2)
	if r.Intn(20) == 0 {
		nSub = 0 // boundary: nobody subscribed, nothing may ever block
	}
	gs := &gates{byGID: map[int64]*gate{}, parking: resParking}
	verifhook.Set(gs.hook)
	defer verifhook.Set(nil)

	subs := make([]*resSub, nSub)
	// who published what: (id, value written) -> (writer, call), (id, old value removed) -> (writer, call)
	type key struct {
		id  string
		v   int
		del bool
	}
	var emu sync.Mutex
	evOf := map[key][2]int{}
	for k := range subs {
		s := &resSub{rcmd: make(chan struct{})}
		s.ctx, s.cancel = context.WithCancel(context.Background())
		s.ch = col.Pull(s.ctx, resource.WithBackpressure(true), resource.WithUpdatesOnly(true))
		subs[k] = s
		go func() {
			for range s.rcmd {
				c, ok := <-s.ch
				s.mu.Lock()
				s.pending = false
				if ok {
					kk := key{id: c.Id, v: ival(c.NewValue)}
					if c.ChangeType == types.ChangeType_REMOVE {
						kk = key{id: c.Id, v: ival(c.OldValue), del: true}
					}
					emu.Lock()
					e, found := evOf[kk]
					emu.Unlock()
					if !found {
						e = [2]int{99, 99}
					}
					s.got = append(s.got, e)
				} else {
					s.sawclose = true
				}
				s.mu.Unlock()
			}
		}()
	}
	defer func() {
		for _, s := range subs {
			s.cancel()
			close(s.rcmd)
		}
	}()

	writers := make([]*resWriter, nW)
	for i := range writers {
		writers[i] = &resWriter{g: newGate()}
	}
	busy := map[string]int{} // ids used by calls in flight
	busyOf := make([]string, nW)
	// the one conflict the scripts build on purpose: an Update of the id of a Delete that is parked
	// after its first read, so that the Delete finds the item changed, unlocks and retries
	conflictWith := make([]int, nW) // for a writer running such a Delete: 1 + index of the updater
	var lastDump []ginfo
	var gmu sync.Mutex
	getsBlocked := 0

	if _, err := settle(); err != nil {
		return fmt.Errorf("res script setup: %w", err)
	}

	observe := func() []int {
		var o []int
		for _, w := range writers {
			w.mu.Lock()
			st := 0
			switch at := w.g.at(); {
			case at == "gau.read":
				st = 1
			case at == "coll.publish":
				st = 2
			case at == "del.read":
				st = 3
			case w.incall:
				st = 4
			}
			w.mu.Unlock()
			o = append(o, st)
		}
		gmu.Lock()
		o = append(o, getsBlocked)
		gmu.Unlock()
		for _, s := range subs {
			s.mu.Lock()
			o = append(o, b2i(s.pending), b2i(s.sawclose), len(s.got))
			for _, e := range s.got {
				o = append(o, e[0]*100000+e[1])
			}
			s.mu.Unlock()
		}
		return o
	}

	startCall := func(wi int, del bool, id string, conflict int) {
		w := writers[wi]
		w.mu.Lock()
		w.calls++
		n := w.calls
		w.incall = true
		w.mu.Unlock()
		busy[id]++
		busyOf[wi] = id
		nv := 100*(wi+1) + n // unique among the values ever written
		emu.Lock()
		if del {
			evOf[key{id: id, v: val[id], del: true}] = [2]int{wi, n}
		} else {
			evOf[key{id: id, v: nv}] = [2]int{wi, n}
		}
		if conflict >= 0 {
			// the parked Delete of writer `conflict` will remove the value written now
			writers[conflict].mu.Lock()
			dn := writers[conflict].calls
			writers[conflict].mu.Unlock()
			evOf[key{id: id, v: nv, del: true}] = [2]int{conflict, dn}
			conflictWith[conflict] = wi + 1
		}
		emu.Unlock()
		switch {
		case del:
			delete(val, id)
		case conflict >= 0:
			// stays absent: the Delete comes after this Update
		default:
			val[id] = nv
		}
		w.mu.Lock()
		w.isDel = del
		w.mu.Unlock()
		go func() {
			gs.register(w.g)
			w.mu.Lock()
			w.gid = curGID()
			w.mu.Unlock()
			defer func() {
				if rec := recover(); rec != nil {
					w.mu.Lock()
					w.panics++
					w.mu.Unlock()
				}
				w.mu.Lock()
				w.incall = false
				w.mu.Unlock()
			}()
			if del {
				_, _ = col.Delete(id)
			} else {
				_, _ = col.Update(id, &wrapperspb.Int64Value{Value: int64(nv)}, resource.WithCreateIfAbsent())
			}
		}()
	}

	var script []qact
	var obs [][]int
	tags := map[string]bool{}
	nontrivial := false
	// same script sizes in both tiers: with three subscribers or 25 actions the set of model states
	// compatible with the observations (every order in which several blocked writers are served)
	// grows until one case takes coqc more than ten minutes
	steps := r.Range(5, 16)
	// half of the scripts are directed: first a Delete goes as far as it can while nobody
	// receives (it ends up blocked in bus.Send holding c.mu), then the rest is random
	directed := r.Chance(50)
	for len(script) < steps {
		// a call that has returned frees its id
		for wi, w := range writers {
			w.mu.Lock()
			if !w.incall && busyOf[wi] != "" {
				busy[busyOf[wi]]--
				busyOf[wi] = ""
				conflictWith[wi] = 0
			}
			w.mu.Unlock()
		}
		type cand struct {
			a qact
			w int
		}
		var cs []cand
		for wi, w := range writers {
			w.mu.Lock()
			at, incall, calls := w.g.at(), w.incall, w.calls
			w.mu.Unlock()
			// a Delete whose id is being updated on purpose waits until that Update has committed
			// (returned, parked before bus.Send, or inside bus.Send / at the turnstile)
			held := false
			if at == "del.read" && conflictWith[wi] > 0 {
				u := writers[conflictWith[wi]-1]
				u.mu.Lock()
				uin, uat, ugid := u.incall, u.g.at(), u.gid
				u.mu.Unlock()
				if uin && uat != "coll.publish" {
					held = true
					for _, gi := range lastDump {
						if gi.id == ugid && (gi.state == "select" || gi.state == "sync.Cond.Wait") {
							held = false
						}
					}
				}
			}
			switch {
			case at != "" && held:
			case at != "":
				cs = append(cs, cand{qact{kind: "step", i: wi}, 40})
			case !incall && calls < 4:
				var free, freeExisting []string
				for _, id := range ids {
					if busy[id] == 0 {
						free = append(free, id)
						if _, ok := val[id]; ok {
							freeExisting = append(freeExisting, id)
						}
					}
				}
				if len(freeExisting) > 0 {
					wgt := 14
					if directed && len(script) < 3 {
						wgt = 200
					}
					cs = append(cs, cand{qact{kind: "start", i: wi, del: true, id: freeExisting[r.Intn(len(freeExisting))]}, wgt})
				}
				if len(free) > 0 {
					cs = append(cs, cand{qact{kind: "start", i: wi, id: free[r.Intn(len(free))]}, 14})
				}
				for di, dw := range writers {
					dw.mu.Lock()
					dat, ddel := dw.g.at(), dw.isDel
					dw.mu.Unlock()
					if di != wi && dat == "del.read" && ddel && conflictWith[di] == 0 && busy[busyOf[di]] == 1 {
						cs = append(cs, cand{qact{kind: "start", i: wi, id: busyOf[di], conflict: di + 1}, 30})
					}
				}
			}
		}
		gmu.Lock()
		if getsBlocked < 2 {
			cs = append(cs, cand{qact{kind: "get"}, 8})
		}
		gmu.Unlock()
		for k, s := range subs {
			s.mu.Lock()
			if !s.pending && !s.sawclose {
				wgt := 14
				if directed && len(script) < 6 {
					wgt = 1
				}
				cs = append(cs, cand{qact{kind: "recv", i: k}, wgt})
			}
			if !s.cancelled {
				cs = append(cs, cand{qact{kind: "cancel", i: k}, 5})
			}
			s.mu.Unlock()
		}
		if len(cs) == 0 {
			break
		}
		tot := 0
		for _, c := range cs {
			tot += c.w
		}
		pick := r.Intn(tot)
		var a qact
		for _, c := range cs {
			if pick < c.w {
				a = c.a
				break
			}
			pick -= c.w
		}
		switch a.kind {
		case "start":
			startCall(a.i, a.del, a.id, a.conflict-1)
			if a.conflict > 0 {
				tags["res:delete-retry-provoked"] = true
			}
		case "step":
			writers[a.i].g.release <- struct{}{}
		case "get":
			gmu.Lock()
			getsBlocked++
			gmu.Unlock()
			go func() {
				col.Get("a")
				gmu.Lock()
				getsBlocked--
				gmu.Unlock()
			}()
		case "recv":
			s := subs[a.i]
			s.mu.Lock()
			s.pending = true
			s.mu.Unlock()
			s.rcmd <- struct{}{}
		case "cancel":
			s := subs[a.i]
			s.mu.Lock()
			s.cancelled = true
			s.mu.Unlock()
			blockedNow := false
			for _, w := range writers {
				w.mu.Lock()
				if w.incall && w.g.at() == "" {
					blockedNow = true
				}
				w.mu.Unlock()
			}
			if blockedNow {
				tags["res:cancel-with-blocked-writer"] = true
			}
			s.cancel()
		}
		d, err := settle()
		if err != nil {
			return fmt.Errorf("res script after %v: %w", a, err)
		}
		lastDump = d
		script = append(script, a)
		o := observe()
		obs = append(obs, o)
		// which branch of the model a blocked writer is in, read from the real goroutine's wait state
		for wi, w := range writers {
			if o[wi] != 4 {
				continue
			}
			w.mu.Lock()
			gid, isDel := w.gid, w.isDel
			w.mu.Unlock()
			op := "update"
			if isDel {
				op = "delete"
			}
			for _, gi := range d {
				if gi.id == gid {
					switch gi.state {
					case "select":
						tags["res:"+op+"-blocked-in-bus-send"] = true
					case "sync.RWMutex.Lock", "sync.Mutex.Lock":
						tags["res:"+op+"-waits-for-c.mu-Lock"] = true
					case "sync.RWMutex.RLock":
						tags["res:"+op+"-waits-for-c.mu-RLock"] = true
					case "sync.Cond.Wait":
						tags["res:"+op+"-waits-at-turnstile"] = true
					default:
						tags["res:"+op+"-blocked-"+gi.state] = true
					}
				}
			}
		}
		nBlocked := 0
		for wi := range writers {
			if o[wi] == 4 {
				nBlocked++
			}
		}
		if nBlocked > 0 {
			tags["res:writer-blocked"] = true
			nontrivial = true
		}
		if nBlocked > 1 {
			tags["res:several-writers-blocked"] = true
		}
		if o[nW] > 0 {
			tags["res:get-blocked"] = true
			nontrivial = true
		}
	}
	// the end: cancel every subscriber, open every gate, everything must finish
	for k, s := range subs {
		s.mu.Lock()
		was := s.cancelled
		s.cancelled = true
		s.mu.Unlock()
		if !was {
			s.cancel()
			if _, err := settle(); err != nil {
				return err
			}
			script = append(script, qact{kind: "cancel", i: k})
			obs = append(obs, observe())
		}
	}
	gs.free.Store(true)
	for _, w := range writers {
		select {
		case w.g.release <- struct{}{}:
		default:
		}
	}
	stuck := 0
	deadline := time.Now().Add(3 * time.Second)
	for {
		stuck = 0
		for _, w := range writers {
			w.mu.Lock()
			if w.incall {
				stuck++
				// a writer may have reached another gate before free was seen
				select {
				case w.g.release <- struct{}{}:
				default:
				}
			}
			w.mu.Unlock()
		}
		gmu.Lock()
		stuck += getsBlocked
		gmu.Unlock()
		if stuck == 0 || time.Now().After(deadline) {
			break
		}
		time.Sleep(200 * time.Microsecond)
	}
	leaks := waitLibGone(2*time.Second) - base
	if leaks < 0 {
		leaks = 0
	}
	np := 0
	for _, w := range writers {
		w.mu.Lock()
		np += w.panics
		w.mu.Unlock()
	}
	if stuck > 0 || leaks > 0 {
		g.hard++
	}

	items := make([]string, len(script))
	js := make([]any, len(script))
	for i, a := range script {
		items[i] = vcoq.Pair(a.coq(), zlist(obs[i]))
		js[i] = map[string]any{"action": a.kind, "index": a.i, "delete": a.del, "id": a.id, "observed": obs[i]}
		if a.conflict > 0 {
			js[i].(map[string]any)["same_id_as_parked_delete_of_writer"] = a.conflict - 1
		}
	}
	coq := vcoq.App("KRes", vcoq.App("mkRC", vcoq.Bool(ts), vcoq.Nat(nW), vcoq.Nat(nSub), vcoq.List(items),
		vcoq.Int(np), vcoq.Int(leaks), vcoq.Int(stuck)))
	tl := []string{"res-script", fmt.Sprintf("res:writers=%d", nW), fmt.Sprintf("res:subs=%d", nSub), fmt.Sprintf("res:turnstile=%v", ts)}
	if directed {
		tl = append(tl, "res:directed")
	}
	for t := range tags {
		tl = append(tl, t)
	}
	replay := map[string]any{"kind": "res-script", "turnstile": ts, "writers": nW, "subscribers": nSub, "script": js,
		"panics": np, "leaked_goroutines": leaks, "calls_not_returned": stuck}
	g.o.Add(vcoq.Case{Coq: coq, Key: coq, NonTrivial: nontrivial, Tags: tl, JSON: replay})
	if np > 0 {
		g.o.Directs = append(g.o.Directs, vcoq.Direct{What: "a writer panicked", Class: "panic", Replay: replay})
	}
	return nil
}
