package main

// KShape: structural facts read from the SOURCE of the tree under test on every run (go/ast),
// compared in Coq with what the models Bus.v / Pipe.v assume (Bus/ShapeJudge.v):
//   - for every forwarding goroutine: does it `defer close(out)`; is every send on its output
//     inside a select with a `<-ctx.Done()` case (model: has_ctx), inside a select that also
//     receives from its input (model: always_accepting), or bare (changesAfter);
//   - for bus.go: the lock discipline the transition system folds into atomic steps.

import (
	"bytes"
	"fmt"
	"go/ast"
	"go/parser"
	"go/printer"
	"go/token"
	"os"
	"path/filepath"
	"strings"

	"github.com/smart-core-os/sc-golang/verifharness/vcoq"
)

func repoDir() string {
	if d := os.Getenv("VERIF_REPO"); d != "" {
		return d
	}
	return "/repo"
}

type srcFile struct {
	fset *token.FileSet
	f    *ast.File
}

func parseSrc(rel string) (*srcFile, error) {
	fset := token.NewFileSet()
	f, err := parser.ParseFile(fset, filepath.Join(repoDir(), rel), nil, 0)
	if err != nil {
		return nil, err
	}
	return &srcFile{fset, f}, nil
}

func (s *srcFile) str(n ast.Node) string {
	var b bytes.Buffer
	_ = printer.Fprint(&b, s.fset, n)
	return strings.Join(strings.Fields(b.String()), " ")
}

// fn finds a function; recv "" for plain functions, else the receiver type name without '*'.
func (s *srcFile) fn(recv, name string) *ast.FuncDecl {
	for _, d := range s.f.Decls {
		fd, ok := d.(*ast.FuncDecl)
		if !ok || fd.Name.Name != name {
			continue
		}
		r := ""
		if fd.Recv != nil && len(fd.Recv.List) == 1 {
			t := fd.Recv.List[0].Type
			if st, ok := t.(*ast.StarExpr); ok {
				t = st.X
			}
			if id, ok := t.(*ast.Ident); ok {
				r = id.Name
			}
		}
		if r == recv {
			return fd
		}
	}
	return nil
}

func goBody(fd *ast.FuncDecl) *ast.BlockStmt {
	var body *ast.BlockStmt
	ast.Inspect(fd.Body, func(n ast.Node) bool {
		if body != nil {
			return false
		}
		if g, ok := n.(*ast.GoStmt); ok {
			if fl, ok := g.Call.Fun.(*ast.FuncLit); ok {
				body = fl.Body
				return false
			}
		}
		return true
	})
	return body
}

func isRecvOf(e ast.Expr, pred func(ast.Expr) bool) bool {
	u, ok := e.(*ast.UnaryExpr)
	return ok && u.Op == token.ARROW && pred(u.X)
}

func commRecv(c *ast.CommClause, pred func(ast.Expr) bool) bool {
	switch x := c.Comm.(type) {
	case *ast.ExprStmt:
		return isRecvOf(x.X, pred)
	case *ast.AssignStmt:
		return len(x.Rhs) == 1 && isRecvOf(x.Rhs[0], pred)
	}
	return false
}

func isDoneCall(e ast.Expr) bool {
	c, ok := e.(*ast.CallExpr)
	if !ok {
		return false
	}
	sel, ok := c.Fun.(*ast.SelectorExpr)
	return ok && sel.Sel.Name == "Done"
}

func isIdent(e ast.Expr) bool { _, ok := e.(*ast.Ident); return ok }

type gshape struct {
	name                    string
	deferClose              bool
	sendsCtx, sendsIn, bare int
}

func (s *srcFile) goroutineShape(name string, fd *ast.FuncDecl) (gshape, error) {
	g := gshape{name: name}
	if fd == nil {
		return g, fmt.Errorf("function %s not found", name)
	}
	body := goBody(fd)
	if body == nil {
		return g, fmt.Errorf("%s: no goroutine literal", name)
	}
	for _, st := range body.List {
		if d, ok := st.(*ast.DeferStmt); ok {
			if id, ok := d.Call.Fun.(*ast.Ident); ok && id.Name == "close" {
				g.deferClose = true
			}
		}
	}
	inSelect := map[*ast.SendStmt]bool{}
	ast.Inspect(body, func(n ast.Node) bool {
		sel, ok := n.(*ast.SelectStmt)
		if !ok {
			return true
		}
		hasCtx, hasIn := false, false
		var sends []*ast.SendStmt
		for _, cc := range sel.Body.List {
			c := cc.(*ast.CommClause)
			if c.Comm == nil {
				continue
			}
			if snd, ok := c.Comm.(*ast.SendStmt); ok {
				sends = append(sends, snd)
				continue
			}
			if commRecv(c, isDoneCall) {
				hasCtx = true
			} else if commRecv(c, isIdent) {
				hasIn = true
			}
		}
		for _, snd := range sends {
			inSelect[snd] = true
			switch {
			case hasCtx:
				g.sendsCtx++
			case hasIn:
				g.sendsIn++
			default:
				g.bare++
			}
		}
		return true
	})
	ast.Inspect(body, func(n ast.Node) bool {
		if snd, ok := n.(*ast.SendStmt); ok && !inSelect[snd] {
			g.bare++
		}
		return true
	})
	return g, nil
}

// stmts renders the top-level statements of a body, leaving out the verif yield points.
func (s *srcFile) stmts(b *ast.BlockStmt) []string {
	var out []string
	for _, st := range b.List {
		t := s.str(st)
		if strings.HasPrefix(t, "verifhook.Yield(") {
			continue
		}
		out = append(out, t)
	}
	return out
}

func indexOf(l []string, pred func(string) bool) int {
	for i, x := range l {
		if pred(x) {
			return i
		}
	}
	return -1
}

func has(l []string, exact string) int {
	return indexOf(l, func(x string) bool { return x == exact })
}

func (g *gen) shapeCase() error {
	util, err := parseSrc("internal/minibus/util.go")
	if err != nil {
		return err
	}
	bp, err := parseSrc("pkg/resource/backpressure.go")
	if err != nil {
		return err
	}
	col, err := parseSrc("pkg/resource/collection.go")
	if err != nil {
		return err
	}
	val, err := parseSrc("pkg/resource/value.go")
	if err != nil {
		return err
	}
	bus, err := parseSrc("internal/minibus/bus.go")
	if err != nil {
		return err
	}
	var rows []gshape
	for _, x := range []struct {
		name string
		s    *srcFile
		fd   *ast.FuncDecl
	}{
		{"DropExcess", util, util.fn("", "DropExcess")},
		{"mergeCollectionExcess", bp, bp.fn("", "mergeCollectionExcess")},
		{"changesAfter", col, col.fn("", "changesAfter")},
		{"Collection.Pull", col, col.fn("Collection", "Pull")},
		{"Value.Pull", val, val.fn("Value", "Pull")},
		{"Collection.PullID", col, col.fn("Collection", "PullID")},
	} {
		r, err := x.s.goroutineShape(x.name, x.fd)
		if err != nil {
			return err
		}
		rows = append(rows, r)
	}

	// ---- bus.go ----
	facts := map[string]bool{}
	order := []string{"send.rlock-held-over-select", "send.select-three-cases-on-l.ch", "stop.lock-held-over-close-and-nil",
		"Send.snapshot-under-rlock-iterates-copy", "collect.whole-body-under-write-lock", "Listen.registers-under-write-lock",
		"Listen.watcher-waits-ctx-then-stop", "PullID.defer-cancel", "Delete.send-before-unlock",
		"changesAfter.only-feeds-always-receiving-stage", "DropExcess.returns-on-every-closed-receive",
		"mergeCollectionExcess.returns-on-every-closed-receive",
		"Update.send-after-GetAndUpdate-returned", "Value.set.send-after-GetAndUpdate-returned",
		"Delete.one-Lock-released-on-retry-and-after-send",
		"Value.set.turnstile-left-on-every-path", "Update.turnstile-left-on-every-path", "Delete.turnstile-left-on-every-path"}
	if fd := bus.fn("listener", "send"); fd != nil {
		st := bus.stmts(fd.Body)
		facts[order[0]] = len(st) >= 3 && st[0] == "l.m.RLock()" && st[1] == "defer l.m.RUnlock()" && strings.HasPrefix(st[2], "select {")
		ok := false
		ast.Inspect(fd.Body, func(n ast.Node) bool {
			if sel, isSel := n.(*ast.SelectStmt); isSel && len(sel.Body.List) == 3 {
				nDone, nSend := 0, 0
				for _, cc := range sel.Body.List {
					c := cc.(*ast.CommClause)
					if commRecv(c, isDoneCall) {
						nDone++
					}
					if snd, isSnd := c.Comm.(*ast.SendStmt); isSnd && bus.str(snd.Chan) == "l.ch" {
						nSend++
					}
				}
				ok = nDone == 2 && nSend == 1
			}
			return true
		})
		facts[order[1]] = ok
	}
	if fd := bus.fn("listener", "stop"); fd != nil {
		st := bus.stmts(fd.Body)
		facts[order[2]] = len(st) == 3 && st[0] == "l.m.Lock()" && st[1] == "defer l.m.Unlock()" &&
			st[2] == "if l.ch != nil { close(l.ch) l.ch = nil }"
	}
	if fd := bus.fn("Bus", "Send"); fd != nil {
		st := bus.stmts(fd.Body)
		i1, i3 := has(st, "b.listenerM.RLock()"), has(st, "b.listenerM.RUnlock()")
		i2 := indexOf(st, func(x string) bool { return strings.HasPrefix(x, "for _, l := range b.listeners {") })
		i4 := indexOf(st, func(x string) bool { return strings.HasPrefix(x, "for _, l := range listeners {") })
		facts[order[3]] = i1 >= 0 && i1 < i2 && i2 < i3 && i3 < i4 && strings.Contains(st[i2], "listeners = append(listeners, l)")
	}
	if fd := bus.fn("Bus", "collect"); fd != nil {
		st := bus.stmts(fd.Body)
		facts[order[4]] = len(st) >= 3 && st[0] == "b.listenerM.Lock()" && st[1] == "defer b.listenerM.Unlock()" &&
			has(st, "b.listeners = activeListeners") > 1
	}
	if fd := bus.fn("Bus", "Listen"); fd != nil {
		st := bus.stmts(fd.Body)
		i1, i2, i3 := has(st, "b.listenerM.Lock()"), has(st, "defer b.listenerM.Unlock()"), has(st, "b.listeners = append(b.listeners, l)")
		facts[order[5]] = i1 >= 0 && i1 < i2 && i2 < i3
		if gb := goBody(fd); gb != nil {
			w := bus.stmts(gb)
			facts[order[6]] = len(w) == 2 && w[0] == "<-ctx.Done()" && w[1] == "l.stop()"
		}
	}
	if fd := col.fn("Collection", "PullID"); fd != nil {
		if gb := goBody(fd); gb != nil {
			facts[order[7]] = has(col.stmts(gb), "defer cancel()") >= 0
		}
	}
	if fd := col.fn("Collection", "Delete"); fd != nil {
		// inside the retry loop: ... c.bus.Send(...) ... c.mu.Unlock() return
		txt := col.str(fd.Body)
		iSend := strings.Index(txt, "c.bus.Send(")
		iUnlock := -1
		if iSend >= 0 {
			iUnlock = strings.Index(txt[iSend:], "c.mu.Unlock()")
		}
		facts[order[8]] = iSend >= 0 && iUnlock > 0
	}

	// after_ok of Pipe.v: changesAfter is only ever built directly in front of an always-receiving stage
	{
		good, total := 0, 0
		files, _ := filepath.Glob(filepath.Join(repoDir(), "pkg/resource/*.go"))
		for _, fn := range files {
			if strings.HasSuffix(fn, "_test.go") || strings.HasSuffix(fn, "_verif.go") {
				continue
			}
			fset := token.NewFileSet()
			f, err := parser.ParseFile(fset, fn, nil, 0)
			if err != nil {
				return err
			}
			isCallTo := func(e ast.Expr, names ...string) bool {
				c, ok := e.(*ast.CallExpr)
				if !ok {
					return false
				}
				var nm string
				switch x := c.Fun.(type) {
				case *ast.Ident:
					nm = x.Name
				case *ast.SelectorExpr:
					nm = x.Sel.Name
				}
				for _, n := range names {
					if n == nm {
						return true
					}
				}
				return false
			}
			ast.Inspect(f, func(n ast.Node) bool {
				c, ok := n.(*ast.CallExpr)
				if !ok {
					return true
				}
				if isCallTo(c, "changesAfter") {
					total++
				}
				if isCallTo(c, "mergeCollectionExcess", "DropExcess") {
					for _, a := range c.Args {
						if isCallTo(a, "changesAfter") {
							good++
						}
					}
				}
				return true
			})
		}
		facts[order[9]] = total > 0 && good == total
	}
	closedReturns := func(s *srcFile, fd *ast.FuncDecl) bool {
		if fd == nil {
			return false
		}
		gb := goBody(fd)
		if gb == nil {
			return false
		}
		nRecv, nRet := 0, 0
		ast.Inspect(gb, func(n ast.Node) bool {
			switch x := n.(type) {
			case *ast.AssignStmt:
				if len(x.Lhs) == 2 && len(x.Rhs) == 1 && isRecvOf(x.Rhs[0], isIdent) {
					nRecv++
				}
			case *ast.IfStmt:
				if s.str(x.Cond) == "!ok" && len(x.Body.List) == 1 && s.str(x.Body.List[0]) == "return" {
					nRet++
				}
			}
			return true
		})
		return nRecv > 0 && nRecv == nRet
	}
	facts[order[10]] = closedReturns(util, util.fn("", "DropExcess"))
	facts[order[11]] = closedReturns(bp, bp.fn("", "mergeCollectionExcess"))

	// Res.v: Update / Value.Set publish after GetAndUpdate has released the lock (RUpdPub holds nothing):
	// the Send is a top-level statement of the function and no function literal in it sends
	sendOutside := func(sf *srcFile, fd *ast.FuncDecl, prefix string) bool {
		if fd == nil {
			return false
		}
		top := indexOf(sf.stmts(fd.Body), func(x string) bool { return strings.HasPrefix(x, prefix) }) >= 0
		inLit := false
		ast.Inspect(fd.Body, func(n ast.Node) bool {
			if fl, ok := n.(*ast.FuncLit); ok {
				if strings.Contains(sf.str(fl.Body), "bus.Send(") {
					inLit = true
				}
			}
			return true
		})
		return top && !inLit
	}
	facts[order[12]] = sendOutside(col, col.fn("Collection", "Update"), "c.bus.Send(")
	facts[order[13]] = sendOutside(val, val.fn("Value", "set"), "r.bus.Send(")
	if fd := col.fn("Collection", "Delete"); fd != nil {
		nLock, nUnlock := 0, 0
		ast.Inspect(fd.Body, func(n ast.Node) bool {
			if es, ok := n.(*ast.ExprStmt); ok {
				switch col.str(es) {
				case "c.mu.Lock()":
					nLock++
				case "c.mu.Unlock()":
					nUnlock++
				}
			}
			return true
		})
		// model: RDelRetry (Unlock; next attempt) and RReturn (Unlock after the Send)
		facts[order[14]] = nLock == 1 && nUnlock == 2
	}

	// Res.v RReturn: a writer that entered the turnstile leaves it on EVERY way out of the call (delivered,
	// gave up on its send context, listener cancelled): after publishing.enter the leave is deferred at once,
	// or it is an explicit call in the same block with no return statement between enter and leave.
	// (A tree without the turnstile has nothing to pair: ts = false in the model.)
	leavePaired := func(sf *srcFile, fd *ast.FuncDecl) bool {
		if fd == nil {
			return false
		}
		ok, seen := true, false
		ast.Inspect(fd.Body, func(n ast.Node) bool {
			b, isBlock := n.(*ast.BlockStmt)
			if !isBlock {
				return true
			}
			st := sf.stmts(b)
			for i, x := range st {
				if !strings.Contains(x, "publishing.enter(") || strings.Contains(x, "{") {
					continue
				}
				seen = true
				paired := false
				for _, y := range st[i+1:] {
					if strings.HasPrefix(y, "defer ") && strings.Contains(y, "publishing.leave(") && !strings.Contains(y, "{") {
						// a plain deferred call; a deferred closure may leave conditionally (mutation R4-X2)
						paired = true
						break
					}
					if strings.Contains(y, "publishing.leave(") && !strings.Contains(y, "{") {
						paired = true
						break
					}
					if strings.Contains(y, "return") || strings.Contains(y, "panic(") || strings.Contains(y, "continue") || strings.Contains(y, "break") || strings.Contains(y, "goto ") {
						break // a way out of the block before the leave
					}
				}
				if !paired {
					ok = false
				}
			}
			return true
		})
		if !seen {
			return !strings.Contains(sf.str(fd.Body), "publishing.")
		}
		return ok
	}
	facts[order[15]] = leavePaired(val, val.fn("Value", "set"))
	facts[order[16]] = leavePaired(col, col.fn("Collection", "Update"))
	facts[order[17]] = leavePaired(col, col.fn("Collection", "Delete"))

	var rl, fl []string
	jsRows := []any{}
	for _, r := range rows {
		rl = append(rl, vcoq.App("mkGS", vcoq.Str(r.name), vcoq.Bool(r.deferClose), vcoq.Int(r.sendsCtx), vcoq.Int(r.sendsIn), vcoq.Int(r.bare)))
		jsRows = append(jsRows, map[string]any{"goroutine": r.name, "defer_close": r.deferClose, "sends_with_ctx_case": r.sendsCtx,
			"sends_with_input_case": r.sendsIn, "bare_sends": r.bare})
	}
	jsFacts := map[string]any{}
	for _, k := range order {
		fl = append(fl, vcoq.Pair(vcoq.Str(k), vcoq.Bool(facts[k])))
		jsFacts[k] = facts[k]
	}
	coq := vcoq.App("KShape", vcoq.List(rl), vcoq.List(fl))
	g.o.Add(vcoq.Case{Coq: coq, Key: coq, NonTrivial: true, Tags: []string{"source-shape"},
		JSON: map[string]any{"kind": "source-shape", "goroutines": jsRows, "bus_facts": jsFacts}})
	return nil
}
