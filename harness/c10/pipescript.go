package main

import (
	"context"
	"sort"
	"sync"
	"time"

	"github.com/smart-core-os/sc-api/go/types"
	"github.com/smart-core-os/sc-golang/internal/verifhook"
	"github.com/smart-core-os/sc-golang/pkg/resource"
	"github.com/smart-core-os/sc-golang/verifharness/vcoq"
	"google.golang.org/protobuf/proto"
	"google.golang.org/protobuf/types/known/wrapperspb"
)

// old: the value the item had before the write (0 = absent), the OldValue of the published change
type pmsg struct{ id, kind, val, old int }

func (m pmsg) coq() string {
	return vcoq.App("mkMo", vcoq.Int(m.id), vcoq.Int(m.kind), vcoq.Int(m.val), vcoq.Int(m.old))
}

// the equivalence of the collection and the include filter of the subscription, as data
// (Bus/PipeHeld.v eqspec / incspec)
type fcfg struct {
	eq    int // 0 none, 1 WithNoDuplicates, 2 same value/10
	inc   int // 0 none, 1 value >= incT, 2 id != incID
	incT  int
	incID int
}

func (c fcfg) coq() string {
	eq := []string{"EqNone", "EqExact", "EqTens"}[c.eq]
	inc := "IncNone"
	switch c.inc {
	case 1:
		inc = vcoq.App("IncGe", vcoq.Int(c.incT))
	case 2:
		inc = vcoq.App("IncNotId", vcoq.Int(c.incID))
	}
	return vcoq.App("mkFC", eq, inc)
}

func (c fcfg) visible(id, val int) bool {
	switch c.inc {
	case 1:
		return val >= c.incT
	case 2:
		return id != c.incID
	}
	return true
}

func (c fcfg) tags() []string {
	t := []string{"eq:" + []string{"none", "exact", "tens"}[c.eq], "include:" + []string{"none", "value-ge", "not-id"}[c.inc]}
	return t
}

func ival(m proto.Message) int {
	if m == nil {
		return 0
	}
	if w, ok := m.(*wrapperspb.Int64Value); ok && w != nil {
		return int(w.Value)
	}
	return 0
}

var idNames = []string{"", "a", "b", "c"}

func idOf(s string) int {
	for i, n := range idNames {
		if n == s {
			return i
		}
	}
	return -1
}

// one subscription under test
type pipeSub struct {
	recv     func() (pmsg, bool)
	rcmd     chan struct{}
	mu       sync.Mutex
	pending  bool
	sawclose bool
	got      []pmsg
}

func (s *pipeSub) start() {
	go func() {
		for range s.rcmd {
			m, ok := s.recv()
			s.mu.Lock()
			s.pending = false
			if ok {
				s.got = append(s.got, m)
			} else {
				s.sawclose = true
			}
			s.mu.Unlock()
		}
	}()
}

type pact struct {
	kind string // send recv cancel timeout
	m    pmsg
}

func (a pact) coq() string {
	switch a.kind {
	case "send":
		return vcoq.App("PASend", a.m.coq())
	case "recv":
		return "PARecv"
	case "timeout":
		return "PATimeout"
	}
	return "PACancel"
}

// pipeScript: one subscription of a Value or Collection driven one action at a time.
func (g *gen) pipeScript(idx int) error {
	r := g.r
	verifhook.Set(nil)
	base := libCount(dump())
	ctx, cancel := context.WithCancel(context.Background())
	defer cancel()

	bp := r.Chance(55)
	updatesOnly := r.Chance(33)
	kindSel := r.Intn(10) // 0-2 value, 3-5 collection pull, 6-9 pullid
	// the first scripts of a run go through Value.Set's 5 s give-up: a backpressured subscriber that
	// does not receive while a write is in flight (each costs a little over 5 s)
	nTimeout := 1
	if g.tier == "thorough" {
		nTimeout = 6
	}
	timeoutMode := idx < nTimeout
	if timeoutMode {
		bp, kindSel = true, 0
	}
	// resource options x read options: equivalence of the collection, include filter
	var cfg fcfg
	if kindSel > 2 {
		switch p := r.Intn(100); {
		case p < 30:
			cfg.eq = 1
		case p < 50:
			cfg.eq = 2
		}
		switch p := r.Intn(100); {
		case p < 22:
			cfg.inc, cfg.incT = 1, []int{5, 15, 25}[r.Intn(3)]
		case p < 32:
			cfg.inc, cfg.incID = 2, r.Range(1, 3)
		}
	}
	opts := []resource.ReadOption{resource.WithBackpressure(bp), resource.WithUpdatesOnly(updatesOnly)}
	switch cfg.inc {
	case 1:
		t := cfg.incT
		opts = append(opts, resource.WithInclude(func(_ string, m proto.Message) bool { return ival(m) >= t }))
	case 2:
		x := idNames[cfg.incID]
		opts = append(opts, resource.WithInclude(func(id string, _ proto.Message) bool { return id != x }))
	}
	var stages []string
	var write func(m pmsg) // performs the write that publishes m
	valonly := false
	sub := &pipeSub{rcmd: make(chan struct{})}
	exists := map[int]int{} // collection: id -> value
	pullID, item0 := 0, 0
	desc := ""
	switch {
	case kindSel <= 2:
		desc = "value.pull"
		v0 := r.Range(1, 9)
		v := resource.NewValue(resource.WithInitialValue(&wrapperspb.Int64Value{Value: int64(v0)}))
		ch := v.Pull(ctx, opts...)
		sub.recv = func() (pmsg, bool) {
			c, ok := <-ch
			if !ok {
				return pmsg{}, false
			}
			return pmsg{0, 0, ival(c.Value), 0}, true
		}
		valonly = true
		if !bp {
			stages = append(stages, "(StDrop None)")
		}
		seeds := "[]"
		if !updatesOnly {
			seeds = vcoq.List([]string{pmsg{0, 2, v0, 0}.coq()})
		}
		stages = append(stages, vcoq.App("StFwd", seeds, "None"))
		write = func(m pmsg) { _, _ = v.Set(&wrapperspb.Int64Value{Value: int64(m.val)}) }
	default:
		var copts []resource.Option
		switch cfg.eq {
		case 1:
			copts = append(copts, resource.WithNoDuplicates())
		case 2:
			copts = append(copts, resource.WithMessageEquivalence(func(x, y proto.Message) bool {
				if x == nil || y == nil {
					return x == nil && y == nil
				}
				return ival(x)/10 == ival(y)/10
			}))
		}
		n0 := r.Range(0, 3)
		for id := 1; id <= n0; id++ {
			val := r.Range(1, 9)
			exists[id] = val
			copts = append(copts, resource.WithInitialRecord(idNames[id], &wrapperspb.Int64Value{Value: int64(val)}))
		}
		col := resource.NewCollection(copts...)
		var seedIDs []int
		for id := range exists {
			seedIDs = append(seedIDs, id)
		}
		sort.Ints(seedIDs)
		var seedL []string
		if !updatesOnly {
			for _, id := range seedIDs {
				if cfg.visible(id, exists[id]) { // itemSlice leaves out what the include filter excludes
					seedL = append(seedL, pmsg{id, 1, exists[id], 0}.coq())
				}
			}
		}
		if !bp {
			stages = append(stages, "(StAfter None)", "(StMerge [])")
		}
		stages = append(stages, vcoq.App("StFwd", vcoq.List(seedL), "None"))
		if kindSel <= 5 {
			desc = "collection.pull"
			ch := col.Pull(ctx, opts...)
			sub.recv = func() (pmsg, bool) {
				c, ok := <-ch
				if !ok {
					return pmsg{}, false
				}
				return pmsg{idOf(c.Id), int(c.ChangeType), ival(c.NewValue), 0}, true
			}
		} else {
			desc = "collection.pullid"
			pullID = r.Range(1, 3)
			item0 = exists[pullID]
			ch := col.PullID(ctx, idNames[pullID], opts...)
			sub.recv = func() (pmsg, bool) {
				c, ok := <-ch
				if !ok {
					return pmsg{}, false
				}
				return pmsg{0, 0, ival(c.Value), 0}, true
			}
			valonly = true
			stages = append(stages, vcoq.App("StPullID", vcoq.Int(pullID), "None"))
		}
		write = func(m pmsg) {
			if m.kind == int(types.ChangeType_REMOVE) {
				_, _ = col.Delete(idNames[m.id])
			} else {
				_, _ = col.Update(idNames[m.id], &wrapperspb.Int64Value{Value: int64(m.val)}, resource.WithCreateIfAbsent())
			}
		}
	}
	sub.start()
	if _, err := settle(); err != nil {
		return err
	}

	var wmu sync.Mutex
	blocked, panics := 0, 0
	doWrite := func(m pmsg) {
		wmu.Lock()
		blocked++
		wmu.Unlock()
		go func() {
			defer func() {
				if rec := recover(); rec != nil {
					wmu.Lock()
					panics++
					wmu.Unlock()
				}
				wmu.Lock()
				blocked--
				wmu.Unlock()
			}()
			write(m)
		}()
	}
	observe := func(d []ginfo) []int {
		wmu.Lock()
		o := []int{blocked}
		wmu.Unlock()
		sub.mu.Lock()
		o = append(o, b2i(sub.pending), b2i(sub.sawclose), libCount(d)-base, len(sub.got))
		for _, m := range sub.got {
			o = append(o, m.id, m.kind, m.val)
		}
		sub.mu.Unlock()
		return o
	}

	var script []pact
	var obs [][]int
	cancelled := false
	tags := map[string]bool{}
	nontrivial := false
	steps := r.Range(3, 14)
	if g.tier == "thorough" {
		steps = r.Range(3, 22)
	}
	afterCancel := 0
	timedOut, sentAfter := false, false
	// a PullID of an existing item: in a third of the scripts the Delete comes before any other write
	// to the item ("item pre-existing", nothing sent for it yet when updates-only)
	removeFirst := pullID != 0 && item0 != 0 && r.Chance(33)
	newVal := func() int {
		if cfg.eq != 0 || cfg.inc == 1 {
			return 10*r.Range(0, 3) + r.Range(1, 3) // few values: equal / equivalent ones and both sides of the filter occur
		}
		return r.Range(10, 99)
	}
	if timeoutMode {
		steps += 4
	}
	for len(script) < steps {
		wmu.Lock()
		wb := blocked
		wmu.Unlock()
		sub.mu.Lock()
		canRecv := !sub.pending && !sub.sawclose
		sub.mu.Unlock()
		var a pact
		p := r.Intn(100)
		switch {
		case timeoutMode && !timedOut && !cancelled && wb == 0:
			a = pact{kind: "send", m: pmsg{0, 2, r.Range(10, 99), 0}}
		case timeoutMode && !timedOut && !cancelled:
			a = pact{kind: "timeout"}
		case timeoutMode && timedOut && !sentAfter && !cancelled && p < 50:
			a = pact{kind: "cancel"} // the stalled subscriber cancels; the next write must still go through
		case timeoutMode && timedOut && !sentAfter && wb == 0:
			sentAfter = true
			a = pact{kind: "send", m: pmsg{0, 2, r.Range(10, 99), 0}}
		case removeFirst && !cancelled && wb == 0 && p < 60:
			removeFirst = false
			a = pact{kind: "send", m: pmsg{pullID, int(types.ChangeType_REMOVE), 0, exists[pullID]}}
			delete(exists, pullID)
			tags["remove-before-any-write-of-the-item"] = true
		case !cancelled && p < 8:
			a = pact{kind: "cancel"}
		case p < 50 && canRecv:
			a = pact{kind: "recv"}
		case wb == 0:
			a = pact{kind: "send"}
			if kindSel <= 2 {
				a.m = pmsg{0, 2, r.Range(10, 99), 0}
			} else {
				id := r.Range(1, 3)
				if pullID != 0 && r.Chance(50) {
					id = pullID
				}
				if id == pullID {
					removeFirst = false
				}
				if _, ok := exists[id]; ok && r.Chance(35) {
					a.m = pmsg{id, int(types.ChangeType_REMOVE), 0, exists[id]}
					delete(exists, id)
					if id == pullID {
						tags["pullid-item-removed"] = true
					}
				} else {
					v := newVal()
					k := int(types.ChangeType_UPDATE)
					if _, ok := exists[id]; !ok {
						k = int(types.ChangeType_ADD)
					}
					a.m = pmsg{id, k, v, exists[id]}
					exists[id] = v
				}
			}
		case canRecv:
			a = pact{kind: "recv"}
		case !cancelled:
			a = pact{kind: "cancel"}
		default:
			steps = len(script) // nothing left to do
			continue
		}
		switch a.kind {
		case "send":
			doWrite(a.m)
		case "timeout":
			// wait until the blocked Set has given up (5 s send context), however loaded the machine is
			timedOut = true
			tags["writer-gave-up-after-5s"] = true
			nontrivial = true
			for dl := time.Now().Add(30 * time.Second); time.Now().Before(dl); {
				wmu.Lock()
				b := blocked
				wmu.Unlock()
				if b == 0 {
					break
				}
				time.Sleep(20 * time.Millisecond)
			}
		case "recv":
			sub.mu.Lock()
			sub.pending = true
			sub.mu.Unlock()
			sub.rcmd <- struct{}{}
		case "cancel":
			cancelled = true
			if wb > 0 {
				tags["cancel-with-blocked-writer"] = true
				nontrivial = true
			}
			sub.mu.Lock()
			if sub.pending {
				tags["cancel-with-blocked-consumer"] = true
				nontrivial = true
			}
			sub.mu.Unlock()
			cancel()
		}
		d, err := settle()
		if err != nil {
			// a goroutine of the library that stays runnable with nothing to do (a spinning loop)
			// or never reaches a wait state: report the script that got there as a failing input
			var js []any
			for i, b := range script {
				js = append(js, map[string]any{"action": b.kind, "msg": []int{b.m.id, b.m.kind, b.m.val, b.m.old}, "observed": obs[i]})
			}
			js = append(js, map[string]any{"action": a.kind, "msg": []int{a.m.id, a.m.kind, a.m.val, a.m.old}, "observed": "no quiescence"})
			g.o.Directs = append(g.o.Directs, vcoq.Direct{What: "after the last action of this script a goroutine of the library never came to rest: " + err.Error(),
				Class: "no-quiescence", Replay: map[string]any{"kind": "pipe-script", "subscription": desc, "backpressure": bp,
					"updates_only": updatesOnly, "stages": stages, "script": js}})
			g.hard += 100 // stop generating: every further case would run next to the runaway goroutine
			return nil
		}
		script = append(script, a)
		o := observe(d)
		obs = append(obs, o)
		if o[0] > 0 {
			tags["writer-blocked"] = true
			nontrivial = true
		}
		if cancelled {
			afterCancel++
			if afterCancel > 3 {
				break
			}
		}
	}
	// end: cancel (if not yet) and one receive that must see the close, as part of the script
	if !cancelled {
		cancel()
		d, err := settle()
		if err != nil {
			return err
		}
		script = append(script, pact{kind: "cancel"})
		obs = append(obs, observe(d))
	}
	sub.mu.Lock()
	canRecv := !sub.pending && !sub.sawclose
	sub.mu.Unlock()
	if canRecv {
		sub.mu.Lock()
		sub.pending = true
		sub.mu.Unlock()
		sub.rcmd <- struct{}{}
		d, err := settle()
		if err != nil {
			return err
		}
		script = append(script, pact{kind: "recv"})
		obs = append(obs, observe(d))
	}
	leaks := waitLibGone(2*time.Second) - base
	if leaks < 0 {
		leaks = 0
	}
	deadline := time.Now().Add(2 * time.Second)
	for time.Now().Before(deadline) {
		wmu.Lock()
		wb := blocked
		wmu.Unlock()
		if wb == 0 {
			break
		}
		time.Sleep(200 * time.Microsecond)
	}
	wmu.Lock()
	np := panics
	if blocked > 0 || leaks > 0 {
		g.hard++
	}
	wmu.Unlock()
	close(sub.rcmd)

	items := make([]string, len(script))
	js := make([]any, len(script))
	for i, a := range script {
		items[i] = vcoq.Pair(a.coq(), zlist(obs[i]))
		js[i] = map[string]any{"action": a.kind, "msg": []int{a.m.id, a.m.kind, a.m.val, a.m.old}, "observed": obs[i]}
	}
	coq := vcoq.App("KPipe", vcoq.App("mkPC", cfg.coq(), vcoq.Int(pullID), vcoq.Int(item0), vcoq.Bool(valonly), vcoq.List(stages), vcoq.List(items), vcoq.Int(np), vcoq.Int(leaks)))
	tl := []string{"pipe-script", desc}
	if bp {
		tl = append(tl, "backpressure")
	}
	if updatesOnly {
		tl = append(tl, "updates-only")
	}
	for t := range tags {
		tl = append(tl, t)
	}
	if kindSel > 2 {
		tl = append(tl, cfg.tags()...)
		if cfg.eq != 0 && updatesOnly && tags["remove-before-any-write-of-the-item"] {
			tl = append(tl, "equivalence+updates-only+remove-of-unsent-item")
		}
	}
	g.o.Add(vcoq.Case{Coq: coq, Key: coq, NonTrivial: nontrivial, Tags: tl,
		JSON: map[string]any{"kind": "pipe-script", "subscription": desc, "backpressure": bp, "updates_only": updatesOnly,
			"pull_id": pullID, "item_value_at_start": item0,
			"equivalence": []string{"none", "WithNoDuplicates", "same value/10"}[cfg.eq],
			"include": []any{[]string{"none", "value >= t", "id != x"}[cfg.inc], cfg.incT, cfg.incID}, "stages": stages, "script": js, "panics": np, "leaked_goroutines": leaks}})
	if np > 0 {
		g.o.Directs = append(g.o.Directs, vcoq.Direct{What: "a writer panicked", Class: "panic",
			Replay: map[string]any{"kind": "pipe-script", "subscription": desc, "script": js}})
	}
	return nil
}
