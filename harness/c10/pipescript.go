package main

import (
	"context"
	"sort"
	"sync"
	"time"

	"github.com/smart-core-os/sc-api/go/types"
	"github.com/smart-core-os/sc-golang/internal/verifhook"
	"github.com/smart-core-os/sc-golang/pkg/resource"
	"github.com/smart-core-os/sc-golang/verifharness/vcoq"
	"google.golang.org/protobuf/proto"
	"google.golang.org/protobuf/types/known/wrapperspb"
)

type pmsg struct{ id, kind, val int }

func (m pmsg) coq() string { return vcoq.App("mkM", vcoq.Int(m.id), vcoq.Int(m.kind), vcoq.Int(m.val)) }

func ival(m proto.Message) int {
	if m == nil {
		return 0
	}
	if w, ok := m.(*wrapperspb.Int64Value); ok && w != nil {
		return int(w.Value)
	}
	return 0
}

var idNames = []string{"", "a", "b", "c"}

func idOf(s string) int {
	for i, n := range idNames {
		if n == s {
			return i
		}
	}
	return -1
}

// one subscription under test
type pipeSub struct {
	recv     func() (pmsg, bool)
	rcmd     chan struct{}
	mu       sync.Mutex
	pending  bool
	sawclose bool
	got      []pmsg
}

func (s *pipeSub) start() {
	go func() {
		for range s.rcmd {
			m, ok := s.recv()
			s.mu.Lock()
			s.pending = false
			if ok {
				s.got = append(s.got, m)
			} else {
				s.sawclose = true
			}
			s.mu.Unlock()
		}
	}()
}

type pact struct {
	kind string // send recv cancel
	m    pmsg
}

func (a pact) coq() string {
	switch a.kind {
	case "send":
		return vcoq.App("PASend", a.m.coq())
	case "recv":
		return "PARecv"
	}
	return "PACancel"
}

// pipeScript: one subscription of a Value or Collection driven one action at a time.
func (g *gen) pipeScript(idx int) error {
	r := g.r
	verifhook.Set(nil)
	base := libCount(dump())
	ctx, cancel := context.WithCancel(context.Background())
	defer cancel()

	bp := r.Chance(55)
	updatesOnly := r.Chance(25)
	opts := []resource.ReadOption{resource.WithBackpressure(bp), resource.WithUpdatesOnly(updatesOnly)}
	kindSel := r.Intn(10) // 0-2 value, 3-5 collection pull, 6-9 pullid
	var stages []string
	var write func(m pmsg) // performs the write that publishes m
	valonly := false
	sub := &pipeSub{rcmd: make(chan struct{})}
	exists := map[int]int{} // collection: id -> value
	pullID := 0
	desc := ""
	switch {
	case kindSel <= 2:
		desc = "value.pull"
		v0 := r.Range(1, 9)
		v := resource.NewValue(resource.WithInitialValue(&wrapperspb.Int64Value{Value: int64(v0)}))
		ch := v.Pull(ctx, opts...)
		sub.recv = func() (pmsg, bool) {
			c, ok := <-ch
			if !ok {
				return pmsg{}, false
			}
			return pmsg{0, 0, ival(c.Value)}, true
		}
		valonly = true
		if !bp {
			stages = append(stages, "(StDrop None)")
		}
		seeds := "[]"
		if !updatesOnly {
			seeds = vcoq.List([]string{pmsg{0, 2, v0}.coq()})
		}
		stages = append(stages, vcoq.App("StFwd", seeds, "None"))
		write = func(m pmsg) { _, _ = v.Set(&wrapperspb.Int64Value{Value: int64(m.val)}) }
	default:
		var copts []resource.Option
		n0 := r.Range(0, 3)
		for id := 1; id <= n0; id++ {
			val := r.Range(1, 9)
			exists[id] = val
			copts = append(copts, resource.WithInitialRecord(idNames[id], &wrapperspb.Int64Value{Value: int64(val)}))
		}
		col := resource.NewCollection(copts...)
		var seedIDs []int
		for id := range exists {
			seedIDs = append(seedIDs, id)
		}
		sort.Ints(seedIDs)
		var seedL []string
		if !updatesOnly {
			for _, id := range seedIDs {
				seedL = append(seedL, pmsg{id, 1, exists[id]}.coq())
			}
		}
		if !bp {
			stages = append(stages, "(StAfter None)", "(StMerge [])")
		}
		stages = append(stages, vcoq.App("StFwd", vcoq.List(seedL), "None"))
		if kindSel <= 5 {
			desc = "collection.pull"
			ch := col.Pull(ctx, opts...)
			sub.recv = func() (pmsg, bool) {
				c, ok := <-ch
				if !ok {
					return pmsg{}, false
				}
				return pmsg{idOf(c.Id), int(c.ChangeType), ival(c.NewValue)}, true
			}
		} else {
			desc = "collection.pullid"
			pullID = r.Range(1, 3)
			ch := col.PullID(ctx, idNames[pullID], opts...)
			sub.recv = func() (pmsg, bool) {
				c, ok := <-ch
				if !ok {
					return pmsg{}, false
				}
				return pmsg{0, 0, ival(c.Value)}, true
			}
			valonly = true
			stages = append(stages, vcoq.App("StPullID", vcoq.Int(pullID), "None"))
		}
		write = func(m pmsg) {
			if m.kind == int(types.ChangeType_REMOVE) {
				_, _ = col.Delete(idNames[m.id])
			} else {
				_, _ = col.Update(idNames[m.id], &wrapperspb.Int64Value{Value: int64(m.val)}, resource.WithCreateIfAbsent())
			}
		}
	}
	sub.start()
	if _, err := settle(); err != nil {
		return err
	}

	var wmu sync.Mutex
	blocked, panics := 0, 0
	doWrite := func(m pmsg) {
		wmu.Lock()
		blocked++
		wmu.Unlock()
		go func() {
			defer func() {
				if rec := recover(); rec != nil {
					wmu.Lock()
					panics++
					wmu.Unlock()
				}
				wmu.Lock()
				blocked--
				wmu.Unlock()
			}()
			write(m)
		}()
	}
	observe := func(d []ginfo) []int {
		wmu.Lock()
		o := []int{blocked}
		wmu.Unlock()
		sub.mu.Lock()
		o = append(o, b2i(sub.pending), b2i(sub.sawclose), libCount(d)-base, len(sub.got))
		for _, m := range sub.got {
			o = append(o, m.id, m.kind, m.val)
		}
		sub.mu.Unlock()
		return o
	}

	var script []pact
	var obs [][]int
	cancelled := false
	tags := map[string]bool{}
	nontrivial := false
	steps := r.Range(3, 14)
	if g.tier == "thorough" {
		steps = r.Range(3, 22)
	}
	afterCancel := 0
	for len(script) < steps {
		wmu.Lock()
		wb := blocked
		wmu.Unlock()
		sub.mu.Lock()
		canRecv := !sub.pending && !sub.sawclose
		sub.mu.Unlock()
		var a pact
		p := r.Intn(100)
		switch {
		case !cancelled && p < 8:
			a = pact{kind: "cancel"}
		case p < 50 && canRecv:
			a = pact{kind: "recv"}
		case wb == 0:
			a = pact{kind: "send"}
			if kindSel <= 2 {
				a.m = pmsg{0, 2, r.Range(10, 99)}
			} else {
				id := r.Range(1, 3)
				if pullID != 0 && r.Chance(50) {
					id = pullID
				}
				if _, ok := exists[id]; ok && r.Chance(35) {
					a.m = pmsg{id, int(types.ChangeType_REMOVE), 0}
					delete(exists, id)
				} else {
					v := r.Range(10, 99)
					k := int(types.ChangeType_UPDATE)
					if _, ok := exists[id]; !ok {
						k = int(types.ChangeType_ADD)
					}
					exists[id] = v
					a.m = pmsg{id, k, v}
				}
			}
		case canRecv:
			a = pact{kind: "recv"}
		case !cancelled:
			a = pact{kind: "cancel"}
		default:
			steps = len(script) // nothing left to do
			continue
		}
		switch a.kind {
		case "send":
			doWrite(a.m)
		case "recv":
			sub.mu.Lock()
			sub.pending = true
			sub.mu.Unlock()
			sub.rcmd <- struct{}{}
		case "cancel":
			cancelled = true
			if wb > 0 {
				tags["cancel-with-blocked-writer"] = true
				nontrivial = true
			}
			sub.mu.Lock()
			if sub.pending {
				tags["cancel-with-blocked-consumer"] = true
				nontrivial = true
			}
			sub.mu.Unlock()
			cancel()
		}
		d, err := settle()
		if err != nil {
			// a goroutine of the library that stays runnable with nothing to do (a spinning loop)
			// or never reaches a wait state: report the script that got there as a failing input
			var js []any
			for i, b := range script {
				js = append(js, map[string]any{"action": b.kind, "msg": []int{b.m.id, b.m.kind, b.m.val}, "observed": obs[i]})
			}
			js = append(js, map[string]any{"action": a.kind, "msg": []int{a.m.id, a.m.kind, a.m.val}, "observed": "no quiescence"})
			g.o.Directs = append(g.o.Directs, vcoq.Direct{What: "after the last action of this script a goroutine of the library never came to rest: " + err.Error(),
				Class: "no-quiescence", Replay: map[string]any{"kind": "pipe-script", "subscription": desc, "backpressure": bp,
					"updates_only": updatesOnly, "stages": stages, "script": js}})
			g.hard += 100 // stop generating: every further case would run next to the runaway goroutine
			return nil
		}
		script = append(script, a)
		o := observe(d)
		obs = append(obs, o)
		if o[0] > 0 {
			tags["writer-blocked"] = true
			nontrivial = true
		}
		if cancelled {
			afterCancel++
			if afterCancel > 3 {
				break
			}
		}
	}
	// end: cancel (if not yet) and one receive that must see the close, as part of the script
	if !cancelled {
		cancel()
		d, err := settle()
		if err != nil {
			return err
		}
		script = append(script, pact{kind: "cancel"})
		obs = append(obs, observe(d))
	}
	sub.mu.Lock()
	canRecv := !sub.pending && !sub.sawclose
	sub.mu.Unlock()
	if canRecv {
		sub.mu.Lock()
		sub.pending = true
		sub.mu.Unlock()
		sub.rcmd <- struct{}{}
		d, err := settle()
		if err != nil {
			return err
		}
		script = append(script, pact{kind: "recv"})
		obs = append(obs, observe(d))
	}
	leaks := waitLibGone(2*time.Second) - base
	if leaks < 0 {
		leaks = 0
	}
	deadline := time.Now().Add(2 * time.Second)
	for time.Now().Before(deadline) {
		wmu.Lock()
		wb := blocked
		wmu.Unlock()
		if wb == 0 {
			break
		}
		time.Sleep(200 * time.Microsecond)
	}
	wmu.Lock()
	np := panics
	if blocked > 0 || leaks > 0 {
		g.hard++
	}
	wmu.Unlock()
	close(sub.rcmd)

	items := make([]string, len(script))
	js := make([]any, len(script))
	for i, a := range script {
		items[i] = vcoq.Pair(a.coq(), zlist(obs[i]))
		js[i] = map[string]any{"action": a.kind, "msg": []int{a.m.id, a.m.kind, a.m.val}, "observed": obs[i]}
	}
	coq := vcoq.App("KPipe", vcoq.App("mkPC", vcoq.Bool(valonly), vcoq.List(stages), vcoq.List(items), vcoq.Int(np), vcoq.Int(leaks)))
	tl := []string{"pipe-script", desc}
	if bp {
		tl = append(tl, "backpressure")
	}
	if updatesOnly {
		tl = append(tl, "updates-only")
	}
	for t := range tags {
		tl = append(tl, t)
	}
	g.o.Add(vcoq.Case{Coq: coq, Key: coq, NonTrivial: nontrivial, Tags: tl,
		JSON: map[string]any{"kind": "pipe-script", "subscription": desc, "backpressure": bp, "updates_only": updatesOnly,
			"pull_id": pullID, "stages": stages, "script": js, "panics": np, "leaked_goroutines": leaks}})
	if np > 0 {
		g.o.Directs = append(g.o.Directs, vcoq.Direct{What: "a writer panicked", Class: "panic",
			Replay: map[string]any{"kind": "pipe-script", "subscription": desc, "script": js}})
	}
	return nil
}
